"""C02 — DataFrame.merge (exetera/core/dataframe.py) vs coq/Model/Merge.v (composed with Join.v, MapStream.v).

Case dict (JSON):
  {'how': 'left'|'right'|'inner'|'outer',
   'hints': [lo, lu, ro, ru]          each None | True | False  (hint_left_keys_ordered, ..._unique, right ...)
   'L': frame, 'R': frame             frame = {'keys': [[int...], ...] key columns, 'kn': [names], 'cols': [[name, [values]], ...]}
   'lf': None | [names], 'rf': ...    left_fields / right_fields
   'cs':  n | None                    chunksize injected into the 8 generate_ordered_map_to_*_streamed (None: 1<<20)
   'mcs': n | None, 'vf': n | None    chunksize / value_factor injected into ordered_map_valid(_indexed)_stream
   'ccs': n | None                    merge(chunk_size=...) (chunked_copy)
  }
The first letter of a column name is its kind: k int32 (key), K int64 (key), i int32, l int64, f float64, b bool,
s fixed string S3, c categorical int8, t timestamp, x indexed string.  Values are ints (strings for s/x).
C02_VARIANT=orig makes the model the dataframe.py call-site table as found (used to tie the *_refuted theorems
to the unrepaired tree); the default model is the repaired code (work/C02/fix-F-C02[a-e].diff).
"""
import itertools, os, functools

PROP, NUM = 'C02', 2
PROPS_FILES = ['Props/C02.v']
MODES = ['jit', 'nojit']
MODES_THOROUGH = ['jit', 'nojit', 'bounds']
LEVEL = 'proof'
HANG_TIMEOUT_S = 3.0
TIMEOUT_S = 20.0
VARIANT = 1 if os.environ.get('C02_VARIANT', 'fixed') == 'orig' else 0

S32, S64 = (1 << 31) - 1, 1 << 62
HOWS = ['left', 'right', 'inner', 'outer']
AUX = ('_left_map', '_right_map')

RULE = ('exhaustive small scope: every pair of non-decreasing single-key columns of length <= N over 3 symbols '
        '(quick N=3: 400 pairs; thorough N=4: 1225 pairs) x how in {left,right,inner} x every truthful (unique-left, '
        'unique-right) hint combination with both ordered hints set (the streamed path) x join chunk size 1..3 and the '
        'production 1<<20, the map-stream chunk size / value_factor / chunked_copy size rotating over 1..4; the same pairs x '
        '4 modes without hints and with every truthful hint combination that does not select the streamed path (pandas '
        'path, rotated); payload columns rotate over int32, int64, float64, bool, fixed string, categorical, timestamp and '
        'indexed string, left_fields/right_fields over None / [] / key only / payload only / all; then compound keys, '
        'unsorted keys, clashing names and seeded random longer frames with runs planted at chunk boundaries. Each case '
        'is one real merge on HDF5-backed frames (about 15-60 ms), which is what bounds N. Non-trivial = reaches a planted '
        'feature beyond its how/path tags.')
EXHAUSTIVE = {'quick': True, 'thorough': True}
TRUSTED = ['pandas.merge on (key columns, row index): section variable of the model, instantiated with the relational join; '
           'results of the pandas path are compared up to row order',
           'h5py / HDF5 field storage, Field.create_like, DataFrame.rename (modelled as association-list updates)',
           'numba code generation; numpy slicing semantics (np_slice / np_get of Model/MapStream.v)',
           'chunk sizes are injected by wrapping exetera.core.operations attributes with functools.partial (no source edit)']
ASSUMPTIONS = ['hints are truthful; chunk sizes >= 1; every mapped indexed-string entry fits chunksize*value_factor bytes',
               'no run of equal keys on a trimmed side reaches the join chunk size (else the repaired get_next_chunk raises '
               'a clear ValueError: known finding F-C02g, production chunk size 1<<20)',
               'streamed path with duplicates of one key on BOTH sides produces a non-monotone map, outside the precondition of '
               'ordered_map_valid*_stream: known finding F-C02f']

_np = _ops = _df = _session = _fields = None
_h5 = {}
_GENS = ['generate_ordered_map_to_left_streamed', 'generate_ordered_map_to_left_left_unique_streamed',
         'generate_ordered_map_to_left_right_unique_streamed', 'generate_ordered_map_to_left_both_unique_streamed',
         'generate_ordered_map_to_inner_streamed', 'generate_ordered_map_to_inner_left_unique_streamed',
         'generate_ordered_map_to_inner_right_unique_streamed', 'generate_ordered_map_to_inner_both_unique_streamed']


def setup():
    global _np, _ops, _df, _session, _fields
    import numpy as np
    from exetera.core import operations as ops, dataframe, session, fields
    _np, _ops, _df, _session, _fields = np, ops, dataframe, session, fields


# ------------------------------------------------------------------ frames
CAT_KEY = {b'a': 0, b'b': 1, b'c': 2, b'd': 3}


def _dataset():
    import io
    if 'ds' not in _h5 or _h5['n'] > 400:
        if 's' in _h5:
            try:
                _h5['s'].close()
            except Exception:
                pass
        s = _session.Session()
        _h5['s'] = s
        _h5['ds'] = s.open_dataset(io.BytesIO(), 'w', 'ds')
        _h5['n'] = 0
    _h5['n'] += 1
    return _h5['ds']


def _create(df, name, values):
    np = _np
    k = name[0]
    if k in 'kiKl':
        f = df.create_numeric(name, 'int32' if k in 'ki' else 'int64')
        arr = np.asarray(values, dtype='int32' if k in 'ki' else 'int64')
    elif k == 'f':
        f = df.create_numeric(name, 'float64'); arr = np.asarray(values, dtype='float64')
    elif k == 'b':
        f = df.create_numeric(name, 'bool'); arr = np.asarray([bool(v) for v in values], dtype=bool)
    elif k == 's':
        f = df.create_fixed_string(name, 3); arr = np.asarray([v.encode() for v in values], dtype='S3')
    elif k == 'c':
        f = df.create_categorical(name, 'int8', CAT_KEY); arr = np.asarray(values, dtype='int8')
    elif k == 't':
        f = df.create_timestamp(name); arr = np.asarray(values, dtype='float64')
    elif k == 'x':
        f = df.create_indexed_string(name)
        if len(values) > 0:
            f.data.write(list(values))
        return f
    else:
        raise ValueError(name)
    if len(arr) > 0:
        f.data.write(arr)
    return f


def _frame_fields(fr):
    return [(n, col) for n, col in zip(fr['kn'], fr['keys'])] + [(n, v) for n, v in fr['cols']]


def _build(ds, tag, fr):
    df = ds.create_dataframe('%s%d' % (tag, _h5['n']))
    for n, v in _frame_fields(fr):
        _create(df, n, v)
    return df


def _canon_field(name, f):
    if f.indexed:
        return [list(s.encode()) for s in f.data[:]]
    d = f.data[:]
    if d.dtype.kind == 'S':
        return [list(bytes(x)) for x in d]
    return [[int(x)] for x in d]


def _kind_ok(name, f):
    fields = _fields
    k = name[0]
    tn = type(f).__name__
    if k in 'kiKlfb':
        want = {'k': 'int32', 'i': 'int32', 'K': 'int64', 'l': 'int64', 'f': 'float64', 'b': 'bool'}[k]
        return tn == 'NumericField' and str(f.data.dtype) == want
    if k == 's':
        return tn == 'FixedStringField' and f.data.dtype.itemsize == 3
    if k == 'c':
        return tn == 'CategoricalField' and dict(f.keys) == {v: kk for kk, v in CAT_KEY.items()}
    if k == 't':
        return tn == 'TimestampField'
    if k == 'x':
        return tn == 'IndexedStringField'
    return False


def _sort_rows(cols):
    """cols: list of [name, values]; jointly sort the rows (canonical form of a result whose order is free)"""
    if not cols:
        return cols
    n = {len(v) for _, v in cols}
    if len(n) != 1:
        return cols
    rows = sorted(zip(*[v for _, v in cols]))
    return [[name, [r[i] for r in rows]] for i, (name, _) in enumerate(cols)]


def run(case):
    ops = _ops
    ds = _dataset()
    left = _build(ds, 'l', case['L'])
    right = _build(ds, 'r', case['R'])
    dest = ds.create_dataframe('d%d' % _h5['n'])
    saved = {}
    try:
        if case.get('cs') is not None:
            for g in _GENS:
                saved[g] = getattr(ops, g)
                setattr(ops, g, functools.partial(saved[g], chunksize=case['cs']))
        if case.get('mcs') is not None:
            saved['ordered_map_valid_stream'] = ops.ordered_map_valid_stream
            ops.ordered_map_valid_stream = functools.partial(saved['ordered_map_valid_stream'], chunksize=case['mcs'])
            saved['ordered_map_valid_indexed_stream'] = ops.ordered_map_valid_indexed_stream
            ops.ordered_map_valid_indexed_stream = functools.partial(
                saved['ordered_map_valid_indexed_stream'], chunksize=case['mcs'], value_factor=case['vf'])
        lo, lu, ro, ru = case['hints']
        lkn, rkn = case['L']['kn'], case['R']['kn']
        kw = {}
        if case.get('ccs') is not None:
            kw['chunk_size'] = case['ccs']
        _df.merge(left, right, dest,
                  left_on=lkn[0] if len(lkn) == 1 else tuple(lkn),
                  right_on=rkn[0] if len(rkn) == 1 else tuple(rkn),
                  left_fields=case['lf'], right_fields=case['rf'], how=case['how'],
                  hint_left_keys_ordered=lo, hint_left_keys_unique=lu,
                  hint_right_keys_ordered=ro, hint_right_keys_unique=ru, **kw)
    finally:
        for k, v in saved.items():
            setattr(ops, k, v)
    names = sorted(dest.keys())
    cols = []
    for n in names:
        f = dest[n]
        if n in AUX:
            if type(f).__name__ != 'NumericField':
                raise AssertionError('map field type')
            cols.append([n, [[int(x)] for x in f.data[:]]])
            continue
        if n.startswith('valid'):
            if str(f.data.dtype) != 'bool':
                raise AssertionError('valid field dtype')
        elif not _kind_ok(n, f):
            raise AssertionError('destination field %s has type %s' % (n, type(f).__name__))
        cols.append([n, _canon_field(n, f)])
    ordered = any(n in AUX for n in names)
    inv = None
    if ordered:
        dts = {str(dest[n].data.dtype) for n in names if n in AUX}
        inv = 1 if dts == {'int32'} else 2 if dts == {'int64'} else 0
    for nm in ('l%d' % _h5['n'], 'r%d' % _h5['n'], 'd%d' % _h5['n']):
        try:
            del ds[nm]
        except Exception:
            pass
    return [1 if ordered else 0, inv, cols if ordered else _sort_rows(cols)]


def warmup():
    L = {'keys': [[1, 2, 2, 4]], 'kn': ['k'], 'cols': [['ia', [1, 2, 3, 4]], ['xa', ['a', '', 'cc', 'd']],
                                                        ['sa', ['a', '', 'cc', 'd']], ['fa', [1, 2, 3, 4]],
                                                        ['ba', [1, 0, 1, 0]], ['ca', [0, 1, 2, 3]], ['ta', [1, 2, 3, 4]],
                                                        ['la', [1, 2, 3, 4]]]}
    R = {'keys': [[0, 2, 3, 4, 4]], 'kn': ['k'], 'cols': [['ib', [1, 2, 3, 4, 5]], ['xb', ['a', '', 'cc', 'd', 'e']],
                                                           ['sb', ['a', '', 'cc', 'd', 'e']], ['fb', [1, 2, 3, 4, 5]],
                                                           ['bb', [1, 0, 1, 0, 1]], ['cb', [0, 1, 2, 3, 0]],
                                                           ['tb', [1, 2, 3, 4, 5]], ['lb', [1, 2, 3, 4, 5]]]}
    Lu = dict(L, keys=[[1, 2, 3, 4]])
    Ru = dict(R, keys=[[0, 2, 3, 4, 5]])
    # how='right' is warmed up with every right row matched: on the unrepaired tree (F-C02c) an unmatched right row
    # makes the compiled kernels read out of bounds, which must not happen in the zygote process
    Rm = dict(R, keys=[[2, 2, 4, 4, 4]])
    R3 = dict(R, keys=[[1, 2, 4]], cols=[[n, v[:3]] for n, v in R['cols']])
    for how in HOWS:
        for (l, r, hints) in ((L, R, [None] * 4), (L, R, [True, False, True, False]), (Lu, R, [True, True, True, False]),
                              (L, Ru, [True, False, True, True]), (Lu, Ru, [True, True, True, True])):
            if how == 'right' and hints[0]:
                lu, ru = hints[1], hints[3]
                r = R3 if ru else Rm
                l = dict(l, keys=[[1, 2, 4, 7]] if lu else ([[1, 2, 4, 4]] if ru else [[1, 2, 2, 4]]))
            for cs in (2, None):
                try:
                    run({'how': how, 'hints': hints, 'L': l, 'R': r, 'lf': None, 'rf': None,
                         'cs': cs, 'mcs': cs, 'vf': 2 if cs else None, 'ccs': cs})
                except Exception:
                    pass


# ------------------------------------------------------------------ wire
def _bytes(s):
    return list(s.encode())


def _wire_col(name, values):
    k = name[0]
    if k == 'x':
        idx, vals = [0], []
        for s in values:
            vals.extend(s.encode()); idx.append(len(vals))
        return [_bytes(name), 1, idx, vals]
    if k == 's':
        return [_bytes(name), 0, [48], [], [list(v.encode()) for v in values]]
    return [_bytes(name), 0, [0], [0], [[int(v)] for v in values]]


def _mapped(fr, sel):
    fs = _frame_fields(fr)
    if sel is None:
        return fs
    d = dict(fs)
    return [(n, d[n]) for n in sel]


def _hint(h):
    return 1 if h else 0


BIG = 1 << 20
# The extracted model keeps its buffers as lists: a buffer of 1<<20 entries per kernel step is not affordable.
# For the cases that run the implementation with the production sizes the model is evaluated with MODEL_BIG,
# which (like 1<<20) exceeds every input and output length of such a case (asserted below): no driver refills
# or flushes more than once in either.
MODEL_BIG = 64


def to_val(case):
    lo, lu, ro, ru = case['hints']
    nl, nr = len(case['L']['keys'][0]), len(case['R']['keys'][0])
    if None in (case.get('cs'), case.get('mcs'), case.get('ccs')):
        assert nl * nr + nl + nr < MODEL_BIG
    cs = case['cs'] if case.get('cs') is not None else MODEL_BIG
    mcs = case['mcs'] if case.get('mcs') is not None else MODEL_BIG
    vf = case['vf'] if case.get('vf') is not None else 8
    ccs = case['ccs'] if case.get('ccs') is not None else MODEL_BIG
    return [VARIANT, HOWS.index(case['how']), _hint(lo), _hint(lu), _hint(ro), _hint(ru),
            case['L']['keys'], case['R']['keys'],
            [_wire_col(n, v) for n, v in _mapped(case['L'], case['lf'])],
            [_wire_col(n, v) for n, v in _mapped(case['R'], case['rf'])],
            _bytes('_l'), _bytes('_r'), cs, mcs, vf, ccs]


def _dec_cols(cols):
    out = []
    for c in cols:
        name = bytes(c[0]).decode()
        if c[1] == 0:
            vals = c[2]
        else:
            idx, vs = c[2], c[3]
            vals = [vs[idx[i]:idx[i + 1]] for i in range(len(idx) - 1)]
        out.append([name, vals])
    return sorted(out, key=lambda x: x[0])


def _inv_code(case):
    lo, lu, ro, ru = case['hints']
    return 1 if (lu or ru) else 2


def from_val(case, v):
    from harness.core import decode_err
    model, spec = v
    e = decode_err(model)
    if e is not None:
        m = e
    else:
        ordered, cols = model
        cols = _dec_cols(cols)
        m = [ordered, _inv_code(case) if ordered else None, cols if ordered else _sort_rows(cols)]
    return m, _sort_rows(_dec_cols(spec))


# ------------------------------------------------------------------ judgement
def is_ordered(case):
    lo, lu, ro, ru = case['hints']
    return bool(lo and ro and len(case['L']['keys']) == 1 and len(case['R']['keys']) == 1 and case['how'] != 'outer')


def variant(case):
    """(kind, a keys, b keys) of the streamed generator the repaired table selects"""
    lo, lu, ro, ru = case['hints']
    L, R = case['L']['keys'][0], case['R']['keys'][0]
    lu, ru = bool(lu), bool(ru)
    if case['how'] == 'right':
        a, b, au, bu = R, L, ru, lu
    else:
        a, b, au, bu = L, R, lu, ru
    kind = ('bu' if bu else 'lu') if au else ('ru' if bu else 'gen')
    return kind, a, b


def _runs(xs):
    out, k = [], 0
    while k < len(xs):
        m = k
        while m + 1 < len(xs) and xs[m + 1] == xs[k]:
            m += 1
        out.append((k, m + 1)); k = m + 1
    return out


def long_run(case):
    if not is_ordered(case):
        return False
    cs = case['cs'] if case.get('cs') is not None else BIG
    kind, a, b = variant(case)
    for trim, xs in ((kind in ('gen', 'ru'), a), (kind in ('gen', 'lu'), b)):
        if trim:
            for (s, e) in _runs(xs):
                if e - s > cs or (e - s == cs and e != len(xs)):
                    return True
    return False


def nonmonotone(case):
    """streamed path, general variant, one key duplicated on both sides: the b-side map is not monotone"""
    if not is_ordered(case):
        return False
    kind, a, b = variant(case)
    if kind != 'gen':
        return False
    da = {a[s] for s, e in _runs(a) if e - s > 1}
    db = {b[s] for s, e in _runs(b) if e - s > 1}
    return bool(da & db)


def _strip(cols):
    return [c for c in cols if c[0] not in AUX and not c[0].startswith('valid')]


def entry_too_long(case):
    """streamed path and some indexed-string entry of a mapped column exceeds the value buffer
    (chunksize*value_factor; 8 MiB in production): outside the property, the repaired stream raises ValueError"""
    if not is_ordered(case) or case.get('mcs') is None:
        return False
    B = case['mcs'] * case['vf']
    for fr, sel in ((case['L'], case['lf']), (case['R'], case['rf'])):
        for n, v in _mapped(fr, sel):
            if n[0] == 'x' and any(len(s.encode()) > B for s in v):
                return True
    return False


def spec_ok(case, impl, spec, mode):
    """the property itself: names as documented, equal lengths, the multiset of rows of the relational join,
    non-decreasing key order on the streamed path"""
    if impl == 'EXC:ValueError' and entry_too_long(case):
        return True
    if not isinstance(impl, list):
        return False
    ordered, inv, cols = impl
    if len({len(v) for _, v in cols}) > 1:
        return False
    data = _strip(cols)
    if _sort_rows(data) != spec:
        return False
    if ordered:
        kn = case['L']['kn'][0] if case['how'] != 'right' else case['R']['kn'][0]
        sel = case['lf'] if case['how'] != 'right' else case['rf']
        other = case['rf'] if case['how'] != 'right' else case['lf']
        other_names = [n for n, _ in _frame_fields(case['R'] if case['how'] != 'right' else case['L'])] \
            if other is None else other
        if sel is None or kn in sel:
            dn = kn + (('_l' if case['how'] != 'right' else '_r') if kn in other_names else '')
            col = [v for n, v in data if n == dn]
            if len(col) != 1 or any(a > b for a, b in zip(col[0], col[0][1:])):
                return False
    return True


def equal(case, impl, expected, mode):
    if isinstance(expected, str):
        if expected.startswith('OOB'):
            # inside F-C02f numba / numpy wrap a negative index where the model reports the access
            return impl == 'EXC:IndexError' or (nonmonotone(case) and isinstance(impl, list))
        if expected == 'FUEL':
            return impl == 'HANG'
        if expected == 'EXC:IndexError' and nonmonotone(case):
            return impl == expected or isinstance(impl, list)
        return impl == expected
    return impl == expected


def known(case, impl, model, spec, mode):
    if long_run(case) and impl == 'EXC:ValueError':
        return 'F-C02g'
    if nonmonotone(case):
        return 'F-C02f'
    return None


def skip(case, mode):
    # compiled code reads out of bounds silently inside F-C02f; only the checked modes decide those cases
    return mode == 'jit' and nonmonotone(case) and (case.get('mcs') or BIG) < BIG


def features(case, model):
    f = ['how:' + case['how'], 'path:' + ('streamed' if is_ordered(case) else 'pandas')]
    L, R = case['L']['keys'], case['R']['keys']
    lo, lu, ro, ru = case['hints']
    if all(h is None for h in case['hints']): f.append('hint-free')
    else: f.append('hints:%d%d%d%d' % tuple(_hint(h) for h in case['hints']))
    if len(L) > 1: f.append('compound-key')
    l0, r0 = list(zip(*L)), list(zip(*R))
    if not l0: f.append('empty-left')
    if not r0: f.append('empty-right')
    sl, sr = set(l0), set(r0)
    um_l = [i for i, k in enumerate(l0) if k not in sr]
    um_r = [i for i, k in enumerate(r0) if k not in sl]
    for nm, um, n in (('left', um_l, len(l0)), ('right', um_r, len(r0))):
        if um:
            if um[0] == 0: f.append('unmatched-%s-start' % nm)
            if um[-1] == n - 1: f.append('unmatched-%s-end' % nm)
            if any(0 < i < n - 1 for i in um): f.append('unmatched-%s-middle' % nm)
    dl = len(sl) < len(l0); dr = len(sr) < len(r0)
    if dl: f.append('dup-left')
    if dr: f.append('dup-right')
    if {k for k in sl if l0.count(k) > 1} & {k for k in sr if r0.count(k) > 1}: f.append('cartesian')
    if l0 != sorted(l0) or r0 != sorted(r0): f.append('unsorted-keys')
    if case['lf'] is not None or case['rf'] is not None: f.append('fields-subset')
    if case['lf'] == [] or case['rf'] == []: f.append('fields-empty-list')
    ln = [n for n, _ in _mapped(case['L'], case['lf'])]
    rn = [n for n, _ in _mapped(case['R'], case['rf'])]
    if set(ln) & set(rn): f.append('name-clash')
    for n in set(x[0] for x in ln + rn): f.append('kind:' + n)
    if is_ordered(case):
        kind, a, b = variant(case)
        f.append('variant:' + kind)
        f.append('sentinel:' + ('S32' if (lu or ru) else 'S64'))
        cs = case.get('cs') or BIG
        mcs = case.get('mcs') or BIG
        if cs < BIG:
            if len(a) > cs or len(b) > cs: f.append('join-multi-chunk')
            f.append('join-cs:%d' % cs)
        else:
            f.append('join-cs:production')
        if kind in ('ru', 'bu'): f.append('map-absent-chunked_copy')
        if long_run(case): f.append('long-run(F-C02g)')
        if entry_too_long(case): f.append('entry-longer-than-value-buffer(outside)')
        if nonmonotone(case): f.append('nonmonotone-map(F-C02f)')
        if isinstance(model, list):
            maps = [v for n, v in model[2] if n in AUX]
            n_out = len(maps[0]) if maps else 0
            if n_out > mcs: f.append('map-multi-chunk')
            if n_out > cs: f.append('join-buffer-flushed>1')
            if n_out == 0: f.append('empty-result')
            inv = S32 if (lu or ru) else S64
            for m in maps:
                flat = [x[0] for x in m]
                if inv in flat: f.append('map-has-sentinel')
                for s in range(0, len(flat), mcs):
                    if flat[s:s + mcs] and all(x == inv for x in flat[s:s + mcs]):
                        f.append('all-invalid-map-chunk'); break
        else:
            f.append('model:' + str(model))
    return sorted(set(f))


def nontrivial(case, model):
    fs = [x for x in features(case, model) if not x.startswith(('how:', 'path:', 'kind:', 'hint', 'sentinel', 'join-cs'))]
    return len(fs) > 0


# ------------------------------------------------------------------ generators
def _nondecr(n, k):
    for m in range(n + 1):
        for c in itertools.combinations_with_replacement(range(k), m):
            yield list(c)


def _strict(xs):
    return all(a < b for a, b in zip(xs, xs[1:]))


_STR = ['a', '', 'cc', 'dab', 'e', 'ff', 'g', 'hh', 'iii', 'j', 'kk', 'l', 'mmm', 'n', 'oo', 'p']
_LONG = ['a', '', 'cc', 'dddd', 'eeeee', 'f', 'gggggg', 'hh', 'iii', 'j', 'kk', 'l', 'mmm', 'n', 'oo', 'p']


def _payload(kind, n, side):
    base = 0 if side == 'l' else 50
    if kind in 'ilft':
        return [base + 10 * (i + 1) for i in range(n)]
    if kind == 'b':
        return [(i + (side == 'r')) % 2 for i in range(n)]
    if kind == 'c':
        return [(i + (side == 'r')) % 4 for i in range(n)]
    if kind == 's':
        return [_STR[(i + (3 if side == 'r' else 0)) % len(_STR)] for i in range(n)]
    if kind == 'x':
        return [_LONG[(i + (5 if side == 'r' else 0)) % len(_LONG)] for i in range(n)]
    raise ValueError(kind)


# payload templates: (left kinds, right kinds); names = kind + 'a'.. on the left, kind + 'p'.. on the right,
# a shared name when the letter is upper-cased in SHARED
_TEMPLATES = [('ix', 'is'), ('xs', 'xf'), ('fb', 'lx'), ('ct', 'xc'), ('sl', 'tb'), ('xi', 'xi'), ('i', 'x'), ('x', 'i')]


def _frame(keys, kn, kinds, side, shared=False):
    n = len(keys[0])
    cols = []
    for j, k in enumerate(kinds):
        name = k + ('z' if shared and j == 0 else ('abcdefgh'[j] if side == 'l' else 'pqrstuvw'[j]))
        cols.append([name, _payload(k, n, side)])
    return {'keys': keys, 'kn': kn, 'cols': cols}


_FIELD_SEL = [(None, None), (None, None), (None, None), ('pay', None), (None, 'key'), ([], None), (None, []), ('key', 'pay'),
              ('all', 'all')]


def _sel(fr, what):
    if what is None or isinstance(what, list):
        return what
    if what == 'key':
        return list(fr['kn'])
    if what == 'pay':
        return [n for n, _ in fr['cols']]
    return [n for n, _ in reversed(_frame_fields(fr))]


def _mk(how, hints, L, R, cnt, cs, same_key_name=True):
    tl, tr = _TEMPLATES[cnt % len(_TEMPLATES)]
    shared = (cnt % 5 == 2) and tl[0] == tr[0]
    fl = _frame([L], ['k'], tl, 'l', shared)
    fr = _frame([R], ['k' if same_key_name else 'kr'], tr, 'r', shared)
    sl, sr = _FIELD_SEL[(cnt // 3) % len(_FIELD_SEL)]
    rot = [1, 2, 3, 4]
    c = {'how': how, 'hints': hints, 'L': fl, 'R': fr, 'lf': _sel(fl, sl), 'rf': _sel(fr, sr)}
    if cs is None:
        c.update(cs=None, mcs=None, vf=None, ccs=None)
    else:
        c.update(cs=cs, mcs=rot[cnt % 4], vf=[8, 2, 8, 3, 8, 1][(cnt // 4) % 6], ccs=rot[(cnt // 2) % 4])
    return c


_PANDAS_HINTS = [[None] * 4, [True, None, False, None], [None, 'u', None, 'u'], [False, False, True, 'u'],
                 [True, 'u', None, None], [None, None, True, 'u']]


def _truth(h, L, R):
    """replace 'u' by the truthful unique flag"""
    lo, lu, ro, ru = h
    if lu == 'u': lu = True if _strict(L) else None
    if ru == 'u': ru = True if _strict(R) else None
    return [lo, lu, ro, ru]


def gen(tier, rng):
    n = 3 if tier == 'quick' else 4
    seqs = list(_nondecr(n, 3))
    cnt = 0
    css = [1, 2, 3, None] if tier == 'quick' else [1, 2, 3, 4, 5, None]
    css_trim = [2, 3, 4, None] if tier == 'quick' else [2, 3, 4, 5, 6, None]     # cs=1 on a trimmed side is always a long run
    # A. the streamed path, exhaustively
    for L in seqs:
        for R in seqs:
            for how in ('left', 'right', 'inner'):
                for lu in ((False, True) if _strict(L) else (False,)):
                    for ru in ((False, True) if _strict(R) else (False,)):
                        for cs in (css if (lu and ru) else css_trim):
                            if tier == 'quick' and cs is None and (cnt % 3):
                                cnt += 1
                                continue
                            if tier == 'quick' and len(L) + len(R) >= 5 and (cnt % 2):
                                cnt += 1          # quick tier: the largest pairs alternate over the chunk sizes
                                continue
                            yield _mk(how, [True, lu or None if cnt % 2 else lu, True, ru], L, R, cnt, cs,
                                      same_key_name=(cnt % 7 != 3))
                            cnt += 1
    # B. the pandas path: hint-free and every kind of non-selecting truthful hint
    for L in seqs:
        for R in seqs:
            for how in HOWS:
                hs = [_PANDAS_HINTS[0], _PANDAS_HINTS[1 + cnt % 5]] if how != 'outer' else \
                     [_PANDAS_HINTS[0], [True, 'u', True, 'u']]
                if tier == 'quick' and (cnt % 2):
                    hs = hs[1:]
                for h in hs:
                    if tier == 'quick' and len(L) + len(R) >= 5 and (cnt % 2):
                        cnt += 1
                        continue
                    yield _mk(how, _truth(h, L, R), L, R, cnt, None, same_key_name=(cnt % 7 != 3))
                    cnt += 1
    # C. compound keys (pandas path only, with and without ordered hints)
    pairs = [(a, b) for a in range(2) for b in range(2)]
    rows = [list(c) for m in range(0, 4) for c in itertools.combinations_with_replacement(pairs, m)]
    step = 7 if tier == 'quick' else 2
    for iL, Lr in enumerate(rows):
        for iR, Rr in enumerate(rows):
            if (iL * len(rows) + iR) % step:
                continue
            how = HOWS[cnt % 4]
            tl, tr = _TEMPLATES[cnt % len(_TEMPLATES)]
            Lk = [[r[0] for r in Lr], [r[1] for r in Lr]]
            Rk = [[r[0] for r in Rr], [r[1] for r in Rr]]
            fl = _frame(Lk, ['k', 'Kb'], tl, 'l')
            fr = _frame(Rk, ['k', 'Kq'], tr, 'r')
            yield {'how': how, 'hints': [True, None, True, None] if cnt % 2 else [None] * 4, 'L': fl, 'R': fr,
                   'lf': None, 'rf': None, 'cs': None, 'mcs': None, 'vf': None, 'ccs': None}
            cnt += 1
    # D. unsorted keys: the ordered hints must be absent/false
    for _ in range(150 if tier == 'quick' else 1500):
        L = [rng.randint(0, 3) for _ in range(rng.randint(0, 5))]
        R = [rng.randint(0, 3) for _ in range(rng.randint(0, 5))]
        h = [None if sorted(L) != L else rng.choice([None, True]), rng.choice([None, False]) if len(set(L)) < len(L) else True,
             None if sorted(R) != R else rng.choice([None, False]), None if len(set(R)) < len(R) else rng.choice([None, True])]
        if h[0] and h[2]:
            h[2] = False
        yield _mk(HOWS[cnt % 4], h, L, R, cnt, None)
        cnt += 1
    # E. structured random longer frames on the streamed path, runs planted around the chunk boundaries
    for _ in range(400 if tier == 'quick' else 6000):
        cs = rng.randint(2, 6)

        def side(unique):
            xs, key = [], 0
            target = rng.randint(0, 3 * cs)
            while len(xs) < target:
                key += rng.choice([1, 1, 2, 3])
                run = 1 if unique else rng.choice([1, 1, 1, 2, cs - 1, cs - 1, max(1, cs - 2)])
                xs.extend([key] * run)
            return xs
        lu, ru = rng.choice([(False, False), (True, False), (False, True), (True, True)])
        L, R = side(lu), side(ru)
        if not lu and not ru and rng.random() < 0.8:
            # keep most general-variant cases outside F-C02f: no key duplicated on both sides
            dl = {k for k in L if L.count(k) > 1}
            R = [k for i, k in enumerate(R) if not (k in dl and i > 0 and R[i - 1] == k)]
        c = _mk(rng.choice(['left', 'right', 'inner']), [True, lu, True, ru], L, R, cnt, cs)
        c['mcs'] = rng.randint(1, 6); c['ccs'] = rng.randint(1, 6); c['vf'] = rng.choice([8, 2, 3])
        yield c
        cnt += 1


def shrink(case):
    for side in ('L', 'R'):
        fr = case[side]
        n = len(fr['keys'][0])
        for i in range(n):
            c = dict(case)
            c[side] = {'keys': [k[:i] + k[i + 1:] for k in fr['keys']], 'kn': fr['kn'],
                       'cols': [[nm, v[:i] + v[i + 1:]] for nm, v in fr['cols']]}
            yield c
        for j in range(len(fr['cols'])):
            nm = fr['cols'][j][0]
            if (case['lf' if side == 'L' else 'rf'] or []) and nm in case['lf' if side == 'L' else 'rf']:
                continue
            c = dict(case)
            c[side] = dict(fr, cols=fr['cols'][:j] + fr['cols'][j + 1:])
            yield c
    for p in ('cs', 'mcs', 'ccs'):
        if case.get(p) and case[p] > 1:
            c = dict(case); c[p] = case[p] - 1; yield c


TECHNIQUE = ('Coq proof about a faithful model of merge/_ordered_merge/_unordered_merge composed with the proved models of the '
             'streamed join generators (C03) and map streams (C04) + exhaustive small-scope correspondence on real HDF5 frames')
LEVEL_TEXT = ('Theorems in coq/Props/C02.v: the streamed path of the repaired merge equals the relational join (rows, key order, '
              'column lengths, names) for all sizes and chunk sizes, for every how in {left,right,inner} x every truthful '
              'unique-hint pair with no hypothesis left about C03 or C04 (ordered_merge_total_all / ordered_merge_correct_all / '
              'ordered_merge_is_relational_join instantiate C03 streamed_total for all eight generators; the copied side of the '
              'right/left-unique variants is proved equal to the gather through all rows; equal column lengths and '
              'non-decreasing key order are separate corollaries); the pandas path is correspondence against the '
              'specification (pandas trusted).')
LEVEL_NOTE = 'Model tied to /repo by the differential run only; see evidence for theorem list and which are full / partial / refuted.'
