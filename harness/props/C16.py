"""C16 — Session.apply_spans_concat / ops._apply_spans_concat_2 vs coq/Model/Concat.v.

case = {'strs': [str, ...], 'spans': [int, ...], 'sc': src_chunksize, 'dc': dest_chunksize,
        'mult': chunksize_mult, 'kind': 'mm' | 'hh', 'sdt': 'int64' | 'int32'}
  kind = <source><destination>, 'm' memory-backed (IndexedStringMemField, ~1 ms / case), 'h' HDF5-backed field in
  an in-memory file as tests/test_session.py does (~15 ms / case); sc / dc / mult may be None (library default)
canonical result = [data, indices, values, parsed]
  data    dest.data[:] as UTF-8 byte lists         indices dest.indices[:]      values dest.values[:]
  parsed  every output entry parsed as one CSV line (impl side: Python's csv.reader;
          model side: the Gallina parser of Spec/ConcatSpec.v; spec side: the span's non-empty strings)
"""
import itertools, os

PROP, NUM = 'C16', 16
PROPS_FILES = ['Props/C16.v']
MODES = ['jit', 'nojit']
MODES_THOROUGH = ['jit', 'nojit', 'bounds']
LEVEL = 'proof'
ALPHABET = ['', 'a', ',', '"', 'é,', 'b']
RULE = ('exhaustive small scope: every column of length <= 4 (quick) / <= 5 (thorough) over the strings '
        + repr(ALPHABET) + ' x every partition of the rows into consecutive non-empty spans x src_chunksize in '
        '{1,2,3,#spans+1} x value buffer N = dest_chunksize*mult in {smallest fitting, +1, never-full} (factored as '
        'N*1, 1*N or (N/2)*2; for 5-row columns a rotating half of these 12 configurations), memory-backed fields; every 29th case is also run on HDF5-backed fields. Then seeded '
        'random longer columns (<= 24 rows, strings <= 6 chars over a 9-symbol alphabet incl. 2-,3-,4-byte UTF-8) with '
        'random span boundaries (also empty, partial and unordered spans) and random chunk parameters, library-default chunk parameters (None) on all four memory/HDF5 source-destination combinations (model run with small fitting parameters, justified by concat_chunking_unobservable), and a malformed '
        'stream (value buffer too small, src_chunksize 1 with tiny buffers) where model OOB must equal IndexError. '
        'Non-trivial = at least two spans, or any quoted / multi-entry / empty-output span.')
EXHAUSTIVE = {'quick': True, 'thorough': True}
TRUSTED = ['h5py / numpy slicing and append of DataWriter.write (modelled as list append)',
           'Python csv.reader as the reference CSV line parser (cross-checked against the Gallina parser on every case)']
ASSUMPTIONS = ['span boundaries lie in [0, #rows]', 'src_chunksize >= 1',
               'every span output e satisfies len e + max(0, N/2 - 1) <= N for N = dest_chunksize*mult',
               'strings contain no CR/LF (the property speaks of CSV lines)', 'offsets fit int64']
TIMEOUT_S = 20.0
DEFAULT_CHUNK = 1 << 20

_np = _session = _fields = _csv = None
_S = None      # per-process session + dataframe for HDF5-backed cases
_DF = None
VARIANT = 0 if os.environ.get('VERIF_C16_VARIANT', '') == 'v0' else 1


def setup():
    global _np, _session, _fields, _csv
    import numpy as np, csv
    from exetera.core import session, fields
    _np, _session, _fields, _csv = np, session, fields, csv


def warmup():
    run({'strs': ['a', 'b,c', '', 'd"'], 'spans': [0, 2, 4], 'sc': 2, 'dc': 16, 'mult': 2, 'kind': 'mm', 'sdt': 'int64'})
    run({'strs': ['a', 'b,c', '', 'd"'], 'spans': [0, 2, 4], 'sc': 2, 'dc': 16, 'mult': 2, 'kind': 'mm', 'sdt': 'int32'})


def _h5():
    global _S, _DF
    if _S is None or _S[1] != os.getpid():
        import io
        s = _session.Session()
        ds = s.open_dataset(io.BytesIO(), 'w', 'ds')
        _S = (s, os.getpid())
        _DF = ds.create_dataframe('df')
    return _S[0], _DF


def _observe(dest):
    data = dest.data[:]
    ind = [int(x) for x in dest.indices[:]]
    val = [int(x) for x in dest.values[:]]
    parsed = []
    for e in data:
        rows = list(_csv.reader([e]))
        row = rows[0] if rows else []
        parsed.append([list(f.encode('utf-8')) for f in row])
    return [[list(e.encode('utf-8')) for e in data], ind, val, parsed]


def _eff(case):
    """effective (src_chunksize, dest_chunksize, mult): None means the library default
    (field / session chunksize 1<<20, multiplier 16)."""
    sc = DEFAULT_CHUNK if case['sc'] is None else case['sc']
    dc = DEFAULT_CHUNK if case['dc'] is None else case['dc']
    mult = 16 if case['mult'] is None else case['mult']
    return sc, dc, mult


def run(case):
    np = _np
    spans = np.asarray(case['spans'], dtype=(np.int32 if case.get('sdt') == 'int32' else np.int64))
    kind = case.get('kind', 'mm')
    s, df = _h5()
    for nm in ('v', 'r'):
        if nm in df:
            del df[nm]
    try:
        if kind[0] == 'm':
            src = _fields.IndexedStringMemField(s)
            src.data.write(list(case['strs']))
        else:
            s.create_indexed_string(df, 'v').data.write(list(case['strs']))
            src = s.get(df['v'])
        dest = _fields.IndexedStringMemField(s) if kind[1] == 'm' else s.create_indexed_string(df, 'r')
        s.apply_spans_concat(spans, src, dest, case['sc'], case['dc'], case['mult'])
        return _observe(dest)
    finally:
        if kind != 'mm':
            for nm in ('v', 'r'):
                if nm in df:
                    del df[nm]


def to_val(case):
    sc, dc, mult = case['sc'], case['dc'], case['mult']
    if sc is None or dc is None or mult is None:
        # library defaults (2^20-slot buffers): the model is run with small parameters that satisfy the
        # hypotheses of concat_session_correct; by concat_chunking_unobservable the result is the same.
        total = sum(len(e.encode('utf-8')) for e in _entries(case))
        sc = len(case['spans']) + 1 if sc is None else sc
        if dc is None or mult is None:
            dc, mult = 2 * total + 4, 1
    return [VARIANT, [list(x.encode('utf-8')) for x in case['strs']], list(case['spans']), sc, dc, mult]


def _dec(v):
    from harness import core
    return core.decode_err(v)


def from_val(case, v):
    m, sp = v
    e = _dec(m)
    model = e if e is not None else m
    spec = sp[0] if sp else None
    return (model, spec)


# ---------------------------------------------------------------- python-side helpers (features only)
def _esc(s):
    if ',' in s or '"' in s:
        return '"' + s.replace('"', '""') + '"'
    return s


def _entries(case):
    strs, sp = case['strs'], case['spans']
    out = []
    for a, b in zip(sp, sp[1:]):
        grp = strs[a:b] if 0 <= a <= b else []
        out.append(','.join(_esc(x) for x in grp if x != ''))
    return out


def _batches(case):
    """[(n_spans, n_bytes, why)] of the repaired driver, from the span output lengths."""
    lens = [len(e.encode('utf-8')) for e in _entries(case)]
    sc, dc, mult = _eff(case)
    maxv = (dc * mult) // 2
    res, k, first = [], 0, True
    while k < len(lens):
        dii, div, n, why = (1 if first else 0), 0, 0, 'end'
        while k < len(lens):
            div += lens[k]; dii += 1; n += 1; k += 1
            if dii >= sc or div >= maxv:
                why = ('index' if dii >= sc else '') + ('value' if div >= maxv else '')
                break
        res.append((n, div, why))
        first = False
    return res


def _fits(case):
    sc, dc, mult = _eff(case)
    N = dc * mult
    return all(len(e.encode('utf-8')) + max(0, N // 2 - 1) <= N for e in _entries(case))


def features(case, model):
    f = ['kind:' + case.get('kind', 'mm'), 'spans:' + case.get('sdt', 'int64')]
    if isinstance(model, str):
        f.append('err:' + model.split(':')[0])
    strs, sp = case['strs'], case['spans']
    part = len(sp) >= 1 and sp[0] == 0 and sp[-1] == len(strs) and all(a < b for a, b in zip(sp, sp[1:]))
    f.append('partition' if part else 'non-partition-spans')
    if not strs:
        f.append('empty-column')
    inrange = all(0 <= x <= len(strs) for x in sp)
    esc, edc, emult = _eff(case)
    if case['sc'] is None or case['dc'] is None or case['mult'] is None:
        f.append('default-chunk-params')
    if not inrange or esc < 1 or edc * emult < 0:
        f.append('outside-precondition')
        return f
    if not _fits(case):
        f.append('buffer-too-small')
    bs = _batches(case)
    nb = len(bs)
    f.append('batches:%s' % (nb if nb < 4 else '4+'))
    if any('index' in w for (_, _, w) in bs): f.append('break-on-index-budget')
    if any('value' in w for (_, _, w) in bs): f.append('break-on-value-budget')
    if any(w == 'indexvalue' for (_, _, w) in bs): f.append('break-on-both')
    if nb >= 3: f.append('offset-carried-into-3rd-batch')
    seen = 0
    for (_, nbytes, _) in bs:
        if nbytes == 0 and seen > 0:
            f.append('zero-byte-batch-after-data'); break
        seen += nbytes
    if nb >= 2 and bs[0][0] < bs[1][0]: f.append('first-batch-shorter')
    for a, b in zip(sp, sp[1:]):
        grp = strs[a:b] if a <= b else []
        ne = [x for x in grp if x != '']
        if len(grp) == 0: f.append('empty-span')
        if len(ne) == 0 and len(grp) > 0: f.append('span-all-empty-strings')
        if len(ne) == 1 and len(grp) > 1: f.append('single-nonempty-among-several')
        if len(ne) > 1: f.append('multi-entry-span')
        if len(ne) > 1 and '' in grp[grp.index(ne[0]):]: f.append('empty-between-or-after-nonempty')
        if any(',' in x for x in ne): f.append('quoted-for-comma')
        if any('"' in x for x in ne): f.append('quote-doubled')
        if any(len(x.encode('utf-8')) != len(x) for x in ne): f.append('multibyte')
    return sorted(set(f))


def nontrivial(case, model):
    if isinstance(model, str) and model == 'BADCASE':
        return False
    fs = features(case, model)
    return len(case['spans']) >= 3 or any(x in fs for x in ('multi-entry-span', 'quoted-for-comma', 'quote-doubled',
                                                            'span-all-empty-strings', 'empty-span'))


def known(case, impl, model, spec, mode):
    # F-C01a (C01's finding): MemoryFieldArray.write_part(empty array) on a non-empty array raises ValueError;
    # reached here when a batch after the first produces no bytes although bytes were written before.
    if case.get('kind', 'mm')[1] == 'm' and impl == 'EXC:ValueError' and not isinstance(model, str):
        if 'zero-byte-batch-after-data' in features(case, model):
            return 'F-C01a'
    return None


# ---------------------------------------------------------------- generators
def _compositions(n):
    """all boundary arrays [0, ..., n] with strictly increasing entries (partitions into non-empty spans)."""
    if n == 0:
        yield [0]
        return
    for cuts in itertools.product([0, 1], repeat=n - 1):
        sp = [0] + [i + 1 for i, c in enumerate(cuts) if c] + [n]
        yield sp


def _nmin(maxl):
    n = max(maxl, 0)
    while maxl + max(0, n // 2 - 1) > n:
        n += 1
    return n


def _factor(N, k):
    if k % 3 == 0 or N == 0:
        return (N, 1)
    if k % 3 == 1:
        return (1, N)
    return (N // 2, 2) if N % 2 == 0 else (N, 1)


def _configs(case0):
    ents = _entries(case0)
    lens = [len(e.encode('utf-8')) for e in ents]
    maxl = max(lens) if lens else 0
    total = sum(lens)
    nmin = _nmin(maxl)
    Ns = sorted({nmin, nmin + 1, 2 * total + 4})
    scs = sorted({1, 2, 3, len(ents) + 1})
    k = 0
    for sc in scs:
        for N in Ns:
            dc, mult = _factor(N, k)
            k += 1
            yield sc, dc, mult


def gen(tier, rng):
    big = tier == 'thorough'
    nmax = 5 if big else 4
    count = 0
    for n in range(0, nmax + 1):
        for col in itertools.product(ALPHABET, repeat=n):
            for sp in _compositions(n):
                base = {'strs': list(col), 'spans': sp}
                for ci, (sc, dc, mult) in enumerate(_configs(base)):
                    if n == 5 and (ci + len(sp) + sum(map(len, col))) % 2:
                        continue    # thorough tier, longest columns: a rotating half of the 12 configurations
                    count += 1
                    c = dict(base, sc=sc, dc=dc, mult=mult, kind='mm', sdt=('int32' if count % 2 else 'int64'))
                    yield c
                    if count % 29 == 0:
                        yield dict(c, kind='hh')
    # structured random: longer columns, arbitrary in-range span arrays
    sym = ['a', 'b', ',', '"', 'é', '€', '\U0001F600', ' ', "'"]
    for r in range(20000 if big else 4000):
        n = rng.randint(0, 24)
        strs = []
        for _ in range(n):
            if rng.random() < 0.35:
                strs.append('')
            else:
                strs.append(''.join(rng.choice(sym) for _ in range(rng.randint(1, 6))))
        style = rng.random()
        if style < 0.6:
            cuts = sorted(rng.sample(range(1, n), rng.randint(0, n - 1))) if n > 1 else []
            sp = [0] + cuts + [n]
            if n == 0:
                sp = [0]
        elif style < 0.85:
            sp = sorted(rng.randint(0, n) for _ in range(rng.randint(0, 8)))     # empty / partial spans
        else:
            sp = [rng.randint(0, n) for _ in range(rng.randint(2, 6))]           # unordered: negative-width spans are empty
        base = {'strs': strs, 'spans': sp}
        lens = [len(e.encode('utf-8')) for e in _entries(base)]
        maxl = max(lens) if lens else 0
        nmin = _nmin(maxl)
        N = rng.choice([nmin, nmin + 1, nmin + rng.randint(0, 12), 2 * sum(lens) + 4])
        dc, mult = _factor(N, rng.randint(0, 2))
        sc = rng.choice([1, 2, 3, rng.randint(1, 9), len(lens) + 1])
        yield dict(base, sc=sc, dc=dc, mult=mult, kind=('hh' if r % 10 == 0 else 'mm'), sdt=rng.choice(['int32', 'int64']))
    # library-default chunk parameters (None) on every combination of memory- / HDF5-backed source and destination
    defaults_cols = [['a', 'b,c', '', 'd"'], ['', ''], ['é,', '', 'x', 'y', ',', '"']] + \
                    [[rng.choice(ALPHABET + ['abc', 'a,b', '""']) for _ in range(rng.randint(1, 9))] for _ in range(40 if big else 12)]
    for col in defaults_cols:
        n = len(col)
        cuts = sorted(rng.sample(range(1, n), rng.randint(0, n - 1))) if n > 1 else []
        sp = [0] + cuts + [n]
        for kind in ('mm', 'mh', 'hm', 'hh'):
            yield {'strs': col, 'spans': sp, 'sc': None, 'dc': None, 'mult': None, 'kind': kind, 'sdt': 'int64'}
            yield {'strs': col, 'spans': sp, 'sc': 2, 'dc': None, 'mult': None, 'kind': kind, 'sdt': 'int32'}
            yield {'strs': col, 'spans': sp, 'sc': None, 'dc': 64, 'mult': 2, 'kind': kind, 'sdt': 'int64'}
    # malformed stream: buffers too small for a span (model OOB <=> IndexError in the checked modes)
    for r in range(3000 if big else 600):
        n = rng.randint(1, 6)
        strs = [rng.choice(ALPHABET + ['abc', 'a,b']) for _ in range(n)]
        cuts = sorted(rng.sample(range(1, n), rng.randint(0, n - 1))) if n > 1 else []
        sp = [0] + cuts + [n]
        base = {'strs': strs, 'spans': sp}
        lens = [len(e.encode('utf-8')) for e in _entries(base)]
        nmin = _nmin(max(lens))
        N = rng.choice([0, 1, max(0, nmin - 1), max(0, nmin - 2), nmin // 2])
        yield dict(base, sc=rng.choice([1, 2, 3]), dc=N, mult=1, kind='mm', sdt='int64')


def shrink(case):
    strs, sp = case['strs'], case['spans']
    n = len(strs)
    # drop a row (shifting boundaries)
    for i in range(n):
        nsp = sorted(set((x - 1 if x > i else x) for x in sp))
        yield dict(case, strs=strs[:i] + strs[i + 1:], spans=nsp)
    # merge two spans
    for i in range(1, len(sp) - 1):
        yield dict(case, spans=sp[:i] + sp[i + 1:])
    for i in range(n):
        if strs[i] not in ('', 'a'):
            yield dict(case, strs=strs[:i] + ['a'] + strs[i + 1:])
    if case.get('kind') != 'mm':
        yield dict(case, kind='mm')
    if case['mult'] is not None and case['dc'] is not None and case['mult'] != 1:
        yield dict(case, dc=case['dc'] * case['mult'], mult=1)


TECHNIQUE = ('Coq proof (statement-by-statement Gallina model of _apply_spans_concat_2 and of the Session batch loop = '
             'CSV-join specification, for every chunk size) + exhaustive small-scope differential correspondence against /repo')
LEVEL_TEXT = ('Theorems in coq/Props/C16.v prove, for all columns, all in-range span arrays and all src_chunksize >= 1 / value '
              'buffers that hold one span output, that the model of the repaired driver + kernel returns exactly the spec '
              '(offsets = prefix sums, values = concatenated CSV-joined entries, data read back = entries), that every entry '
              'parses back to the span\'s non-empty strings, and that the driver as found is wrong from the third batch on; '
              'the model is tied to /repo by running the extracted model and the real Session.apply_spans_concat on the '
              'same generated cases. Whole column: for a partition of the rows the parsed-back entries laid end to end are exactly '
              'the non-empty strings in order (concat_partition_complete); one entry per span (concat_entry_count).')
LEVEL_NOTE = ('Trusted: Coq kernel, extraction, harness. Field storage (h5py / MemoryFieldArray append) is modelled as list '
              'append, not verified. numba code generation is trusted.')
