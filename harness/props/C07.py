"""C07 — group-by results equal the group-wise reference computation.
   Real code: exetera/core/dataframe.py (groupby, drop_duplicates, HDF5DataFrameGroupBy.*), fields.py
              (FieldDataOps.apply_spans_*), operations.py (span kernels), session.py (dataset_sort_index,
              aggregate_*, distinct)
   Model:     coq/Model/Group.v (+ Spans.v, FilterIndex.v, StableSort.v);  spec: coq/Spec/GroupSpec.v
"""
import itertools
from harness.props import C09 as B

PROP, NUM = 'C07', 7
PROPS_FILES = ['Props/C07.v']
MODES = ['jit', 'nojit']
MODES_THOROUGH = ['jit', 'nojit', 'bounds']
LEVEL = 'proof'
TIMEOUT_S = 30.0
EXHAUSTIVE = {'quick': True, 'thorough': True}
TECHNIQUE = ('Coq proof (Gallina model of DataFrame.groupby, the HDF5DataFrameGroupBy methods, drop_duplicates and '
             'Session.aggregate_* composed from the span kernels of C08 and the stable LSD sort / apply_index of C09 '
             '= group-wise reference over the ascending distinct key tuples) + exhaustive small-scope differential '
             'correspondence against real HDF5-backed dataframes')
RULE = ('exhaustive small scope, then seeded random, then a malformed stream. (1) one key column: every key sequence '
        'over 3 symbols x every target pattern over 3 symbols for <= 3 rows, plus every key sequence of 4 rows (thorough: and 5 rows) x a seeded sample of 4 (thorough 27) target patterns, the key column cycling through '
        'int32 / int64 beyond 2^53 / uint64 / float / bool / categorical / timestamp / fixed string / indexed string, '
        'three target columns per frame (numeric, fixed string, indexed string over prefix-heavy alphabets with empty '
        'strings and differing lengths) and all of min, max, first, last, count in one destination (write_keys on the '
        'first call only); sorted inputs are run with and without the hint. (2) two key columns: every sequence of '
        'pairs over {0,1}x{0,1,2} for <= 4 rows x a rotation of 12 dtype pairs incl. mixed (int64>2^53 with float64 / '
        'uint64, number with fixed string, fixed with indexed string, S1 with S2). (3) three key columns over {0,1} '
        'for <= 3 rows. (4) drop_duplicates / distinct on 1-2 keys. (5) Session.aggregate_count/first/last/min/max on '
        'every index over 3 symbols for <= 5 rows (ndarray, Field, indexed-string Field index; sorted or merely '
        'pre-grouped) and Session.distinct on 1-2 arrays. (6) random frames up to 40 rows, 1-3 keys, cardinality <= 5. '
        '(7) malformed: untruthful hint, ragged columns, target = key, unknown names, empty lists, destination name '
        'clash (model == implementation only; never counted as property cases). HDF5-backed cases cost ~10-25 ms '
        'each, hence the row bounds. After every call the whole destination dataframe (names, class / dtype / strlen / '
        'categorical key and content of every column, read through the cached and through fresh Field objects) and the '
        'source dataframe are compared with the model AND with the row-level specification.')
TRUSTED = ['numpy np.asarray / np.unique(return_inverse) used by _stack_key_columns (fix F-C07b) to stack key columns '
           'is taken to preserve order and equality of the key values: not modelled, exercised by this correspondence',
           'numpy integer indexing / argsort(kind="stable") / np.unique and h5py dataset create/resize are modelled '
           '(np_take, argsort, np_unique_rows, ds_write), not verified',
           'order-preserving integer encoding of floats (multiples of 1/2), fixed strings (big-endian) and UTF-8 strings '
           '(byte order = code point order) done by harness/props/C09.py + this module',
           'Sorting.Permutation / Sorted from the Coq standard library (no axioms)']
ASSUMPTIONS = ['fields are well-formed (index dataset = prefix sums of entry lengths) and all columns have the same length',
               'keys and targets are totally ordered (no NaN)', 'a sorted hint is truthful',
               'strings contain no NUL characters (numpy S/U arrays drop trailing NULs)']
LEVEL_TEXT = ('20 theorems in coq/Props/C07.v (all closed under the global context) prove for all inputs (unbounded rows, key '
              'columns, groups, entry lengths, targets, calls): the row-level composition (stable lexicographic sort + spans of '
              'the sorted key rows + ANY per-span reduction = that reduction applied to the members of each distinct key tuple '
              'in original row order, keys ascending; span lengths = group sizes; counts sum to the row count; a sorted input '
              'is left alone so the hint changes nothing); that the model of DataFrame.groupby never fails on a well-formed '
              'frame and returns exactly those spans / that permutation; and at dataframe level the FULL statement '
              'groupby_steps_correct: spec_groupby_steps = Some r -> df_groupby_steps = Ok r, i.e. any sequence of count / '
              'distinct / min / max / first / last calls (with or without write_keys, any number of targets of any field '
              'class incl. indexed strings) into one destination yields exactly the specified columns (groupby_agg_correct, '
              'groupby_agg_target_correct, groupby_count_correct, drop_duplicates_correct are its per-call parts); '
              'Session.aggregate_count/min/max/first/last (aggregate_correct, aggregate_count_correct, '
              'aggregate_agrees_with_groupby) and Session.distinct (session_distinct_correct) equal their references of '
              'Spec/GroupSpec.v. The model is tied to the repository by the differential run described in `rule`, where '
              'every case is also judged against the extracted specification.')
LEVEL_NOTE = ('The coercion performed by numpy when key columns are stacked into one 2-d array happens before any kernel '
              'runs and is outside the model (after fix F-C07b it is rank-preserving); it is covered by the correspondence '
              'only. The theorems assume well-formed storage (frame_ok / column_okb), a truthful hint and fresh destination '
              'names (the specification is None otherwise and only model == implementation is decided).')

_np = None
_Session = None
_TIER = 'quick'

AGGS = ['min', 'max', 'first', 'last']
AGG_CODE = {'min': 0, 'max': 1, 'first': 2, 'last': 3}
SUFFIX_CODE = {'': 0, '_min': 1, '_max': 2, '_first': 3, '_last': 4}
BIG = 2 ** 53


def setup():
    global _np, _Session
    B.setup()
    import numpy as np
    from exetera.core.session import Session
    _np, _Session = np, Session


def warmup():
    for case in [
        {'op': 'gb', 'cols': [col(0, 'i32', [1, 0, 1]), col(1, 'i64', [3, 2, 1]), col(2, 'fix2', [1, 0, 2]), col(3, 'idxA', [1, 0, 2])],
         'by': [0], 'hint': False, 'steps': all_steps([1, 2, 3])},
        {'op': 'gb', 'cols': [col(0, 'fix2', [1, 0, 1]), col(1, 'idxA', [0, 2, 1]), col(2, 'i64', [1, 0, 2])],
         'by': [0, 1], 'hint': False, 'steps': all_steps([2])},
        {'op': 'gb', 'cols': [col(0, 'big', [1, 0, 1]), col(1, 'f64', [0, 2, 1]), col(2, 'i64', [1, 0, 2])],
         'by': [0, 1], 'hint': False, 'steps': all_steps([2])},
        {'op': 'agg', 'a': 'min', 'index': {'kind': 'arr', 'data': [0, 0, 1]}, 'target': [3, 1, 2], 'dest': None},
    ]:
        try:
            run(case)
        except Exception:
            pass


# ----------------------------------------------------------------------------- column flavours
# a column flavour maps an abstract symbol 0..4 (order-preserving) to a concrete value of some field type
FLAVOURS = {
    'i8': ('num', 'int8', [-2, 0, 1, 5, 7]),
    'i32': ('num', 'int32', [-1, 0, 7, 8, 100]),
    'i64': ('num', 'int64', [-5, 3, 9, 10, 11]),
    'big': ('num', 'int64', [BIG, BIG + 1, BIG + 2, BIG + 3, BIG + 5]),
    'u64': ('num', 'uint64', [1, 2 ** 63, 2 ** 63 + 1, 2 ** 63 + 2, 2 ** 64 - 1]),
    'f64': ('num', 'float64', [-0.5, 0.5, 1.5, 2.0, 1e6]),
    'f32': ('num', 'float32', [-1.5, 0.0, 0.5, 3.0, 4.5]),
    'bool': ('num', 'bool', [False, True, True, True, True]),
    'cat': ('cat', 'int8', [0, 1, 2, 3, 4]),
    'ts': ('ts', 'float64', [0.5, 1.0, 2.5, 3.0, 1e9]),
    'fix1': ('fix', 1, ['', 'a', 'b', 'c', 'z']),
    'fix2': ('fix', 2, ['', 'a', 'ab', 'b', 'zz']),
    'fix3': ('fix', 3, ['a', 'a!', 'ab', 'abc', 'b']),
    'idxA': ('idx', None, ['', 'a', 'ab', 'b', 'zz']),
    'idxB': ('idx', None, ['a', 'a!', 'aa', 'ab', 'b']),
    'idxC': ('idx', None, ['', 'a', 'a!', 'bé', 'zz']),
    'idxD': ('idx', None, ['aa', 'ab', 'b', 'zz', 'zzz']),
}
CAT_KEY = {'a': 0, 'b': 1, 'c': 2, 'd': 3, 'e': 4}
KEY_FLAVOURS_1 = ['i32', 'big', 'fix2', 'idxA', 'cat', 'ts', 'f64', 'u64', 'i8', 'idxB', 'fix3', 'f32']
TARGET_TRIPLES = [('i64', 'fix2', 'idxA'), ('f64', 'fix3', 'idxB'), ('cat', 'fix2', 'idxC'), ('ts', 'fix1', 'idxD'),
                  ('i8', 'fix3', 'idxA'), ('big', 'fix2', 'idxB')]
KEY_PAIRS = [('i32', 'i32'), ('big', 'f64'), ('i64', 'fix1'), ('fix2', 'idxA'), ('i32', 'i64'), ('cat', 'ts'),
             ('bool', 'i8'), ('u64', 'i8'), ('fix1', 'fix2'), ('idxA', 'idxB'), ('f32', 'big'), ('idxB', 'i64'),
             ('big', 'u64'), ('f64', 'fix2')]


def col(name, flavour, syms):
    kind, p, vals = FLAVOURS[flavour]
    c = {'name': name, 'kind': kind, 'data': [vals[s] for s in syms], 'fl': flavour}
    if kind == 'num':
        c['dtype'] = p
        if p == 'bool':
            c['data'] = [bool(x) for x in c['data']]
    elif kind == 'cat':
        c['dtype'] = p
        c['key'] = dict(CAT_KEY)
    elif kind == 'fix':
        c['strlen'] = p
    return c


def all_steps(targets, first_wk=True):
    steps = []
    wk = first_wk
    for a in AGGS:
        steps.append({'k': a, 't': list(targets), 'wk': wk})
        wk = False
    steps.append({'k': 'count', 't': [], 'wk': False})
    return steps


def rot_steps(targets, r):
    """the four aggregations and count, each on a rotating subset of the targets (HDF5 writes dominate the cost
    of a case: ~15 ms per destination column)"""
    t = list(targets)
    k = len(t)
    pick = lambda i, m: [t[(r + i + j) % k] for j in range(m)]
    order = [AGGS[(r + i) % 4] for i in range(4)]
    steps = [{'k': order[0], 't': pick(0, min(2, k)), 'wk': True, 'tstr': False},
             {'k': order[1], 't': pick(1, 1), 'wk': False, 'tstr': r % 2 == 0},
             {'k': order[2], 't': pick(2, 1), 'wk': False, 'tstr': False},
             {'k': order[3], 't': pick(0, 1), 'wk': False, 'tstr': True},
             {'k': 'count', 't': [], 'wk': False}]
    return steps


# ----------------------------------------------------------------------------- run
def dest_code(name):
    if name == 'count':
        return 5
    base, suffix = name, ''
    for s in ('_min', '_max', '_first', '_last'):
        if name.endswith(s):
            base, suffix = name[:-len(s)], s
    return 8 * int(base[1:]) + SUFFIX_CODE[suffix]


def canon_frame(ctx, df, code):
    out = []
    for name in list(df._columns.keys()):
        f = df._columns[name]
        fresh = ctx.s.get(df._h5group[name])
        out.append([code(name), B.canon_field(f, fresh)])
    h5names = sorted(df._h5group.keys())
    if h5names != sorted(df._columns.keys()):
        out.append(['CATALOGUE', h5names])
    return out


def names(l, as_str):
    r = ['c%d' % x for x in l]
    if as_str and len(r) == 1:
        return r[0]
    return r


def run(case):
    op = case['op']
    np = _np
    ctx = B.Ctx()
    try:
        if op == 'gb':
            df = ctx.newdf()
            for c in case['cols']:
                B.add_col(df, c)
            ddf = ctx.newdf()
            by = names(case['by'], case.get('bystr'))
            if case.get('dd'):
                r = df.drop_duplicates(by, ddf, case['hint'])
                assert r is ddf
            else:
                g = df.groupby(by, case['hint']) if case['hint'] else df.groupby(by)
                for st in case['steps']:
                    k = st['k']
                    if k == 'count':
                        r = g.count(ddf, st['wk']) if not st['wk'] else g.count(ddf=ddf)
                    elif k == 'distinct':
                        r = g.distinct(ddf, st['wk'])
                    else:
                        r = getattr(g, k)(names(st['t'], st.get('tstr')), ddf, st['wk'])
                    assert r is ddf
            return [canon_frame(ctx, ddf, dest_code), canon_frame(ctx, df, lambda n: int(n[1:]))]
        if op == 'agg':
            ix = case['index']
            if ix['kind'] == 'arr':
                index = np.array(ix['data'], dtype=np.int64)
            elif ix['kind'] == 'S':
                index = np.array([x.encode() for x in ix['data']], dtype='S2')
            else:
                df = ctx.newdf()
                index = B.add_col(df, dict(ix['col'], name=0))
            target = np.array(case['target'], dtype=np.int64)
            if case.get('tfield'):
                dft = ctx.newdf()
                target = dft.create_numeric('t', 'int64')
                target.data.write(np.array(case['target'], dtype=np.int64))
            dest = None
            if case['dest'] is not None:
                dfd = ctx.newdf()
                dest = dfd.create_numeric('d', 'int64')
                if case['dest']:
                    dest.data.write(np.array(case['dest'], dtype=np.int64))
            if case['a'] == 'count':
                r = ctx.s.aggregate_count(index, dest)
            else:
                r = getattr(ctx.s, 'aggregate_' + case['a'])(index, target, dest)
            if dest is not None:
                assert r is dest
                r = dest.data[:][len(case['dest']):]
            return [[int(x) for x in r], [] if dest is None else [[int(x) for x in dest.data[:]]]]
        if op == 'distinct':
            arrs = []
            for fc in case['fields']:
                kind, p, vals = FLAVOURS[fc['fl']]
                data = [vals[s] for s in fc['v']]
                if kind == 'fix':
                    arrs.append(np.array([x.encode() for x in data], dtype='S%d' % p))
                else:
                    arrs.append(np.array(data, dtype=p))
            if case.get('single'):
                r = [ctx.s.distinct(field=arrs[0])]
            else:
                r = ctx.s.distinct(fields=arrs)
            return [[[y] for y in B.arr_to_ints(a)] for a in r]
        raise ValueError(op)
    finally:
        ctx.close()


# ----------------------------------------------------------------------------- wire
def index_column_wire(ix):
    if ix['kind'] == 'arr':
        return [0, [int(x) for x in ix['data']]]
    if ix['kind'] == 'S':
        return [0, [B.be_int(x.encode().ljust(2, b'\0')) for x in ix['data']]]
    c = ix['col']
    w = B.col_to_wire(c)
    if c['kind'] == 'idx':
        return [2, w[3], w[4]]
    return [0, w[3]]


def to_val(case):
    op = case['op']
    if op == 'gb':
        cols = [[c['name'], B.col_to_wire(c)] for c in case['cols']]
        if case.get('dd'):
            return [2, cols, case['by'], 1 if case['hint'] else 0, []]
        steps = []
        for st in case['steps']:
            k = st['k']
            kind = 0 if k == 'count' else 1 if k == 'distinct' else 2
            steps.append([kind, AGG_CODE.get(k, 0), st['t'], 1 if st['wk'] else 0])
        return [1, cols, case['by'], 1 if case['hint'] else 0, [], steps]
    if op == 'agg':
        a = -1 if case['a'] == 'count' else AGG_CODE[case['a']]
        return [3, a, index_column_wire(case['index']), case['target'], [] if case['dest'] is None else [case['dest']]]
    if op == 'distinct':
        fields = []
        for fc in case['fields']:
            kind, p, vals = FLAVOURS[fc['fl']]
            c = col(0, fc['fl'], fc['v'])
            fields.append([[B.enc_scalar(c, x)] for x in c['data']])
        return [4, fields]
    raise ValueError(op)


def from_val(case, v):
    from harness import core
    m, s = v

    def dec(x):
        e = core.decode_err(x)
        return e if e is not None else x
    m = dec(m)
    if case['op'] == 'gb':
        src = [[c['name'], B.col_to_wire(c)] for c in case['cols']]
        if not isinstance(m, str):
            m = [m, src]
        if s != []:
            s = [s, src]
    if s == []:
        return (m, m)
    return (m, s)


# ----------------------------------------------------------------------------- features
def _keyrows(case):
    cols = {c['name']: c for c in case['cols']}
    try:
        kc = [cols[k] for k in case['by']]
    except KeyError:
        return None
    if not kc or len({len(c['data']) for c in case['cols']}) > 1:
        return None

    def keyval(c, x):
        if c['kind'] in ('idx', 'fix'):
            return x.encode()
        return x
    return [tuple(keyval(c, c['data'][i]) for c in kc) for i in range(len(kc[0]['data']))]


def features(case, model):
    f = ['op:' + case['op'] + ('/drop_duplicates' if case.get('dd') else '')]
    if isinstance(model, str):
        f.append('err:' + model)
    op = case['op']
    if op == 'gb':
        if case.get('malformed'):
            f.append('malformed:' + case['malformed'])
            return f
        rows = _keyrows(case)
        if rows is None:
            return f
        n = len(rows)
        srt = all(rows[i] <= rows[i + 1] for i in range(n - 1))
        f.append('rows=%s' % (n if n < 6 else '6+'))
        f.append('nkeys=%d' % len(case['by']))
        path = 'hint' if case['hint'] else ('sorted-checked' if srt else 'unsorted->stable-sort')
        f.append('path:' + path)
        ng = len(set(rows))
        f.append('groups=%s' % (ng if ng < 5 else '5+'))
        if n and ng == n: f.append('all-keys-distinct')
        if n > 1 and ng == 1: f.append('one-group')
        # a group whose members are not adjacent in the input: first/last depend on the stability of the sort
        pos = {}
        for i, r in enumerate(rows):
            pos.setdefault(r, []).append(i)
        if any(p[-1] - p[0] + 1 != len(p) for p in pos.values()): f.append('group-not-contiguous(stability)')
        cols = {c['name']: c for c in case['cols']}
        fls = [cols[k]['fl'] for k in case['by']]
        f.append('keys:' + '+'.join(fls))
        kinds = [(cols[k]['kind'], cols[k].get('dtype'), cols[k].get('strlen')) for k in case['by']]
        if len(set(kinds)) > 1: f.append('mixed-dtype-keys')
        if any(fl in ('big', 'u64') for fl in fls): f.append('key-beyond-2^53')
        if any(cols[k]['kind'] == 'idx' for k in case['by']): f.append('indexed-string-key')
        if len(fls) > 1 and any(fl in ('big', 'u64') for fl in fls) and len(set(kinds)) > 1: f.append('F-C07b-region')
        if len(fls) > 1 and any(cols[k]['kind'] in ('fix', 'idx') for k in case['by']) and any(cols[k]['kind'] in ('num', 'cat', 'ts') for k in case['by']):
            f.append('F-C07c-region(number+string key)')
        if any(cols[k]['kind'] == 'idx' for k in case['by']) and not srt and not case['hint']: f.append('F-C07d-region')
        for st in case.get('steps', []):
            f.append('agg:' + st['k'] + ('' if st['wk'] else '/no-keys'))
            for t in st['t']:
                c = cols.get(t)
                if c is None:
                    continue
                f.append('target:%s/%s' % (c['kind'], st['k']))
                if c['kind'] in ('idx', 'fix') and st['k'] in ('min', 'max'):
                    for p in pos.values():
                        ss = [c['data'][i].encode() for i in p]
                        if any(a != b and b.startswith(a) for a in ss for b in ss):
                            f.append('%s-%s:proper-prefix-in-group' % (c['kind'], st['k']))
                            break
                    if any('' in [c['data'][i] for i in p] and len(p) > 1 for p in pos.values()):
                        f.append('%s-%s:empty-string-in-group' % (c['kind'], st['k']))
        if len(case.get('steps', [])) > 1: f.append('several-calls-one-ddf')
    elif op == 'agg':
        f.append('agg:' + case['a'])
        ix = case['index']
        f.append('index:' + ix['kind'] + ('/' + ix['col']['kind'] if ix['kind'] == 'field' else ''))
        d = ix['data'] if ix['kind'] != 'field' else ix['col']['data']
        srt = all(d[i] <= d[i + 1] for i in range(len(d) - 1))
        f.append('index-sorted' if srt else 'index-pre-grouped-or-unsorted')
        if not d: f.append('rows=0')
        if case['dest'] is not None: f.append('dest-field')
        if case.get('tfield'): f.append('target-field')
        if case['a'] != 'count' and len(case['target']) != len(d): f.append('target-length-mismatch')
    elif op == 'distinct':
        f.append('distinct:%d-fields' % len(case['fields']) + ('/field=' if case.get('single') else ''))
        f.append('distinct:' + '+'.join(fc['fl'] for fc in case['fields']))
    return f


def nontrivial(case, model):
    fs = [x for x in features(case, model) if not x.startswith('op:')]
    return len(fs) >= 1 and model != 'BADCASE' and not case.get('malformed')


def known(case, impl, model, spec, mode):
    return None


def _norm(x):
    if isinstance(x, str) and x.startswith('EXC:'):
        # exception classes the model does not distinguish
        if x in ('EXC:Exception',):
            return 'EXC:Other'
    return x


def equal(case, impl, expected, mode):
    from harness import core
    return core.results_equal(_norm(impl), _norm(expected), mode)


# ----------------------------------------------------------------------------- generators
def seqs(symbols, n):
    return itertools.product(range(symbols), repeat=n)


def gb_case(keysyms_cols, key_fls, tsyms, triple, hint, steps=None, **kw):
    """keysyms_cols: one symbol sequence per key column; tsyms: the target pattern"""
    cols = []
    nk = len(keysyms_cols)
    for j, (ks, fl) in enumerate(zip(keysyms_cols, key_fls)):
        cols.append(col(j, fl, ks))
    tnames = []
    for j, fl in enumerate(triple):
        # the three target columns use rotations of the same pattern so that they are not all co-monotone
        pat = [(s + j) % 3 if j else s for s in tsyms]
        cols.append(col(nk + j, fl, pat))
        tnames.append(nk + j)
    case = {'op': 'gb', 'cols': cols, 'by': list(range(nk)), 'hint': hint,
            'steps': steps if steps is not None else all_steps(tnames)}
    case.update(kw)
    return case


def is_sorted_syms(keysyms_cols):
    rows = list(zip(*keysyms_cols)) if keysyms_cols and keysyms_cols[0] else []
    return all(rows[i] <= rows[i + 1] for i in range(len(rows) - 1))


def gen(tier, rng):
    global _TIER
    _TIER = tier
    big = tier == 'thorough'
    cnt = 0
    # (1) one key column, exhaustive keys x target patterns
    nfull = 3
    for n in range(0, (6 if big else 5)):
        for ks in seqs(3, n):
            tpats = list(seqs(3, n))
            if n > nfull:
                tpats = rng.sample(tpats, (27 if n == 4 else 4) if big else 4)
            for ts in tpats:
                cnt += 1
                fl = KEY_FLAVOURS_1[cnt % len(KEY_FLAVOURS_1)]
                triple = TARGET_TRIPLES[(cnt // 3) % len(TARGET_TRIPLES)]
                srt = is_sorted_syms([ks])
                hint = srt and cnt % 2 == 0
                c = gb_case([list(ks)], [fl], list(ts), triple, hint, bystr=(cnt % 5 == 0))
                if not (n <= 2 or big and cnt % 4 == 0):
                    c['steps'] = rot_steps([1, 2, 3], cnt)
                yield c
    # (2) two key columns
    nfull2 = 4 if big else 3
    pairs = list(itertools.product(range(2), range(3)))
    for n in range(0, nfull2 + 1):
        for rows in itertools.product(pairs, repeat=n):
            k0 = [r[0] for r in rows]
            k1 = [r[1] for r in rows]
            reps = 2 if n <= 2 else 1
            for _ in range(reps):
                cnt += 1
                fls = KEY_PAIRS[cnt % len(KEY_PAIRS)]
                ts = [rng.randrange(3) for _ in range(n)]
                triple = TARGET_TRIPLES[(cnt // 5) % len(TARGET_TRIPLES)]
                srt = is_sorted_syms([k0, k1])
                c = gb_case([k0, k1], fls, ts, triple, srt and cnt % 2 == 0)
                if n > 1:
                    c['steps'] = rot_steps([2, 3, 4], cnt)
                yield c
    if not big:
        # n = 4: a seeded sample
        allrows = list(itertools.product(pairs, repeat=4))
        for rows in rng.sample(allrows, 120):
            cnt += 1
            k0 = [r[0] for r in rows]; k1 = [r[1] for r in rows]
            fls = KEY_PAIRS[cnt % len(KEY_PAIRS)]
            ts = [rng.randrange(3) for _ in range(4)]
            yield gb_case([k0, k1], fls, ts, TARGET_TRIPLES[cnt % len(TARGET_TRIPLES)],
                          is_sorted_syms([k0, k1]) and cnt % 2 == 0, steps=rot_steps([2, 3, 4], cnt))
    # every mixed pair on the witnesses of F-C07b / F-C07c: (1,0) rows with equal second key
    for fls in KEY_PAIRS + [(b, a) for (a, b) in KEY_PAIRS]:
        for k0, k1 in (([1, 0], [0, 0]), ([1, 0, 1, 0], [0, 0, 0, 0]), ([0, 0], [1, 0]), ([2, 1, 0], [1, 1, 1]), ([0, 1, 2], [0, 0, 0])):
            if 'bool' in fls and max(k0 + k1) > 1:
                continue
            yield gb_case([k0, k1], fls, [0, 1, 2, 0][:len(k0)], TARGET_TRIPLES[0][:1], False,
                          steps=[{'k': 'count', 't': [], 'wk': True}, {'k': 'first', 't': [2], 'wk': False}])
    # (3) three key columns over {0,1}
    trip_fl = [('i32', 'fix1', 'idxA'), ('big', 'f64', 'i8'), ('cat', 'cat', 'cat'), ('fix2', 'fix2', 'fix2'), ('idxA', 'i64', 'ts')]
    for n in range(0, 4):
        for rows in itertools.product(list(itertools.product(range(2), repeat=3)), repeat=n):
            if n == 3 and rng.random() > (0.5 if big else 0.12):
                continue
            cnt += 1
            ks = [[r[j] for r in rows] for j in range(3)]
            ts = [rng.randrange(3) for _ in range(n)]
            yield gb_case(ks, trip_fl[cnt % len(trip_fl)], ts, TARGET_TRIPLES[cnt % len(TARGET_TRIPLES)],
                          is_sorted_syms(ks) and cnt % 2 == 0,
                          steps=[{'k': AGGS[cnt % 4], 't': [3, 5], 'wk': True}, {'k': AGGS[(cnt + 1) % 4], 't': [4], 'wk': False},
                                 {'k': 'count', 't': [], 'wk': False}])
    # (4) drop_duplicates and distinct()
    for n in range(0, 5 if not big else 6):
        for ks in seqs(3, n):
            cnt += 1
            fl = KEY_FLAVOURS_1[cnt % len(KEY_FLAVOURS_1)]
            srt = is_sorted_syms([ks])
            c = gb_case([list(ks)], [fl], [0] * n, (), srt and cnt % 2 == 0, steps=[], dd=True, bystr=(cnt % 3 == 0))
            yield c
    for n in range(0, 4):
        for rows in itertools.product(pairs, repeat=n):
            cnt += 1
            k0 = [r[0] for r in rows]; k1 = [r[1] for r in rows]
            fls = KEY_PAIRS[cnt % len(KEY_PAIRS)]
            if cnt % 2:
                yield gb_case([k0, k1], fls, [0] * n, (), False, steps=[], dd=True)
            else:
                yield gb_case([k0, k1], fls, [0] * n, (), False,
                              steps=[{'k': 'distinct', 't': [], 'wk': True}, {'k': 'count', 't': [], 'wk': False}])
    # (5) Session.aggregate_*
    for n in range(0, 6 if not big else 7):
        allk = list(seqs(3, n))
        if len(allk) > 243:
            allk = rng.sample(allk, 243)
        for ks in allk:
            cnt += 1
            target = [rng.choice([5, -3, 9, 9, 0, BIG + 1]) for _ in range(n)]
            kindsel = cnt % 4
            if kindsel == 0:
                index = {'kind': 'arr', 'data': list(ks)}
            elif kindsel == 1:
                index = {'kind': 'S', 'data': [['', 'a', 'ab'][s] for s in ks]}
            elif kindsel == 2:
                index = {'kind': 'field', 'col': col(0, 'i32', ks)}
            else:
                index = {'kind': 'field', 'col': col(0, 'idxA', ks)}
            for a in ['count'] + AGGS:
                dest = None if (cnt + len(a)) % 3 else ([] if cnt % 2 else [7])
                yield {'op': 'agg', 'a': a, 'index': index, 'target': target, 'dest': dest, 'tfield': cnt % 7 == 0}
    # Session.distinct
    for n in range(0, 5):
        for ks in seqs(3, n):
            cnt += 1
            fl = ['i64', 'big', 'fix2', 'f64', 'u64'][cnt % 5]
            yield {'op': 'distinct', 'fields': [{'fl': fl, 'v': list(ks)}], 'single': cnt % 2 == 0}
    for n in range(0, 4):
        for rows in itertools.product(pairs, repeat=n):
            cnt += 1
            fls = [p for p in KEY_PAIRS if not any(x.startswith('idx') or x in ('cat', 'ts') for x in p)]
            fl = fls[cnt % len(fls)]
            yield {'op': 'distinct', 'fields': [{'fl': fl[0], 'v': [r[0] for r in rows]}, {'fl': fl[1], 'v': [r[1] for r in rows]}]}
    # (6) random larger frames
    for _ in range(600 if big else 120):
        cnt += 1
        n = rng.randint(5, 40)
        nk = rng.choice([1, 1, 2, 2, 3])
        card = rng.randint(1, 5)
        ks = [[rng.randrange(card) for _ in range(n)] for _ in range(nk)]
        if rng.random() < 0.3:
            order = sorted(range(n), key=lambda i: tuple(k[i] for k in ks))
            ks = [[k[i] for i in order] for k in ks]
        fls = [rng.choice([f for f in FLAVOURS if f != 'bool']) for _ in range(nk)]
        ts = [rng.randrange(5) for _ in range(n)]
        triple = rng.choice(TARGET_TRIPLES)
        cols = [col(j, fl, k) for j, (fl, k) in enumerate(zip(fls, ks))]
        tn = []
        for j, fl in enumerate(triple):
            cols.append(col(nk + j, fl, [(s * (j + 1) + j) % 5 for s in ts]))
            tn.append(nk + j)
        srt = is_sorted_syms(ks)
        yield {'op': 'gb', 'cols': cols, 'by': list(range(nk)), 'hint': srt and rng.random() < 0.5, 'steps': all_steps(tn)}
    # (7) malformed stream (outside the property's precondition; model == implementation only)
    base = gb_case([[1, 0, 1]], ['i32'], [0, 1, 2], TARGET_TRIPLES[0], False)
    yield dict(base, hint=True, malformed='untruthful-hint')
    yield dict(gb_case([[1, 0, 1, 0]], ['fix2'], [0, 1, 2, 0], TARGET_TRIPLES[1], True), malformed='untruthful-hint')
    yield dict(gb_case([[1, 0, 0], [0, 1, 0]], ['i32', 'idxA'], [0, 1, 2], TARGET_TRIPLES[1], True), malformed='untruthful-hint')
    yield dict(base, by=[], malformed='empty-by')
    yield dict(base, by=[9], malformed='unknown-key')
    yield dict(base, by=[0, 0], malformed='duplicate-key')
    yield dict(base, steps=[{'k': 'min', 't': [0], 'wk': True}], malformed='target-is-key')
    yield dict(base, steps=[{'k': 'min', 't': [], 'wk': True}], malformed='empty-target')
    yield dict(base, steps=[{'k': 'min', 't': [7], 'wk': True}], malformed='unknown-target')
    yield dict(base, steps=[{'k': 'min', 't': [1, 1], 'wk': True}], malformed='duplicate-target')
    yield dict(base, steps=[{'k': 'min', 't': [1], 'wk': True}, {'k': 'max', 't': [1], 'wk': True}], malformed='keys-written-twice')
    yield dict(base, steps=[{'k': 'count', 't': [], 'wk': True}, {'k': 'count', 't': [], 'wk': False}], malformed='count-twice')
    for hint in (False, True):
        c = gb_case([[0, 1, 1]], ['i32'], [0, 1, 2], TARGET_TRIPLES[0], hint)
        c['cols'][1]['data'] = c['cols'][1]['data'][:2]
        yield dict(c, malformed='ragged-target')
        c = gb_case([[1, 0, 1]], ['i32'], [0, 1, 2], TARGET_TRIPLES[0], hint)
        c['cols'][2]['data'] = c['cols'][2]['data'][:2]
        yield dict(c, malformed='ragged-target')
        c = gb_case([[0, 1, 1], [0, 0, 1]], ['i32', 'i32'], [0, 1, 2], TARGET_TRIPLES[0], hint)
        c['cols'][1]['data'] = c['cols'][1]['data'][:2]
        yield dict(c, malformed='ragged-keys')
    yield {'op': 'agg', 'a': 'min', 'index': {'kind': 'arr', 'data': [0, 0, 1]}, 'target': [1, 2], 'dest': None}
    yield {'op': 'agg', 'a': 'first', 'index': {'kind': 'arr', 'data': [0, 0, 1]}, 'target': [1, 2, 3, 4], 'dest': None}


def skip(case, mode):
    """quick tier: the HDF5-heavy dataframe cases run interpreted (nojit) for every third case only"""
    import hashlib, json
    if case['op'] != 'gb' or mode == 'jit' or _TIER == 'thorough':
        return False
    h = int(hashlib.sha256(json.dumps(case, sort_keys=True).encode()).hexdigest()[:8], 16)
    return h % 3 != 0


def shrink(case):
    if case['op'] != 'gb':
        return
    if len(case.get('steps', [])) > 1:
        for i in range(len(case['steps'])):
            st = dict(case['steps'][i], wk=True)
            yield dict(case, steps=[st])
    n = len(case['cols'][0]['data']) if case['cols'] else 0
    for i in range(n):
        cols = [dict(c, data=c['data'][:i] + c['data'][i + 1:]) for c in case['cols']]
        yield dict(case, cols=cols)
    used = set(case['by'])
    for st in case.get('steps', []):
        used |= set(st['t'])
    for j, c in enumerate(case['cols']):
        if c['name'] not in used:
            yield dict(case, cols=case['cols'][:j] + case['cols'][j + 1:])
    for st_i, st in enumerate(case.get('steps', [])):
        if len(st['t']) > 1:
            for t in st['t']:
                steps = list(case['steps'])
                steps[st_i] = dict(st, t=[t])
                yield dict(case, steps=steps)
