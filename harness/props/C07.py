"""C07 — group-by results equal the group-wise reference computation.
   Real code: exetera/core/dataframe.py (groupby, drop_duplicates, HDF5DataFrameGroupBy.*), fields.py
              (FieldDataOps.apply_spans_*), operations.py (span kernels), session.py (dataset_sort_index,
              aggregate_*, distinct)
   Model:     coq/Model/Group.v (+ Spans.v, FilterIndex.v, StableSort.v);  spec: coq/Spec/GroupSpec.v
"""
import itertools
from harness.props import C09 as B

PROP, NUM = 'C07', 7
PROPS_FILES = ['Props/C07.v']
MODES = ['jit', 'nojit']
MODES_THOROUGH = ['jit', 'nojit', 'bounds']
LEVEL = 'proof'
TIMEOUT_S = 30.0
EXHAUSTIVE = {'quick': True, 'thorough': True}
TECHNIQUE = ('Coq proof (Gallina model of DataFrame.groupby, the HDF5DataFrameGroupBy methods, drop_duplicates and '
             'Session.aggregate_* composed from the span kernels of C08 and the stable LSD sort / apply_index of C09 '
             '= group-wise reference over the ascending distinct key tuples) + exhaustive small-scope differential '
             'correspondence against real HDF5-backed dataframes')
RULE = ('exhaustive small scope, then seeded random, then a malformed stream. (1) one key column: every key sequence '
        'over 3 symbols x every target pattern over 3 symbols for <= 3 rows, plus every key sequence of 4 rows (thorough: and 5 rows) x a seeded sample of 4 (thorough 27) target patterns, the key column cycling through '
        'int32 / int64 beyond 2^53 / uint64 / float / bool / categorical / timestamp / fixed string / indexed string, '
        'three target columns per frame (numeric, fixed string, indexed string over prefix-heavy alphabets with empty '
        'strings and differing lengths) and all of min, max, first, last, count in one destination (write_keys on the '
        'first call only); sorted inputs are run with and without the hint. (2) two key columns: every sequence of '
        'pairs over {0,1}x{0,1,2} for <= 4 rows x a rotation of 12 dtype pairs incl. mixed (int64>2^53 with float64 / '
        'uint64, number with fixed string, fixed with indexed string, S1 with S2). (3) three key columns over {0,1} '
        'for <= 3 rows. (4) drop_duplicates / distinct on 1-2 keys. (5) Session.aggregate_count/first/last/min/max on '
        'every index over 3 symbols for <= 5 rows (ndarray, Field, indexed-string Field index; sorted or merely '
        'pre-grouped) and Session.distinct on 1-2 arrays. (6) random frames up to 40 rows, 1-3 keys, cardinality <= 5. '
        '(7) malformed: untruthful hint, ragged columns, target = key, unknown names, empty lists, destination name '
        'clash (model == implementation only; never counted as property cases). (8) KEY VALUES: every key sequence over 3 '
        'symbols for <= 3 rows (5 symbols for 2 rows) in 10 value flavours whose neighbouring keys differ only in trailing '
        'blanks / tabs / newlines / case / high bytes (fixed and indexed strings) or sit at both ends of int8 / int64 / uint64 / '
        'float32 / float64 (signed zeros = one key), group-by + drop_duplicates; 10 mixed pairs of them in both orders over all '
        'pair sequences <= 2 rows (thorough 3); random frames with 1-3 such keys; Session.aggregate_* / distinct on such arrays '
        '(by groupby_key_embedding the result must be the image of the result on ranks). (9) HISTORIES on ONE dataframe object: '
        '11 scripts (group by k; change column k through the field — data[:] = new, clear()+write(), field.apply_index in place — '
        'or through the dataframe — apply_filter / apply_index / sort_values in place; group by k again; interleaved group-bys on '
        'other keys, drop_duplicates, repeated calls, rewritten targets) over every (old, new) pair of key sequences over 3 '
        'symbols for 1-2 rows, 150 sampled pairs of 3 rows (thorough all 729), 60 (thorough 500) random histories of 5-9 events; '
        'every destination and the final source frame compared. Change-directed (harness/hot.py): new small literals of the '
        'tree under test are planted as row counts; a changed tree triples the sampled budgets. HDF5-backed cases cost ~10-25 ms '
        'each, hence the row bounds. After every call the whole destination dataframe (names, class / dtype / strlen / '
        'categorical key and content of every column, read through the cached and through fresh Field objects) and the '
        'source dataframe are compared with the model AND with the row-level specification.')
TRUSTED = ['numpy np.asarray / np.unique(return_inverse) used by _stack_key_columns (fix F-C07b) to stack key columns '
           'is taken to preserve order and equality of the key values: not modelled, exercised by this correspondence',
           'numpy integer indexing / argsort(kind="stable") / np.unique and h5py dataset create/resize are modelled '
           '(np_take, argsort, np_unique_rows, ds_write), not verified',
           'order-preserving integer encoding of floats (multiples of 1/2), fixed strings (big-endian) and UTF-8 strings '
           '(byte order = code point order) done by harness/props/C09.py + this module',
           'Sorting.Permutation / Sorted from the Coq standard library (no axioms)']
ASSUMPTIONS = ['fields are well-formed (index dataset = prefix sums of entry lengths) and all columns have the same length',
               'keys and targets are totally ordered (no NaN)', 'a sorted hint is truthful',
               'strings contain no NUL characters (numpy S/U arrays drop trailing NULs)']
LEVEL_TEXT = ('24 theorems in coq/Props/C07.v (all closed under the global context) prove for all inputs (unbounded rows, key '
              'columns, groups, entry lengths, targets, calls): the row-level composition (stable lexicographic sort + spans of '
              'the sorted key rows + ANY per-span reduction = that reduction applied to the members of each distinct key tuple '
              'in original row order, keys ascending; span lengths = group sizes; counts sum to the row count; a sorted input '
              'is left alone so the hint changes nothing); that the model of DataFrame.groupby never fails on a well-formed '
              'frame and returns exactly those spans / that permutation; and at dataframe level the FULL statement '
              'groupby_steps_correct: spec_groupby_steps = Some r -> df_groupby_steps = Ok r, i.e. any sequence of count / '
              'distinct / min / max / first / last calls (with or without write_keys, any number of targets of any field '
              'class incl. indexed strings) into one destination yields exactly the specified columns (groupby_agg_correct, '
              'groupby_agg_target_correct, groupby_count_correct, drop_duplicates_correct are its per-call parts); '
              'Session.aggregate_count/min/max/first/last (aggregate_correct, aggregate_count_correct, '
              'aggregate_agrees_with_groupby) and Session.distinct (session_distinct_correct) equal their references of '
              'Spec/GroupSpec.v; history_correct / history_last_call_alone: in any history of group-bys, in-place writes into '
              'columns, field- and dataframe-level apply_index / apply_filter / sort_values on one dataframe every group-by '
              'equals the reference of the frame as it is at the time of the call; groupby_key_embedding / '
              'agg_by_order_embedding: groups and every aggregate are invariant under any order embedding of the key values. '
              'The model is tied to the repository by the differential run described in `rule`, where '
              'every case is also judged against the extracted specification.')
LEVEL_NOTE = ('The coercion performed by numpy when key columns are stacked into one 2-d array happens before any kernel '
              'runs and is outside the model (after fix F-C07b it is rank-preserving); it is covered by the correspondence '
              'only. The theorems assume well-formed storage (frame_ok / column_okb), a truthful hint and fresh destination '
              'names (the specification is None otherwise and only model == implementation is decided).')

_np = None
_Session = None
_TIER = 'quick'

AGGS = ['min', 'max', 'first', 'last']
AGG_CODE = {'min': 0, 'max': 1, 'first': 2, 'last': 3}
SUFFIX_CODE = {'': 0, '_min': 1, '_max': 2, '_first': 3, '_last': 4}
BIG = 2 ** 53


def setup():
    global _np, _Session
    B.setup()
    import numpy as np
    from exetera.core.session import Session
    _np, _Session = np, Session


def warmup():
    for case in [
        {'op': 'gb', 'cols': [col(0, 'i32', [1, 0, 1]), col(1, 'i64', [3, 2, 1]), col(2, 'fix2', [1, 0, 2]), col(3, 'idxA', [1, 0, 2])],
         'by': [0], 'hint': False, 'steps': all_steps([1, 2, 3])},
        {'op': 'gb', 'cols': [col(0, 'fix2', [1, 0, 1]), col(1, 'idxA', [0, 2, 1]), col(2, 'i64', [1, 0, 2])],
         'by': [0, 1], 'hint': False, 'steps': all_steps([2])},
        {'op': 'gb', 'cols': [col(0, 'big', [1, 0, 1]), col(1, 'f64', [0, 2, 1]), col(2, 'i64', [1, 0, 2])],
         'by': [0, 1], 'hint': False, 'steps': all_steps([2])},
        {'op': 'agg', 'a': 'min', 'index': {'kind': 'arr', 'data': [0, 0, 1]}, 'target': [3, 1, 2], 'dest': None},
    ]:
        try:
            run(case)
        except Exception:
            pass


# ----------------------------------------------------------------------------- column flavours
# a column flavour maps an abstract symbol 0..4 (order-preserving) to a concrete value of some field type
FLAVOURS = {
    'i8': ('num', 'int8', [-2, 0, 1, 5, 7]),
    'i32': ('num', 'int32', [-1, 0, 7, 8, 100]),
    'i64': ('num', 'int64', [-5, 3, 9, 10, 11]),
    'big': ('num', 'int64', [BIG, BIG + 1, BIG + 2, BIG + 3, BIG + 5]),
    'u64': ('num', 'uint64', [1, 2 ** 63, 2 ** 63 + 1, 2 ** 63 + 2, 2 ** 64 - 1]),
    'f64': ('num', 'float64', [-0.5, 0.5, 1.5, 2.0, 1e6]),
    'f32': ('num', 'float32', [-1.5, 0.0, 0.5, 3.0, 4.5]),
    'bool': ('num', 'bool', [False, True, True, True, True]),
    'cat': ('cat', 'int8', [0, 1, 2, 3, 4]),
    'ts': ('ts', 'float64', [0.5, 1.0, 2.5, 3.0, 1e9]),
    'fix1': ('fix', 1, ['', 'a', 'b', 'c', 'z']),
    'fix2': ('fix', 2, ['', 'a', 'ab', 'b', 'zz']),
    'fix3': ('fix', 3, ['a', 'a!', 'ab', 'abc', 'b']),
    'idxA': ('idx', None, ['', 'a', 'ab', 'b', 'zz']),
    'idxB': ('idx', None, ['a', 'a!', 'aa', 'ab', 'b']),
    'idxC': ('idx', None, ['', 'a', 'a!', 'bé', 'zz']),
    'idxD': ('idx', None, ['aa', 'ab', 'b', 'zz', 'zzz']),
    # key VALUE classes (TC07): every list is ascending in the order the library must use (bytewise / numeric);
    # neighbours differ only in trailing blanks / control characters / case / high bytes, or sit at the ends of the dtype
    'fixW': ('fix', 3, ['ab', 'ab\t', 'ab ', 'b', 'b ']),
    'fixX': ('fix', 4, ['A', 'a', 'a\n', 'a ', 'a  ']),
    'fixH': ('fix', 3, ['B', 'a', 'a\x7f', 'a\u00e9', 'b']),
    'idxW': ('idx', None, ['A', 'a', 'a\t', 'a ', 'b']),
    'idxH': ('idx', None, [' ', 'a', 'a\x7f', 'a\u00e9', 'a\u20ac']),
    'i8x': ('num', 'int8', [-128, -127, 0, 126, 127]),
    'i64x': ('num', 'int64', [-2 ** 63, -2 ** 63 + 1, 0, 2 ** 63 - 2, 2 ** 63 - 1]),
    'u64x': ('num', 'uint64', [0, 2 ** 53 + 1, 2 ** 63 - 1, 2 ** 64 - 2, 2 ** 64 - 1]),
    'f64x': ('num', 'float64', [-1e300, -0.0, 0.0, 2.0 ** -1, 1e300]),          # signed zeros are ONE key
    'f32x': ('num', 'float32', [-2.0 ** 100, -0.5, -0.0, 0.0, 2.0 ** 100]),
}
VALUE_FLAVOURS = ['fixW', 'fixX', 'fixH', 'idxW', 'idxH', 'i8x', 'i64x', 'u64x', 'f64x', 'f32x']
VALUE_PAIRS = [('i64x', 'f64x'), ('i64x', 'u64x'), ('fixW', 'idxW'), ('fixW', 'i32'), ('fixW', 'fixH'), ('idxW', 'idxH'),
               ('u64x', 'f32x'), ('fixX', 'fixW'), ('i8x', 'i64x'), ('f64x', 'fixX')]
CAT_KEY = {'a': 0, 'b': 1, 'c': 2, 'd': 3, 'e': 4}
KEY_FLAVOURS_1 = ['i32', 'big', 'fix2', 'idxA', 'cat', 'ts', 'f64', 'u64', 'i8', 'idxB', 'fix3', 'f32']
TARGET_TRIPLES = [('i64', 'fix2', 'idxA'), ('f64', 'fix3', 'idxB'), ('cat', 'fix2', 'idxC'), ('ts', 'fix1', 'idxD'),
                  ('i8', 'fix3', 'idxA'), ('big', 'fix2', 'idxB')]
KEY_PAIRS = [('i32', 'i32'), ('big', 'f64'), ('i64', 'fix1'), ('fix2', 'idxA'), ('i32', 'i64'), ('cat', 'ts'),
             ('bool', 'i8'), ('u64', 'i8'), ('fix1', 'fix2'), ('idxA', 'idxB'), ('f32', 'big'), ('idxB', 'i64'),
             ('big', 'u64'), ('f64', 'fix2')]


def col(name, flavour, syms):
    kind, p, vals = FLAVOURS[flavour]
    c = {'name': name, 'kind': kind, 'data': [vals[s] for s in syms], 'fl': flavour}
    if kind == 'num':
        c['dtype'] = p
        if p == 'bool':
            c['data'] = [bool(x) for x in c['data']]
    elif kind == 'cat':
        c['dtype'] = p
        c['key'] = dict(CAT_KEY)
    elif kind == 'fix':
        c['strlen'] = p
    return c


def all_steps(targets, first_wk=True):
    steps = []
    wk = first_wk
    for a in AGGS:
        steps.append({'k': a, 't': list(targets), 'wk': wk})
        wk = False
    steps.append({'k': 'count', 't': [], 'wk': False})
    return steps


def rot_steps(targets, r):
    """the four aggregations and count, each on a rotating subset of the targets (HDF5 writes dominate the cost
    of a case: ~15 ms per destination column)"""
    t = list(targets)
    k = len(t)
    pick = lambda i, m: [t[(r + i + j) % k] for j in range(m)]
    order = [AGGS[(r + i) % 4] for i in range(4)]
    steps = [{'k': order[0], 't': pick(0, min(2, k)), 'wk': True, 'tstr': False},
             {'k': order[1], 't': pick(1, 1), 'wk': False, 'tstr': r % 2 == 0},
             {'k': order[2], 't': pick(2, 1), 'wk': False, 'tstr': False},
             {'k': order[3], 't': pick(0, 1), 'wk': False, 'tstr': True},
             {'k': 'count', 't': [], 'wk': False}]
    return steps


# ----------------------------------------------------------------------------- run
def dest_code(name):
    if name == 'count':
        return 5
    base, suffix = name, ''
    for s in ('_min', '_max', '_first', '_last'):
        if name.endswith(s):
            base, suffix = name[:-len(s)], s
    return 8 * int(base[1:]) + SUFFIX_CODE[suffix]


def canon_frame(ctx, df, code):
    out = []
    for name in list(df._columns.keys()):
        f = df._columns[name]
        fresh = ctx.s.get(df._h5group[name])
        out.append([code(name), B.canon_field(f, fresh)])
    h5names = sorted(df._h5group.keys())
    if h5names != sorted(df._columns.keys()):
        out.append(['CATALOGUE', h5names])
    return out


def names(l, as_str):
    r = ['c%d' % x for x in l]
    if as_str and len(r) == 1:
        return r[0]
    return r


def _do_steps(g, ddf, steps):
    for st in steps:
        k = st['k']
        if k == 'count':
            r = g.count(ddf, st['wk']) if not st['wk'] else g.count(ddf=ddf)
        elif k == 'distinct':
            r = g.distinct(ddf, st['wk'])
        else:
            r = getattr(g, k)(names(st['t'], st.get('tstr')), ddf, st['wk'])
        assert r is ddf


def run_hist(ctx, case):
    """a history of calls on ONE dataframe object (and on its field objects): every group-by goes into a fresh destination"""
    np = _np
    df = ctx.newdf()
    for c in case['cols']:
        B.add_col(df, c)
    outs = []
    for ev in case['evs']:
        e = ev['e']
        if e == 'gb':
            ddf = ctx.newdf()
            by = names(ev['by'], ev.get('bystr'))
            g = df.groupby(by, True) if ev['hint'] else df.groupby(by)
            _do_steps(g, ddf, ev['steps'])
            outs.append(ddf)
        elif e == 'dd':
            ddf = ctx.newdf()
            r = df.drop_duplicates(names(ev['by'], ev.get('bystr')), ddf, ev['hint'])
            assert r is ddf
            outs.append(ddf)
        elif e == 'write':
            f = df['c%d' % ev['name']]
            c = ev['col']
            new = list(c['data']) if c['kind'] == 'idx' else B.np_data(c)
            if ev['how'] == 'slice':
                f.data[:] = new                   # same field object, same length
            else:
                f.data.clear()
                f.data.write(new)
            assert df['c%d' % ev['name']] is f
        elif e == 'findex':
            f = df['c%d' % ev['name']]
            f.apply_index(np.array(ev['idx'], dtype=np.int64), in_place=True)
        elif e == 'filter':
            r = df.apply_filter(np.array(ev['flt'], dtype=bool))
            assert r is df
        elif e == 'index':
            r = df.apply_index(np.array(ev['idx'], dtype=np.int64))
            assert r is df
        elif e == 'sort':
            r = df.sort_values(names(ev['by'], ev.get('bystr')))
            assert r is df
        else:
            raise ValueError(e)
    return [[canon_frame(ctx, d, dest_code) for d in outs], canon_frame(ctx, df, lambda n: int(n[1:]))]


def run(case):
    op = case['op']
    np = _np
    ctx = B.Ctx()
    try:
        if op == 'gb':
            df = ctx.newdf()
            for c in case['cols']:
                B.add_col(df, c)
            ddf = ctx.newdf()
            by = names(case['by'], case.get('bystr'))
            if case.get('dd'):
                r = df.drop_duplicates(by, ddf, case['hint'])
                assert r is ddf
            else:
                g = df.groupby(by, case['hint']) if case['hint'] else df.groupby(by)
                _do_steps(g, ddf, case['steps'])
            return [canon_frame(ctx, ddf, dest_code), canon_frame(ctx, df, lambda n: int(n[1:]))]
        if op == 'hist':
            return run_hist(ctx, case)
        if op == 'agg':
            ix = case['index']
            if ix['kind'] == 'arr':
                index = np.array(ix['data'], dtype=np.int64)
            elif ix['kind'] == 'S':
                index = np.array([x.encode() for x in ix['data']], dtype='S2')
            else:
                df = ctx.newdf()
                index = B.add_col(df, dict(ix['col'], name=0))
            target = np.array(case['target'], dtype=np.int64)
            if case.get('tfield'):
                dft = ctx.newdf()
                target = dft.create_numeric('t', 'int64')
                target.data.write(np.array(case['target'], dtype=np.int64))
            dest = None
            if case['dest'] is not None:
                dfd = ctx.newdf()
                dest = dfd.create_numeric('d', 'int64')
                if case['dest']:
                    dest.data.write(np.array(case['dest'], dtype=np.int64))
            if case['a'] == 'count':
                r = ctx.s.aggregate_count(index, dest)
            else:
                r = getattr(ctx.s, 'aggregate_' + case['a'])(index, target, dest)
            if dest is not None:
                assert r is dest
                r = dest.data[:][len(case['dest']):]
            return [[int(x) for x in r], [] if dest is None else [[int(x) for x in dest.data[:]]]]
        if op == 'distinct':
            arrs = []
            for fc in case['fields']:
                kind, p, vals = FLAVOURS[fc['fl']]
                data = [vals[s] for s in fc['v']]
                if kind == 'fix':
                    arrs.append(np.array([x.encode() for x in data], dtype='S%d' % p))
                else:
                    arrs.append(np.array(data, dtype=p))
            if case.get('single'):
                r = [ctx.s.distinct(field=arrs[0])]
            else:
                r = ctx.s.distinct(fields=arrs)
            return [[[y] for y in B.arr_to_ints(a)] for a in r]
        raise ValueError(op)
    finally:
        ctx.close()


# ----------------------------------------------------------------------------- wire
def index_column_wire(ix):
    if ix['kind'] == 'arr':
        return [0, [int(x) for x in ix['data']]]
    if ix['kind'] == 'S':
        return [0, [B.be_int(x.encode().ljust(2, b'\0')) for x in ix['data']]]
    c = ix['col']
    w = B.col_to_wire(c)
    if c['kind'] == 'idx':
        return [2, w[3], w[4]]
    return [0, w[3]]


def _steps_wire(sts):
    steps = []
    for st in sts:
        k = st['k']
        kind = 0 if k == 'count' else 1 if k == 'distinct' else 2
        steps.append([kind, AGG_CODE.get(k, 0), st['t'], 1 if st['wk'] else 0])
    return steps


def to_val(case):
    op = case['op']
    if op == 'gb':
        cols = [[c['name'], B.col_to_wire(c)] for c in case['cols']]
        if case.get('dd'):
            return [2, cols, case['by'], 1 if case['hint'] else 0, []]
        return [1, cols, case['by'], 1 if case['hint'] else 0, [], _steps_wire(case['steps'])]
    if op == 'hist':
        cols = [[c['name'], B.col_to_wire(c)] for c in case['cols']]
        evs = []
        for ev in case['evs']:
            e = ev['e']
            if e == 'gb':
                evs.append([0, ev['by'], 1 if ev['hint'] else 0, _steps_wire(ev['steps'])])
            elif e == 'dd':
                evs.append([1, ev['by'], 1 if ev['hint'] else 0])
            elif e == 'write':
                evs.append([2, ev['name'], B.col_to_wire(ev['col'])])
            elif e == 'findex':
                evs.append([3, ev['name'], ev['idx']])
            elif e == 'filter':
                evs.append([4, ev['flt']])
            elif e == 'index':
                evs.append([5, ev['idx']])
            elif e == 'sort':
                evs.append([6, ev['by']])
            else:
                raise ValueError(e)
        return [5, cols, evs]
    if op == 'agg':
        a = -1 if case['a'] == 'count' else AGG_CODE[case['a']]
        return [3, a, index_column_wire(case['index']), case['target'], [] if case['dest'] is None else [case['dest']]]
    if op == 'distinct':
        fields = []
        for fc in case['fields']:
            kind, p, vals = FLAVOURS[fc['fl']]
            c = col(0, fc['fl'], fc['v'])
            fields.append([[B.enc_scalar(c, x)] for x in c['data']])
        return [4, fields]
    raise ValueError(op)


def from_val(case, v):
    from harness import core
    m, s = v

    def dec(x):
        e = core.decode_err(x)
        return e if e is not None else x
    m = dec(m)
    if case['op'] == 'gb':
        src = [[c['name'], B.col_to_wire(c)] for c in case['cols']]
        if not isinstance(m, str):
            m = [m, src]
        if s != []:
            s = [s, src]
    if s == []:
        return (m, m)
    return (m, s)


# ----------------------------------------------------------------------------- features
def _keyrows(case):
    cols = {c['name']: c for c in case['cols']}
    try:
        kc = [cols[k] for k in case['by']]
    except KeyError:
        return None
    if not kc or len({len(c['data']) for c in case['cols']}) > 1:
        return None

    def keyval(c, x):
        if c['kind'] in ('idx', 'fix'):
            return x.encode()
        return x
    return [tuple(keyval(c, c['data'][i]) for c in kc) for i in range(len(kc[0]['data']))]


def features(case, model):
    f = ['op:' + case['op'] + ('/drop_duplicates' if case.get('dd') else '')]
    if isinstance(model, str):
        f.append('err:' + model)
    op = case['op']
    if op == 'gb':
        if case.get('malformed'):
            f.append('malformed:' + case['malformed'])
            return f
        rows = _keyrows(case)
        if rows is None:
            return f
        n = len(rows)
        srt = all(rows[i] <= rows[i + 1] for i in range(n - 1))
        f.append('rows=%s' % (n if n < 6 else '6+'))
        f.append('nkeys=%d' % len(case['by']))
        path = 'hint' if case['hint'] else ('sorted-checked' if srt else 'unsorted->stable-sort')
        f.append('path:' + path)
        ng = len(set(rows))
        f.append('groups=%s' % (ng if ng < 5 else '5+'))
        if n and ng == n: f.append('all-keys-distinct')
        if n > 1 and ng == 1: f.append('one-group')
        # a group whose members are not adjacent in the input: first/last depend on the stability of the sort
        pos = {}
        for i, r in enumerate(rows):
            pos.setdefault(r, []).append(i)
        if any(p[-1] - p[0] + 1 != len(p) for p in pos.values()): f.append('group-not-contiguous(stability)')
        cols = {c['name']: c for c in case['cols']}
        fls = [cols[k]['fl'] for k in case['by']]
        f.append('keys:' + '+'.join(fls))
        kinds = [(cols[k]['kind'], cols[k].get('dtype'), cols[k].get('strlen')) for k in case['by']]
        if len(set(kinds)) > 1: f.append('mixed-dtype-keys')
        if any(fl in ('big', 'u64') for fl in fls): f.append('key-beyond-2^53')
        if any(cols[k]['kind'] == 'idx' for k in case['by']): f.append('indexed-string-key')
        if len(fls) > 1 and any(fl in ('big', 'u64') for fl in fls) and len(set(kinds)) > 1: f.append('F-C07b-region')
        if len(fls) > 1 and any(cols[k]['kind'] in ('fix', 'idx') for k in case['by']) and any(cols[k]['kind'] in ('num', 'cat', 'ts') for k in case['by']):
            f.append('F-C07c-region(number+string key)')
        if any(cols[k]['kind'] == 'idx' for k in case['by']) and not srt and not case['hint']: f.append('F-C07d-region')
        for st in case.get('steps', []):
            f.append('agg:' + st['k'] + ('' if st['wk'] else '/no-keys'))
            for t in st['t']:
                c = cols.get(t)
                if c is None:
                    continue
                f.append('target:%s/%s' % (c['kind'], st['k']))
                if c['kind'] in ('idx', 'fix') and st['k'] in ('min', 'max'):
                    for p in pos.values():
                        ss = [c['data'][i].encode() for i in p]
                        if any(a != b and b.startswith(a) for a in ss for b in ss):
                            f.append('%s-%s:proper-prefix-in-group' % (c['kind'], st['k']))
                            break
                    if any('' in [c['data'][i] for i in p] and len(p) > 1 for p in pos.values()):
                        f.append('%s-%s:empty-string-in-group' % (c['kind'], st['k']))
        if len(case.get('steps', [])) > 1: f.append('several-calls-one-ddf')
        f += _value_features(rows, [cols[k] for k in case['by']], srt)
    elif op == 'hist':
        f += _hist_features(case)
    elif op == 'agg':
        f.append('agg:' + case['a'])
        ix = case['index']
        f.append('index:' + ix['kind'] + ('/' + ix['col']['kind'] if ix['kind'] == 'field' else ''))
        d = ix['data'] if ix['kind'] != 'field' else ix['col']['data']
        srt = all(d[i] <= d[i + 1] for i in range(len(d) - 1))
        f.append('index-sorted' if srt else 'index-pre-grouped-or-unsorted')
        if not d: f.append('rows=0')
        if case['dest'] is not None: f.append('dest-field')
        if case.get('tfield'): f.append('target-field')
        if case['a'] != 'count' and len(case['target']) != len(d): f.append('target-length-mismatch')
    elif op == 'distinct':
        f.append('distinct:%d-fields' % len(case['fields']) + ('/field=' if case.get('single') else ''))
        f.append('distinct:' + '+'.join(fc['fl'] for fc in case['fields']))
    return f


def _kv(c, x):
    return x.encode() if c['kind'] in ('idx', 'fix') else x


WS = b' \t\n\r\x0b\x0c\x00'


def _value_features(rows, kcols, srt):
    """which key-VALUE classes a case reaches (rows = key tuples in row order)"""
    f = []
    for j, c in enumerate(kcols):
        vals = [r[j] for r in rows]
        if c['kind'] in ('fix', 'idx'):
            st = [v.rstrip(WS) for v in vals]
            if any(a != b and x == y for a, b, x, y in zip(vals, vals[1:], st, st[1:])):
                f.append('keyval:adjacent-keys-differ-only-in-trailing-blanks')
            if any(a > b and x == y for a, b, x, y in zip(vals, vals[1:], st, st[1:])):
                f.append('keyval:descending-pair-equal-after-strip')
                if all(x <= y for x, y in zip(st, st[1:])):
                    f.append('keyval:unsorted-bytewise-but-sorted-after-strip')
            if any(a != b and a.lower() == b.lower() for a in vals for b in vals):
                f.append('keyval:keys-differ-only-in-case')
            if any(any(ch >= 0x80 for ch in v) for v in vals):
                f.append('keyval:high-bytes')
        elif c['kind'] == 'num':
            import struct
            dt = c['dtype']
            if dt.startswith('float'):
                if any(v == 0 and struct.pack('>d', v)[0] & 0x80 for v in vals) and any(v == 0 and not struct.pack('>d', v)[0] & 0x80 for v in vals):
                    f.append('keyval:signed-zeros-one-group')
                if any(abs(v) >= 2.0 ** 99 for v in vals):
                    f.append('keyval:float-extreme')
            elif dt != 'bool':
                bits = int(''.join(ch for ch in dt if ch.isdigit()))
                lo, hi = (0, 2 ** bits - 1) if dt.startswith('u') else (-2 ** (bits - 1), 2 ** (bits - 1) - 1)
                if any(v in (lo, hi) for v in vals) and bits >= 8:
                    f.append('keyval:dtype-extreme')
                if any(abs(v) > 2 ** 53 for v in vals) and len(kcols) > 1:
                    f.append('keyval:beyond-2^53-in-multi-key')
    return sorted(set(f))


def _hist_sim(case):
    """replays a history on the python side: yields (event, key rows seen by the event or None, {name: col})"""
    cur = {c['name']: dict(c, data=list(c['data'])) for c in case['cols']}
    out = []
    for ev in case['evs']:
        e = ev['e']
        n = len(next(iter(cur.values()))['data']) if cur else 0
        rows = None
        if e in ('gb', 'dd', 'sort'):
            try:
                rows = [tuple(_kv(cur[k], cur[k]['data'][i]) for k in ev['by']) for i in range(n)]
            except (KeyError, IndexError):
                rows = None
        out.append((ev, rows, {k: list(v['data']) for k, v in cur.items()}))
        if e == 'write':
            cur[ev['name']]['data'] = list(ev['col']['data'])
        elif e == 'findex':
            d = cur[ev['name']]['data']
            cur[ev['name']]['data'] = [d[i] for i in ev['idx']]
        elif e == 'filter':
            for c in cur.values():
                c['data'] = [x for x, m in zip(c['data'], ev['flt']) if m]
        elif e == 'index':
            for c in cur.values():
                c['data'] = [c['data'][i] for i in ev['idx']]
        elif e == 'sort' and rows is not None:
            order = sorted(range(n), key=lambda i: rows[i])
            for c in cur.values():
                c['data'] = [c['data'][i] for i in order]
    return out


def _partition(rows):
    pos = {}
    for i, r in enumerate(rows):
        pos.setdefault(r, []).append(i)
    return sorted(pos.items())


def _hist_features(case):
    f = []
    try:
        tr = _hist_sim(case)
    except Exception:
        return ['hist:unsimulated']
    f.append('hist:events=%s' % (len(tr) if len(tr) < 8 else '8+'))
    last = {}          # (by, hint) -> (partition, index of the event)
    cols = {c['name']: c for c in case['cols']}
    ngb = 0
    for i, (ev, rows, snap) in enumerate(tr):
        e = ev['e']
        f.append('hist:ev=' + e + ('/' + ev['how'] if e == 'write' else ''))
        if e in ('gb', 'dd') and rows is not None:
            ngb += 1
            srt = all(rows[j] <= rows[j + 1] for j in range(len(rows) - 1))
            f.append('hist:path:' + ('hint' if ev['hint'] else 'sorted-checked' if srt else 'unsorted->stable-sort'))
            f += ['hist:' + x for x in _value_features(rows, [cols[k] for k in ev['by']], srt)]
            key = (tuple(ev['by']), bool(ev['hint']))
            part = _partition(rows)
            if key in last:
                between = tr[last[key][1] + 1:i]
                kinds = set()
                for (ev2, _, _) in between:
                    if ev2['e'] in ('write', 'findex'):
                        kinds.add(ev2['e'] + ('-key' if ev2['name'] in ev['by'] else '-other'))
                    elif ev2['e'] in ('filter', 'index', 'sort'):
                        kinds.add('df-' + ev2['e'])
                    else:
                        kinds.add('groupby-other-keys' if tuple(ev2['by']) != key[0] else 'groupby-same-keys')
                changed = part != last[key][0]
                if not kinds:
                    f.append('hist:regroup-same-keys-nothing-between')
                for k2 in kinds:
                    f.append('hist:regroup-same-keys-after:' + k2)
                if kinds & {'write-key', 'findex-key'} and not (kinds & {'df-filter', 'df-index', 'df-sort'}):
                    f.append('hist:key-changed-through-field-only' + ('/grouping-differs' if changed else '/grouping-same'))
                    if len(part) != len(last[key][0]):
                        f.append('hist:key-changed-through-field-only/group-count-differs')
            last[key] = (part, i)
    f.append('hist:groupbys=%s' % (ngb if ngb < 5 else '5+'))
    return sorted(set(f))


def nontrivial(case, model):
    fs = [x for x in features(case, model) if not x.startswith('op:')]
    return len(fs) >= 1 and model != 'BADCASE' and not case.get('malformed')


def known(case, impl, model, spec, mode):
    return None


def _norm(x):
    if isinstance(x, str) and x.startswith('EXC:'):
        # exception classes the model does not distinguish
        if x in ('EXC:Exception',):
            return 'EXC:Other'
    return x


def equal(case, impl, expected, mode):
    from harness import core
    return core.results_equal(_norm(impl), _norm(expected), mode)


# ----------------------------------------------------------------------------- generators
def seqs(symbols, n):
    return itertools.product(range(symbols), repeat=n)


def gb_case(keysyms_cols, key_fls, tsyms, triple, hint, steps=None, **kw):
    """keysyms_cols: one symbol sequence per key column; tsyms: the target pattern"""
    cols = []
    nk = len(keysyms_cols)
    for j, (ks, fl) in enumerate(zip(keysyms_cols, key_fls)):
        cols.append(col(j, fl, ks))
    tnames = []
    for j, fl in enumerate(triple):
        # the three target columns use rotations of the same pattern so that they are not all co-monotone
        pat = [(s + j) % 3 if j else s for s in tsyms]
        cols.append(col(nk + j, fl, pat))
        tnames.append(nk + j)
    case = {'op': 'gb', 'cols': cols, 'by': list(range(nk)), 'hint': hint,
            'steps': steps if steps is not None else all_steps(tnames)}
    case.update(kw)
    return case


def is_sorted_syms(keysyms_cols):
    rows = list(zip(*keysyms_cols)) if keysyms_cols and keysyms_cols[0] else []
    return all(rows[i] <= rows[i + 1] for i in range(len(rows) - 1))


def gen(tier, rng):
    global _TIER
    _TIER = tier
    big = tier == 'thorough'
    cnt = 0
    # (1) one key column, exhaustive keys x target patterns
    nfull = 3
    for n in range(0, (6 if big else 5)):
        for ks in seqs(3, n):
            tpats = list(seqs(3, n))
            if n > nfull:
                tpats = rng.sample(tpats, (27 if n == 4 else 4) if big else 4)
            for ts in tpats:
                cnt += 1
                fl = KEY_FLAVOURS_1[cnt % len(KEY_FLAVOURS_1)]
                triple = TARGET_TRIPLES[(cnt // 3) % len(TARGET_TRIPLES)]
                srt = is_sorted_syms([ks])
                hint = srt and cnt % 2 == 0
                c = gb_case([list(ks)], [fl], list(ts), triple, hint, bystr=(cnt % 5 == 0))
                if not (n <= 2 or big and cnt % 4 == 0):
                    c['steps'] = rot_steps([1, 2, 3], cnt)
                yield c
    # (2) two key columns
    nfull2 = 4 if big else 3
    pairs = list(itertools.product(range(2), range(3)))
    for n in range(0, nfull2 + 1):
        for rows in itertools.product(pairs, repeat=n):
            k0 = [r[0] for r in rows]
            k1 = [r[1] for r in rows]
            reps = 2 if n <= 2 else 1
            for _ in range(reps):
                cnt += 1
                fls = KEY_PAIRS[cnt % len(KEY_PAIRS)]
                ts = [rng.randrange(3) for _ in range(n)]
                triple = TARGET_TRIPLES[(cnt // 5) % len(TARGET_TRIPLES)]
                srt = is_sorted_syms([k0, k1])
                c = gb_case([k0, k1], fls, ts, triple, srt and cnt % 2 == 0)
                if n > 1:
                    c['steps'] = rot_steps([2, 3, 4], cnt)
                yield c
    if not big:
        # n = 4: a seeded sample
        allrows = list(itertools.product(pairs, repeat=4))
        for rows in rng.sample(allrows, 120):
            cnt += 1
            k0 = [r[0] for r in rows]; k1 = [r[1] for r in rows]
            fls = KEY_PAIRS[cnt % len(KEY_PAIRS)]
            ts = [rng.randrange(3) for _ in range(4)]
            yield gb_case([k0, k1], fls, ts, TARGET_TRIPLES[cnt % len(TARGET_TRIPLES)],
                          is_sorted_syms([k0, k1]) and cnt % 2 == 0, steps=rot_steps([2, 3, 4], cnt))
    # every mixed pair on the witnesses of F-C07b / F-C07c: (1,0) rows with equal second key
    for fls in KEY_PAIRS + [(b, a) for (a, b) in KEY_PAIRS]:
        for k0, k1 in (([1, 0], [0, 0]), ([1, 0, 1, 0], [0, 0, 0, 0]), ([0, 0], [1, 0]), ([2, 1, 0], [1, 1, 1]), ([0, 1, 2], [0, 0, 0])):
            if 'bool' in fls and max(k0 + k1) > 1:
                continue
            yield gb_case([k0, k1], fls, [0, 1, 2, 0][:len(k0)], TARGET_TRIPLES[0][:1], False,
                          steps=[{'k': 'count', 't': [], 'wk': True}, {'k': 'first', 't': [2], 'wk': False}])
    # (3) three key columns over {0,1}
    trip_fl = [('i32', 'fix1', 'idxA'), ('big', 'f64', 'i8'), ('cat', 'cat', 'cat'), ('fix2', 'fix2', 'fix2'), ('idxA', 'i64', 'ts')]
    for n in range(0, 4):
        for rows in itertools.product(list(itertools.product(range(2), repeat=3)), repeat=n):
            if n == 3 and rng.random() > (0.5 if big else 0.12):
                continue
            cnt += 1
            ks = [[r[j] for r in rows] for j in range(3)]
            ts = [rng.randrange(3) for _ in range(n)]
            yield gb_case(ks, trip_fl[cnt % len(trip_fl)], ts, TARGET_TRIPLES[cnt % len(TARGET_TRIPLES)],
                          is_sorted_syms(ks) and cnt % 2 == 0,
                          steps=[{'k': AGGS[cnt % 4], 't': [3, 5], 'wk': True}, {'k': AGGS[(cnt + 1) % 4], 't': [4], 'wk': False},
                                 {'k': 'count', 't': [], 'wk': False}])
    # (4) drop_duplicates and distinct()
    for n in range(0, 5 if not big else 6):
        for ks in seqs(3, n):
            cnt += 1
            fl = KEY_FLAVOURS_1[cnt % len(KEY_FLAVOURS_1)]
            srt = is_sorted_syms([ks])
            c = gb_case([list(ks)], [fl], [0] * n, (), srt and cnt % 2 == 0, steps=[], dd=True, bystr=(cnt % 3 == 0))
            yield c
    for n in range(0, 4):
        for rows in itertools.product(pairs, repeat=n):
            cnt += 1
            k0 = [r[0] for r in rows]; k1 = [r[1] for r in rows]
            fls = KEY_PAIRS[cnt % len(KEY_PAIRS)]
            if cnt % 2:
                yield gb_case([k0, k1], fls, [0] * n, (), False, steps=[], dd=True)
            else:
                yield gb_case([k0, k1], fls, [0] * n, (), False,
                              steps=[{'k': 'distinct', 't': [], 'wk': True}, {'k': 'count', 't': [], 'wk': False}])
    # (5) Session.aggregate_*
    for n in range(0, 6 if not big else 7):
        allk = list(seqs(3, n))
        if len(allk) > 243:
            allk = rng.sample(allk, 243)
        for ks in allk:
            cnt += 1
            target = [rng.choice([5, -3, 9, 9, 0, BIG + 1]) for _ in range(n)]
            kindsel = cnt % 4
            if kindsel == 0:
                index = {'kind': 'arr', 'data': list(ks)}
            elif kindsel == 1:
                index = {'kind': 'S', 'data': [['', 'a', 'ab'][s] for s in ks]}
            elif kindsel == 2:
                index = {'kind': 'field', 'col': col(0, 'i32', ks)}
            else:
                index = {'kind': 'field', 'col': col(0, 'idxA', ks)}
            for a in ['count'] + AGGS:
                dest = None if (cnt + len(a)) % 3 else ([] if cnt % 2 else [7])
                yield {'op': 'agg', 'a': a, 'index': index, 'target': target, 'dest': dest, 'tfield': cnt % 7 == 0}
    # Session.distinct
    for n in range(0, 5):
        for ks in seqs(3, n):
            cnt += 1
            fl = ['i64', 'big', 'fix2', 'f64', 'u64'][cnt % 5]
            yield {'op': 'distinct', 'fields': [{'fl': fl, 'v': list(ks)}], 'single': cnt % 2 == 0}
    for n in range(0, 4):
        for rows in itertools.product(pairs, repeat=n):
            cnt += 1
            fls = [p for p in KEY_PAIRS if not any(x.startswith('idx') or x in ('cat', 'ts') for x in p)]
            fl = fls[cnt % len(fls)]
            yield {'op': 'distinct', 'fields': [{'fl': fl[0], 'v': [r[0] for r in rows]}, {'fl': fl[1], 'v': [r[1] for r in rows]}]}
    # (6) random larger frames
    for _ in range(600 if big else 120):
        cnt += 1
        n = rng.randint(5, 40)
        nk = rng.choice([1, 1, 2, 2, 3])
        card = rng.randint(1, 5)
        ks = [[rng.randrange(card) for _ in range(n)] for _ in range(nk)]
        if rng.random() < 0.3:
            order = sorted(range(n), key=lambda i: tuple(k[i] for k in ks))
            ks = [[k[i] for i in order] for k in ks]
        fls = [rng.choice([f for f in FLAVOURS if f != 'bool']) for _ in range(nk)]
        ts = [rng.randrange(5) for _ in range(n)]
        triple = rng.choice(TARGET_TRIPLES)
        cols = [col(j, fl, k) for j, (fl, k) in enumerate(zip(fls, ks))]
        tn = []
        for j, fl in enumerate(triple):
            cols.append(col(nk + j, fl, [(s * (j + 1) + j) % 5 for s in ts]))
            tn.append(nk + j)
        srt = is_sorted_syms(ks)
        yield {'op': 'gb', 'cols': cols, 'by': list(range(nk)), 'hint': srt and rng.random() < 0.5, 'steps': all_steps(tn)}
    # (8) key VALUE classes: the model works on an order-preserving integer encoding, so by groupby_key_embedding the
    #     result on concrete values must be the image of the result on ranks: every key sequence over 3 symbols for
    #     <= 3 rows (and over 5 symbols for <= 2 rows) in every value flavour; drop_duplicates on the same
    from harness import hot
    boost = 3 if hot.changed() else 1
    for fl in VALUE_FLAVOURS:
        allks = [ks for n in range(0, 4) for ks in seqs(3, n)] + [ks for ks in seqs(5, 2) if max(ks) > 2]
        if big:
            allks += list(seqs(3, 4)) + [ks for ks in seqs(5, 3) if max(ks) > 2]
        for ks in allks:
            cnt += 1
            n = len(ks)
            ts = [rng.randrange(3) for _ in range(n)]
            srt = is_sorted_syms([ks])
            c = gb_case([list(ks)], [fl], ts, TARGET_TRIPLES[cnt % len(TARGET_TRIPLES)], srt and cnt % 2 == 0,
                        steps=rot_steps([1, 2, 3], cnt), bystr=(cnt % 5 == 0))
            yield c
            if cnt % 3 == 0:
                yield gb_case([list(ks)], [fl], [0] * n, (), srt and cnt % 4 == 0, steps=[], dd=True)
    for fls in VALUE_PAIRS:
        for n in range(0, 4 if big else 3):
            for rows in itertools.product(pairs, repeat=n):
                cnt += 1
                k0 = [r[0] for r in rows]; k1 = [r[1] + (2 if cnt % 4 == 0 else 0) for r in rows]
                ts = [rng.randrange(3) for _ in range(n)]
                for order in ((0, 1), (1, 0)):
                    kk = [k0, k1] if order == (0, 1) else [k1, k0]
                    ff = (fls[order[0]], fls[order[1]])
                    yield gb_case(kk, ff, ts, TARGET_TRIPLES[cnt % len(TARGET_TRIPLES)][:2], is_sorted_syms(kk) and cnt % 2 == 0,
                                  steps=[{'k': AGGS[cnt % 4], 't': [2, 3], 'wk': True}, {'k': 'count', 't': [], 'wk': False}])
    for _ in range((200 if big else 40) * boost):
        cnt += 1
        n = rng.randint(4, 12)
        nk = rng.choice([1, 1, 2, 3])
        fls = [rng.choice(VALUE_FLAVOURS) for _ in range(nk)]
        ks = [[rng.randrange(5) for _ in range(n)] for _ in range(nk)]
        if rng.random() < 0.3:
            order = sorted(range(n), key=lambda i: tuple(k[i] for k in ks))
            ks = [[k[i] for i in order] for k in ks]
        yield gb_case(ks, fls, [rng.randrange(3) for _ in range(n)], rng.choice(TARGET_TRIPLES), False,
                      steps=rot_steps([nk, nk + 1, nk + 2], cnt))
    # Session.aggregate_* / Session.distinct on fixed-string arrays whose entries differ only in trailing blanks
    for n in range(0, 4):
        for ks in seqs(3, n):
            cnt += 1
            index = {'kind': 'S', 'data': [['a', 'a\t', 'a '][s_] for s_ in ks]}
            for a in ['count'] + AGGS:
                yield {'op': 'agg', 'a': a, 'index': index, 'target': [rng.choice([5, -3, 9, 0]) for _ in range(n)], 'dest': None}
            yield {'op': 'distinct', 'fields': [{'fl': ['fixW', 'fixX', 'fixH', 'i64x', 'u64x'][cnt % 5], 'v': list(ks)}], 'single': cnt % 2 == 0}
    # (9) HISTORIES on one dataframe object: group by a key, change the key column THROUGH THE FIELD (same field object:
    #     data[:] = new, clear()+write(), field-level apply_index in place) or through the dataframe (apply_filter /
    #     apply_index / sort_values in place), group by the same key again; interleaved with group-bys on other keys,
    #     drop_duplicates, repeated calls.  Every (old, new) pair of key sequences over 3 symbols for 2 rows, a seeded
    #     sample (thorough: all) for 3 rows, then random histories.
    hist_fl = KEY_FLAVOURS_1 + VALUE_FLAVOURS
    hcnt = 0
    pairs_on = [(o, nw) for n in (1, 2) for o in seqs(3, n) for nw in seqs(3, n)]
    p3 = [(o, nw) for o in seqs(3, 3) for nw in seqs(3, 3)]
    pairs_on += p3 if big else rng.sample(p3, 150 * boost)
    for (o, nw) in pairs_on:
        hcnt += 1
        yield hist_case(rng, hcnt, hist_fl[hcnt % len(hist_fl)], list(o), list(nw), hcnt % len(HIST_SCRIPTS))
    for _ in range((500 if big else 60) * boost):
        hcnt += 1
        n = rng.randint(3, 8)
        yield hist_case(rng, hcnt, rng.choice(hist_fl), [rng.randrange(3) for _ in range(n)], None, None)
    # change-directed: a small literal that is new in the tree under test is planted as row count of group-bys / histories
    for K in hot.hot_sizes():
        if K > 300:
            continue
        for n in sorted({max(K - 1, 1), K, K + 1, 2 * K}):
            for rep in range(3):
                hcnt += 1
                yield hist_case(rng, hcnt, hist_fl[hcnt % len(hist_fl)], [rng.randrange(4) for _ in range(n)], None, None)
                fl = rng.choice(VALUE_FLAVOURS + KEY_FLAVOURS_1)
                yield gb_case([[rng.randrange(5) for _ in range(n)]], [fl], [rng.randrange(3) for _ in range(n)],
                              TARGET_TRIPLES[hcnt % len(TARGET_TRIPLES)], False, steps=rot_steps([1, 2, 3], hcnt))
    # (7) malformed stream (outside the property's precondition; model == implementation only)
    base = gb_case([[1, 0, 1]], ['i32'], [0, 1, 2], TARGET_TRIPLES[0], False)
    yield dict(base, hint=True, malformed='untruthful-hint')
    yield dict(gb_case([[1, 0, 1, 0]], ['fix2'], [0, 1, 2, 0], TARGET_TRIPLES[1], True), malformed='untruthful-hint')
    yield dict(gb_case([[1, 0, 0], [0, 1, 0]], ['i32', 'idxA'], [0, 1, 2], TARGET_TRIPLES[1], True), malformed='untruthful-hint')
    yield dict(base, by=[], malformed='empty-by')
    yield dict(base, by=[9], malformed='unknown-key')
    yield dict(base, by=[0, 0], malformed='duplicate-key')
    yield dict(base, steps=[{'k': 'min', 't': [0], 'wk': True}], malformed='target-is-key')
    yield dict(base, steps=[{'k': 'min', 't': [], 'wk': True}], malformed='empty-target')
    yield dict(base, steps=[{'k': 'min', 't': [7], 'wk': True}], malformed='unknown-target')
    yield dict(base, steps=[{'k': 'min', 't': [1, 1], 'wk': True}], malformed='duplicate-target')
    yield dict(base, steps=[{'k': 'min', 't': [1], 'wk': True}, {'k': 'max', 't': [1], 'wk': True}], malformed='keys-written-twice')
    yield dict(base, steps=[{'k': 'count', 't': [], 'wk': True}, {'k': 'count', 't': [], 'wk': False}], malformed='count-twice')
    for hint in (False, True):
        c = gb_case([[0, 1, 1]], ['i32'], [0, 1, 2], TARGET_TRIPLES[0], hint)
        c['cols'][1]['data'] = c['cols'][1]['data'][:2]
        yield dict(c, malformed='ragged-target')
        c = gb_case([[1, 0, 1]], ['i32'], [0, 1, 2], TARGET_TRIPLES[0], hint)
        c['cols'][2]['data'] = c['cols'][2]['data'][:2]
        yield dict(c, malformed='ragged-target')
        c = gb_case([[0, 1, 1], [0, 0, 1]], ['i32', 'i32'], [0, 1, 2], TARGET_TRIPLES[0], hint)
        c['cols'][1]['data'] = c['cols'][1]['data'][:2]
        yield dict(c, malformed='ragged-keys')
    yield {'op': 'agg', 'a': 'min', 'index': {'kind': 'arr', 'data': [0, 0, 1]}, 'target': [1, 2], 'dest': None}
    yield {'op': 'agg', 'a': 'first', 'index': {'kind': 'arr', 'data': [0, 0, 1]}, 'target': [1, 2, 3, 4], 'dest': None}


# ----------------------------------------------------------------------------- histories
# scripts over the columns 0 (key, rewritten), 1 (second key, i32), 2 (int64 target), 3 (string target)
HIST_SCRIPTS = [
    ['gb0', 'w0', 'gb0'],
    ['dd0', 'w0', 'dd0', 'gb0'],
    ['gb0', 'fi0', 'gb0'],
    ['gb0', 'gb1', 'w0', 'gb0', 'gb01'],
    ['gb01', 'w1', 'gb01', 'w0', 'gb01'],
    ['gb0', 'sort0', 'gb0', 'w0', 'gb0'],
    ['gb0', 'filter', 'gb0', 'index', 'gb0'],
    ['gb0', 'w2', 'gb0', 'w0', 'gb0'],
    ['gb0', 'gb0', 'w0', 'gb0', 'gb0'],
    ['gb10', 'w0', 'gb10', 'fi1', 'gb10', 'dd10'],
    ['sort0', 'gb0', 'w0', 'gb0', 'sort0', 'gb0'],
]
HIST_MENU = ['gb0', 'gb0', 'gb1', 'gb01', 'dd0', 'dd01', 'w0', 'w0', 'w1', 'w2', 'fi0', 'fi1', 'filter', 'index', 'sort0', 'sort1', 'sort01']


def hist_case(rng, cnt, fl, old, new, script):
    """builds a VALID history (equal column lengths, truthful hints) by following the data on the python side"""
    n = len(old)
    fls = {0: fl, 1: 'i32', 2: 'i64', 3: ['idxA', 'fix2', 'idxC', 'fix3'][cnt % 4]}
    cols = [col(0, fl, old), col(1, 'i32', [rng.randrange(2) for _ in range(n)]),
            col(2, 'i64', [rng.randrange(4) for _ in range(n)]), col(3, fls[3], [rng.randrange(3) for _ in range(n)])]
    if script is None:
        ops = [rng.choice(HIST_MENU) for _ in range(rng.randint(4, 8))]
        ops.append('gb0')
    else:
        ops = HIST_SCRIPTS[script]
    case = {'op': 'hist', 'cols': cols, 'evs': []}
    first_w0 = True
    for i, o in enumerate(ops):
        # the data as it is now
        tr = _hist_sim(dict(case, evs=case['evs'] + [{'e': 'nop'}]))
        snap = tr[-1][2]
        cn = len(snap[0])
        if o.startswith('gb') or o.startswith('dd') or o.startswith('sort'):
            by = [int(ch) for ch in o.lstrip('gbdsort')]
            rows = [tuple(_kv(cols[k], snap[k][j]) for k in by) for j in range(cn)]
            srt = all(rows[j] <= rows[j + 1] for j in range(cn - 1))
            if o.startswith('sort'):
                case['evs'].append({'e': 'sort', 'by': by, 'bystr': (cnt + i) % 3 == 0})
            elif o.startswith('dd'):
                case['evs'].append({'e': 'dd', 'by': by, 'hint': srt and (cnt + i) % 2 == 0})
            else:
                t = [k for k in (2, 3) if k not in by]
                tt = [t[(cnt + i) % len(t)]]
                case['evs'].append({'e': 'gb', 'by': by, 'hint': srt and (cnt // 2 + i) % 3 == 0, 'bystr': (cnt + i) % 4 == 0,
                                    'steps': [{'k': AGGS[(cnt + i) % 4], 't': tt, 'wk': True}, {'k': 'count', 't': [], 'wk': False}]})
        elif o[0] == 'w':
            name = int(o[1:])
            if name == 0 and new is not None and len(new) == cn and first_w0:
                syms = list(new)
                first_w0 = False
            else:
                syms = [rng.randrange(3) for _ in range(cn)]
            c = col(name, fls[name], syms)
            how = 'slice' if (c['kind'] != 'idx' and (cnt + i) % 2 == 0) else 'clearwrite'
            case['evs'].append({'e': 'write', 'name': name, 'col': c, 'how': how})
        elif o in ('fi0', 'fi1'):
            idx = [rng.randrange(cn) for _ in range(cn)] if (cnt + i) % 2 else rng.sample(range(cn), cn)
            case['evs'].append({'e': 'findex', 'name': int(o[2:]), 'idx': idx})
        elif o == 'filter':
            case['evs'].append({'e': 'filter', 'flt': [1 if rng.random() < 0.7 else 0 for _ in range(cn)]})
        elif o == 'index':
            m = rng.randint(max(cn - 1, 0), cn + 1) if cn else 0
            case['evs'].append({'e': 'index', 'idx': [rng.randrange(cn) for _ in range(m)] if cn else []})
    return case


def skip(case, mode):
    """quick tier: the HDF5-heavy dataframe cases run interpreted (nojit) for every third case only"""
    import hashlib, json
    if case['op'] not in ('gb', 'hist') or mode == 'jit' or _TIER == 'thorough':
        return False
    h = int(hashlib.sha256(json.dumps(case, sort_keys=True).encode()).hexdigest()[:8], 16)
    return h % 3 != 0


def shrink(case):
    if case['op'] == 'hist':
        evs = case['evs']
        for i in range(len(evs)):
            if evs[i]['e'] in ('filter',):
                continue
            yield dict(case, evs=evs[:i] + evs[i + 1:])
        for i, ev in enumerate(evs):
            if ev['e'] == 'gb' and len(ev['steps']) > 1:
                for st in ev['steps']:
                    yield dict(case, evs=evs[:i] + [dict(ev, steps=[dict(st, wk=True)])] + evs[i + 1:])
        return
    if case['op'] != 'gb':
        return
    if len(case.get('steps', [])) > 1:
        for i in range(len(case['steps'])):
            st = dict(case['steps'][i], wk=True)
            yield dict(case, steps=[st])
    n = len(case['cols'][0]['data']) if case['cols'] else 0
    for i in range(n):
        cols = [dict(c, data=c['data'][:i] + c['data'][i + 1:]) for c in case['cols']]
        yield dict(case, cols=cols)
    used = set(case['by'])
    for st in case.get('steps', []):
        used |= set(st['t'])
    for j, c in enumerate(case['cols']):
        if c['name'] not in used:
            yield dict(case, cols=case['cols'][:j] + case['cols'][j + 1:])
    for st_i, st in enumerate(case.get('steps', [])):
        if len(st['t']) > 1:
            for t in st['t']:
                steps = list(case['steps'])
                steps[st_i] = dict(st, t=[t])
                yield dict(case, steps=steps)
