"""C20 — date helpers (exetera/processing/date_time_helpers.py) vs coq/Model/Dates.v."""
import itertools

PROP, NUM = 'C20', 20
PROPS_FILES = ['Props/C20.v', 'Props/C20_float.v']
MODES = ['jit']            # pure numpy/Python code: the JIT switch does not reach it
MODES_THOROUGH = ['jit', 'nojit']
LEVEL = 'proof'
RULE = ('exhaustive small scope over boundary timestamps (multiples of a day -1/0/+1 tick, tps in {1,4}), all '
        'filter/start/end combinations, all period lists from get_periods over small ranges and both signs, all day '
        'vectors over [-2, total+1]; plus seeded random longer inputs. Non-trivial = the case reaches a planted '
        'feature (filter excludes the minimum, timestamp exactly on a boundary, day on a period boundary, '
        'out-of-range day, negative delta, several periods). Filters / in_range arrays whose length differs from the '
        'data are included (numpy broadcasting / IndexError / ValueError behaviour is modelled).')
EXHAUSTIVE = {'quick': True, 'thorough': True}
TRUSTED = ['numpy float64 arithmetic on the generated timestamps is exact (integer / quarter-second values '
           '< 2^40): floor((t-m)/86400.0) = integer floor division (checked by this correspondence, not proved)',
           'datetime/timedelta arithmetic of CPython (modelled as integer seconds)']
ASSUMPTIONS = ['timestamps are exactly representable multiples of 1/4 s', 'int32 day counts do not overflow']

DAY = 86400
_np = _dth = _dt = None
BASE = None


def setup():
    global _np, _dth, _dt, BASE
    import numpy as np
    import datetime as dt
    from exetera.processing import date_time_helpers as dth
    _np, _dth, _dt = np, dth, dt
    BASE = dt.datetime(2020, 3, 1)


def _secs(d):
    return int(round((d - BASE).total_seconds()))


def run(case):
    np, dth, dt = _np, _dth, _dt
    op = case['op']
    if op == 'periods':
        s = BASE + dt.timedelta(seconds=case['s'])
        e = BASE + dt.timedelta(seconds=case['e'])
        delta = case['delta'] + 0.5 if case.get('fdelta') else case['delta']
        r = dth.get_periods(s, e, case['unit'], delta)
        return [_secs(x) for x in r]
    if op == 'pipe':
        s = BASE + dt.timedelta(seconds=case['s'])
        e = BASE + dt.timedelta(seconds=case['e'])
        ps = dth.get_periods(s, e, case['unit'], case['delta'])
        pbd = dth.generate_period_offset_map(ps)
        ts = np.array([float(t) for t in case['ts']], dtype=np.float64)
        flt = None if case['flt'] is None else np.array(case['flt'], dtype=bool)
        days, inr = dth.get_days(ts, flt, np.float64(case['s']), np.float64(case['e2']))
        r = dth.get_period_offsets(pbd, days, inr)
        return [int(x) for x in r]
    if op == 'days':
        tps = case['tps']
        ts = np.array([t / tps for t in case['ts']], dtype=np.float64)
        flt = None
        if case['flt'] is not None:
            flt = np.array(case['flt'], dtype=(np.int8 if case['fdt'] == 'int8' else bool))
        s = None if case['s'] is None else np.float64(case['s'] / tps)
        e = None if case['e'] is None else np.float64(case['e'] / tps)
        days, inr = dth.get_days(ts, flt, s, e)
        assert days.dtype == np.int32
        return [[int(x) for x in days], None if inr is None else [[1 if x else 0 for x in inr]]]
    if op == 'pmap':
        ps = [BASE + dt.timedelta(seconds=x) for x in case['ps']]
        r = dth.generate_period_offset_map(ps)
        return [int(x) for x in r]
    if op == 'poff':
        pbd = np.array(case['pbd'], dtype=np.int32)
        days = np.array(case['days'], dtype=np.int32)
        inr = None if case['inr'] is None else np.array(case['inr'], dtype=bool)
        r = dth.get_period_offsets(pbd, days, inr)
        return [int(x) for x in r]
    raise ValueError(op)


def _unit(u):
    """ticks of one period unit; 0 = rejected by the argument validation"""
    if u in ('day', 'days'):
        return DAY
    if u in ('week', 'weeks'):
        return 7 * DAY
    return 0


def to_val(case):
    op = case['op']
    opt = lambda x: [] if x is None else [x]
    if op == 'periods':
        return [1, case['s'], case['e'], 0 if case.get('fdelta') else _unit(case['unit']), case['delta']]
    if op == 'pipe':
        return [5, DAY, case['s'], case['e'], _unit(case['unit']), case['delta'], case['ts'], opt(case['flt']), case['e2']]
    if op == 'days':
        return [2, DAY * case['tps'], case['ts'], opt(case['flt']), opt(case['s']), opt(case['e'])]
    if op == 'pmap':
        return [3, DAY, case['ps']]
    if op == 'poff':
        return [4, case['pbd'], case['days'], opt(case['inr'])]
    raise ValueError(op)


def from_val(case, v):
    if case['op'] == 'days':
        days, inr = v
        return [days, None if inr == [] else [inr[0]]]
    return v


def features(case, model):
    f = []
    op = case['op']
    if isinstance(model, str):
        f.append('err:' + model.split(':')[0])
    if op == 'periods':
        if case['delta'] < 0: f.append('neg-delta')
        if not isinstance(model, str) and len(model) >= 3: f.append('periods>=3')
        if _unit(case['unit']) == 0 or case.get('fdelta'):
            f.append('invalid-argument')
        elif (case['e'] - case['s']) % (_unit(case['unit']) * max(1, abs(case['delta']))) == 0:
            f.append('end-on-boundary')
    elif op == 'pipe':
        f.append('pipeline')
        if not isinstance(model, str):
            if -1 in model: f.append('pipe-out-of-range')
            if len(set(model) - {-1}) >= 2: f.append('pipe-several-periods')
        if case['delta'] < 0: f.append('pipe-neg-delta')
        if case['e2'] > case['e']: f.append('pipe-end-after-last-boundary')
    elif op == 'days':
        if case['flt'] is not None and 0 in case['flt']: f.append('filter-excludes')
        if case['flt'] is not None and case['fdt'] == 'int8': f.append('int8-filter')
        if case['flt'] is not None and case['ts'] and not isinstance(model, str):
            m = min(case['ts'])
            if any(t == m and not fl for t, fl in zip(case['ts'], case['flt'])): f.append('min-is-filtered-out')
        if any(t % (DAY * case['tps']) == 0 for t in case['ts']): f.append('ts-on-day-boundary')
        if case['s'] is not None: f.append('start')
        if case['e'] is not None: f.append('end')
        if case['s'] is not None and any(t < case['s'] for t in case['ts']): f.append('negative-day')
        if not case['ts']: f.append('empty-ts')
        if case['flt'] is not None and len(case['flt']) != len(case['ts']):
            f.append('len-mismatch')
            if 1 in (len(case['flt']), len(case['ts'])) and not isinstance(model, str): f.append('broadcast')
        if case['s'] is None and case['e'] is None and case['flt'] is None: f.append('no-args')
    elif op == 'pmap':
        if len(case['ps']) >= 3: f.append('periods>=3')
        if case['ps'] and case['ps'][-1] < case['ps'][0]: f.append('descending')
    elif op == 'poff':
        if case['inr'] is not None: f.append('in_range')
        if any(d < 0 or d >= len(case['pbd']) for d in case['days']): f.append('day-out-of-range')
        if len(set(case['pbd'])) >= 2: f.append('several-periods')
        if any(d < 0 for d in case['days']) and not isinstance(model, str): f.append('negative-day-wraps')
        if case['inr'] is not None and len(case['inr']) != len(case['days']):
            f.append('len-mismatch')
            if not isinstance(model, str): f.append('broadcast')
        if not case['pbd']: f.append('empty-map')
    return f


def nontrivial(case, model):
    return len(features(case, model)) >= 1 and not (isinstance(model, str) and model == 'BADCASE')


def known(case, impl, model, spec, mode):
    return None


def gen(tier, rng):
    big = tier == 'thorough'
    # get_periods: all small (s, e) pairs in half-days, both units, deltas
    hd = DAY // 2
    span = range(-4, 31 if big else 17)
    for s, e in itertools.product([0, 1, 3], span):
        for unit in ('day', 'week', 'days', 'weeks'):
            for delta in (-3, -2, -1, 0, 1, 2, 3):
                if unit.endswith('s') and delta not in (-2, 1):
                    continue
                yield {'op': 'periods', 's': s * hd, 'e': e * hd, 'unit': unit, 'delta': delta}
    for unit in ('month', 'Day', '', 5, None):
        for delta in (0, 1, -1):
            yield {'op': 'periods', 's': 0, 'e': 3 * hd, 'unit': unit, 'delta': delta}
    for unit in ('day', 'week'):
        for delta in (0, 1, -1):
            yield {'op': 'periods', 's': 0, 'e': 3 * hd, 'unit': unit, 'delta': delta, 'fdelta': True}
    # the whole pipeline: get_periods -> generate_period_offset_map, get_days -> get_period_offsets
    pool = [-1, 0, 1, DAY - 1, DAY, 2 * DAY, 3 * DAY - 1, 3 * DAY, 7 * DAY - 1, 7 * DAY, 9 * DAY + 5, 14 * DAY]
    for (unit, delta) in (('day', 1), ('day', 2), ('day', 3), ('week', 1), ('day', -2), ('week', -1)):
        ends = [0, DAY, 3 * DAY, 6 * DAY + 5, 7 * DAY, 14 * DAY]
        for e in ([x for x in ends] if delta > 0 else [-x for x in ends]):
            for e2 in sorted({e, e - 1, 3 * DAY, 7 * DAY, 15 * DAY}):
                for n in range(0, 3):
                    tss = list(itertools.product(pool, repeat=n))
                    if len(tss) > 40:
                        tss = rng.sample(tss, 80 if big else 40)
                    for ts in tss:
                        for flt in [None] + [list(f) for f in itertools.product([0, 1], repeat=n)][:-1]:
                            yield {'op': 'pipe', 's': 0, 'e': e, 'e2': e2, 'unit': unit, 'delta': delta,
                                   'ts': list(ts), 'flt': flt}
    # get_days
    for tps in (1, 4):
        d = DAY * tps
        pool = [0, 1, d - 1, d, d + 1, 2 * d, 3 * d - 1, 5 * d + 7]
        n_max = 4 if big else 3
        for n in range(0, n_max + 1):
            tss = list(itertools.product(pool, repeat=n))
            if len(tss) > (3000 if big else 400):
                tss = rng.sample(tss, 3000 if big else 400)
            for ts in tss:
                flts = [None] + [list(f) for f in itertools.product([0, 1], repeat=n)]
                for flt in flts:
                    for s in (None, 1, d):
                        for e in (None, d, 2 * d + 1):
                            fdts = ['bool'] if flt is None else ['bool', 'int8']
                            for fdt in fdts:
                                yield {'op': 'days', 'tps': tps, 'ts': list(ts), 'flt': flt, 'fdt': fdt, 's': s, 'e': e}
    # filters whose length differs from the field's (outside the property; the model follows numpy broadcasting)
    d = DAY
    for ts in ([], [d + 1], [0, d], [d, 0, 2 * d + 5]):
        for k in range(0, 4):
            if k == len(ts):
                continue
            for flt in itertools.product([0, 1], repeat=k):
                for s in (None, 1, d):
                    for e in (None, d, 2 * d + 1):
                        for fdt in ('bool', 'int8'):
                            yield {'op': 'days', 'tps': 1, 'ts': list(ts), 'flt': list(flt), 'fdt': fdt, 's': s, 'e': e}
    # generate_period_offset_map on outputs of get_periods-like progressions and irregular lists
    offs = [0, 3600, DAY - 1, DAY, 2 * DAY, 2 * DAY + 5, 7 * DAY, 9 * DAY, 14 * DAY]
    for n in range(0, 5 if big else 4):
        for ps in itertools.combinations(offs, n):
            yield {'op': 'pmap', 'ps': list(ps)}
            if n >= 2:
                yield {'op': 'pmap', 'ps': list(reversed(ps))}
    for ps in itertools.product([0, DAY, 3 * DAY], repeat=3):
        yield {'op': 'pmap', 'ps': list(ps)}
    # get_period_offsets
    pbds = [[], [0], [0, 0, 1], [0, 1, 1, 2], [0, 0, 0, 1, 1, 2, 2]]
    for pbd in pbds:
        n = len(pbd)
        vals = list(range(-2, n + 2))
        for k in range(0, 4 if big else 3):
            dsl = list(itertools.product(vals, repeat=k))
            if len(dsl) > 400:
                dsl = rng.sample(dsl, 400)
            for days in dsl:
                yield {'op': 'poff', 'pbd': pbd, 'days': list(days), 'inr': None}
                for inr in itertools.product([0, 1], repeat=k):
                    yield {'op': 'poff', 'pbd': pbd, 'days': list(days), 'inr': list(inr)}
    for pbd in ([], [0, 0, 1]):
        for days in ([], [1], [1, 2], [0, 3], [-1, 2, 1]):
            for k in range(0, 4):
                if k == len(days):
                    continue
                for inr in itertools.product([0, 1], repeat=k):
                    yield {'op': 'poff', 'pbd': pbd, 'days': list(days), 'inr': list(inr)}
    # random longer
    for _ in range(2000 if big else 300):
        tps = rng.choice([1, 4])
        d = DAY * tps
        n = rng.randint(1, 12)
        ts = [rng.choice([0, 1, -1]) + d * rng.randint(0, 40) + rng.choice([0, 0, rng.randint(0, d - 1)]) for _ in range(n)]
        flt = None if rng.random() < 0.3 else [rng.randint(0, 1) for _ in range(n)]
        s = None if rng.random() < 0.5 else d * rng.randint(0, 20) + rng.choice([0, 1, -1])
        e = None if rng.random() < 0.5 else d * rng.randint(5, 45) + rng.choice([0, 1, -1])
        yield {'op': 'days', 'tps': tps, 'ts': ts, 'flt': flt, 'fdt': rng.choice(['bool', 'int8']), 's': s, 'e': e}


def shrink(case):
    op = case['op']
    if op == 'days':
        n = len(case['ts'])
        for i in range(n):
            c = dict(case)
            c['ts'] = case['ts'][:i] + case['ts'][i + 1:]
            if case['flt'] is not None:
                c['flt'] = case['flt'][:i] + case['flt'][i + 1:]
            yield c
        for k in ('s', 'e'):
            if case[k] is not None:
                c = dict(case); c[k] = None; yield c
    elif op == 'poff':
        n = len(case['days'])
        for i in range(n):
            c = dict(case)
            c['days'] = case['days'][:i] + case['days'][i + 1:]
            if case['inr'] is not None:
                c['inr'] = case['inr'][:i] + case['inr'][i + 1:]
            yield c
    elif op == 'pmap':
        for i in range(len(case['ps'])):
            yield {'op': 'pmap', 'ps': case['ps'][:i] + case['ps'][i + 1:]}

TECHNIQUE = 'Coq proof (integer model of the date helpers = bucketing spec) + exhaustive small-scope differential correspondence against /repo'
LEVEL_TEXT = ('Theorems in coq/Props/C20.v (all closed under the global context) prove, for all inputs and sizes, that the '
              'Gallina model of get_periods / get_days / generate_period_offset_map / get_period_offsets equals the '
              'specification of Spec/DatesSpec.v: arithmetic progression with the exact count and a fuel bound, '
              'floor-day + origin + in-range flag, half-open period intervals, -1 iff flag off, exact error/IndexError '
              'characterisation, and the composed pipeline (t - start) / period_length; day numbers are shift-invariant and monotone. The model is tied to the repository '
              'by running the extracted model and the real functions on the same ~1.4e5 generated cases per quick run.')
LEVEL_NOTE = ('Trusted: Coq kernel, extraction, harness. Timestamps are modelled as exact integer ticks; binary64 '
              'floor((t-m)/86400.0) = integer division is exercised by the correspondence on boundary timestamps, and '
              'proved separately at the level of IEEE round-to-nearest in coq/Props/C20_float.v (depends on the Reals '
              'axioms, not part of PROPS_FILES). numpy/datetime are modelled, not verified. get_period_offsets is '
              'modelled as repaired by work/C20/fix-F-C20c.diff.')
