"""C06 — schema-typed conversion on import (field_importers.py / operations.py transforms / load_schema.py)
vs coq/Model/Transform.v.

A case is one column: a schema type with its parameters and the list of cell texts, split into the chunks the
CSV reader would hand to the importer.  'direct' cases call the real importer's import_part() per chunk with
column_inds / column_vals / column_offsets laid out like the reader does (foreign bytes before the column's
region, unused slack after it, stale index entries after the valid ones) and read the destination fields
back from the HDF5 dataframe.  'csv' cases go through load_schema + read_csv_with_schema_dict with a small
chunk_row_size; the model is then run on a single chunk (chunk independence is a theorem)."""
import itertools, json, io, os, struct, re, tempfile

PROP, NUM = 'C06', 6
PROPS_FILES = ['Props/C06.v']
MODES = ['jit', 'nojit']
MODES_THOROUGH = ['jit', 'nojit', 'bounds']
LEVEL = 'proof'
TIMEOUT_S = 60.0
RULE = ('exhaustive small scope: (categorical, leaky) every cell sequence of length <= 2 over all strings of length <= 3 '
        'on {a,b} x every split into chunks (with empty chunks) x key tables whose keys are prefixes/suffixes of one '
        'another, plus a 270-byte key table; (bool) every literal in every letter case, with blanks, and near misses x 3 '
        'modes x 2 invalid values; (int/float) a pool of ~45 number texts (blanks, signs, underscores, exponents, '
        'out-of-range per dtype, empty, garbage) x 7+2 dtypes x 3 modes; (fixed) all lengths 0..N+2 for N in {1,3,10}; '
        '(datetime/date) every accepted layout printed for boundary instants plus malformed texts; Python int() vs the '
        'Gallina py_int on every string of length <= 4 over a 9-symbol alphabet; then seeded random columns of 3..24 '
        'rows split into 1..6 chunks (so companion offsets accumulate over >= 3 chunks) with random buffer layout; and '
        'end-to-end CSV imports through load_schema with chunk_row_size 1..4. Each direct case costs ~10 ms (HDF5). '
        '(SC06) key tables outside ASCII: every table of 2 keys over the 21 strings of <= 2 characters on {a, e-acute, '
        'U+7537, U+1F600} (1/2/3/4 UTF-8 bytes, so character count and byte count order the keys differently) and every '
        'table of 3 keys over the 13 strings on the first three (thorough: over all 21), each with all pool strings and '
        'byte-level near misses of the keys as cells in 2 chunks, insertion order alternated; every table of 2..3 ASCII '
        'keys of length <= 2; a 128-key table; random tables of 2..6 keys of <= 3 characters over 13 characters. '
        'Long cells: a ladder of byte widths (every width 1..72, both neighbours of 96 and of the powers of two up to '
        '1024, 300; thorough: every width to 130 and the neighbours of 2048 and 4096; plus K-1, K, K+1, 2K-1, 2K, 2K+1, 3K '
        'for every size literal K that is new in the tree under test) x 10 integer and 11 float text forms of exactly '
        'that width (zero padded, blank padded either side, sign, underscores, all nines, junk / sign / exponent in '
        'the last bytes, long fraction, exponent at the very end ...), dtype and mode rotated (thorough: all modes), '
        'alone and next to short cells in the same chunk; keys, bool / date / datetime cells and fixed-string lengths at '
        'the widths around 32..1024; integer numerals on both sides of CPython\'s 4300-digit limit. The extracted model '
        'is quadratic in the cell length: 4097 bytes is the affordable maximum. '
        '(VC06) decimal fraction text -> integer microseconds: EVERY 1-, 2- and 3-digit fraction in the "... UTC" layouts at 8 '
        'instants (columns of 1110 rows); the 6-digit "+00:00" / "-00:00" layout on the fractions f with '
        'int(float("0."+f) * 10**6) != f (11549 of 10^6: all of them in the thorough tier, the 60 smallest, 60 largest and '
        '500 sampled in quick), on all j*10^m-1, j*10^m, j*10^m+1 neighbours, and on a seeded sample of 20 000 (thorough '
        '200 000) fractions in columns of 4000 rows; 4-, 5-, 6-digit fractions before " UTC" (28..30 bytes; thorough: all '
        '10^4 four-digit ones and 40 000 each of the others); mixed-layout columns; refused fraction lengths; int() forms '
        'inside the fraction slice; 600-row CSV imports; all at instants with |t| < 2^32 s, where float64 seconds separate '
        'neighbouring microseconds; 3x the random budget when a library source differs from the recorded tree. Also 200-row '
        'float columns of random decimal numerals with 1..17 fraction digits and int64 columns of 15..18-digit numerals '
        '(beyond 2^53). The extracted model costs ~0.15 ms per row in chunks of 250 rows.')
EXHAUSTIVE = {'quick': True, 'thorough': True}
TRUSTED = ['numpy >= 2 casts an S-string to an integer/float dtype by calling Python int()/float() on it and storing the '
           'result with a range check (OverflowError) - modelled so, exercised by this correspondence',
           'Python float() (oracle table computed by the harness; the model treats the parsed value as an opaque token)',
           'Python int() on bytes is DEFINED in Gallina (py_int, including the 4300-digit limit of CPython >= 3.11) and '
           'compared with CPython on ~7400 strings per run (21 of them on both sides of the digit limit)',
           'datetime(...).timestamp() for aware UTC datetimes = exact microsecond count / 10^6 correctly rounded '
           '(the harness recovers the integer microseconds from the stored float64 and checks the round trip)',
           'datetime.strptime(s, "%Y-%m-%d") modelled from the regular expressions of CPython 3.12 on every byte string: '
           'bytes.decode() as strict UTF-8, \\d and int() over the 68 runs of decimal digits (category Nd) of Unicode 15.0 '
           '(the table is exercised run by run, with both neighbours of every run, on each check)',
           'h5py/HDF5 storage of the destination fields (append-only lists in the model)']
ASSUMPTIONS = ['cells lie inside the column\'s region of column_vals (what the CSV reader guarantees)',
               'category keys are distinct (a dict) and category codes are in 0..127',
               'cell texts for bool/datetime columns are ASCII (date columns: any bytes); no NUL bytes inside cells',
               'category keys are valid UTF-8 text (they are Python str objects in the schema); cells are arbitrary bytes',
               'int64 values on the wire are limited to |v| < 2^62 (OCaml native ints)']

_np = _fi = _ops = _sess = _ds = _parsers = _ls = None
_counter = [0]

DT_INT = {'int8': (1, 8), 'uint8': (0, 8), 'int16': (1, 16), 'uint16': (0, 16), 'int32': (1, 32), 'uint32': (0, 32),
          'int64': (1, 64)}
WS = b' \t\n\r\x0b\x0c'


def setup():
    global _np, _fi, _ops, _parsers, _ls
    import numpy as np
    import warnings
    warnings.simplefilter('ignore')
    from exetera.io import field_importers as fi, parsers, load_schema as ls
    from exetera.core import operations as ops
    _np, _fi, _ops, _parsers, _ls = np, fi, ops, parsers, ls


def _session():
    global _sess, _ds
    if _sess is None:
        from exetera.core.session import Session
        _sess = Session()
        _ds = _sess.open_dataset(io.BytesIO(), 'w', 'ds')
    return _sess, _ds


def warmup():
    for c in [{'k': 'cat', 'cats': [['a', 1]], 'chunks': [['a', 'b']], 'lay': [0, 0, 0]},
              {'k': 'leaky', 'cats': [['a', 1]], 'chunks': [['a', 'b']], 'lay': [0, 0, 0]},
              {'k': 'bool', 'mode': 2, 'inv': 0, 'chunks': [['yes', 'q']], 'lay': [0, 0, 0]},
              {'k': 'int', 'dtype': 'int32', 'mode': 2, 'inv': 0, 'chunks': [['1', 'q']], 'lay': [0, 0, 0]},
              {'k': 'fixed', 'n': 2, 'chunks': [['abc']], 'lay': [0, 0, 0]},
              {'k': 'date', 'chunks': [['2020-01-01']], 'lay': [0, 0, 0]}]:
        try:
            run(c)
        except Exception:
            pass
    global _sess, _ds
    _sess = _ds = None      # children open their own in-memory dataset


def b(s):
    return s.encode('latin-1')


def _mode_name(m):
    return {0: 'strict', 1: 'allow_empty', 2: 'relaxed'}.get(m, 'bogus')


def _definition(case):
    fi = _fi
    k = case['k']
    if k in ('cat', 'leaky'):
        cats = {b(key).decode('utf-8'): v for key, v in case['cats']}
        return fi.Categorical(cats, 'int8', allow_freetext=(k == 'leaky'))
    if k == 'bool':
        return fi.Numeric('bool', case['inv'], _mode_name(case['mode']), True, '_valid')
    if k in ('int', 'float'):
        return fi.Numeric(case['dtype'], case['inv'], _mode_name(case['mode']), True, '_valid')
    if k == 'fixed':
        return fi.String(case['n'])
    if k == 'datetime':
        return fi.DateTime(True, True)
    if k == 'date':
        return fi.Date(True, True)
    raise ValueError(k)


def _schema_json(case):
    k = case['k']
    if k in ('cat', 'leaky'):
        cat = {'strings_to_values': {b(key).decode('utf-8'): v for key, v in case['cats']}, 'value_type': 'int8'}
        if k == 'leaky':
            cat['out_of_range'] = 'freetext'
        f = {'field_type': 'categorical', 'categorical': cat}
    elif k in ('bool', 'int', 'float'):
        f = {'field_type': 'numeric', 'value_type': 'bool' if k == 'bool' else case['dtype'],
             'invalid_value': case['inv'], 'validation_mode': _mode_name(case['mode'])}
    elif k == 'fixed':
        f = {'field_type': 'fixed_string', 'length': case['n']}
    elif k == 'datetime':
        f = {'field_type': 'datetime', 'create_day_field': True, 'create_flag_field': True}
    else:
        f = {'field_type': 'date', 'create_day_field': True, 'create_flag_field': True}
    return {'exetera': {'version': '1.1.0'}, 'schema': {'t': {'primary_keys': [], 'fields': {'a': f, 'z': {'field_type': 'string'}}}}}


def _us(x):
    return float(x).hex()


def _cmp_form(case, r):
    """timestamps: the model's integer microseconds become the float64 that timedelta.total_seconds() returns"""
    if case['k'] in ('datetime', 'date') and isinstance(r, list) and isinstance(r[0], list) and len(r[0]) == 3:
        ts = [(t / 10 ** 6).hex() if isinstance(t, int) else t for t in r[0][0]]
        return [[ts, r[0][1], r[0][2]], r[1]]
    return r


def equal(case, impl, expected, mode):
    from harness import core
    return core.results_equal(impl, _cmp_form(case, expected), mode)


def _ftoken(case):
    """text -> token table for float columns: Python float(), cast to the dtype, identified by its bit pattern."""
    np = _np
    import numpy
    np = np or numpy
    dt = np.dtype(case['dtype'])
    ids = {}
    table = []

    def tok(v):
        with np.errstate(all='ignore'):
            bits = np.array([v], dtype=np.float64).astype(dt).tobytes()
        if bits not in ids:
            ids[bits] = len(ids) + 1
        return ids[bits]
    inv_tok = tok(float(case['inv']))
    texts = []
    for ch in case['chunks']:
        for c in ch:
            t = b(c).rstrip(b'\x00')
            if t not in texts:
                texts.append(t)
    it = str(case['inv']).encode()
    if it not in texts:
        texts.append(it)
    for t in texts:
        try:
            table.append([list(t), [tok(float(t))]])
        except ValueError:
            table.append([list(t), []])
    return table, ids, inv_tok


def _read(case, df):
    np = _np
    k = case['k']
    g = lambda n: df[n].data[:] if n in df else None
    if k == 'cat':
        return [[int(x) for x in g('a')]]
    if k == 'leaky':
        ft = df['a_freetext']
        return [[int(x) for x in g('a')], [int(x) for x in ft.indices[:]], [int(x) for x in ft.values[:]]]
    if k in ('bool', 'int'):
        v = g('a_valid')
        return [[int(x) for x in g('a')], None if v is None else [int(x) for x in v]]
    if k == 'float':
        _, ids, _ = _ftoken(case)
        a = g('a')
        assert a.dtype == np.dtype(case['dtype'])
        v = g('a_valid')
        return [[ids.get(a[i:i + 1].tobytes(), -1) for i in range(len(a))], None if v is None else [int(x) for x in v]]
    if k == 'fixed':
        a = g('a')
        assert a.dtype == np.dtype('S%d' % case['n'])
        return [list(a.tobytes())]
    if k in ('datetime', 'date'):
        d = g('a_day')
        assert d.dtype == np.dtype('S10')
        return [[_us(x) for x in g('a')], list(d.tobytes()), [int(x) for x in g('a_set')]]
    raise ValueError(k)


def _arrays(cells, lay):
    np = _np
    off, slack, tail = lay
    rows = len(cells)
    data = b''.join(cells)
    inds = np.zeros((3, rows + 1 + tail), dtype=np.int64)
    acc = 0
    for i, c in enumerate(cells):
        acc += len(c)
        inds[1, i + 1] = acc
    inds[1, rows + 1:] = 7
    count = len(data) + slack
    vals = np.zeros(off + count + 5, dtype=np.uint8)
    vals[:off] = 1
    vals[off:off + len(data)] = np.frombuffer(data, dtype=np.uint8)
    vals[off + len(data):off + count] = 2
    offs = np.array([0, off, off + count, off + count + 5], dtype=np.int64)
    return inds, vals, offs, rows


class _NumExc(Exception):
    pass


def run(case):
    np = _np
    k = case['k']
    if k == 'pyint':
        try:
            return [[int(b(case['t']))], None]
        except ValueError:
            return [[], None]
    sess, ds = _session()
    _counter[0] += 1
    name = 'd%d_%d' % (os.getpid(), _counter[0])
    df = ds.create_dataframe(name)
    try:
        try:
            if case.get('via') == 'csv':
                schema = _ls.load_schema(io.StringIO(json.dumps(_schema_json(case))))['t']
                cells = [c for ch in case['chunks'] for c in ch]
                fd, path = tempfile.mkstemp(suffix='.csv')
                with os.fdopen(fd, 'wb') as f:
                    f.write(b'a,z\n' + b''.join(b(c) + b',q\n' for c in cells))
                try:
                    _parsers.read_csv_with_schema_dict(path, df, schema, 0.0, chunk_row_size=case['crs'])
                finally:
                    os.unlink(path)
            else:
                imp = _definition(case)._importer(sess, df, 'a', None)
                for ch in case['chunks']:
                    inds, vals, offs, rows = _arrays([b(c) for c in ch], case['lay'])
                    imp.import_part(inds, vals, offs, 1, rows)
                    imp.complete()          # the reader calls complete() after every chunk
        except Exception as e:
            if type(e) is Exception and k == 'bool':
                m = str(e)
                return [['NumericException', 1 if 'can not be empty' in m else 2 if 'can not be parsed' in m else 0], None]
            if isinstance(e, UnicodeDecodeError) and k == 'date':
                raise ValueError(str(e))        # value.decode(): a ValueError subclass; the model has one code for both
            raise
        return [_read(case, df), None]
    finally:
        try:
            del ds[name]
        except Exception:
            pass


KIND = {'cat': 1, 'leaky': 2, 'bool': 3, 'int': 4, 'float': 5, 'fixed': 6, 'datetime': 7, 'date': 8}


def to_val(case):
    k = case['k']
    if k == 'pyint':
        return [20, list(b(case['t']))]
    if case.get('via') == 'csv':
        chunks = [[list(b(c)) for ch in case['chunks'] for c in ch]]
        lay = [0, 0, 0]
    else:
        chunks = [[list(b(c)) for c in ch] for ch in case['chunks']]
        lay = case['lay']
    if k in ('cat', 'leaky'):
        params = [[[list(b(key)), v] for key, v in case['cats']]]
    elif k == 'bool':
        params = [case['inv'], case['mode']]
    elif k == 'int':
        sgn, bits = DT_INT[case['dtype']]
        params = [sgn, bits, case['mode'], list(str(case['inv']).encode()), case['inv']]
    elif k == 'float':
        table, ids, inv_tok = _ftoken(case)
        params = [case['mode'], list(str(case['inv']).encode()), inv_tok, table]
    elif k == 'fixed':
        params = [case['n']]
    else:
        params = []
    return [KIND[k], params, chunks, lay]


_RX = [
    (re.compile(rb'^(\d{4})-(\d\d)-(\d\d) (\d\d):(\d\d):(\d\d)$'), 'naive'),
    (re.compile(rb'^(\d{4})-(\d\d)-(\d\d) (\d\d):(\d\d):(\d\d)(\.\d{1,3})? UTC$'), 'utc'),
    (re.compile(rb'^(\d{4})-(\d\d)-(\d\d) (\d\d):(\d\d):(\d\d)(\.\d{6})?([+-])(\d\d):(\d\d)$'), 'off'),
]


_RXF = re.compile(rb'^\d{4}-\d\d-\d\d \d\d:\d\d:\d\d\.(\d+)(?: UTC|[+-]\d\d:\d\d)$')


def _denoted_us(cell):
    """Independent reading of a timestamp text in one of the accepted layouts (datetime + timedelta arithmetic
    of CPython): integer microseconds since the epoch of the instant the text denotes, or None."""
    import datetime as dt
    t = cell.strip(WS)
    for rx, kind in _RX:
        m = rx.match(t)
        if not m:
            continue
        g = m.groups()
        try:
            base = dt.datetime(int(g[0]), int(g[1]), int(g[2]), int(g[3]), int(g[4]), int(g[5]))
        except ValueError:
            return None
        us = 0
        off = dt.timedelta(0)
        if kind in ('utc', 'off') and g[6]:
            frac = g[6][1:].decode()
            us = int(frac.ljust(6, '0'))
        if kind == 'off':
            if int(g[8]) > 23 or int(g[9]) > 59:
                return None
            off = dt.timedelta(hours=int(g[8]), minutes=int(g[9])) * (-1 if g[7] == b'-' else 1)
        d = (base - dt.datetime(1970, 1, 1)) - off
        return (d.days * 86400 + d.seconds) * 10 ** 6 + us
    return None


def _dec(x):
    from harness import core
    e = core.decode_err(x)
    if e is not None:
        return e
    if isinstance(x, list) and len(x) == 2 and x[0] == -77:
        return ['NumericException', x[1]]
    return None


def from_val(case, v):
    k = case['k']
    m, s = v
    if k == 'pyint':
        return [m, None], None

    def shape(x):
        e = _dec(x)
        if e is not None:
            return e if isinstance(e, str) else [e, None]
        if k in ('bool', 'int', 'float'):
            vals, flags = x
            if case['mode'] == 0:
                flags = None
            return [[vals, flags], None]
        if k in ('cat', 'fixed'):
            return [[x], None]
        return [x, None]
    mm = shape(m)
    ss = None if s == [] else shape(s)
    if k == 'datetime' and not isinstance(mm, str):
        cells = [b(c) for ch in case['chunks'] for c in ch]
        ts = list(mm[0][0])
        for i, c in enumerate(cells):
            d = _denoted_us(c)
            if d is not None:
                ts[i] = d
        ss = [[ts, mm[0][1], mm[0][2]], None]
    return mm, ss


def _offset_cells(case):
    n = 0
    for ch in case['chunks']:
        for c in ch:
            m = _RX[2][0].match(b(c).strip(WS))
            if m and (int(m.group(9)) != 0 or int(m.group(10)) != 0):
                n += 1
    return n


def known(case, impl, model, spec, mode):
    if case['k'] == 'datetime' and equal(case, impl, model, mode) and _offset_cells(case) > 0:
        return 'F-C06b'
    return None


def features(case, model):
    f = []
    k = case['k']
    f.append('kind:' + k)
    if k == 'pyint':
        f.append('pyint:' + ('value' if model[0] else 'ValueError'))
        return f
    if isinstance(model, str):
        f.append('err:' + model)
    elif isinstance(model[0], list) and model[0] and model[0][0] == 'NumericException':
        f.append('err:NumericException%d' % model[0][1])
    chunks = case['chunks']
    rows = sum(len(c) for c in chunks)
    if case.get('via') == 'csv':
        f.append('via-csv')
        if rows == 0: f.append('csv-header-only')
        if rows > 2 * case['crs']: f.append('csv-several-windows')
        return f
    if len(chunks) >= 3: f.append('chunks>=3')
    if any(len(c) == 0 for c in chunks): f.append('empty-chunk')
    if rows == 0: f.append('zero-rows')
    off, slack, tail = case['lay']
    if off: f.append('col-offset>0')
    if tail: f.append('stale-index-tail')
    mx = max([len(c) for ch in chunks for c in ch] + [0])
    for lim in (33, 65, 129, 257, 1025):
        if mx >= lim: f.append('cell-bytes>=%d' % lim)
    if case.get('form'): f.append('num-form:' + case['form'])
    if k in ('cat', 'leaky'):
        keys = [key for key, _ in case['cats']]
        if sum(len(b(x)) for x in keys) > 255: f.append('keybytes>255')
        if len(keys) >= 100: f.append('keys>=100')
        if any(len(x) >= 256 for x in keys): f.append('key-bytes>=256')
        try:
            ck = [(len(b(x).decode('utf-8')), len(x)) for x in keys]
            if any(a != n for a, n in ck): f.append('non-ascii-key')
            if any(a1 <= a2 and n1 > n2 for a1, n1 in ck for a2, n2 in ck): f.append('key-with-fewer-chars-has-more-bytes')
        except UnicodeDecodeError:
            pass
        cells = [c for ch in chunks for c in ch]
        if any(c in keys for c in cells): f.append('cell-matches')
        if any(c not in keys for c in cells): f.append('cell-unmatched')
        if any(c not in keys and any(x.startswith(c) and x != c for x in keys) for c in cells): f.append('cell-is-proper-prefix-of-key')
        if any(c not in keys and any(c.startswith(x) and x != '' for x in keys) for c in cells): f.append('key-is-proper-prefix-of-cell')
        if any(c not in keys and any(c.endswith(x) and x != '' for x in keys) for c in cells): f.append('key-is-proper-suffix-of-cell')
        if any(c not in keys and any(len(x) == len(c) for x in keys) for c in cells): f.append('same-length-different-bytes')
        if k == 'leaky' and not isinstance(model, str):
            per = []
            for ch in chunks:
                per.append(sum(len(b(c)) for c in ch if c not in keys))
            if sum(1 for p in per if p > 0) >= 2: f.append('freetext-in->=2-chunks')
            if sum(1 for p in per if p > 0) >= 3: f.append('freetext-in->=3-chunks')
            if any(p == 0 for p in per) and any(p > 0 for p in per): f.append('chunk-without-freetext')
    if k in ('bool', 'int', 'float'):
        f.append('mode:' + _mode_name(case['mode']))
        if k != 'bool': f.append('dtype:' + case['dtype'])
        if not isinstance(model, str) and model[0] and model[0][0] != 'NumericException':
            vals, flags = model[0]
            if flags is not None and 0 in flags: f.append('flagged-invalid')
            if flags is not None and 1 in flags: f.append('flagged-valid')
        cells = [b(c) for ch in chunks for c in ch]
        if any(c.strip(WS + b'\x00') == b'' for c in cells): f.append('empty-or-blank-cell')
        if any(c != c.strip(WS) and c.strip(WS) for c in cells): f.append('blank-padded-cell')
        if k == 'int':
            sgn, bits = DT_INT[case['dtype']]
            lo, hi = (-(1 << (bits - 1)), (1 << (bits - 1)) - 1) if sgn else (0, (1 << bits) - 1)
            for c in cells:
                try:
                    v = int(c)
                    if v < lo or v > hi: f.append('out-of-range-number')
                    if v in (lo, hi): f.append('range-boundary-number')
                    if b'_' in c: f.append('underscore-number')
                except ValueError:
                    if c.strip(WS): f.append('unparseable')
    if k == 'fixed':
        cells = [b(c) for ch in chunks for c in ch]
        if any(len(c) > case['n'] for c in cells): f.append('longer-than-N')
        if any(len(c) == case['n'] for c in cells): f.append('exactly-N')
        if any(len(c) < case['n'] for c in cells): f.append('shorter-than-N')
    if k == 'datetime':
        if _offset_cells(case): f.append('nonzero-utc-offset')
        if rows >= 1000: f.append('rows>=1000')
        hard6 = set(_hard_fractions(6)) if rows >= 100 else ()
        seen_l = set()
        for ch in chunks:
            for c in ch:
                t = b(c).strip(WS)
                for rx, kind in _RX:
                    if rx.match(t): seen_l.add('layout:%s:%d' % (kind, len(t)))
                m = _RXF.match(t)
                if m:
                    seen_l.add('fraction-digits:%d%s' % (len(m.group(1)), '-before-UTC' if t.endswith(b'UTC') else ''))
                    if len(m.group(1)) == 6 and int(m.group(1)) in hard6: seen_l.add('fraction-binary64-hard')
        f += sorted(seen_l)
    if k == 'date':
        for ch in chunks:
            for c in ch:
                t = b(c).strip(WS)
                if not t: f.append('date:blank')
                elif re.fullmatch(rb'\d{4}-\d\d-\d\d', t): f.append('date:YYYY-MM-DD')
                elif re.fullmatch(rb'\d{4}-\d\d?-[ \d]?\d', t): f.append('date:short-month-or-day')
                if t != b(c): f.append('date:blank-padded')
                if any(x >= 128 for x in t):
                    try:
                        t.decode()
                        f.append('date:non-ascii-utf8')
                    except UnicodeDecodeError:
                        f.append('date:broken-utf8')
        if any(x >= 128 for ch in chunks for c in ch for x in b(c)) and not isinstance(model, str):
            f.append('date:unicode-digits-accepted')
        if isinstance(model, str): f.append('date:' + model)
    return sorted(set(f))


def nontrivial(case, model):
    if case['k'] == 'pyint':
        return True
    rows = sum(len(c) for c in case['chunks'])
    return rows > 0 or isinstance(model, str)


# ------------------------------------------------------------------------------------------- generators
AB3 = [''.join(p) for n in range(0, 4) for p in itertools.product('ab', repeat=n)]
BIGKEYS = [['pfx%02d_key' % i, i] for i in range(30)]          # 270 key bytes
TABLES = [
    [['', 0], ['a', 1], ['ab', 2], ['b', 3]],
    [['a', 1], ['aa', 2], ['aaa', 3]],
    [['ba', 2], ['ab', 1]],
    [['b', 5]],
    [['aab', 1], ['aba', 2], ['abb', 3], ['bab', 4]],
]
TABLES_EXTRA = [
    BIGKEYS,
    [['\xc3\xa9', 1], ['e', 2], ['\xc3\xa9e', 3]],           # UTF-8 keys
    [['a', 127], ['b', 0]],
    [['a', -1], ['b', 1]],                                      # unsupported codes: both sides raise
    [['a', 128]],
    [['a', 300]],
]
BOOL_WORDS = ['1', '0', 'y', 'n', 't', 'f', 'on', 'no', 'yes', 'off', 'true', 'false']
BOOL_BAD = ['', ' ', '   ', '2', 'x', 'ye', 'yess', 'tru', 'truee', 'fals', 'falsee', 'of', 'o', 'oon', 'nn', 'y s', 'tr ue',
            'yes!', 'Y.', '10', '00', 'nope', 'offf', 'TRUEE', '\t1', '1\t',
            # E2 (bool_transform_table): only byte 32 is trimmed; six bytes and more; blanks inside
            '\n', ' \t ', 'yes\n', 'false ', '  FaLsE', 'falsey', ' o n ', 'o  ff', '1 1', 'true  x']
INT_POOL = ['0', '1', '-1', '+5', ' 12', '12 ', '  7  ', '\t8', '0012', '-0', '1_000', '1__0', '_1', '1_', '1e3', '1.5', '1.0',
            '0x10', 'abc', '12abc', '- 5', '--5', '+-5', '1 2', '', ' ', '   ', '127', '128', '-128', '-129', '255', '256',
            '300', '32767', '32768', '-32768', '-32769', '65535', '65536', '2147483647', '2147483648', '-2147483648',
            '-2147483649', '4294967295', '4294967296', '4611686018427387903', '9223372036854775807',
            '9223372036854775808', '-9223372036854775809', '99999999999999999999', 'nan', 'inf', '٣'.encode('utf-8').decode('latin-1')]
FLOAT_POOL = ['0', '1', '-1', '+5', ' 12', '12 ', '1e3', '1E3', '1.5', '.5', '5.', '1_0.5', '1e5_0', '-0.0', '1e400', '-1e400',
              '1e-400', 'nan', 'NaN', 'inf', '-inf', 'Infinity', 'infinity', '+inf', 'nan(1)', '0x10', '0x1p3', 'abc',
              '1,5', '1 2', '--5', '', ' ', '  ', '0.1', '16777217', '3.4028235e38', '3.5e38', '1e-46', '9007199254740993',
              '1d5', '1e', 'e1', '.', '1.5.2']
LAYS = [[0, 0, 0], [3, 2, 2], [1, 0, 1]]


def _splits(cells, with_empty=True):
    """all compositions of the cell list into consecutive chunks, plus variants with an empty chunk"""
    n = len(cells)
    out = []
    for mask in range(1 << max(0, n - 1)):
        parts, cur = [], [cells[0]] if n else []
        for i in range(1, n):
            if mask >> (i - 1) & 1:
                parts.append(cur); cur = []
            cur.append(cells[i])
        parts.append(cur)
        out.append(parts)
    if with_empty:
        out.append([[]] + out[0])
        out.append(out[-2] + [[]] if n else [[], []])
        if n >= 2:
            out.append([cells[:1], [], cells[1:]])
    return out


def _rand_split(rng, cells, kmax=6):
    n = len(cells)
    k = rng.randint(1, kmax)
    cuts = sorted(rng.randint(0, n) for _ in range(k - 1))
    parts, prev = [], 0
    for c in cuts + [n]:
        parts.append(cells[prev:c]); prev = c
    return parts


def _fmt_layouts(y, mo, d, hh, mi, ss):
    base = '%04d-%02d-%02d %02d:%02d:%02d' % (y, mo, d, hh, mi, ss)
    return [base, base + ' UTC', base + '.1 UTC', base + '.05 UTC', base + '.056 UTC', base + '.999 UTC',
            base + '+00:00', base + '+01:00', base + '-05:30', base + '.056000+00:00', base + '.999999+01:00',
            base + '.000001-00:00', base + '+23:59']


INSTANTS = [(2020, 6, 15, 19, 45, 39), (1970, 1, 1, 0, 0, 0), (1969, 12, 31, 23, 59, 59), (2000, 2, 29, 12, 0, 0),
            (2100, 2, 28, 23, 59, 59), (1, 1, 1, 0, 0, 0), (9999, 12, 31, 23, 59, 59), (2024, 12, 31, 0, 0, 0),
            (2023, 3, 1, 0, 0, 0), (1900, 3, 1, 6, 7, 8)]
DT_BAD = ['2020-13-01 00:00:00', '2021-02-29 00:00:00', '2020-06-15 24:00:00', '2020-06-15 19:60:00',
          '2020-06-15 19:45:60', '0000-01-01 00:00:00', '2020-06-15', '2020-06-15 19:45', '2020-06-15T19:45:39',
          '2020-06-15 19:45:39Z', 'garbage', '2020-06-15 19:45:39.1234 UTC', '2020-06-15 19:45:39 UTC ', ' 2020-06-15 19:45:39',
          '2020/06/15 19:45:39', '2020-6-15 19:45:39 UTC', '20-06-15 19:45:39.05 UTC', '2020-06-15 19:45:39.-5 UTC',
          '2020-06-1 5 19:45:39', '+020-06-15 19:45:39', '2_20-06-15 19:45:39', 'UTC', 'xUTC', '', ' ', '\t']
DATE_POOL = ['2020-06-15', '1970-01-01', '1969-12-31', '2000-02-29', '2100-02-28', '0001-01-01', '9999-12-31', '2020-1-5',
             '2020-01-5', '2020-1-05', '2020-12-31', '2020-10-10', '2020-11-30', '2020-01- 5', '', ' ', ' 2020-06-15 ',
             '2020-13-01', '2021-02-29', '2100-02-29', '2020-00-10', '2020-06-00', '2020-06-31', '2020-06-32', '2020-06-150',
             '20-06-15', '02020-06-15', '2020/06/15', '2020-06-15 00:00:00', 'garbage', '2020-06', '2020-0a-01',
             '0000-01-01', '2020-06-1x', '2020--06-15', '2020-06-15-', '2020- 6-15', '2020-06-3',
             # E2 (date_cell_table / date_invalid_raises): every strip() byte, the three day spellings, stray separators
             '\t2020-06-15\n', '2020-06-15\x0b\x0c\r', '\t \n', '2020-1--5', '2020-1-5-', '2020-1- 5', '2020-12- 1', '2020-10-5',
             '2020-02-30', '2020-06- 15', '2020-06-015', '2020-6- 0', '2020-06-30 x', '-2020-06-15', '2020-06-15 \t 1']


ND_ZEROS = [48, 1632, 1776, 1984, 2406, 2534, 2662, 2790, 2918, 3046, 3174, 3302, 3430, 3558, 3664, 3792, 3872, 4160, 4240,
            6112, 6160, 6470, 6608, 6784, 6800, 6992, 7088, 7232, 7248, 42528, 43216, 43264, 43472, 43504, 43600, 44016,
            65296, 66720, 68912, 69734, 69872, 69942, 70096, 70384, 70736, 70864, 71248, 71360, 71472, 71904, 72016, 72784,
            73040, 73120, 73552, 92768, 92864, 93008, 120782, 120792, 120802, 120812, 120822, 123200, 123632, 124144,
            125264, 130032]          # the zeros of the Nd runs, as in Model/Transform.v


def _u(t):
    return t.encode('utf-8', 'surrogatepass').decode('latin-1')


# ------------------------------------------------------------------- strengthening SC06 (seeded C06-r2-1, C06-r2-2)
# (1) category tables outside ASCII, where the number of characters of a key and the number of its UTF-8 bytes order
#     the keys differently (Python sorts / measures str objects, the kernels compare bytes);
# (2) cell texts far longer than anything a pool of "typical" numerals contains: a ladder of byte widths that covers
#     every width up to 72 and both neighbours of the powers of two up to 1024 (thorough: 4096), plus the neighbours
#     of every size literal that is new in the tree under test (harness/hot.py).
UCH = ['a', 'é', '男', '\U0001F600']          # 1, 2, 3 and 4 bytes of UTF-8


def _ustrings(alpha, maxchars):
    return [''.join(p) for n in range(0, maxchars + 1) for p in itertools.product(alpha, repeat=n)]


def _hot_widths():
    ws = set()
    try:
        from harness import hot
        for k in hot.hot_sizes():
            ws |= {k - 1, k, k + 1, 2 * k - 1, 2 * k, 2 * k + 1, 3 * k}
    except Exception:
        pass
    return set(w for w in ws if 1 <= w <= 4200)


def _widths(tier):
    big = tier == 'thorough'
    ws = set(range(1, 73)) | {95, 96, 97, 127, 128, 129, 255, 256, 257, 300, 511, 512, 513, 1023, 1024, 1025}
    if big:
        ws |= set(range(73, 131)) | {2047, 2048, 2049, 4095, 4096, 4097}
    ws |= _hot_widths()
    return sorted(w for w in ws if 1 <= w <= 4200)          # int(): CPython refuses more than 4300 digits


def _int_forms(w):
    """numerals (and near-numerals) that are exactly w bytes long"""
    f = [('zero-padded', ('0' * w + '42')[-w:]), ('lead-blank', ' ' * (w - 1) + '7'), ('trail-blank', '7' + ' ' * (w - 1)),
         ('nines', '9' * w)]
    if w >= 2:
        f += [('neg-zero-padded', '-' + '0' * (w - 2) + '5'), ('junk-at-end', '0' * (w - 1) + 'x'),
              ('blank-both', ' ' * ((w - 1) // 2) + '3' + ' ' * (w - 1 - (w - 1) // 2))]
    if w >= 3:
        f += [('underscores', '0' * (w - 2 * ((w - 3) // 2) - 2) + '_0' * ((w - 3) // 2) + '_7'),
              ('plus-in-the-middle', '0' * (w - 2) + '+1'), ('exp-at-end', '1' + '0' * (w - 3) + 'e1')]
    return f


def _float_forms(w):
    f = []
    if w >= 3:
        f += [('long-fraction', '0.' + '0' * (w - 3) + '5'), ('zero-padded', '0' * (w - 3) + '2.5'),
              ('many-integer-digits', '1' + '0' * (w - 3) + '.5'), ('lead-blank', ' ' * (w - 3) + '1.5'),
              ('trail-blank', '1.5' + ' ' * (w - 3)), ('junk-at-end', '0' * (w - 2) + '.x'),
              ('pi-digits', ('3.' + '14159265358979323846264338327950288419716939937510' * (w // 50 + 1))[:w]),
              ('nan-lead-blank', ' ' * (w - 3) + 'nan')]
    if w >= 7:
        f += [('exponent-at-end', '1.5' + '0' * (w - 6) + 'e02'), ('neg-exponent-at-end', '2.5' + '0' * (w - 7) + 'e-03')]
    if w >= 5:
        f += [('digit-after-exponent', '1e' + '0' * (w - 3) + '2')]
    return f


def _gen_unicode_tables(tier, rng, budget):
    big = tier == 'thorough'
    p13 = [_u(x) for x in _ustrings(UCH[:3], 2)]
    p21 = [_u(x) for x in _ustrings(UCH, 2)]
    tables = []
    for pool, r in ([(p21, 2), (p13, 3)] + ([(p21, 3)] if big else [])):
        for keys in itertools.combinations(pool, r):
            tables.append((pool, list(keys)))
    # four and five keys, three characters: structured random
    p3 = [_u(x) for x in _ustrings(UCH + ['B', '0', ' ', '\x7f', '\xff', '\u0100', '\u07ff', '\u0800', '\uffff'], 3)]
    for _ in range((2000 if big else 150) + budget):
        tables.append((p21, rng.sample(p3, rng.randint(2, 6))))
    seen = set()
    for n, (pool, keys) in enumerate(tables):
        if tuple(keys) in seen:
            continue
        seen.add(tuple(keys))
        if n % 2:
            keys = keys[::-1]                   # dict insertion order must not matter
        tab = [[k, (5 * i + n) % 128] for i, k in enumerate(keys)]
        near = [k[:-1] for k in keys if k] + [k[:-1] + chr(ord(k[-1]) ^ 1) for k in keys if k] + [k + 'a' for k in keys]
        cells = list(keys) + [c for c in pool if c not in keys] + near
        h = (n % (len(cells) - 1)) + 1
        kind = ('cat', 'leaky')[n % 2] if not big else None
        for kd in ([kind] if kind else ['cat', 'leaky']):
            yield {'k': kd, 'cats': tab, 'chunks': [cells[:h], cells[h:]], 'lay': LAYS[n % 3]}
    # the same question inside ASCII: every table of two or three keys of length <= 2 over {a,b}
    ab2 = [x for x in AB3 if len(x) <= 2]
    n = 0
    for r in (2, 3):
        for keys in itertools.combinations(ab2, r):
            n += 1
            tab = [[k, 3 * i + 1] for i, k in enumerate(keys[::-1] if n % 2 else keys)]
            yield {'k': ('cat', 'leaky')[n % 2], 'cats': tab, 'chunks': [AB3[:n % 15], AB3[n % 15:]], 'lay': LAYS[n % 3]}
    # as many keys as int8 codes
    full = [['k%03d' % i if i % 3 else _u('é%02d' % i), i] for i in range(128)]
    for kd in ('cat', 'leaky'):
        yield {'k': kd, 'cats': full, 'chunks': [[full[i][0] for i in (0, 1, 2, 63, 126, 127)] + ['k12', 'k0010'], ['k127', '', 'k128']],
               'lay': [1, 1, 1]}


def _gen_long(tier, rng, budget):
    big = tier == 'thorough'
    ws = _widths(tier)
    dts = list(DT_INT)
    n = 0
    for w in ws:
        for name, c in _int_forms(w):
            n += 1
            bad = name in ('junk-at-end', 'plus-in-the-middle', 'exp-at-end') or (name == 'nines' and w > 2)
            for mode in ((0, 1, 2) if big else ((2 if bad and n % 4 else n % 3),)):
                yield {'k': 'int', 'dtype': dts[n % 7], 'mode': mode, 'inv': n % 2 * 9, 'chunks': [['1', c, '-2'], [c]] if n % 2 else [[c]],
                       'lay': LAYS[n % 3], 'form': name}
        for name, c in _float_forms(w):
            n += 1
            bad = name == 'junk-at-end'
            for mode in ((0, 1, 2) if big else ((2 if bad and n % 4 else n % 3),)):
                yield {'k': 'float', 'dtype': ('float64', 'float32')[n % 2], 'mode': mode, 'inv': 0,
                       'chunks': [['1.5', c, ''], [c]] if (n % 3 == 0 and mode) else [[c]], 'lay': LAYS[n % 3], 'form': name}
    # the other kinds at the widths where a size could change behaviour
    wl = [w for w in ws if w in (31, 32, 33, 63, 64, 65, 127, 128, 129, 255, 256, 257, 1023, 1024, 1025) or w in _hot_widths()]
    for i, w in enumerate(wl):
        k1, k2, k3 = 'k' * w, 'k' * (w - 1) + 'j', 'k' * (w + 1)
        ue = _u('é' * (w // 2) + 'z' * (w % 2))            # w bytes, about w/2 characters
        tab = [[k1, 1], [k2, 2], [k3, 3], ['', 0], [ue, 4]]
        cells = [k1, k2, k3, ue, k1[:-1], 'k' * (w + 2), 'j' + 'k' * (w - 1), '', ue[:-1], ue + 'z']
        for kd in ('cat', 'leaky'):
            yield {'k': kd, 'cats': tab[i % 2:], 'chunks': [cells[:i % 9 + 1], cells[i % 9 + 1:]], 'lay': LAYS[i % 3]}
        for mode in (0, 1, 2):
            cells = [' ' * (w - 3) + 'yes', 'no' + ' ' * (w - 2), ' ' * (w - 1) + '0'] + ([' ' * w] if mode else []) + (['x' * w, ' ' * (w - 1) + '2'] if mode == 2 else [])
            yield {'k': 'bool', 'mode': mode, 'inv': 0, 'chunks': [cells[:2], cells[2:]], 'lay': LAYS[(i + mode) % 3]}
        txt = ''.join(chr(97 + j % 26) for j in range(2 * w + 1))
        yield {'k': 'fixed', 'n': w, 'chunks': [[txt[:w - 1], txt[:w]], [txt[:w + 1], txt, '']], 'lay': LAYS[i % 3]}
        yield {'k': 'date', 'chunks': [[' ' * (w - 10) + '2020-06-15', ''], ['1970-01-02' + ' ' * w]], 'lay': LAYS[i % 3]}
        yield {'k': 'datetime', 'chunks': [[' ' * (w - 19) + '2020-06-15 19:45:39', ''], ['2020-06-15 19:45:39.05 UTC' + '\t' * w]], 'lay': LAYS[i % 3]}
    # CPython's int() refuses numerals of more than 4300 digit characters (leading zeros count; underscores, sign and
    # blanks do not): modelled in py_int, exercised on both sides of the limit
    for w in ((4299, 4300, 4301, 4302) if big else (4300, 4301)):
        forms = [('zero-padded', ('0' * w + '42')[-w:])]
        if big:
            forms += [('lead-blank', ' ' * 5 + ('0' * w + '7')[-w:]), ('nines', '9' * w), ('underscores', '0_' * (w - 1) + '7'),
                      ('neg-zero-padded', '-' + '0' * (w - 1) + '5')]
        for name, c in forms:
            for mode in ((0, 1, 2) if big else (1, 2)):
                yield {'k': 'int', 'dtype': 'int32', 'mode': mode, 'inv': 9, 'chunks': [['1', c]], 'lay': LAYS[mode], 'form': name}
    # structured random: columns that mix short and very long numerals, several chunks
    for _ in range((600 if big else 120) + budget):
        isint = rng.random() < 0.5
        cells = []
        for _ in range(rng.randint(2, 8)):
            w = rng.choice(ws) if rng.random() < 0.6 else rng.randint(1, 12)
            forms = _int_forms(w) if isint else _float_forms(w)
            cells.append(rng.choice(forms)[1] if forms else '1')
        mode = rng.choice([0, 1, 2, 2])
        if isint:
            yield {'k': 'int', 'dtype': rng.choice(dts), 'mode': mode, 'inv': rng.choice([0, 9]), 'chunks': _rand_split(rng, cells, 4),
                   'lay': [rng.randint(0, 3), rng.randint(0, 2), rng.randint(0, 2)]}
        else:
            yield {'k': 'float', 'dtype': rng.choice(['float32', 'float64']), 'mode': mode, 'inv': rng.choice([0, -1]),
                   'chunks': _rand_split(rng, cells, 4), 'lay': [rng.randint(0, 3), rng.randint(0, 2), rng.randint(0, 2)]}


# ------------------------------------------------------------------- strengthening VC06 (seeded C06-r4-1)
# Decimal text -> number with a fixed scale.  The importers read the fraction digits of a datetime with int() (exact);
# a reading through binary floating point - int(float('0.' + digits) * 10**k), float(seconds text), base + fraction as
# floats - is wrong only for the digit strings whose product lands a hair below the integer (about 1% of the 6-digit
# fractions, none of the 1..3-digit ones for the scale 10**6, 3 of the 2-digit ones for the scale 10**2), so a pool
# of hand-picked fractions never meets it.  Region covered here: EVERY 1-, 2- and 3-digit fraction in every layout that
# carries one, the 6-digit layout on the binary64-hard fractions (all of them in the thorough tier) and on a large
# seeded sample, 4/5/6-digit fractions before ' UTC' (lengths 28..30: the code drops the fraction - modelled so),
# all in long columns (thousands of rows per import call, several chunks), at instants where float64 seconds resolve
# one microsecond (|t| < 2^32 s, years 1834..2106; outside, two neighbouring microseconds share a float64).
FRAC_INSTANTS = [(1970, 1, 1, 0, 0, 0), (1969, 12, 31, 23, 59, 59), (2020, 6, 15, 19, 45, 39), (2000, 2, 29, 12, 0, 0),
                 (2100, 2, 28, 23, 59, 59), (1902, 1, 1, 0, 0, 1), (2038, 1, 19, 3, 14, 7), (1999, 12, 31, 23, 59, 59)]
FRAC_CHUNK = 250            # rows per chunk: the extracted model reads a chunk through list get/slice (quadratic)
_hard_cache = {}


def _hard_fractions(k):
    """the k-digit fractions f for which SOME plausible binary64 route from the digit string to the integer number of
    10^-k units / microseconds truncates to the wrong integer (float('0.'+digits) == f / 10**k, both correctly rounded)"""
    if k in _hard_cache:
        return _hard_cache[k]
    s = 10 ** (6 - k)
    try:
        import numpy as np
        f = np.arange(10 ** k, dtype=np.int64)
        x = f / 10.0 ** k
        bad = (np.trunc(x * 10.0 ** k) != f) | (np.trunc(x * 1e6) != f * s)
        out = [int(v) for v in f[bad]]
    except ImportError:
        out = [f for f in range(10 ** k)
               if int(float('0.%0*d' % (k, f)) * 10 ** k) != f or int(float('0.%0*d' % (k, f)) * 1e6) != f * s]
    _hard_cache[k] = out
    return out


def _frac_cell(inst, k, f, sfx):
    return '%04d-%02d-%02d %02d:%02d:%02d' % tuple(inst) + '.%0*d' % (k, f) + sfx


def _rand_instant(rng):
    y = rng.choice([1902, 1950, 1969, 1970, 1971, 1999, 2000, 2001, 2020, 2024, 2038, 2099, 2100])
    return (y, rng.randint(1, 12), rng.randint(1, 28), rng.randint(0, 23), rng.randint(0, 59), rng.randint(0, 59))


def _frac_column(rng, items, inst=None, pad=True):
    """items: (k, f, suffix); one long column, blank cells and blank-padded cells sprinkled in, chunks of <= FRAC_CHUNK
    rows with a random first cut so that chunk boundaries fall differently in every case"""
    cells = []
    for j, (k, f, sfx) in enumerate(items):
        c = _frac_cell(inst or _rand_instant(rng), k, f, sfx)
        if pad and j % 53 == 7:
            c = ' ' + c + '\t '
        cells.append(c)
        if pad and j % 97 == 11:
            cells.append('')
    first = rng.randint(1, FRAC_CHUNK)
    chunks = [cells[:first]] + [cells[i:i + FRAC_CHUNK] for i in range(first, len(cells), FRAC_CHUNK)]
    return {'k': 'datetime', 'chunks': chunks, 'lay': [rng.randint(0, 3), rng.randint(0, 2), rng.randint(0, 2)]}


def _gen_fractions(tier, rng, budget):
    big = tier == 'thorough'
    more = 3 if budget else 1                # some library source differs from the recorded tree: search harder
    Z0, ZM = '+00:00', '-00:00'
    # (a) every 1-, 2-, 3-digit fraction, each instant: one column per instant (1110 rows)
    for n, inst in enumerate(FRAC_INSTANTS):
        items = [(k, f, ' UTC') for k in (1, 2, 3) for f in range(10 ** k)]
        if n % 2:
            rng.shuffle(items)
        yield _frac_column(rng, items, inst)
    # (b) six digits, binary64-hard fractions: all (thorough) / the extremes and a sample (quick), instants rotated
    hard = _hard_fractions(6)
    if not big:
        pick = sorted(set(hard[:60] + hard[-60:] + rng.sample(hard, min(len(hard), 500 * more))))
    else:
        pick = list(hard)
    per = 2000
    for n, a in enumerate(range(0, len(pick), per)):
        part = pick[a:a + per]
        yield _frac_column(rng, [(6, f, ZM if j % 17 == 3 else Z0) for j, f in enumerate(part)],
                           FRAC_INSTANTS[n % len(FRAC_INSTANTS)] if n % 3 else None)
    # systematic neighbours: j * 10^m - 1, j * 10^m, j * 10^m + 1 (runs of nines / zeros in the text)
    sysf = set()
    for m in range(0, 6):
        for j in range(0, 10 ** 6 // 10 ** m + 1, max(1, 10 ** (5 - m) // 10)):
            for dlt in (-1, 0, 1):
                v = j * 10 ** m + dlt
                if 0 <= v < 10 ** 6:
                    sysf.add(v)
    sysf = sorted(sysf)
    for a in range(0, len(sysf), per):
        yield _frac_column(rng, [(6, f, Z0) for f in sysf[a:a + per]], FRAC_INSTANTS[(a // per) % len(FRAC_INSTANTS)])
    # (c) six digits, seeded sample: long columns; fixed instants (t = 0 resolves best) and random instants alternate
    ncols = (50 if big else 5) * more
    for n in range(ncols):
        items = [(6, rng.randrange(10 ** 6), Z0) for _ in range(4000)]
        yield _frac_column(rng, items, FRAC_INSTANTS[(n // 2) % len(FRAC_INSTANTS)] if n % 2 == 0 else None)
    # (d) the digit counts the parser has no branch for, before ' UTC' (28, 29, 30 bytes: read as '... UTC' without
    #     the fraction - what the code does; the specification has no opinion on them) - hard ones first, then a sample
    for k in (4, 5, 6):
        hk = _hard_fractions(k)
        nsamp = (10 ** k if k == 4 else 40000) if big else 1500
        fs = (list(range(10 ** k)) if nsamp >= 10 ** k else
              sorted(set(rng.sample(hk, min(len(hk), nsamp // 3)) + [rng.randrange(10 ** k) for _ in range(nsamp)])))
        for a in range(0, len(fs), 4000):
            yield _frac_column(rng, [(k, f, ' UTC') for f in fs[a:a + 4000]], None)
    # mixed columns: every layout that carries a fraction, row by row
    for n in range((40 if big else 6) * more):
        items = []
        for _ in range(rng.randint(300, 1200)):
            k = rng.choice([1, 2, 3, 6, 6, 6, 4, 5])
            f = rng.choice(_hard_fractions(k)) if (rng.random() < 0.2 and _hard_fractions(k)) else rng.randrange(10 ** k)
            items.append((k, f, ' UTC' if k != 6 else rng.choice([Z0, Z0, ZM])))
        yield _frac_column(rng, items, None)
    # fraction layouts the parser refuses (ValueError for the whole chunk): one cell each, after good rows
    inst = FRAC_INSTANTS[2]
    for k, sfx in [(1, Z0), (2, Z0), (3, Z0), (4, Z0), (5, Z0), (7, Z0), (7, ' UTC'), (6, '+00:0'), (6, 'Z'), (6, '')]:
        f = rng.randrange(10 ** k)
        yield {'k': 'datetime', 'chunks': [[_frac_cell(inst, 6, 249, Z0)], [_frac_cell(inst, k, f, sfx)]], 'lay': [0, 0, 0]}
    # the fraction slice goes through int(): blanks, sign, underscore inside the digits (what int() accepts is stored)
    for t in ['.1_2 UTC', '.+12 UTC', '. 12 UTC', '.12  UTC', '.-12 UTC', '.1e2 UTC', '.0x1 UTC', '.+1 UTC', '.-1 UTC', '.  UTC',
              '.12_456+00:00', '.+12345+00:00', '. 12345+00:00', '.12345 +00:00', '.-00001+00:00', '.1e5   +00:00', '.1.2345+00:00',
              '.      +00:00', '.000249 00:00', '.000249+0000Z']:
        yield {'k': 'datetime', 'chunks': [['2020-06-15 19:45:39' + t]], 'lay': [1, 1, 1]}
    # (e) end to end through the CSV reader
    for n in range(4 if big else 2):
        cells = []
        for _ in range(600):
            k = rng.choice([1, 2, 3, 6, 6, 6])
            f = rng.choice(hard) if (k == 6 and rng.random() < 0.3) else rng.randrange(10 ** k)
            cells.append(_frac_cell(_rand_instant(rng), k, f, ' UTC' if k != 6 else Z0) if rng.random() < 0.95 else '')
        yield {'k': 'datetime', 'chunks': [cells], 'via': 'csv', 'crs': (18, 64, 700, 37)[n], 'lay': [0, 0, 0]}
    # (f) the same class in numeric columns: decimal numerals whose value a hand-rolled parser (integer part +
    #     digits / 10**k, or float -> int scaling) gets wrong in the last bit / last unit
    for n in range((60 if big else 12) * more):
        cells = []
        for _ in range(200):
            k = rng.randint(1, 17)
            ip = rng.choice(['', '0', '1', '39', str(rng.randrange(10 ** rng.randint(1, 10)))])
            cells.append(rng.choice(['', '-']) + ip + '.' + '%0*d' % (k, rng.randrange(10 ** k)) + rng.choice(['', '', 'e3', 'e-2', 'E+5']))
        yield {'k': 'float', 'dtype': ('float64', 'float32')[n % 4 == 3], 'mode': n % 3, 'inv': 0,
               'chunks': _rand_split(rng, cells, 4), 'lay': LAYS[n % 3]}
    for n in range((30 if big else 6) * more):
        cells = []
        for _ in range(200):
            d = rng.randint(15, 18)
            v = rng.randrange(10 ** (d - 1), 10 ** d)
            v = min(v, 2 ** 62 - 1) * rng.choice([1, -1])
            cells.append(str(v) if rng.random() < 0.8 else str(2 ** rng.randint(53, 61) + rng.choice([-1, 1, 3])))
        yield {'k': 'int', 'dtype': 'int64', 'mode': n % 3, 'inv': 0, 'chunks': _rand_split(rng, cells, 4), 'lay': LAYS[n % 3]}


def gen_sc06(tier, rng):
    budget = 0
    try:
        from harness import hot
        if hot.changed():
            budget = 400                 # some library source differs from the recorded tree: search harder
    except Exception:
        pass
    yield from _gen_unicode_tables(tier, rng, budget)
    yield from _gen_long(tier, rng, budget)
    yield from _gen_fractions(tier, rng, budget)


def _gen_base(tier, rng):
    big = tier == 'thorough'
    # ---- Python int() vs py_int
    alpha = [' ', '+', '-', '_', '0', '1', '9', 'a', '\t']
    for n in range(0, 5):
        for p in itertools.product(alpha, repeat=n):
            yield {'k': 'pyint', 't': ''.join(p)}
    for t in [x for x in INT_POOL + FLOAT_POOL if sum(ch.isdigit() for ch in x) <= 18] + ['1_2_3', ' +1_0 ', '-9_9', '\x0c1\x0b', '1\x00', '\x001', '1\x1c', '00_0', '+0_', '1 _0']:
        yield {'k': 'pyint', 't': t}
    for _ in range(3000 if big else 600):
        yield {'k': 'pyint', 't': ''.join(rng.choice(alpha + ['5', '7']) for _ in range(rng.randint(5, 9)))}
    for n in (4299, 4300, 4301):         # sys.get_int_max_str_digits() = 4300
        ts = ['0' * (n - 1) + '7', ' -' + '0' * (n - 1) + '7 ', '0' * n + 'x', '_' + '1' * n]
        if big or n == 4301:            # printing a 4300-digit value costs the extracted model ~6 s: thorough tier only
            ts += ['1' * n, '1_' * (n - 1) + '1', '+' + '9' * n]
        for t in ts:
            yield {'k': 'pyint', 't': t}

    # ---- categorical / leaky: exhaustive
    maxlen = 2
    seqs = [list(s) for n in range(0, maxlen + 1) for s in itertools.product(AB3, repeat=n)]
    for kind in ('cat', 'leaky'):
        for ti, tab in enumerate(TABLES):
            sub = seqs if (big or ti < 2) else [s for s in seqs if len(s) <= 1] + rng.sample(seqs, 60)
            for cells in sub:
                for parts in _splits(cells, with_empty=(len(cells) <= 1 or ti == 0)):
                    yield {'k': kind, 'cats': tab, 'chunks': parts, 'lay': LAYS[(len(cells) + ti) % 3]}
        for tab in TABLES_EXTRA:
            keys = [k for k, _ in tab]
            pool = keys[:4] + [keys[0][:-1], keys[0] + 'x', 'x' + keys[0], keys[-1][1:], '', 'zz']
            yield {'k': kind, 'cats': tab, 'chunks': [pool[:5], [], pool[5:]], 'lay': [2, 1, 1]}
            yield {'k': kind, 'cats': tab, 'chunks': [], 'lay': [0, 0, 0]}
            for c in pool:
                yield {'k': kind, 'cats': tab, 'chunks': [[c]], 'lay': [0, 0, 0]}
    # random longer columns, >= 3 chunks, freetext accumulating
    for _ in range(1500 if big else 300):
        tab = rng.choice(TABLES + [BIGKEYS])
        keys = [k for k, _ in tab]
        pool = keys + [k[:-1] for k in keys if k] + [k + rng.choice('ab') for k in keys] + AB3 + ['zzzz', 'q']
        cells = [rng.choice(pool) for _ in range(rng.randint(3, 24))]
        yield {'k': rng.choice(['cat', 'leaky', 'leaky']), 'cats': tab, 'chunks': _rand_split(rng, cells),
               'lay': [rng.randint(0, 4), rng.randint(0, 3), rng.randint(0, 3)]}

    # ---- bool
    def cases_of(word):
        outs = set()
        for bits in itertools.product([0, 1], repeat=len(word)):
            outs.add(''.join(ch.upper() if bt else ch for ch, bt in zip(word, bits)))
        return sorted(outs)
    bool_cells = []
    for w in BOOL_WORDS:
        bool_cells += cases_of(w)
    bool_cells += [' ' + w for w in BOOL_WORDS] + [w + '  ' for w in BOOL_WORDS] + BOOL_BAD
    for c in bool_cells:
        for mode in (0, 1, 2):
            for inv in ((0, 1) if (big or c in BOOL_BAD) else (0,)):
                yield {'k': 'bool', 'mode': mode, 'inv': inv, 'chunks': [[c]], 'lay': LAYS[len(c) % 3]}
    for _ in range(1500 if big else 300):
        cells = [rng.choice(bool_cells if rng.random() < 0.8 else BOOL_BAD) for _ in range(rng.randint(2, 12))]
        yield {'k': 'bool', 'mode': rng.choice([0, 1, 2, 2]), 'inv': rng.choice([0, 1, 5]), 'chunks': _rand_split(rng, cells, 4),
               'lay': [rng.randint(0, 3), rng.randint(0, 2), rng.randint(0, 2)]}
    yield {'k': 'bool', 'mode': 2, 'inv': 0, 'chunks': [], 'lay': [0, 0, 0]}
    yield {'k': 'bool', 'mode': 0, 'inv': 0, 'chunks': [[], []], 'lay': [0, 0, 0]}

    # ---- int
    for dt in DT_INT:
        for mode in (0, 1, 2):
            for c in INT_POOL:
                if dt == 'int64' and c == '9223372036854775807':
                    continue            # storable, but not printable by the OCaml driver (63-bit ints)
                yield {'k': 'int', 'dtype': dt, 'mode': mode, 'inv': 0, 'chunks': [[c]], 'lay': LAYS[len(c) % 3]}
            yield {'k': 'int', 'dtype': dt, 'mode': mode, 'inv': 0, 'chunks': [], 'lay': [0, 0, 0]}
            yield {'k': 'int', 'dtype': dt, 'mode': mode, 'inv': 0, 'chunks': [[]], 'lay': [0, 0, 0]}
            yield {'k': 'int', 'dtype': dt, 'mode': mode, 'inv': 0, 'chunks': [['5'], [], ['6']], 'lay': [1, 1, 1]}
            yield {'k': 'int', 'dtype': dt, 'mode': mode, 'inv': 7, 'chunks': [['', ''], [' ']], 'lay': [0, 0, 0]}
    yield {'k': 'int', 'dtype': 'uint8', 'mode': 2, 'inv': -1, 'chunks': [['x']], 'lay': [0, 0, 0]}   # invalid value itself unstorable
    yield {'k': 'int', 'dtype': 'int8', 'mode': 1, 'inv': 300, 'chunks': [['']], 'lay': [0, 0, 0]}
    yield {'k': 'int', 'dtype': 'int8', 'mode': 3, 'inv': 0, 'chunks': [['1']], 'lay': [0, 0, 0]}        # not a mode
    for _ in range(2500 if big else 500):
        dt = rng.choice(list(DT_INT))
        mode = rng.choice([0, 1, 2, 2, 2])
        good = ['0', '1', '-1', ' 12', '12 ', '1_0', '127', '+5', '0012']
        pool = good * (3 if mode != 2 else 1) + ([''] if mode >= 1 else []) * 3 + ([x for x in INT_POOL if x != '9223372036854775807'] if mode == 2 or rng.random() < 0.3 else [])
        cells = [rng.choice(pool) for _ in range(rng.randint(2, 14))]
        yield {'k': 'int', 'dtype': dt, 'mode': mode, 'inv': rng.choice([0, 0, 9, 100]), 'chunks': _rand_split(rng, cells, 5),
               'lay': [rng.randint(0, 3), rng.randint(0, 2), rng.randint(0, 2)]}

    # ---- float
    for dt in ('float32', 'float64'):
        for mode in (0, 1, 2):
            for c in FLOAT_POOL:
                yield {'k': 'float', 'dtype': dt, 'mode': mode, 'inv': 0, 'chunks': [[c]], 'lay': LAYS[len(c) % 3]}
            yield {'k': 'float', 'dtype': dt, 'mode': mode, 'inv': 160.5, 'chunks': [['', '1.5'], [], [' ']], 'lay': [1, 1, 1]}
            yield {'k': 'float', 'dtype': dt, 'mode': mode, 'inv': 0, 'chunks': [], 'lay': [0, 0, 0]}
            yield {'k': 'float', 'dtype': dt, 'mode': mode, 'inv': 0, 'chunks': [[]], 'lay': [0, 0, 0]}
    for _ in range(1200 if big else 250):
        mode = rng.choice([0, 1, 2, 2, 2])
        good = ['0', '1.5', '-1', ' 12', '1e3', '.5', 'nan', 'inf', '0.1']
        pool = good * (3 if mode != 2 else 1) + ([''] if mode >= 1 else []) * 3 + (FLOAT_POOL if mode == 2 or rng.random() < 0.3 else [])
        cells = [rng.choice(pool) for _ in range(rng.randint(2, 14))]
        yield {'k': 'float', 'dtype': rng.choice(['float32', 'float64']), 'mode': mode, 'inv': rng.choice([0, -1, 160.5]),
               'chunks': _rand_split(rng, cells, 5), 'lay': [rng.randint(0, 3), rng.randint(0, 2), rng.randint(0, 2)]}

    # ---- fixed strings
    for n in (1, 3, 10):
        cells = [('abcdefghijklmnop' * 2)[:L] for L in range(0, n + 3)] + ['\xe9\xff' * 2, ' a ', 'a b c d e f']
        for c in cells:
            yield {'k': 'fixed', 'n': n, 'chunks': [[c]], 'lay': LAYS[len(c) % 3]}
        for parts in _splits(cells[:4]):
            yield {'k': 'fixed', 'n': n, 'chunks': parts, 'lay': [1, 1, 1]}
        yield {'k': 'fixed', 'n': n, 'chunks': [], 'lay': [0, 0, 0]}
        for _ in range(300 if big else 60):
            cs = [''.join(rng.choice('abc \xe9') for _ in range(rng.randint(0, n + 3))) for _ in range(rng.randint(2, 14))]
            yield {'k': 'fixed', 'n': n, 'chunks': _rand_split(rng, cs, 5), 'lay': [rng.randint(0, 3), rng.randint(0, 2), rng.randint(0, 2)]}

    # ---- datetime
    for inst in INSTANTS:
        for t in _fmt_layouts(*inst):
            yield {'k': 'datetime', 'chunks': [[t]], 'lay': LAYS[len(t) % 3]}
    for t in DT_BAD:
        yield {'k': 'datetime', 'chunks': [[t]], 'lay': [0, 0, 0]}
    yield {'k': 'datetime', 'chunks': [], 'lay': [0, 0, 0]}
    yield {'k': 'datetime', 'chunks': [[], []], 'lay': [0, 0, 0]}
    utc_only = lambda ts: [t for t in ts if '+' not in t[19:] and '-' not in t[19:]]
    for _ in range(1200 if big else 250):
        cells = []
        for _ in range(rng.randint(2, 10)):
            y, mo = rng.choice([1970, 1999, 2000, 2020, 2021, 2100, 1960]), rng.randint(1, 12)
            d = rng.randint(1, 28 if rng.random() < 0.7 else 31)
            lays = _fmt_layouts(y, mo, d, rng.randint(0, 23), rng.randint(0, 59), rng.randint(0, 59))
            r = rng.random()
            cells.append(rng.choice(utc_only(lays)) if r < 0.7 else '' if r < 0.85 else rng.choice(lays) if r < 0.95 else rng.choice(DT_BAD))
        yield {'k': 'datetime', 'chunks': _rand_split(rng, cells, 4), 'lay': [rng.randint(0, 3), rng.randint(0, 2), rng.randint(0, 2)]}

    # ---- date
    for t in DATE_POOL:
        yield {'k': 'date', 'chunks': [[t]], 'lay': LAYS[len(t) % 3]}
    yield {'k': 'date', 'chunks': [], 'lay': [0, 0, 0]}
    for _ in range(1000 if big else 200):
        cells = []
        for _ in range(rng.randint(2, 10)):
            r = rng.random()
            if r < 0.75:
                cells.append('%04d-%02d-%02d' % (rng.choice([1970, 1969, 2000, 2020, 2100, 1, 9999]), rng.randint(1, 12), rng.randint(1, 28)))
            elif r < 0.9:
                cells.append('')
            else:
                cells.append(rng.choice(DATE_POOL))
        yield {'k': 'date', 'chunks': _rand_split(rng, cells, 4), 'lay': [rng.randint(0, 3), rng.randint(0, 2), rng.randint(0, 2)]}

    # ---- date, non-ASCII: every run of Unicode decimal digits (inside, just below, just above), broken UTF-8
    for z in ND_ZEROS:
        yield {'k': 'date', 'chunks': [[_u(chr(z + 2) + chr(z) + chr(z + 1) + chr(z + 9) + '-12-1' + chr(z + 5))]], 'lay': [0, 0, 0]}
        yield {'k': 'date', 'chunks': [[_u('200' + chr(z - 1) + '-01-01')]], 'lay': [1, 0, 1]}
        yield {'k': 'date', 'chunks': [[_u('2020-01-2' + chr(z + 10))]], 'lay': [0, 1, 0]}
    for t in ['\xff2020-01-05', '2020-01-05\xc3', '\xc0\xb1020-01-05', '\xe0\x9f\xbf020-01-05', '\xed\xa0\x80020-01-05',
              '\xf4\x90\x80\x80020-01-0', '\xf0\x8f\xbf\xbf', '2020-01-0\x80', _u('2020-01-05\xe9'), _u('\u0662\u0660\u0662\u0660-01-05'),
              _u('2020-\u0660\u0661-05'), _u('2020-01-\u0660\u0665'), _u('2020-01-3\uff11'), _u('2020\u2010' + '01-05')]:
        yield {'k': 'date', 'chunks': [['2020-06-15', t], ['']], 'lay': [1, 1, 1]}
        yield {'k': 'date', 'chunks': [[t]], 'lay': [0, 0, 0]}

    # ---- end to end through load_schema + read_csv_with_schema_dict (cells must survive the CSV reader unchanged)
    def csv_cases():
        yield {'k': 'int', 'dtype': 'int32', 'mode': 1, 'inv': 0, 'chunks': [[]]}
        yield {'k': 'float', 'dtype': 'float64', 'mode': 2, 'inv': 0, 'chunks': [[]]}
        yield {'k': 'int', 'dtype': 'int64', 'mode': 1, 'inv': 0, 'chunks': [['1', '', '4611686018427387903']]}
        yield {'k': 'int', 'dtype': 'int8', 'mode': 2, 'inv': 0, 'chunks': [['1', '300', 'x', '', '-128']]}
        yield {'k': 'cat', 'cats': BIGKEYS, 'chunks': [[BIGKEYS[3][0], 'zz', BIGKEYS[29][0]]]}
        yield {'k': 'leaky', 'cats': BIGKEYS, 'chunks': [[BIGKEYS[3][0], 'zz', BIGKEYS[29][0], 'pfx03_ke']]}
        for kind in ('cat', 'leaky'):
            for tab in TABLES[:3]:
                for _ in range(20 if big else 6):
                    # a long key keeps the column's value budget (field_size * crs) above the window size, so the
                    # reader's regrowth path (C05, F-C05a) is not entered
                    yield {'k': kind, 'cats': tab + [['long_key_', 9]], 'chunks': [[rng.choice(AB3) for _ in range(rng.randint(0, 40))]]}
        for mode in (0, 1, 2):
            pool = ['1', '0', 'yes', 'No', 'TRUE', 'off'] + ([''] if mode >= 1 else []) + (['q', 'ye'] if mode == 2 else [])
            for _ in range(10 if big else 3):
                yield {'k': 'bool', 'mode': mode, 'inv': 0, 'chunks': [[rng.choice(pool) for _ in range(rng.randint(0, 40))]]}
                yield {'k': 'int', 'dtype': rng.choice(list(DT_INT)), 'mode': mode, 'inv': 0,
                       'chunks': [[rng.choice([p for p in pool if p in ('1', '0', '')] + ['12', '-3'] + (['x', '999999'] if mode == 2 else []))
                                   for _ in range(rng.randint(0, 40))]]}
                yield {'k': 'float', 'dtype': rng.choice(['float32', 'float64']), 'mode': mode, 'inv': 0,
                       'chunks': [[rng.choice([p for p in pool if p in ('1', '0', '')] + ['1.5', '-3e2'] + (['x'] if mode == 2 else []))
                                   for _ in range(rng.randint(0, 40))]]}
        for _ in range(10 if big else 4):
            yield {'k': 'fixed', 'n': 5, 'chunks': [[''.join(rng.choice('abc') for _ in range(rng.randint(0, 7))) for _ in range(rng.randint(0, 40))]]}
            yield {'k': 'date', 'chunks': [[rng.choice(['2020-06-15', '', '1970-01-01']) for _ in range(rng.randint(0, 40))]]}
            yield {'k': 'datetime', 'chunks': [[rng.choice(['2020-06-15 19:45:39', '', '2020-06-15 19:45:39.05 UTC', '2020-06-15 19:45:39+01:00'])
                                                for _ in range(rng.randint(0, 40))]]}
        # SC06: non-ASCII tables and long numerals end to end
        for kind in ('cat', 'leaky'):
            for r in (3, 5):
                keys = rng.sample([_u(x) for x in _ustrings(UCH, 2)], r)
                tab = [[k, j + 1] for j, k in enumerate(keys)]
                pool = keys + [_u(x) for x in UCH] + ['aa', 'x']
                yield {'k': kind, 'cats': tab + [['long_key__', 9]], 'chunks': [[rng.choice(pool) for _ in range(rng.randint(5, 30))]]}
        for w in (40, 300):
            yield {'k': 'int', 'dtype': 'int32', 'mode': 1, 'inv': 0, 'chunks': [['1', '', ('0' * w + '42')[-w:], '7']]}
            yield {'k': 'float', 'dtype': 'float64', 'mode': 2, 'inv': 0, 'chunks': [['1.5', '1.5' + '0' * (w - 6) + 'e02', 'x', '0.' + '0' * w + '5']]}
    # chunk_row_size: the reader's window (2*crs*ncols bytes) must hold the longest record twice over - smaller
    # windows are the CSV reader's own territory (C05, F-C05a), not the conversion's
    for c in csv_cases():
        rec = max([len(x) for x in c['chunks'][0]] + [1]) + 3
        small = max(2, (2 * rec + 3) // 4)
        for crs in ((small, small + 1, 2 * small, max(64, small + 2)) if big else (small, max(64, small + 2))):
            d = dict(c); d['via'] = 'csv'; d['crs'] = crs; d['lay'] = [0, 0, 0]
            yield d


def gen(tier, rng):
    """the base families, then (SC06) non-ASCII key tables and very long cells.  The model is quadratic in the cell
    length (list-based get/set), so the long cells are shuffled and spread evenly over the stream: core.run_model
    shards the stream into contiguous blocks."""
    base = list(_gen_base(tier, rng))
    new = list(gen_sc06(tier, rng))
    rng.shuffle(new)
    every = max(1, len(base) // max(1, len(new)))
    j = 0
    for i, c in enumerate(base):
        yield c
        if i % every == every - 1 and j < len(new):
            yield new[j]; j += 1
    yield from new[j:]


def shrink(case):
    if case['k'] == 'pyint':
        t = case['t']
        for i in range(len(t)):
            yield {'k': 'pyint', 't': t[:i] + t[i + 1:]}
        return
    chunks = case['chunks']
    flat = [c for ch in chunks for c in ch]
    if len(flat) > 24:
        # long column: bisect (halves, quarters, ... as chunks of <= FRAC_CHUNK rows), then the caller iterates
        parts = 2
        while parts <= 64 and parts <= len(flat):
            for i in range(parts):
                sub = flat[i * len(flat) // parts:(i + 1) * len(flat) // parts]
                d = dict(case); d['chunks'] = [sub[j:j + FRAC_CHUNK] for j in range(0, len(sub), FRAC_CHUNK)]; d['lay'] = [0, 0, 0]
                if case.get('via') == 'csv':
                    d['chunks'] = [sub]
                yield d
            parts *= 2
        return
    if len(chunks) > 1:
        d = dict(case); d['chunks'] = [flat]; yield d
    for i in range(len(chunks)):
        for j in range(len(chunks[i])):
            d = dict(case)
            d['chunks'] = [list(ch) for ch in chunks]
            del d['chunks'][i][j]
            yield d
    for i in range(len(chunks)):
        if not chunks[i]:
            d = dict(case); d['chunks'] = chunks[:i] + chunks[i + 1:]; yield d
    if case.get('lay') and case['lay'] != [0, 0, 0]:
        d = dict(case); d['lay'] = [0, 0, 0]; yield d
    if 'cats' in case and len(case['cats']) > 1:
        for i in range(len(case['cats'])):
            d = dict(case); d['cats'] = case['cats'][:i] + case['cats'][i + 1:]; yield d


TECHNIQUE = ('Coq proof (faithful Gallina model of the importers and transform kernels = list-level specification, for every '
             'chunking and buffer layout) + exhaustive small-scope differential correspondence against the real importers '
             'writing into HDF5 fields')
LEVEL_TEXT = ('Theorems in coq/Props/C06.v; the model is tied to the repository by running the extracted model and the '
              'real importers on the same generated columns (both USE_NUMBA modes).')
LEVEL_NOTE = ('Trusted: Coq kernel, extraction, harness. Python float() and datetime.timestamp() are external (oracle / '
              'integer-microsecond model); int() is defined in Gallina and compared with CPython.')
