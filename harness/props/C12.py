"""C12 — streaming operations always terminate.
Coq side: the fuel statements of the streamed models (result is Ok or a clear Raise, never OutOfFuel, within a
closed-form fuel) — coq/Props/C12.v plus the source theorems.  Run-time side: the adversarial shapes of the
streamed properties (run of equal keys >= chunk, entry > value buffer, record > byte window, zero-length inputs)
and a sample of their ordinary cases under a watchdog, plus, in interpreted mode, an executed-line budget that is
LINEAR in input + output size (sys.settrace), so that "terminates" is not satisfied by a quadratic crawl."""
import os, sys
from harness.props import _meta

PROP, NUM = 'C12', 12
SOURCES = _meta.available(['C03', 'C04', 'C05', 'C16', 'C18', 'C02'])
PROPS_FILES = ['Props/C12.v'] + _meta.props_files(_meta.available(['C03', 'C04', 'C05', 'C16', 'C18']))
MODES = ['jit', 'nojit']
MODES_THOROUGH = ['jit', 'nojit']
LEVEL = 'proof'
TIMEOUT_S = 20.0
HANG_TIMEOUT_S = 3.0
# executed Python lines allowed in interpreted mode: A * (input + output size) + B   (measured: see evidence 'steps')
STEP_A, STEP_B = 400, 6000
STEP_SOURCES = ('C03', 'C04', 'C16')
RULE = ('all adversarial cases of the generators of %s (a key run that cannot fit a chunk; a mapped entry longer than '
        'chunksize*value_factor; a CSV window that cannot hold a record; empty inputs) plus every k-th ordinary case, run '
        'under a per-case watchdog in JIT and interpreted mode: a HANG, or an executed-line count above %d*(input+output '
        'size)+%d in interpreted mode, is a violation; where the model returns OutOfFuel the implementation must not '
        'terminate either (none does on the repaired tree). For the streamed join drivers the number of kernel calls '
        '(= loop iterations) of every returning run is counted and must not exceed the proved bound |L|+|R|+|join|. '
        'Non-trivial = adversarial or multi-chunk.'
        % (', '.join(SOURCES), STEP_A, STEP_B))
EXHAUSTIVE = {'quick': False, 'thorough': False}
TRUSTED = ['wall-clock watchdog of harness/worker.py (HANG = no answer within the per-case limit)',
           'sys.settrace line counting in interpreted mode as the step measure']
ASSUMPTIONS = ['chunk sizes >= 1']
BUDGET = {'quick': {'*': 3000, 'C03': 9000, 'C04': 7000, 'C16': 5000},
          'thorough': {'*': 30000, 'C03': 90000, 'C04': 70000, 'C16': 50000}}


def setup():
    _meta.setup_all(SOURCES)


def warmup():
    _meta.warmup_all(SOURCES)


def teardown():
    _meta.teardown_all(SOURCES)


to_val, num_of, from_val = _meta.to_val, _meta.num_of, _meta.from_val
nontrivial, known, skip, shrink = _meta.nontrivial, _meta.known, _meta.skip, _meta.shrink


def _size(x):
    if isinstance(x, (list, tuple)):
        return 1 + sum(_size(y) for y in x)
    if isinstance(x, dict):
        return 1 + sum(_size(y) for y in x.values())
    if isinstance(x, (str, bytes)):
        return 1 + len(x)
    return 1


class _Counter:
    def __init__(self):
        self.n = 0

    def tracer(self, frame, event, arg):
        fn = frame.f_code.co_filename
        if 'exetera' not in fn:
            return None
        return self.local

    def local(self, frame, event, arg):
        if event == 'line':
            self.n += 1
        return self.local


# the kernels the eight streamed join drivers call once per loop iteration (main loop: *_partial, tail loop: *_remaining)
_JOIN_KERNELS = ['generate_ordered_map_to_%s%s_partial' % (f, u) for f in ('left', 'inner')
                 for u in ('', '_left_unique', '_right_unique', '_both_unique')] + \
                ['generate_ordered_map_to_left_remaining', 'generate_ordered_map_to_left_right_unique_remaining']


class _KernelCalls:
    """Counts the kernel calls a streamed join driver makes (= its loop iterations) by wrapping the module
    attributes of exetera.core.operations for the duration of one case (restored afterwards)."""
    def __init__(self):
        self.n = 0
        self.saved = {}

    def __enter__(self):
        from exetera.core import operations as ops
        self.ops = ops
        for name in _JOIN_KERNELS:
            f = getattr(ops, name, None)
            if f is None:
                continue
            self.saved[name] = f
            setattr(ops, name, self._wrap(f))
        return self

    def _wrap(self, f):
        def g(*a, **k):
            self.n += 1
            return f(*a, **k)
        return g

    def __exit__(self, *exc):
        for name, f in self.saved.items():
            setattr(self.ops, name, f)
        return False


def _run_counted(case):
    if case['p'] == 'C03':
        with _KernelCalls() as kc:
            r = _meta.run(case)
        return r, kc.n
    return _meta.run(case), None


def run(case):
    if os.environ.get('VERIF_MODE') == 'nojit' and case['p'] in STEP_SOURCES:
        c = _Counter()
        sys.settrace(c.tracer)
        try:
            r, kcalls = _run_counted(case)
        finally:
            sys.settrace(None)
        out = {'steps': c.n, 'res': r}
    else:
        r, kcalls = _run_counted(case)
        if kcalls is None:
            return r
        out = {'res': r}
    if kcalls is not None:
        out['kcalls'] = kcalls
    return out


def _strip(impl):
    if isinstance(impl, dict) and 'res' in impl and ('steps' in impl or 'kcalls' in impl):
        return impl['res']
    return impl


def _join_bound(case, res):
    """|L| + |R| + |join|: the proved bound (Props/C12.v c12_streamed_join_linear_work) on the number of kernel
    calls (= iterations of the main loop and the tail loop together) of a streamed join driver that returns."""
    c = case['c']
    return len(c['L']) + len(c['R']) + len(res[1])


def equal(case, impl, expected, mode):
    return _meta.src_equal(case, _strip(impl), expected, mode)


KNOWN_PROPS = ['C12'] + SOURCES


def spec_ok(case, impl, spec, mode):
    """C12 only judges termination: HANG is the violation (cross_mode adds the executed-line budget); value
    differences are the source property's business, the model correspondence (`equal`) still applies."""
    return _strip(impl) != 'HANG'


def cross_mode(case, impl_by_mode, model):
    for mode, impl in impl_by_mode.items():
        if impl == 'HANG' and model != 'FUEL':
            return 'does not terminate (%s)' % mode
        if isinstance(impl, dict) and 'steps' in impl:
            size = _size(_meta.to_val(case)) + _size(impl['res'])
            if impl['steps'] > STEP_A * size + STEP_B:
                return 'executed %d lines for input+output size %d (budget %d*size+%d)' % (impl['steps'], size, STEP_A, STEP_B)
        if isinstance(impl, dict) and 'kcalls' in impl and isinstance(impl['res'], list):
            b = _join_bound(case, impl['res'])
            if impl['kcalls'] > b:
                return 'streamed join driver made %d kernel calls (%s), proved bound |L|+|R|+|join| = %d' % (impl['kcalls'], mode, b)
    return None


def summarize(recs):
    """measured executed-line counts (interpreted mode) against input+output size"""
    worst, n, by = 0.0, 0, {}
    for r in recs:
        impl = r['impl'].get('nojit')
        if isinstance(impl, dict) and 'steps' in impl:
            size = _size(_meta.to_val(r['case'])) + _size(impl['res'])
            ratio = impl['steps'] / float(size)
            n += 1
            worst = max(worst, ratio)
            p = r['case']['p']
            by[p] = max(by.get(p, 0.0), round(ratio, 1))
    hang = sum(1 for r in recs for v in r['impl'].values() if v == 'HANG')
    kn, kworst, ktight = 0, 0.0, 0
    for r in recs:
        for impl in r['impl'].values():
            if isinstance(impl, dict) and 'kcalls' in impl and isinstance(impl['res'], list):
                b = _join_bound(r['case'], impl['res'])
                kn += 1
                if b > 0:
                    kworst = max(kworst, impl['kcalls'] / float(b))
                if impl['kcalls'] == b:
                    ktight += 1
    return {'steps': {'cases_counted': n, 'max_lines_per_unit_size': round(worst, 1), 'by_source': by,
                      'budget': '%d*size+%d' % (STEP_A, STEP_B)}, 'hangs': hang,
            'join_kernel_calls': {'runs_counted': kn, 'max_calls_over_bound': round(kworst, 3), 'runs_meeting_bound': ktight,
                                  'bound': '|L|+|R|+|join| (c12_streamed_join_linear_work)'}}


def _adversarial(pid, c):
    m = _meta.mod(pid)
    try:
        if pid == 'C03':
            return m.long_run(c) or not c['L'] or not c['R']
        if pid == 'C04':
            return m.mapped_too_long(c)
        if pid == 'C05':
            return not m.in_regime(c)
        if pid == 'C16':
            return not m._fits(c)
    except Exception:
        return False
    return False


def features(case, model):
    f = _meta.features(case, model)
    if _adversarial(case['p'], case['c']):
        f.append('adversarial')
    if isinstance(model, str):
        f.append('model:' + model.split(':')[0])
    return f


def gen(tier, rng):
    # hand-made shapes first: a run of cs+k equal keys on each side, both join forms, every kind that trims that side
    for cs in range(1, 7):
        for k in range(0, 3):
            run_ = [5] * (cs + k)
            for (L, R) in ((run_ + [9], [5, 9]), ([5, 9], run_ + [9]), ([1] + run_, [5]), ([5], [1] + run_), (run_, run_), ([], run_), (run_, [])):
                for kind in ('gen', 'lu', 'ru'):
                    if kind == 'lu' and len(set(L)) != len(L): continue
                    if kind == 'ru' and len(set(R)) != len(R): continue
                    for isl in (0, 1):
                        if 'C03' in SOURCES:
                            yield {'p': 'C03', 'c': {'kind': kind, 'left': isl, 'L': L, 'R': R, 'inv': -1, 'cs': cs, 'rd': 'int32', 'kt': 'int32'}}
    for c in _meta.sample(SOURCES, tier, rng, BUDGET[tier], pick=_adversarial):
        yield c


TECHNIQUE = 'Coq fuel theorems (streamed models return Ok or a clear Raise within a closed-form fuel, never OutOfFuel) + watchdog and executed-line-budget runs on adversarial shapes'
LEVEL_TEXT = ('coq/Props/C12.v: for every chunk size >= 1 the streamed join drivers end in Ok or in the clear ValueError '
              '(and that only for a run that cannot fit a chunk) within driver_fuel; with the fuel theorems of C04 (map '
              'streaming), C05 (CSV window driver), C16 (span concatenation) and C18 (to_csv). The run-time half '
              '(watchdog, linear executed-line budget) ties the models to the code on adversarial inputs.')
LEVEL_NOTE = ('The proofs are about the models; wall-clock behaviour of compiled code is observed, not proved. chunked_copy '
              'is covered through C02 when that property is present.')
