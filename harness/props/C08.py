"""C08 — spans and span reductions (exetera/core/operations.py, session.py, fields.py) vs coq/Model/Spans.v."""
import itertools, io, struct
from harness import hot

PROP, NUM = 'C08', 8
PROPS_FILES = ['Props/C08.v']
MODES = ['jit', 'nojit']
MODES_THOROUGH = ['jit', 'nojit', 'bounds']
LEVEL = 'proof'
RULE = ('exhaustive small scope: get_spans through Field.get_spans / Session.get_spans(field) / Session.get_spans(ndarray) on '
        'every column of length 0..5 over 3 values for 8 numeric-like dtypes (int8/32/64, float32/64, bool, categorical, '
        'timestamp), length 0..4 over 7 fixed strings (blank / tab / NUL / high-byte / prefix variants) and 7 indexed '
        'strings; every pair of columns of length 0..4 over 2 values through fields=(Field,Field) and fields=(ndarray,'
        'ndarray) in 6 dtype combinations; _get_spans_for_multi_fields / check_if_sorted on every 1..3-column table of '
        'length 0..4; the raw span-merge kernel on every pair of sorted subsets of {0..4}; every apply_spans_* kernel '
        '(kernel / Session / Field level, int32 and int64 spans) on every valid span partition x every column of length '
        '0..4 (numeric 3 values, fixed 5 strings, indexed 7 prefix-heavy strings), the *_filter kernels on every weakly '
        'increasing span list; plus seeded random longer inputs (runs, up to 40 rows) and a malformed stream (unequal '
        'lengths, empty / unsorted / out-of-range spans) compared error-for-error with the model. LARGE inputs (stored '
        'run-length encoded, answered on the encoding by spans_of_rle / rle_*_ref, theorems spans_rle_* / apply_spans_rle): '
        'for every block length K in a standing sweep (2^8..2^23, 10^3..10^6; thorough also 3*2^k, 5*10^6) and every integer '
        'literal that is NEW in the tree under test (harness/hot.py, up to 2^23; for those every layout x every dtype): '
        'columns of K..3K+1 rows with value changes planted at rows K-1, K, K+1, 2K-1, 2K, 2K+1, 3K (and none at all) '
        'through every one-column entry point, pairs of such columns through fields=(Field,Field) / (ndarray,ndarray), '
        'random run layouts around K, and min / max / first / last / index_of_min / index_of_max (kernel, Session, Field) '
        'with the extreme rows (and ties) at / next to K and 2K and spans that straddle, start or end at them; for small '
        'new literals K <= 2048 also explicit K+1 / 2K+2-row tables through _get_spans_for_multi_fields / check_if_sorted. '
        'KEYS GIVEN BY THEIR STORED REPRESENTATION (value equality is not representation equality; the real code gets the '
        'bit patterns, the model float_key(bits), theorems float_key_* / spans_float_column_correct / groupby_spans_correct): '
        'float64 / float32 / timestamp columns over {+0.0, -0.0, 0.5} of length 0..5 through every one-column entry point; '
        'pairs of columns of length 0..4 over the two zeros x two values in 8 dtype pairs (and 0..3 over three values) through '
        'fields=(Field,Field) / (ndarray,ndarray); np.asarray-stacked tables of 1..3 columns of one or several numeric dtypes '
        '(bool/int8/int32/int64/float32/float64, widened) and of S columns of several widths (re-padded; b"a" vs b"a\\0") '
        'of length 0..5 / 0..4 / 0..3 through _get_spans_for_multi_fields and check_if_sorted_for_multi_fields; '
        'DataFrame.groupby(by=...).count() on 14 key dtype sets (same dtype: stacked; different dtypes: ranked by np.unique) '
        'of length 0..4 / 0..2; min / max / first / last / index_of_* and the *_filter kernels with ties between the two zeros; '
        'random runs over infinities, +-max, +-smallest subnormal and sign-mixed runs of zeros through all of these. '
        'Non-trivial = the case reaches a planted feature (see features).')
EXHAUSTIVE = {'quick': True, 'thorough': True}
TRUSTED = ['numpy element-wise `!=`, `<`, `>` on int/float/bool/S arrays and numba\'s charseq comparisons are the exact '
           '(byte-wise unsigned, NUL-padded) comparisons of the model (exercised by this correspondence, not proved)',
           'float columns are NaN-free; kinds float64/float32/ts: multiples of 1/4 (order-embedded into Z by the harness); '
           'kinds f64b/f32b/tsb: any non-NaN bit pattern, order-embedded by the Gallina function float_key (sign-magnitude '
           'decoding, proved to identify exactly the two zeros and to order patterns as sign-magnitude numbers; that this is '
           'the order / equality of IEEE-754 binary floats is the standard\'s encoding, not proved here)',
           'np.asarray of key columns of different numeric dtypes / S widths keeps every value (only value-preserving '
           'combinations are stacked by the harness); np.unique(return_inverse) is modelled by unique_inverse (theorem '
           'unique_inverse_exact), numpy\'s own implementation is exercised, not verified',
           'apply_index_to_indexed_field (C09) maps the row indices returned by the indexed kernels to strings',
           'large cases: the harness expands a run-length encoding with numpy.repeat / numpy.tile (offsets by cumsum); '
           'Model/SpansRle.v `expand` is the meaning of that expansion (numpy.repeat itself is not verified)']
ASSUMPTIONS = ['NaN-free floats', 'fewer than 2^31-1 rows (int32 span dtype branch; the int64 branch is the same code)',
               'span kernels are called with dest_array=None (the only way the entry points call them)',
               'large (run-length encoded) cases: up to 3*2^23+1 rows of 1-byte elements (2^25 bytes per column); a block '
               'length above 2^23 is not reached; per-row interpreted loops (USE_NUMBA=false) are run up to 2^17 rows only']
TECHNIQUE = ('Coq proof (Gallina model of every span kernel = list-level span / per-span reduction specification) + '
             'exhaustive small-scope differential correspondence against the real entry points')
LEVEL_TEXT = ('Theorems in coq/Props/C08.v prove for all inputs that the models of get_spans_for_field, the 2-field, '
              'multi-field and indexed-string span kernels return THE span list (is_spans, unique) and that every '
              'apply_spans_* model returns the per-span first/last/min/max/count/argmin/argmax; the models are tied to '
              'the real code by running both on the same generated cases. Whole column: the counts of the spans of a column add '
              'up to its row count (apply_spans_counts_sum_to_rows).')
LEVEL_NOTE = ('Trusted: Coq kernel, extraction, harness. numpy/numba element comparisons are modelled (byte-wise), not '
              'verified. Floats are order-embedded integers (float_key on the stored bit pattern: equal values, e.g. +0.0 and '
              '-0.0, get the same integer).')

_np = _ops = _fields = _sess = None
S = DS = DF = None
_h5n = [0]


def setup():
    global _np, _ops, _fields, _sess, S, DS, DF
    import numpy as np
    from exetera.core import operations as ops, fields, session
    _np, _ops, _fields, _sess = np, ops, fields, session
    S = session.Session()
    DS = S.open_dataset(io.BytesIO(), 'w', 'ds')
    DF = DS.create_dataframe('df')


def warmup():
    for c in _warm_cases():
        try:
            run(c)
        except Exception:
            pass


# ------------------------------------------------------------------------------------------------ columns
NUMK = ['int32', 'int64', 'float64', 'float32', 'bool', 'int8', 'cat', 'ts']
BIG = 2 ** 53

# ---- keys given by their STORED representation (value equality is not representation equality) ----------------
# kinds 'f64b' / 'f32b' / 'tsb': a float64 / float32 / timestamp column whose rows are the IEEE bit patterns (ints); the
# real code gets exactly these bits, the model gets float_key(bits) (Model/SpansRepr.v): +0.0 / -0.0 share the key 0.
FBITS = {'f64b': 64, 'f32b': 32, 'tsb': 64}


def fbits(w, x):
    return struct.unpack('<Q', struct.pack('<d', x))[0] if w == 64 else struct.unpack('<I', struct.pack('<f', x))[0]


def fkey(w, bits):
    """python mirror of Gallina float_key (used only to canonicalise VALUES the real code returns, and for features)."""
    s = 1 << (w - 1)
    return bits if bits < s else s - bits


def _fb_small(w):
    return [fbits(w, 0.0), fbits(w, -0.0), fbits(w, 0.5)]


def _fb_two(w):
    return [fbits(w, 0.0), fbits(w, -0.0)]


def _fb_pool(w):
    mx = 1.7976931348623157e308 if w == 64 else 3.4028234663852886e38
    sub = 5e-324 if w == 64 else 1.401298464324817e-45
    return [fbits(w, x) for x in (float('-inf'), -mx, -1.5, -sub, -0.0, 0.0, sub, 1.5, mx, float('inf'))]


def _vrows(col):
    """rows of a column as VALUES (what must compare equal compares equal): float bits -> keys, fixed -> NUL-stripped."""
    k = col['k']
    if k in FBITS:
        return [fkey(FBITS[k], b) for b in col['rows']]
    if k == 'fixed':
        return [tuple(_strip(r)) for r in col['rows']]
    if k == 'bool':
        return [1 if r else 0 for r in col['rows']]
    return [tuple(r) if isinstance(r, list) else r for r in col['rows']]


def _num_value(kind, v):
    if kind == 'int64':
        return BIG + v          # adjacent int64 values that collide as float64
    if kind in ('float64', 'ts'):
        return v * 0.5
    if kind == 'float32':
        return v * 0.25
    if kind == 'bool':
        return bool(v)
    return v


def _np_dtype(kind):
    np = _np
    return {'int32': np.int32, 'int64': np.int64, 'float64': np.float64, 'float32': np.float32, 'bool': np.bool_,
            'int8': np.int8, 'cat': np.int8, 'ts': np.float64, 'f64b': np.float64, 'f32b': np.float32,
            'tsb': np.float64}[kind]


def _array(col):
    """ndarray of a numeric / fixed column."""
    np = _np
    k = col['k']
    if k == 'fixed':
        return np.array([bytes(r) for r in col['rows']], dtype='S%d' % col['w'])
    if k in FBITS:
        w = FBITS[k]
        return np.array(col['rows'], dtype=np.uint64 if w == 64 else np.uint32).view(np.float64 if w == 64 else np.float32)
    return np.array([_num_value(k, v) for v in col['rows']], dtype=_np_dtype(k))


def _offsets(rows):
    off = [0]
    for r in rows:
        off.append(off[-1] + len(r))
    return off


_FIELD_KIND = {'f64b': 'float64', 'f32b': 'float32', 'tsb': 'ts'}


def _new_field(k, w, h5):
    F = _fields
    k = _FIELD_KIND.get(k, k)
    if h5:
        _h5n[0] += 1
        name = 'f%d' % _h5n[0]
        if k == 'fixed':
            return DF.create_fixed_string(name, w)
        if k == 'indexed':
            return DF.create_indexed_string(name)
        if k == 'cat':
            return DF.create_categorical(name, 'int8', {'a': 0, 'b': 1, 'c': 2, 'd': 3})
        if k == 'ts':
            return DF.create_timestamp(name)
        return DF.create_numeric(name, k)
    if k == 'fixed':
        return F.FixedStringMemField(S, w)
    if k == 'indexed':
        return F.IndexedStringMemField(S)
    if k == 'cat':
        return F.CategoricalMemField(S, 'int8', {'a': 0, 'b': 1, 'c': 2, 'd': 3})
    if k == 'ts':
        return F.TimestampMemField(S)
    return F.NumericMemField(S, k)


def _field(col, h5=False):
    """a Field holding the column (memory field, or HDF5-backed when h5)."""
    np = _np
    k = col['k']
    f = _new_field(k, col.get('w'), h5)
    if k == 'indexed':
        rows = col['rows']
        if col.get('str') and all(b < 128 for r in rows for b in r):
            f.data.write([bytes(r).decode() for r in rows])          # the public str path
        elif rows or col.get('idx0'):
            f.indices.write(np.array(_offsets(rows), dtype=np.int64))
            f.values.write(np.array([b for r in rows for b in r], dtype=np.uint8))
    else:
        f.data.write(_array(col))
    return f


# ---- run-length encoded columns (large inputs): {'k': kind, 'w': width, 'runs': [[value, n], ...]}, n >= 0
def _rle_rows(rc):
    return sum(n for _, n in rc['runs'])


def _rle_array(rc):
    """the expanded ndarray of a numeric / fixed run-length encoded column."""
    np = _np
    k = rc['k']
    lens = np.array([n for _, n in rc['runs']], dtype=np.int64)
    if k == 'fixed':
        vals = np.array([bytes(v) for v, _ in rc['runs']], dtype='S%d' % rc['w'])
    else:
        vals = np.array([_num_value(k, v) for v, _ in rc['runs']], dtype=_np_dtype(k))
    return np.repeat(vals, lens)


def _rle_field(rc, h5=False):
    np = _np
    k = rc['k']
    f = _new_field(k, rc.get('w'), h5)
    if k == 'indexed':
        runs = [(v, n) for v, n in rc['runs'] if n > 0]
        if runs:
            rowlen = np.repeat(np.array([len(v) for v, _ in runs], dtype=np.int64), np.array([n for _, n in runs], dtype=np.int64))
            idx = np.zeros(len(rowlen) + 1, dtype=np.int64)
            np.cumsum(rowlen, out=idx[1:])
            vals = [np.tile(np.array(v, dtype=np.uint8), n) for v, n in runs if len(v)]
            f.indices.write(idx)
            f.values.write(np.concatenate(vals) if vals else np.zeros(0, dtype=np.uint8))
    else:
        f.data.write(_rle_array(rc))
    return f


def _drop(f, h5):
    if h5:
        try:
            del DF[f.name.split('/')[-1]]
        except Exception:
            pass


def _ints(a):
    return [int(x) for x in a]


def _spans_out(r):
    """canonical span result: [values, dtype name or 'list']"""
    np = _np
    if isinstance(r, np.ndarray):
        return [_ints(r), str(r.dtype)]
    return [_ints(r), 'list']


def _vals_out(a, kind):
    """canonical column values back to the integer codes of the case."""
    np = _np
    if kind == 'fixed':
        return [list(bytes(x)) for x in a]
    if kind == 'int64':
        return [int(x) - BIG for x in a]
    if kind in ('float64', 'ts'):
        return [_exact(float(x) * 2) for x in a]
    if kind == 'float32':
        return [_exact(float(x) * 4) for x in a]
    if kind in FBITS:
        w = FBITS[kind]
        a = np.ascontiguousarray(a)
        if a.dtype.itemsize * 8 != w or a.dtype.kind != 'f':
            raise AssertionError('dtype %s returned for a binary%d column' % (a.dtype, w))
        return [fkey(w, int(b)) for b in a.view(np.uint64 if w == 64 else np.uint32)]
    return [int(x) for x in a]


def _exact(x):
    if x != int(x):
        raise AssertionError('non-integral float code %r' % x)
    return int(x)


def _indexed_rows(f):
    idx = _ints(f.indices[:])
    vals = _ints(f.values[:])
    return [vals[idx[i]:idx[i + 1]] for i in range(len(idx) - 1)]


# ------------------------------------------------------------------------------------------------ run
KID = {'index_of_min': 0, 'index_of_max': 1, 'index_of_first': 2, 'index_of_last': 3, 'count': 4,
       'min': 5, 'max': 6, 'first': 7, 'last': 8}


def run(case):
    np, ops = _np, _ops
    op = case['op']
    if op == 'gs':
        col, h5 = case['col'], case.get('h5', False)
        f = _field(col, h5)
        try:
            out = {'f': _spans_out(f.get_spans()), 'sf': _spans_out(S.get_spans(f)),
                   'kw': _spans_out(S.get_spans(field=f))}
            if col['k'] != 'indexed':
                out['sa'] = _spans_out(S.get_spans(f.data[:]))
                out['op'] = _spans_out(ops.get_spans_for_field(_array(col)))
        finally:
            _drop(f, h5)
        return out
    if op == 'gsr':
        rc, h5 = case['col'], case.get('h5', False)
        f = _rle_field(rc, h5)
        try:
            out = {'f': _spans_out(f.get_spans()), 'sf': _spans_out(S.get_spans(f)),
                   'kw': _spans_out(S.get_spans(field=f))}
            if rc['k'] != 'indexed':
                out['sa'] = _spans_out(S.get_spans(f.data[:]))
                out['op'] = _spans_out(ops.get_spans_for_field(_rle_array(rc)))
        finally:
            _drop(f, h5)
        return out
    if op == 'gsr2f':
        h5 = case.get('h5', False)
        f0, f1 = _rle_field(case['c0'], h5), _rle_field(case['c1'], h5)
        try:
            return _spans_out(S.get_spans(fields=(f0, f1)))[0]
        finally:
            _drop(f0, h5); _drop(f1, h5)
    if op == 'gsr2a':
        return _spans_out(S.get_spans(fields=(_rle_array(case['c0']), _rle_array(case['c1']))))
    if op == 'apr':
        return _run_apply_rle(case)
    if op == 'gs2f':
        h5 = case.get('h5', False)
        f0, f1 = _field(case['c0'], h5), _field(case['c1'], h5)
        try:
            return _spans_out(S.get_spans(fields=(f0, f1)))[0]
        finally:
            _drop(f0, h5); _drop(f1, h5)
    if op == 'gs2a':
        return _spans_out(S.get_spans(fields=(_array(case['c0']), _array(case['c1']))))
    if op == 'multi':
        cols = np.asarray([_array({'k': case['k'], 'w': case.get('w'), 'rows': c}) for c in case['cols']])
        return _spans_out(ops._get_spans_for_multi_fields(cols))
    if op == 'sorted':
        cols = np.asarray([_array({'k': case['k'], 'w': case.get('w'), 'rows': c}) for c in case['cols']])
        return 1 if ops.check_if_sorted_for_multi_fields(cols) else 0
    if op == 'multir':
        return _spans_out(ops._get_spans_for_multi_fields(np.asarray([_array(c) for c in case['cols']])))
    if op == 'sortedr':
        return 1 if ops.check_if_sorted_for_multi_fields(np.asarray([_array(c) for c in case['cols']])) else 0
    if op == 'gb':
        return _run_groupby(case)
    if op == 'bs':
        dt = np.int32 if case['sdt'] == 'int32' else np.int64
        return _ints(ops._get_spans_for_2_fields_by_spans(np.array(case['s0'], dtype=dt), np.array(case['s1'], dtype=dt)))
    if op == 'ap':
        return _run_apply(case)
    if op == 'apf':
        dt = np.int32 if case['sdt'] == 'int32' else np.int64
        spans = np.array(case['spans'], dtype=dt)
        src = _array(case['col'])
        dest = np.array(case['dest'], dtype=dt)
        flt = np.array(case['flt'], dtype=bool)
        fn = case['fn']
        if fn in ('min', 'max'):
            d, fl = getattr(ops, 'apply_spans_index_of_%s_filter' % fn)(spans, src, dest, flt)
        else:
            d, fl = getattr(ops, 'apply_spans_index_of_%s_filter' % fn)(spans, dest, flt)
        return [_ints(d), [1 if x else 0 for x in fl]]
    raise ValueError(op)


_gbn = [0]


def _col_dtype(col):
    return '|S%d' % col['w'] if col['k'] == 'fixed' else _dtype_name(col['k'])


def _run_groupby(case):
    """DataFrame.groupby(by=[...]).count(): the group sizes are the differences of the spans of the key rows."""
    _gbn[0] += 1
    gname, oname = 'g%d' % _gbn[0], 'o%d' % _gbn[0]
    df, out = DS.create_dataframe(gname), DS.create_dataframe(oname)
    try:
        names = []
        for i, c in enumerate(case['cols']):
            k, name = _FIELD_KIND.get(c['k'], c['k']), 'k%d' % i
            names.append(name)
            if k == 'fixed':
                f = df.create_fixed_string(name, c['w'])
            elif k == 'cat':
                f = df.create_categorical(name, 'int8', {'a': 0, 'b': 1, 'c': 2, 'd': 3})
            elif k == 'ts':
                f = df.create_timestamp(name)
            else:
                f = df.create_numeric(name, k)
            f.data.write(_array(c))
        by = names[0] if len(names) == 1 and case.get('by_str') else names
        df.groupby(by=by, hint_keys_is_sorted=bool(case.get('hint', True))).count(ddf=out)
        counts = _ints(out['count'].data[:])
        spans = [0]
        for x in counts:
            spans.append(spans[-1] + x)
        return spans
    finally:
        for n in (gname, oname):
            try:
                del DS[n]
            except Exception:
                pass


def _run_apply_rle(case):
    """apply_spans_* on a run-length encoded (large) numeric / fixed column; spans are valid by construction."""
    np, ops = _np, _ops
    fn, level, rc = case['fn'], case['level'], case['col']
    k = rc['k']
    spans = np.array(case['spans'], dtype=np.int32 if case['sdt'] == 'int32' else np.int64)
    if level == 'kernel':
        r = getattr(ops, 'apply_spans_' + fn)(spans, _rle_array(rc))
    elif level == 'session':
        target = _rle_field(rc) if case.get('tf') else _rle_array(rc)
        r = getattr(S, 'apply_spans_' + fn)(spans, target)
    else:
        h5 = case.get('h5', False)
        f = _rle_field(rc, h5)
        try:
            if case.get('inplace'):
                g = getattr(f, 'apply_spans_' + fn)(spans, in_place=True)
            else:
                g = getattr(f, 'apply_spans_' + fn)(spans)
            r = g.data[:]
        finally:
            _drop(f, h5)
    if fn in ('min', 'max', 'first', 'last'):
        return {'v': _vals_out(r, k), 'dt': str(r.dtype)}
    return {'v': _ints(r), 'dt': str(r.dtype)}


def _run_apply(case):
    np, ops = _np, _ops
    fn, level, col = case['fn'], case['level'], case['col']
    k = col['k']
    dt = np.int32 if case['sdt'] == 'int32' else np.int64
    spans = np.array(case['spans'], dtype=dt)
    if k == 'indexed':
        if level == 'kernel':
            rows = col['rows']
            indices = np.array([] if (not rows and not col.get('idx0')) else _offsets(rows), dtype=np.int64)
            values = np.array([b for r in rows for b in r], dtype=np.uint8)
            if fn in ('index_of_min', 'index_of_max'):
                r = getattr(ops, 'apply_spans_%s_indexed' % fn)(spans, indices, values)
            else:
                r = getattr(ops, 'apply_spans_' + fn)(spans)
            return {'v': _ints(r), 'dt': str(r.dtype)}
        # Field level: returns a field holding the selected strings
        f = _field(col)
        name = {'index_of_min': 'min', 'index_of_max': 'max', 'index_of_first': 'first', 'index_of_last': 'last'}[fn]
        if case.get('inplace'):
            g = getattr(f, 'apply_spans_' + name)(spans, in_place=True)
        else:
            g = getattr(f, 'apply_spans_' + name)(spans)
        return {'rows': _indexed_rows(g)}
    if level == 'kernel':
        src = _array(col)
        if fn in ('count', 'index_of_first', 'index_of_last'):
            r = getattr(ops, 'apply_spans_' + fn)(spans)
        else:
            r = getattr(ops, 'apply_spans_' + fn)(spans, src)
    elif level == 'session':
        if fn in ('count', 'index_of_first', 'index_of_last'):
            r = getattr(S, 'apply_spans_' + fn)(spans)
        else:
            target = _field(col) if case.get('tf') else _array(col)
            r = getattr(S, 'apply_spans_' + fn)(spans, target)
    else:
        f = _field(col, case.get('h5', False))
        try:
            if case.get('inplace'):
                g = getattr(f, 'apply_spans_' + fn)(spans, in_place=True)
            else:
                g = getattr(f, 'apply_spans_' + fn)(spans)
            r = g.data[:]
        finally:
            _drop(f, case.get('h5', False))
    if fn in ('min', 'max', 'first', 'last'):
        return {'v': _vals_out(r, k), 'dt': str(r.dtype)}
    return {'v': _ints(r), 'dt': str(r.dtype)}


# ------------------------------------------------------------------------------------------------ wire
def _pad(r, w):
    return list(r) + [0] * (w - len(r))


def _wcol(col):
    k = col['k']
    if k == 'fixed':
        return [1, [_pad(r, col['w']) for r in col['rows']]]
    if k == 'indexed':
        rows = col['rows']
        if not rows and not col.get('idx0'):
            return [2, [], []]
        return [2, _offsets(rows), [b for r in rows for b in r]]
    if k in FBITS:
        return [3, FBITS[k], list(col['rows'])]
    if k == 'bool':
        return [0, [1 if v else 0 for v in col['rows']]]
    return [0, list(col['rows'])]


def _wcol_w(col, w):
    """a fixed column as it is after np.asarray re-padded it to the common width w (Gallina pad_fixed)."""
    if col['k'] == 'fixed':
        return [4, w, [list(r) for r in col['rows']]]
    return _wcol(col)


def _wrle(rc):
    k = rc['k']
    lens = [n for _, n in rc['runs']]
    if k == 'fixed':
        return [1, [_pad(v, rc['w']) for v, _ in rc['runs']], lens]
    if k == 'indexed':
        return [1, [list(v) for v, _ in rc['runs']], lens]
    if k == 'bool':
        return [0, [1 if v else 0 for v, _ in rc['runs']], lens]
    return [0, [v for v, _ in rc['runs']], lens]


def to_val(case):
    op = case['op']
    if op == 'gsr':
        return [20, _wrle(case['col'])]
    if op in ('gsr2f', 'gsr2a'):
        return [21, _wrle(case['c0']), _wrle(case['c1'])]
    if op == 'apr':
        lv = {'kernel': 0, 'session': 1, 'field': 2}[case['level']]
        return [22, KID[case['fn']], lv, case['spans'], _wrle(case['col'])]
    if op == 'gs':
        return [1, _wcol(case['col'])]
    if op == 'gs2f':
        return [2, _wcol(case['c0']), _wcol(case['c1'])]
    if op == 'gs2a':
        return [3, _wcol(case['c0']), _wcol(case['c1'])]
    if op in ('multi', 'sorted'):
        n = 4 if op == 'multi' else 5
        if case['k'] == 'fixed':
            return [n, 1, [[_pad(r, case['w']) for r in c] for c in case['cols']]]
        return [n, 0, case['cols']]
    if op in ('multir', 'sortedr'):
        w = max([c.get('w') or 0 for c in case['cols']])
        return [8, 0 if op == 'multir' else 1, [_wcol_w(c, w) for c in case['cols']]]
    if op == 'gb':
        mixed = len({_col_dtype(c) for c in case['cols']}) > 1
        return [7, 1 if mixed else 0, [_wcol_w(c, c.get('w') or 0) for c in case['cols']]]
    if op == 'bs':
        return [6, case['s0'], case['s1']]
    if op == 'ap':
        lv = {'kernel': 0, 'session': 1, 'field': 2}[case['level']]
        return [10, KID[case['fn']], lv, case['spans'], _wcol(case['col'])]
    if op == 'apf':
        return [11, {'min': 0, 'max': 1, 'first': 2, 'last': 3}[case['fn']], case['spans'], _wcol(case['col']),
                case['dest'], case['flt']]
    raise ValueError(op)


def _strip(r):
    r = list(r)
    while r and r[-1] == 0:
        r.pop()
    return r


def _shape(case, v):
    """model / spec wire value -> the canonical form run() produces."""
    op = case['op']
    if op == 'gsr2f':
        return v
    if op == 'gsr2a':
        return [v, 'int32']
    if op in ('gs', 'gsr'):
        k = case['col']['k']
        if k == 'indexed':
            return {'f': [v, 'list'], 'sf': [v, 'list'], 'kw': [v, 'list']}
        return {'f': [v, 'int32'], 'sf': [v, 'int32'], 'kw': [v, 'int32'], 'sa': [v, 'int32'], 'op': [v, 'int32']}
    if op == 'gs2f':
        return v
    if op in ('gs2a', 'multi', 'multir'):
        return [v, 'int32']
    if op in ('sorted', 'sortedr', 'bs', 'apf', 'gb'):
        return v
    if op in ('ap', 'apr'):
        fn, k = case['fn'], case['col']['k']
        if k == 'indexed':
            if case['level'] == 'kernel':
                return {'v': v, 'dt': case['sdt']}
            rows = case['col']['rows']
            return {'rows': [list(rows[i]) if 0 <= i < len(rows) else ['bad-index', i] for i in v]}
        if fn in ('min', 'max', 'first', 'last'):
            if k == 'fixed':
                return {'v': [_strip(r) for r in v], 'dt': '|S%d' % case['col']['w']}
            return {'v': v, 'dt': str(_dtype_name(k))}
        if fn == 'count':
            return {'v': v, 'dt': 'int64'}
        return {'v': v, 'dt': case['sdt']}
    raise ValueError(op)


def _dtype_name(k):
    return {'int32': 'int32', 'int64': 'int64', 'float64': 'float64', 'float32': 'float32', 'bool': 'bool',
            'int8': 'int8', 'cat': 'int8', 'ts': 'float64', 'f64b': 'float64', 'f32b': 'float32', 'tsb': 'float64'}[k]


def from_val(case, v):
    m, s = v
    mm = _shape(case, m)
    ss = _shape(case, s[0]) if s else None
    return (mm, ss)


# ------------------------------------------------------------------------------------------------ features
def _runs(rows):
    n, out = 0, []
    for i, r in enumerate(rows):
        if i and rows[i - 1] == r:
            out[-1] += 1
        else:
            out.append(1)
    return out


def features(case, model):
    f = ['op:' + case['op']]
    if isinstance(model, str):
        f.append('err:' + model.split(':')[0] + (':' + model.split(':')[1] if model.startswith('EXC') else ''))
    op = case['op']
    if op in ('gsr', 'gsr2f', 'gsr2a'):
        return f + _rle_features(case)
    if op == 'apr':
        rc, sp = case['col'], case['spans']
        n = _rle_rows(rc)
        f += ['fn:' + case['fn'], 'level:' + case['level'], 'sdt:' + case['sdt'], 'kind:' + rc['k'],
              'rle:rows>=2^%d' % (n.bit_length() - 1)]
        K = case.get('K')
        if K:
            f.append('rle:K=%d' % K)
            f.append('rle:K-new-literal-of-tree-under-test' if case.get('hotK') else 'rle:K-standing-sweep')
            if any(a < m * K < b for a, b in zip(sp, sp[1:]) for m in (1, 2)): f.append('rle:span-straddles-multiple-of-K')
            if any(x in (K, 2 * K) for x in sp[1:-1]): f.append('rle:span-starts-at-multiple-of-K')
            bs = set(_rle_bounds(rc))
            if bs & {K, 2 * K}: f.append('rle:value-changes-at-multiple-of-K')
        if case.get('layout'): f.append('rle:layout=' + case['layout'])
        if sp[0] != 0 or sp[-1] != n: f.append('spans-cover-part-of-column')
        if len(sp) == 2: f.append('one-span')
        if case.get('inplace'): f.append('in_place')
        if case.get('tf'): f.append('target-is-field')
        if case.get('h5'): f.append('hdf5-backed')
        return f

    def colfeat(col, tag=''):
        rows, k = col['rows'], col['k']
        f.append(tag + 'kind:' + k)
        if len(rows) == 0: f.append(tag + 'rows=0')
        if len(rows) == 1: f.append(tag + 'rows=1')
        rr = _runs(_vrows(col))
        f.extend(x for x in _repr_features([col], tag) if not (tag and 'inside-a-run' in x))
        if rows and len(rr) == 1 and len(rows) > 1: f.append(tag + 'one-span-covers-all')
        if rows and len(rr) == len(rows) and len(rows) > 1: f.append(tag + 'all-single-row-spans')
        if rr and 1 < len(rr) < len(rows): f.append(tag + 'mixed-spans')
        if k in ('fixed', 'indexed'):
            for a, b in zip(rows, rows[1:]):
                if a != b and bytes(a).rstrip() == bytes(b).rstrip(): f.append(tag + 'adjacent-differ-only-in-trailing-blanks'); break
            for a, b in zip(rows, rows[1:]):
                if a != b and len(a) != len(b) and (a[:len(b)] == b or b[:len(a)] == a): f.append(tag + 'adjacent-prefix-pair'); break
            if any(len(r) == 0 for r in rows): f.append(tag + 'empty-string')
            if any(0 in r for r in rows): f.append(tag + 'embedded-NUL')
            if any(b >= 128 for r in rows for b in r): f.append(tag + 'high-byte')
    if op == 'gs':
        colfeat(case['col'])
        if case.get('h5'): f.append('hdf5-backed')
        if case['col'].get('str'): f.append('indexed-written-as-str')
        if case['col']['k'] == 'indexed' and not case['col']['rows']:
            f.append('indexed-empty-' + ('offsets=[0]' if case['col'].get('idx0') else 'no-offsets'))
    elif op in ('gs2f', 'gs2a'):
        colfeat(case['c0'], 'c0:'); colfeat(case['c1'], 'c1:')
        n0, n1 = len(case['c0']['rows']), len(case['c1']['rows'])
        if n0 != n1: f.append('malformed:unequal-lengths')
        else:
            v0, v1 = _vrows(case['c0']), _vrows(case['c1'])
            b0 = {i for i in range(1, n0) if v0[i] != v0[i - 1]}
            b1 = {i for i in range(1, n1) if v1[i] != v1[i - 1]}
            f.extend(x for x in _repr_features([case['c0'], case['c1']]) if x.startswith('repr:signed-zero-pair-inside'))
            if b0 & b1: f.append('shared-boundary')
            if b0 - b1 and b1 - b0: f.append('interleaved-boundaries')
            if b0 and not b1 or b1 and not b0: f.append('one-side-constant')
            if b1 and b0 and min(b1) < min(b0): f.append('second-field-boundary-first')
    elif op in ('multi', 'sorted'):
        f.append('ncols=%d' % len(case['cols']))
        f.append('kind:' + case['k'])
        n = len(case['cols'][0]) if case['cols'] else -1
        if n == 0: f.append('rows=0')
        if n == 1: f.append('rows=1')
        if len({len(c) for c in case['cols']}) > 1: f.append('malformed:unequal-lengths')
        if op == 'sorted' and model in (0, 1): f.append('sorted=%d' % model)
        if op == 'multi' and len(case['cols']) >= 2 and n >= 2:
            if any(case['cols'][0][i] == case['cols'][0][i - 1] and case['cols'][-1][i] != case['cols'][-1][i - 1] for i in range(1, n)):
                f.append('boundary-only-in-last-column')
    elif op in ('multir', 'sortedr', 'gb'):
        cols = case['cols']
        f.append('ncols=%d' % len(cols))
        f.append('kinds:' + '+'.join(c['k'] + (str(c['w']) if c['k'] == 'fixed' else '') for c in cols))
        n = len(cols[0]['rows']) if cols else -1
        if n == 0: f.append('rows=0')
        if n == 1: f.append('rows=1')
        if len({len(c['rows']) for c in cols}) > 1: f.append('malformed:unequal-lengths')
        if len({_col_dtype(c) for c in cols}) > 1:
            f.append('repr:key-columns-of-different-dtypes' + (':ranked-by-groupby' if op == 'gb' else ':stacked-by-asarray'))
        if op == 'gb':
            f.append('hint_keys_is_sorted=%s' % bool(case.get('hint', True)))
            if case.get('by_str'): f.append('by-is-a-str')
        if op == 'sortedr' and model in (0, 1): f.append('sorted=%d' % model)
        f.extend(_repr_features(cols))
    elif op == 'bs':
        s0, s1 = case['s0'], case['s1']
        if s0 and s1 and s0[-1] == s1[-1] and s0[0] == 0 and s1[0] == 0: f.append('valid-span-pair')
        else: f.append('malformed:span-pair')
        if not s0 or not s1: f.append('empty-span-list')
        f.append('sdt:' + case['sdt'])
    elif op == 'ap':
        f.append('fn:' + case['fn']); f.append('level:' + case['level']); f.append('sdt:' + case['sdt'])
        colfeat(case['col'])
        sp, n = case['spans'], len(case['col']['rows'])
        ok = len(sp) >= 1 and all(a < b for a, b in zip(sp, sp[1:])) and sp[0] >= 0 and sp[-1] <= n
        if ok:
            if len(sp) == 1: f.append('zero-spans')
            if len(sp) == 2 and n > 1 and sp == [0, n]: f.append('one-span-covers-all')
            if len(sp) == n + 1 and n > 1: f.append('all-single-row-spans')
            if any(b - a >= 3 for a, b in zip(sp, sp[1:])): f.append('span>=3-rows')
            if sp[-1] != n or sp[0] != 0: f.append('spans-cover-part-of-column')
            rows = _vrows(case['col']) if case['col']['k'] in FBITS else case['col']['rows']
            if case['col']['k'] in FBITS:
                raw = case['col']['rows']
                for a, b in zip(sp, sp[1:]):
                    if len({raw[i] for i in range(a, b) if rows[i] == min(rows[a:b])}) > 1:
                        f.append('repr:tie-for-min-between-signed-zeros'); break
            for a, b in zip(sp, sp[1:]):
                seg = [tuple(r) if isinstance(r, list) else r for r in rows[a:b]]
                if len(seg) >= 2 and seg.count(min(seg)) >= 2: f.append('tie-for-min'); break
            for a, b in zip(sp, sp[1:]):
                seg = [tuple(r) if isinstance(r, list) else r for r in rows[a:b]]
                if len(seg) >= 2 and seg.index(min(seg)) > 0: f.append('min-not-first'); break
            if case['col']['k'] == 'indexed':
                for a, b in zip(sp, sp[1:]):
                    seg = rows[a:b]
                    m = min(seg, key=lambda r: tuple(r))
                    if any(len(r) > len(m) and r[:len(m)] == m for r in seg): f.append('F-C07a-region:longer-row-extends-min'); break
        else:
            f.append('malformed:spans')
            if len(sp) == 0: f.append('malformed:no-spans')
            if any(a == b for a, b in zip(sp, sp[1:])): f.append('malformed:empty-span')
        if case.get('inplace'): f.append('in_place')
        if case.get('tf'): f.append('target-is-field')
        if case.get('h5'): f.append('hdf5-backed')
    elif op == 'apf':
        f.append('fn:' + case['fn']); f.append('sdt:' + case['sdt'])
        sp = case['spans']
        if any(a == b for a, b in zip(sp, sp[1:])): f.append('filter:empty-span')
        if len(case['dest']) != len(sp) - 1: f.append('malformed:dest-length')
        if any(a > b for a, b in zip(sp, sp[1:])): f.append('malformed:spans')
    return f


def _repr_features(cols, tag=''):
    """where value equality and representation equality part: adjacent rows that are EQUAL but stored differently."""
    f = []
    if any(len(c['rows']) != len(cols[0]['rows']) for c in cols):
        return f
    vs = [_vrows(c) for c in cols]
    n = len(cols[0]['rows'])
    for ci, c in enumerate(cols):
        k, rows = c['k'], c['rows']
        if k in FBITS:
            f.append(tag + 'repr:float-column-given-by-bit-patterns')
            w = FBITS[k]
            if any(b & ((1 << (w - 1)) - 1) >= ((1 << (w - 1)) - (1 << (52 if w == 64 else 23))) for b in rows):
                f.append(tag + 'repr:infinity')
            for i in range(1, n):
                if rows[i] != rows[i - 1] and vs[ci][i] == vs[ci][i - 1]:
                    f.append(tag + 'repr:adjacent-signed-zeros(equal-value,different-bits)')
                    if all(v[i] == v[i - 1] for v in vs):
                        f.append(tag + 'repr:signed-zero-pair-inside-a-run-of-equal-rows')
                    break
            for i in range(1, n):
                if vs[ci][i] != vs[ci][i - 1] and abs(vs[ci][i]) <= 1 and abs(vs[ci][i - 1]) <= 1:
                    f.append(tag + 'repr:zero-next-to-smallest-subnormal'); break
        elif k == 'fixed':
            for i in range(1, n):
                if list(rows[i]) != list(rows[i - 1]) and vs[ci][i] == vs[ci][i - 1]:
                    f.append(tag + 'repr:adjacent-differ-only-in-trailing-NULs(same-stored-element)'); break
        elif k == 'indexed':
            for i in range(1, n):
                if list(rows[i]) != list(rows[i - 1]) and _strip(rows[i]) == _strip(rows[i - 1]):
                    f.append(tag + 'repr:indexed-rows-differ-only-in-trailing-NULs(different-rows)'); break
    return sorted(set(f))


def _rle_bounds(rc):
    """row numbers at which the expanded column changes value."""
    out, pos, prev = [], 0, None
    for v, n in rc['runs']:
        if n <= 0:
            continue
        key = (bool(v) if rc['k'] == 'bool' else tuple(v) if isinstance(v, list) else v)
        if prev is not None and key != prev:
            out.append(pos)
        prev = key
        pos += n
    return out


def _rle_features(case):
    f = []
    cols = [case['col']] if case['op'] == 'gsr' else [case['c0'], case['c1']]
    n = _rle_rows(cols[0])
    for rc in cols:
        f.append('kind:' + rc['k'])
    f.append('rle:rows>=2^%d' % (n.bit_length() - 1) if n else 'rows=0')
    if case.get('h5'): f.append('hdf5-backed')
    if case.get('K'):
        K = case['K']
        f.append('rle:K=%d' % K)
        f.append('rle:K-new-literal-of-tree-under-test' if case.get('hotK') else 'rle:K-standing-sweep')
        bs = set()
        for rc in cols:
            bs |= set(_rle_bounds(rc))
        for m in (1, 2, 3):
            for d in (-1, 0, 1):
                if m * K + d in bs:
                    f.append('rle:boundary-at-%sK%s' % ('' if m == 1 else m, {-1: '-1', 0: '', 1: '+1'}[d]))
        if not any((m * K) in bs for m in (1, 2, 3)) and n > K:
            f.append('rle:no-boundary-at-multiple-of-K')
        if n % K == 0: f.append('rle:rows-multiple-of-K')
        if n % K == 1: f.append('rle:rows=multiple-of-K+1')
    if case.get('layout'): f.append('rle:layout=' + case['layout'])
    for rc in cols:
        if any(n0 == 0 for _, n0 in rc['runs']): f.append('rle:zero-length-run')
        rr = rc['runs']
        if any(rr[i][0] == rr[i + 1][0] for i in range(len(rr) - 1)): f.append('rle:adjacent-runs-same-value')
    if len(cols) == 2:
        if _rle_rows(cols[0]) != _rle_rows(cols[1]): f.append('malformed:unequal-lengths')
        b0, b1 = set(_rle_bounds(cols[0])), set(_rle_bounds(cols[1]))
        if b0 & b1: f.append('shared-boundary')
        if b0 - b1 and b1 - b0: f.append('interleaved-boundaries')
        if (b0 and not b1) or (b1 and not b0): f.append('one-side-constant')
    return f


# rows above which the interpreted (USE_NUMBA=false) per-row loops of the njit kernels are not run
NOJIT_LOOP_ROWS = 1 << 17


def skip(case, mode):
    op = case['op']
    if mode == 'nojit' and op == 'apr':
        # apply_spans_min / max walk the rows of every span in a python loop when numba is off
        return case['fn'] in ('min', 'max') and _rle_rows(case['col']) > NOJIT_LOOP_ROWS
    if mode == 'nojit' and op in ('gsr', 'gsr2f', 'gsr2a'):
        cols = [case['col']] if op == 'gsr' else [case['c0'], case['c1']]
        n = _rle_rows(cols[0])
        if n > NOJIT_LOOP_ROWS and (op == 'gsr2a' or any(rc['k'] == 'indexed' for rc in cols)):
            return True
    return False


def nontrivial(case, model):
    if isinstance(model, str) and model == 'BADCASE':
        return False
    fs = features(case, model)
    return not any(x.startswith('malformed') for x in fs)


def known(case, impl, model, spec, mode):
    return None


# ------------------------------------------------------------------------------------------------ generators
FIXED_POOL = [[], [32], [97], [97, 32], [97, 9], [97, 98], [97, 0, 98], [98], [128], [97, 32, 32]]
FIXED_POOL_Q = [[], [32], [97], [97, 32], [97, 98], [97, 0, 98], [128]]
INDEXED_POOL = [[], [97], [97, 32], [97, 33], [97, 98], [98], [122, 122], [97, 97], [32], [200]]
INDEXED_POOL_Q = [[], [97], [97, 32], [97, 33], [97, 98], [98], [122, 122]]
APPLY_FIXED = [[], [97], [97, 32], [97, 98], [128]]
APPLY_INDEXED = [[], [97], [97, 33], [97, 98], [98], [122, 122], [97, 97]]


def _seqs(pool, nmax):
    for n in range(nmax + 1):
        for t in itertools.product(pool, repeat=n):
            yield list(t)


def _compositions(n):
    """all strictly increasing span lists from 0 to n (n >= 0)."""
    if n == 0:
        yield [0]
        return
    for mask in range(1 << (n - 1)):
        yield [0] + [i for i in range(1, n) if mask >> (i - 1) & 1] + [n]


def _col(k, rows, **kw):
    c = {'k': k, 'rows': [list(r) if isinstance(r, (list, tuple)) else r for r in rows]}
    if k == 'fixed':
        c['w'] = 3
    c.update(kw)
    return c


def _warm_cases():
    yield {'op': 'gs', 'col': _col('int32', [0, 0, 1])}
    yield {'op': 'gs', 'col': _col('indexed', [[97], [97]])}
    for k0 in ('int32', 'fixed'):
        for k1 in ('int32', 'fixed'):
            r0 = [0, 1] if k0 == 'int32' else [[97], [98]]
            r1 = [0, 1] if k1 == 'int32' else [[97], [98]]
            yield {'op': 'gs2a', 'c0': _col(k0, r0), 'c1': _col(k1, r1)}
            yield {'op': 'gs2f', 'c0': _col(k0, r0), 'c1': _col(k1, r1)}
    for k in ('int32', 'int64', 'float64', 'fixed'):
        rows = [[97], [98]] if k == 'fixed' else [0, 1]
        yield {'op': 'multi', 'k': k, 'w': 3, 'cols': [rows, rows]}
        yield {'op': 'sorted', 'k': k, 'w': 3, 'cols': [rows, rows]}
    for kinds in REPR_MULTI_SETS:
        cs = [_col(k, _two_alpha(k)) for k in kinds]
        yield {'op': 'multir', 'cols': cs}
        yield {'op': 'sortedr', 'cols': cs}
    for ws in REPR_FIXED_SETS:
        cs = [_col('fixed', _two_alpha('fixed', w), w=w) for w in ws]
        yield {'op': 'multir', 'cols': cs}
        yield {'op': 'sortedr', 'cols': cs}
    for (k0, k1) in [('f64b', 'f64b'), ('f64b', 'int32'), ('int32', 'f32b'), ('f64b', 'fixed'), ('tsb', 'f32b'), ('fixed', 'f32b'),
                     ('bool', 'int8'), ('int8', 'int64'), ('f32b', 'int32')]:
        yield {'op': 'gs2a', 'c0': _col(k0, _two_alpha(k0)), 'c1': _col(k1, _two_alpha(k1))}
    yield {'op': 'gb', 'cols': [_col('f64b', _fb_two(64)), _col('int32', [0, 1])]}
    for sdt in ('int32', 'int64'):
        yield {'op': 'bs', 'sdt': sdt, 's0': [0, 2], 's1': [0, 1, 2]}
        for fn in KID:
            for k in ('int32', 'int64', 'float64', 'float32', 'bool', 'int8', 'fixed'):
                rows = [[97], [98]] if k == 'fixed' else [0, 1]
                yield {'op': 'ap', 'fn': fn, 'level': 'kernel', 'sdt': sdt, 'spans': [0, 2], 'col': _col(k, rows)}
            if fn.startswith('index_of'):
                yield {'op': 'ap', 'fn': fn, 'level': 'kernel', 'sdt': sdt, 'spans': [0, 2], 'col': _col('indexed', [[97], [98]])}
        for fn in ('min', 'max', 'first', 'last'):
            for k in ('int32', 'float64', 'bool'):
                yield {'op': 'apf', 'fn': fn, 'sdt': sdt, 'spans': [0, 2], 'col': _col(k, [0, 1]), 'dest': [0], 'flt': [0]}


# ---- large inputs, run-length encoded ---------------------------------------------------------------------------
# A vectorised entry point that starts working block by block (or a kernel that keeps a window) can lose / invent a
# boundary only where a run boundary meets a block edge: rows K-1, K, K+1, 2K … for the block length K.  K is unknown
# and far beyond the exhaustive scope, so (a) a standing sweep plants boundaries around every power of two 2^8..2^23 and
# every power of ten 10^3..10^6, and (b) every integer literal that is NEW in the tree under test (harness/hot.py: the
# small ones and the ones too large to enumerate, up to 2^23) is treated as a candidate K.  The cases are stored run-length
# encoded and answered by spans_of_rle (theorems spans_rle_* of Props/C08.v).
RLE_K_MAX = 1 << 23
RLE_MAX_BYTES = 1 << 25          # size of one expanded column
RLE_H5_BYTES = 1 << 23
_ITEMSIZE = {'int8': 1, 'bool': 1, 'cat': 1, 'fixed': 2, 'int32': 4, 'float32': 4, 'int64': 8, 'float64': 8, 'ts': 8,
             'indexed': 12}
RLE_KINDS = ['int8', 'int32', 'bool', 'fixed', 'cat', 'float32', 'int64', 'indexed', 'float64', 'ts']
_RLE_FIXED = [[97], [98], [97, 32]]         # a, b differ in a byte; c differs from a only by a trailing blank
_RLE_INDEXED = [[97], [98], [97, 32], []]   # a, b same length; c longer; d empty


def _rle_layouts(K):
    a, b, c = 0, 1, 2
    L = [('boundary-at-K', [(a, K), (b, K)]),
         ('boundary-at-K-1', [(a, K - 1), (b, K + 1)]),
         ('boundary-at-K+1', [(a, K + 1), (b, K - 1)]),
         ('K+1-rows-last-row-alone', [(a, K), (b, 1)]),
         ('K-rows-last-row-alone', [(a, K - 1), (b, 1)]),
         ('constant-K+1-rows', [(a, K), (a, 1)]),
         ('constant-2K+1-rows', [(a, K), (b, 0), (a, K + 1)]),
         ('boundaries-K-1,K,K+1,2K-1,2K,2K+1', [(a, K - 1), (b, 1), (c, 1), (a, K - 2), (b, 1), (c, 1), (a, 1)]),
         ('boundary-at-2K-only', [(a, 2 * K), (b, 1)]),
         ('boundary-at-2K-1', [(a, 2 * K - 1), (b, 2)]),
         ('boundaries-K,2K,3K', [(a, K), (b, K), (a, K), (b, 1)]),
         ('short-runs-then-K,2K', [(a, 1), (b, 2), (a, K - 3), (b, K), (c, 5)])]
    return [(name, runs) for name, runs in L if all(n >= 0 for _, n in runs)]


def _rle_pairs(K):
    a, b = 0, 1
    return [('shared-boundary-at-K', [(a, K), (b, K)], [(b, K), (a, K)]),
            ('only-second-column-changes-at-K', [(a, K), (a, K)], [(a, K), (b, K)]),
            ('only-first-column-changes-at-K', [(a, K), (b, K + 1)], [(a, 2 * K + 1)]),
            ('interleaved-K-1/K+1', [(a, K - 1), (b, K + 1)], [(a, K + 1), (b, K - 1)]),
            ('K/2K-of-2K+1-rows', [(a, K), (b, K + 1)], [(b, 2 * K), (a, 1)])]


def _rle_col(k, runs):
    """codes 0..3 of a layout -> the values of the kind."""
    if k == 'fixed':
        return {'k': k, 'w': 2, 'runs': [[list(_RLE_FIXED[v % 3]), n] for v, n in runs]}
    if k == 'indexed':
        return {'k': k, 'runs': [[list(_RLE_INDEXED[v % 4]), n] for v, n in runs]}
    if k == 'bool':
        return {'k': k, 'runs': [[v % 2, n] for v, n in runs]}
    return {'k': k, 'runs': [[v, n] for v, n in runs]}


def _rle_fits(k, n):
    return n * _ITEMSIZE[k] <= RLE_MAX_BYTES


def rle_sizes(tier):
    """[(K, is_new_literal)]: the standing sweep, then the new literals of the tree under test."""
    ks = [(1 << e, False) for e in range(8, 24)] + [(10 ** e, False) for e in range(3, 7)]
    if tier == 'thorough':
        ks += [(3 << e, False) for e in range(8, 22, 2)] + [(5 * 10 ** 6, False)]
    new = [k for k in list(hot.hot_sizes()) + list(hot.big_sizes()) if 2 <= k <= RLE_K_MAX]
    return ks + [(k, True) for k in sorted(set(new))[:8]]


def unreachable_sizes():
    """new literals that are too large to plant (reported in the evidence)."""
    return [k for k in hot.big_sizes() if k > RLE_K_MAX]


def _gen_rle(tier, rng):
    big = tier == 'thorough'
    t = 0
    pair_kinds = [('int8', 'int8'), ('int32', 'fixed'), ('fixed', 'int8'), ('bool', 'int32'), ('indexed', 'int8'),
                  ('int64', 'float64'), ('cat', 'indexed')]
    for K, new in rle_sizes(tier):
        every = big or new                       # thorough / a new literal: every layout x every kind that fits
        for name, runs in _rle_layouts(K):
            n = sum(x for _, x in runs)
            kinds = RLE_KINDS if every else [RLE_KINDS[(t + j) % len(RLE_KINDS)] for j in ((0, 3) if K < 1 << 22 else (0,))]
            for k in kinds:
                if not _rle_fits(k, n):
                    k = None if every else [x for x in (['bool', 'cat', 'fixed'][t % 3], 'int8') if _rle_fits(x, n)][0]
                if k is None:
                    continue
                t += 1
                yield {'op': 'gsr', 'K': K, 'hotK': bool(new), 'layout': name, 'col': _rle_col(k, runs),
                       'h5': t % 8 == 0 and n * _ITEMSIZE[k] <= RLE_H5_BYTES}
        for name, r0, r1 in _rle_pairs(K):
            n = sum(x for _, x in r0)
            combos = pair_kinds if every else [pair_kinds[(t + j) % len(pair_kinds)] for j in ((0, 2) if K < 1 << 22 else (0,))]
            for (k0, k1) in combos:
                if not (_rle_fits(k0, n) and _rle_fits(k1, n)):
                    if every:
                        continue
                    k0, k1 = 'int8', 'bool'
                t += 1
                c0, c1 = _rle_col(k0, r0), _rle_col(k1, r1)
                yield {'op': 'gsr2f', 'K': K, 'hotK': bool(new), 'layout': name, 'c0': c0, 'c1': c1,
                       'h5': t % 16 == 0 and n * 8 <= RLE_H5_BYTES}
                if 'indexed' not in (k0, k1):
                    yield {'op': 'gsr2a', 'K': K, 'hotK': bool(new), 'layout': name, 'c0': c0, 'c1': c1}
    # structured random: run lengths drawn around a size of the sweep, values from a small alphabet
    sizes = [K for K, _ in rle_sizes(tier) if K <= (1 << 21 if big else 1 << 19)]

    def rnd_runs(K, total=None):
        runs, n = [], 0
        goal = total if total is not None else rng.choice([K + 1, 2 * K, 2 * K + 1, 3 * K])
        while n < goal:
            ln = rng.choice([0, 1, 1, 2, 3, K - 1, K, K, K + 1, K // 2, 2 * K])
            ln = max(0, min(ln, goal - n if total is not None or rng.random() < 0.5 else ln))
            runs.append((rng.randrange(3), ln)); n += ln
        return runs, n
    for _ in range(400 if big else 60):
        K = rng.choice(sizes)
        r0, n = rnd_runs(K)
        r1, n1 = rnd_runs(K, n)
        k0 = rng.choice([k for k in RLE_KINDS if _rle_fits(k, n)])
        k1 = rng.choice([k for k in RLE_KINDS if _rle_fits(k, n)])
        yield {'op': 'gsr', 'K': K, 'layout': 'random', 'col': _rle_col(k0, r0), 'h5': rng.random() < 0.05 and n * _ITEMSIZE[k0] <= RLE_H5_BYTES}
        c0, c1 = _rle_col(k0, r0), _rle_col(k1, r1)
        yield {'op': 'gsr2f', 'K': K, 'layout': 'random', 'c0': c0, 'c1': c1}
        if 'indexed' not in (k0, k1):
            yield {'op': 'gsr2a', 'K': K, 'layout': 'random', 'c0': c0, 'c1': c1}


_RLE_ORD_FIXED = [[97], [97, 32], [98]]      # NUL-padded byte order = code order
APR_KINDS = ['int8', 'int32', 'fixed', 'float32', 'cat', 'int64', 'float64', 'ts']
APR_FNS = ['min', 'index_of_min', 'max', 'index_of_max', 'first', 'last']


def _runs_from_marks(n, marks, bg=1):
    runs, pos = [], 0
    for p in sorted(marks):
        if not 0 <= p < n:
            continue
        if p > pos:
            runs.append((bg, p - pos))
        runs.append((marks[p], 1)); pos = p + 1
    if pos < n:
        runs.append((bg, n - pos))
    return runs


def _gen_rle_apply(tier, rng):
    """reductions on large columns: the extreme row sits at / next to a multiple of K, spans straddle / start at it."""
    big = tier == 'thorough'
    t = 0
    for ki, (K, new) in enumerate(rle_sizes(tier)):
        if K < 4:
            continue
        n = 2 * K + 2
        cols = [('low@K-1,high@K', {K - 1: 0, K: 2}), ('low@K,high@K-1', {K: 0, K - 1: 2}),
                ('low@K=2K,high@K-1=2K+1', {K: 0, 2 * K: 0, K - 1: 2, 2 * K + 1: 2}),
                ('low@K+1,high@2K', {K + 1: 0, 2 * K: 2}), ('low@0=N-1,high@K', {0: 0, n - 1: 0, K: 2}),
                ('constant', {})]
        spans = [('whole', [0, n]), ('split@K', [0, K, n]), ('split@K-1,K+1', [0, K - 1, K + 1, n]),
                 ('split@K+1,2K', [0, K + 1, 2 * K, n]), ('many', [0, 1, K, K + 1, 2 * K, 2 * K + 1, n]),
                 ('part:K-1..K+1', [K - 1, K + 1]), ('part:1..K..2K', [1, K, 2 * K])]
        every = big or new
        for ci, (cname, marks) in enumerate(cols):
            for si, (sname, sp) in enumerate(spans):
                if not every and (ci + si + ki) % 2:
                    continue
                fns = APR_FNS if every else [APR_FNS[(t + ki) % 6]]
                for fn in fns:
                    t += 1
                    k = APR_KINDS[t % len(APR_KINDS)]
                    if not _rle_fits(k, n):
                        k = 'int8'
                    level = ['kernel', 'session', 'field'][t % 3]
                    if level == 'field' and (fn.startswith('index_of') or k == 'cat'):
                        level = 'kernel'
                    if level == 'session' and sname.startswith('part'):
                        level = 'kernel'
                    runs = _runs_from_marks(n, marks)
                    col = ({'k': k, 'w': 2, 'runs': [[list(_RLE_ORD_FIXED[v]), m] for v, m in runs]} if k == 'fixed'
                           else {'k': k, 'runs': [[v, m] for v, m in runs]})
                    case = {'op': 'apr', 'fn': fn, 'level': level, 'sdt': 'int32' if (t // 3) % 2 else 'int64',
                            'spans': sp, 'col': col, 'K': K, 'hotK': bool(new), 'layout': cname + '/' + sname}
                    if level == 'session' and t % 4 == 0: case['tf'] = True
                    if level == 'field' and t % 5 == 0: case['inplace'] = True
                    if level == 'field' and t % 7 == 0 and n * _ITEMSIZE[k] <= RLE_H5_BYTES: case['h5'] = True
                    yield case


def summarize(recs):
    ks, hot_ks, n, rows = set(), set(), 0, 0
    for r in recs:
        c = r['case']
        if c['op'] in ('gsr', 'gsr2f', 'gsr2a', 'apr'):
            n += 1
            rows = max(rows, _rle_rows(c.get('col') or c['c0']))
            if c.get('K'):
                (hot_ks if c.get('hotK') else ks).add(c['K'])
    return {'large_inputs': {'cases': n, 'largest_column_rows': rows, 'block_lengths_standing_sweep': sorted(ks),
                             'block_lengths_from_new_literals': sorted(hot_ks),
                             'new_literals_too_large_to_plant': unreachable_sizes()}}


def _gen_hot_rows(tier):
    """the per-row njit kernels that take 2-D input (multi-field spans, sortedness) on explicit columns of K+1 / 2K+2
    rows for every SMALL new literal K of the tree under test (statement-level model; nothing on the unchanged tree)."""
    for K in hot.hot_sizes():
        if not 4 <= K <= 2048:
            continue
        for n in (K + 1, 2 * K + 2):
            marks = [{K: 1}, {K - 1: 1}, {K + 1: 1}, {K - 1: 1, K: 2, K + 1: 3}, {}]
            if n > 2 * K:
                marks += [{2 * K: 1}, {K: 1, 2 * K: 2, 2 * K + 1: 3}]
            cols = []
            for m in marks:                         # non-decreasing columns: value = number of marks passed
                col, v = [], 0
                for i in range(n):
                    if i in m: v += 1
                    col.append(v)
                cols.append(col)
            const = [0] * n
            for c in cols:
                for k in ('int32', 'float64'):
                    yield {'op': 'multi', 'k': k, 'w': 3, 'cols': [c]}
                    yield {'op': 'multi', 'k': k, 'w': 3, 'cols': [const, c]}
                    yield {'op': 'sorted', 'k': k, 'w': 3, 'cols': [const, c]}
                unsorted = list(c); unsorted[min(K, n - 1)] = -1
                yield {'op': 'sorted', 'k': 'int32', 'w': 3, 'cols': [const, unsorted]}
            yield {'op': 'multi', 'k': 'int32', 'w': 3, 'cols': [cols[0], cols[1]]}


RLE_STRIDE = 48      # one large case after this many small ones: spreads them over the worker batches


def gen(tier, rng):
    import random, os
    if os.environ.get('VERIF_C08_ONLY', '') == 'repr':     # development switch: the representation-vs-value part alone
        cnt = itertools.count(1)
        for c in _gen_repr(tier, random.Random(rng.getrandbits(64)), lambda: next(cnt)):
            yield c
        return
    if os.environ.get('VERIF_C08_LARGE', '1') == '0':      # development switch (timing of the small-scope part alone)
        for c in _gen_small(tier, rng):
            yield c
        return
    larges = itertools.chain.from_iterable(itertools.zip_longest(
        _gen_rle(tier, random.Random(rng.getrandbits(64))), _gen_rle_apply(tier, rng)))
    larges = itertools.chain((c for c in larges if c is not None), _gen_hot_rows(tier))
    n = 0
    for c in _gen_small(tier, rng):
        yield c
        n += 1
        if n % RLE_STRIDE == 0:
            nxt = next(larges, None)
            if nxt is not None:
                yield nxt
    for c in larges:
        yield c


def _gen_small(tier, rng):
    big = tier == 'thorough'
    cnt = [0]

    def tick():
        cnt[0] += 1
        return cnt[0]

    # ---- A. get_spans on one column, every entry point
    nnum = 6 if big else 5
    for k in NUMK:
        alpha = [0, 1] if k == 'bool' else [0, 1, 2]
        for rows in _seqs(alpha, nnum):
            yield {'op': 'gs', 'col': _col(k, rows), 'h5': tick() % 16 == 0}
    fpool = FIXED_POOL if big else FIXED_POOL_Q
    for rows in _seqs(fpool, 4):
        yield {'op': 'gs', 'col': _col('fixed', rows), 'h5': tick() % 16 == 0}
    ipool = INDEXED_POOL if big else INDEXED_POOL_Q
    for rows in _seqs(ipool, 4):
        c = _col('indexed', rows, str=(tick() % 3 == 0))
        yield {'op': 'gs', 'col': c, 'h5': tick() % 16 == 0}
    yield {'op': 'gs', 'col': _col('indexed', [], idx0=True)}
    yield {'op': 'gs', 'col': _col('indexed', [], idx0=True), 'h5': True}
    yield {'op': 'gs', 'col': _col('indexed', []), 'h5': True}

    # ---- B. two columns
    two = {'int32': [0, 1], 'float64': [0, 1], 'int64': [0, 1], 'fixed': [[97], [97, 32]], 'indexed': [[97], [97, 32]], 'bool': [0, 1]}
    combos_f = [('int32', 'int32'), ('int64', 'float64'), ('int32', 'fixed'), ('fixed', 'int32'), ('fixed', 'fixed'),
                ('indexed', 'int32'), ('indexed', 'indexed'), ('bool', 'indexed'), ('fixed', 'indexed')]
    combos_a = [('int32', 'int32'), ('int64', 'float64'), ('int32', 'fixed'), ('fixed', 'int32'), ('fixed', 'fixed'), ('bool', 'float64')]
    n2 = 5 if big else 4
    for (k0, k1) in combos_f:
        for n in range(n2 + 1):
            for r0 in itertools.product(two[k0], repeat=n):
                for r1 in itertools.product(two[k1], repeat=n):
                    yield {'op': 'gs2f', 'c0': _col(k0, r0), 'c1': _col(k1, r1), 'h5': tick() % 64 == 0}
    for (k0, k1) in combos_a:
        for n in range(n2 + 1):
            for r0 in itertools.product(two[k0], repeat=n):
                for r1 in itertools.product(two[k1], repeat=n):
                    yield {'op': 'gs2a', 'c0': _col(k0, r0), 'c1': _col(k1, r1)}
    # malformed: unequal lengths
    for (k0, k1) in [('int32', 'int32'), ('fixed', 'int32'), ('indexed', 'int32')]:
        for n0 in range(0, 4):
            for n1 in range(0, 4):
                if n0 == n1:
                    continue
                for r0 in itertools.product(two[k0], repeat=n0):
                    for r1 in itertools.product(two[k1], repeat=n1):
                        yield {'op': 'gs2f', 'c0': _col(k0, r0), 'c1': _col(k1, r1)}
                        if k0 != 'indexed':
                            yield {'op': 'gs2a', 'c0': _col(k0, r0), 'c1': _col(k1, r1)}

    # ---- C/D. multi-field spans and sortedness
    for k in ('int32', 'int64', 'float64', 'fixed'):
        alpha2 = [[97], [97, 32]] if k == 'fixed' else [0, 1]
        alpha3 = [[97], [97, 32], [98]] if k == 'fixed' else [0, 1, 2]
        for nc in (1, 2, 3):
            for n in range(0, 5):
                if k in ('int64', 'float64') and nc == 3:
                    continue
                for cols in itertools.product(list(itertools.product(alpha2, repeat=n)), repeat=nc):
                    yield {'op': 'multi', 'k': k, 'w': 3, 'cols': [list(map(lambda x: list(x) if isinstance(x, list) else x, c)) for c in cols]}
        for nc in (1, 2):
            for n in range(0, 5 if nc == 1 or big else 4):
                for cols in itertools.product(list(itertools.product(alpha3, repeat=n)), repeat=nc):
                    yield {'op': 'sorted', 'k': k, 'w': 3, 'cols': [list(map(lambda x: list(x) if isinstance(x, list) else x, c)) for c in cols]}
        for n in range(0, 4):
            for cols in itertools.product(list(itertools.product(alpha2, repeat=n)), repeat=3):
                yield {'op': 'sorted', 'k': k, 'w': 3, 'cols': [list(map(lambda x: list(x) if isinstance(x, list) else x, c)) for c in cols]}

    # ---- E. raw merge of two span lists: every pair of sorted subsets of {0..4} (valid and malformed)
    m = 6 if big else 5
    subsets = [[i for i in range(m) if mask >> i & 1] for mask in range(1 << m)]
    for s0 in subsets:
        for s1 in subsets:
            yield {'op': 'bs', 'sdt': 'int32' if tick() % 2 else 'int64', 's0': s0, 's1': s1}

    # ---- F. apply_spans_*
    nap = 5 if big else 4
    numk_cycle = ['int32', 'float64', 'int64', 'int8', 'float32', 'ts', 'cat']
    for n in range(0, nap + 1):
        for sp in _compositions(n):
            for rows in itertools.product([0, 1, 2], repeat=n):
                for fn in KID:
                    levels = ['kernel', 'session'] + (['field'] if fn in ('min', 'max', 'first', 'last') else [])
                    for level in levels:
                        t = tick()
                        k = numk_cycle[t % len(numk_cycle)]
                        if level == 'field' and k == 'cat':
                            k = 'int32'
                        case = {'op': 'ap', 'fn': fn, 'level': level, 'sdt': 'int32' if (t // 7) % 2 else 'int64',
                                'spans': sp, 'col': _col(k, rows)}
                        if level == 'session' and t % 3 == 0: case['tf'] = True
                        if level == 'field' and t % 5 == 0: case['inplace'] = True
                        if level == 'field' and t % 32 == 0: case['h5'] = True
                        yield case
            for rows in itertools.product([0, 1], repeat=n):
                for fn in KID:
                    yield {'op': 'ap', 'fn': fn, 'level': 'kernel', 'sdt': 'int32', 'spans': sp, 'col': _col('bool', rows)}
            for rows in itertools.product(APPLY_FIXED, repeat=n):
                for fn in ('index_of_min', 'index_of_max', 'min', 'max', 'first', 'last'):
                    t = tick()
                    level = ['kernel', 'session', 'field'][t % 3]
                    if level == 'field' and fn.startswith('index_of'):
                        level = 'kernel'
                    yield {'op': 'ap', 'fn': fn, 'level': level, 'sdt': 'int32' if (t // 3) % 2 else 'int64',
                           'spans': sp, 'col': _col('fixed', rows)}
            for rows in itertools.product(APPLY_INDEXED, repeat=n):
                for fn in ('index_of_min', 'index_of_max'):
                    t = tick()
                    yield {'op': 'ap', 'fn': fn, 'level': 'kernel', 'sdt': 'int32' if t % 2 else 'int64',
                           'spans': sp, 'col': _col('indexed', rows)}
                    if t % 6 == 0:
                        yield {'op': 'ap', 'fn': fn, 'level': 'field', 'sdt': 'int32', 'spans': sp,
                               'col': _col('indexed', rows), 'inplace': t % 12 == 0}
                if len(rows) <= 3:
                    for fn in ('index_of_first', 'index_of_last'):
                        yield {'op': 'ap', 'fn': fn, 'level': 'field', 'sdt': 'int64', 'spans': sp, 'col': _col('indexed', rows)}
    # spans over a part of the column, and malformed span lists
    for n in range(0, 4):
        lists = [list(t) for ln in range(0, 4) for t in itertools.product(range(0, n + 2), repeat=ln)]
        for sp in lists:
            for rows in ([0] * n, list(range(n)), [2, 1, 0, 1][:n]):
                for fn in KID:
                    for level in (['kernel', 'session'] + (['field'] if fn in ('min', 'max', 'first', 'last') else [])):
                        yield {'op': 'ap', 'fn': fn, 'level': level, 'sdt': 'int32', 'spans': sp, 'col': _col('int32', rows)}
            if n <= 3:
                for rows in ([[97]] * n, [[97], [97, 33], [98]][:n]):
                    for fn in ('index_of_min', 'index_of_max'):
                        yield {'op': 'ap', 'fn': fn, 'level': 'kernel', 'sdt': 'int32', 'spans': sp, 'col': _col('indexed', rows)}

    # ---- G. *_filter kernels on weakly increasing span lists
    for n in range(0, 4):
        weak = [list(t) for ln in range(1, 5) for t in itertools.combinations_with_replacement(range(0, n + 1), ln)]
        for sp in weak:
            for rows in itertools.product([0, 1, 2], repeat=n):
                for fn in ('min', 'max', 'first', 'last'):
                    t = tick()
                    yield {'op': 'apf', 'fn': fn, 'sdt': 'int32' if t % 2 else 'int64', 'spans': sp,
                           'col': _col(['int32', 'float64', 'bool'][t % 3] if max(rows, default=0) < 2 else 'int32', rows),
                           'dest': [7] * (len(sp) - 1), 'flt': [(i + t) % 2 for i in range(len(sp) - 1)]}
    yield {'op': 'apf', 'fn': 'min', 'sdt': 'int32', 'spans': [0, 1, 2], 'col': _col('int32', [1, 0]), 'dest': [7], 'flt': [0, 0]}
    yield {'op': 'apf', 'fn': 'first', 'sdt': 'int32', 'spans': [0, 1, 2], 'col': _col('int32', [1, 0]), 'dest': [7, 7], 'flt': [0]}

    # ---- R. keys given by their stored representation (value equality is not representation equality)
    import random as _random, os as _os
    rrng = _random.Random(rng.getrandbits(64))
    if _os.environ.get('VERIF_C08_REPR', '1') != '0':       # development switch (timing without this part)
        for c in _gen_repr(tier, rrng, tick):
            yield c

    # ---- H. seeded random longer inputs with runs
    def runs_rows(pool, n):
        rows = []
        while len(rows) < n:
            v = rng.choice(pool)
            rows.extend([v] * rng.choice([1, 1, 2, 3, 5]))
        return rows[:n]

    for _ in range(3000 if big else 500):
        n = rng.randint(5, 40)
        k = rng.choice(NUMK + ['fixed', 'fixed', 'indexed', 'indexed'])
        pool = FIXED_POOL if k == 'fixed' else INDEXED_POOL if k == 'indexed' else [0, 1] if k == 'bool' else [0, 1, 2, 3]
        rows = runs_rows(pool, n)
        col = _col(k, rows)
        yield {'op': 'gs', 'col': col, 'h5': rng.random() < 0.05}
        k1 = rng.choice(['int32', 'fixed', 'indexed', 'float64'])
        pool1 = FIXED_POOL if k1 == 'fixed' else INDEXED_POOL if k1 == 'indexed' else [0, 1, 2, 3]
        c1 = _col(k1, runs_rows(pool1, n))
        yield {'op': 'gs2f', 'c0': col, 'c1': c1}
        if k != 'indexed' and k1 != 'indexed':
            yield {'op': 'gs2a', 'c0': col, 'c1': c1}
        # spans from a random key column, reductions on this column
        keys = runs_rows([0, 1, 2], n)
        sp = [0] + [i for i in range(1, n) if keys[i] != keys[i - 1]] + [n]
        if k == 'indexed':
            for fn in ('index_of_min', 'index_of_max'):
                yield {'op': 'ap', 'fn': fn, 'level': rng.choice(['kernel', 'field']), 'sdt': rng.choice(['int32', 'int64']),
                       'spans': sp, 'col': col}
        else:
            for fn in KID:
                levels = ['kernel', 'session'] + (['field'] if fn in ('min', 'max', 'first', 'last') and k != 'cat' else [])
                yield {'op': 'ap', 'fn': fn, 'level': rng.choice(levels), 'sdt': rng.choice(['int32', 'int64']),
                       'spans': sp, 'col': col}


# ---- value equality versus representation equality of keys -------------------------------------------------------
# Every entry point must compare keys by VALUE.  The stored representation is finer than the value for floats (+0.0 and
# -0.0: equal, different bits), and the several-arrays entry points first stack the columns (np.asarray widens bool /
# int8 / int32 / int64 / float32 to a common dtype and re-pads 'S<w1>' to 'S<w2>'; DataFrame.groupby ranks the columns
# with np.unique when the dtypes differ).  A kernel that starts comparing bytes (np.void views, tobytes, hashing, integer
# views) is right on every input whose values have one representation each, so the generators below put the two zeros
# next to each other, inside runs in which every other key column is constant, through every entry point.
REPR_MULTI_SETS = [('f64b',), ('f32b',), ('tsb',), ('f64b', 'f64b'), ('f32b', 'f32b'), ('f64b', 'int32'), ('int8', 'f32b'),
                   ('f32b', 'f64b'), ('bool', 'int8'), ('int8', 'int64'), ('bool', 'int32', 'int8'),
                   ('f64b', 'f64b', 'f64b'), ('int32', 'f64b', 'bool'), ('f32b', 'int8', 'f32b')]
REPR_FIXED_SETS = [(1, 3), (3, 1), (2, 2), (2, 1, 3)]
REPR_GB_SETS = [('f64b',), ('f32b',), ('tsb',), ('f64b', 'f64b'), ('f64b', 'int32'), ('int64', 'f64b'), ('f32b', 'fixed'),
                ('fixed', 'f64b'), ('bool', 'int8'), ('cat', 'int8'), ('ts', 'f64b'), ('f32b', 'f64b'),
                ('f64b', 'int32', 'f64b'), ('fixed', 'fixed')]


def _two_alpha(k, w=None):
    """two representations per column: for floats the two zeros (ONE value), for 'S<w>' b'a' / b'a\\0' (ONE stored
    element when w >= 2), for integers two values."""
    if k in FBITS:
        return _fb_two(FBITS[k])
    if k == 'fixed':
        return [[97], [97, 0]] if (w or 3) >= 2 else [[97], [98]]
    return [0, 1]


def _three_alpha(k, w=None):
    if k in FBITS:
        return _fb_small(FBITS[k])
    if k == 'fixed':
        return [[97], [97, 0], [98]] if (w or 3) >= 2 else [[97], [98], [99]]
    return [0, 1] if k == 'bool' else [0, 1, 2]


def _sorted_by_value(cols):
    vs = [_vrows(c) for c in cols]
    rows = list(zip(*vs))
    return all(rows[i - 1] <= rows[i] for i in range(1, len(rows)))


def _gen_repr(tier, rng, tick):
    big = tier == 'thorough'
    # ---- R1. one column given by bit patterns: every column of <= 5 (6) rows over {+0.0, -0.0, 0.5}
    for k in ('f64b', 'f32b', 'tsb'):
        for rows in _seqs(_fb_small(FBITS[k]), 6 if big else 5):
            yield {'op': 'gs', 'col': _col(k, rows), 'h5': tick() % 16 == 0}
    # ---- R2. two columns (Field, Field) / (ndarray, ndarray): the zeros of one column inside runs of the other
    pairs = [('f64b', 'f64b'), ('f64b', 'int32'), ('int32', 'f32b'), ('f64b', 'fixed'), ('tsb', 'f32b'), ('fixed', 'f32b'),
             ('bool', 'int8'), ('int8', 'int64')]
    n2 = 5 if big else 4
    for (k0, k1) in pairs:
        for n in range(n2 + 1):
            for r0 in itertools.product(_two_alpha(k0), repeat=n):
                for r1 in itertools.product(_two_alpha(k1), repeat=n):
                    c0, c1 = _col(k0, r0), _col(k1, r1)
                    yield {'op': 'gs2a', 'c0': c0, 'c1': c1}
                    if tick() % 2 == 0 or big:
                        yield {'op': 'gs2f', 'c0': c0, 'c1': c1, 'h5': tick() % 64 == 0}
    for (k0, k1) in [('f64b', 'f64b'), ('f32b', 'int32'), ('indexed', 'f64b')]:
        al0 = INDEXED_POOL_Q[:3] if k0 == 'indexed' else _three_alpha(k0)
        for n in range(0, 4):
            for r0 in itertools.product(al0, repeat=n):
                for r1 in itertools.product(_three_alpha(k1), repeat=n):
                    c0, c1 = _col(k0, r0), _col(k1, r1)
                    yield {'op': 'gs2f', 'c0': c0, 'c1': c1}
                    if k0 != 'indexed':
                        yield {'op': 'gs2a', 'c0': c0, 'c1': c1}
    # ---- R3. several arrays stacked by np.asarray: columns of one or of several numeric dtypes (widened, value kept),
    #          'S' columns of several widths (re-padded); _get_spans_for_multi_fields and check_if_sorted
    def tables(sets_, alpha, nmax_by_nc):
        for kinds in sets_:
            nc = len(kinds)
            for n in range(0, nmax_by_nc[nc] + 1):
                for cols in itertools.product(*[list(itertools.product(alpha(k), repeat=n)) for k in kinds]):
                    yield [(k, list(c)) for k, c in zip(kinds, cols)]
    for tab in tables(REPR_MULTI_SETS, _two_alpha, {1: 5, 2: 4, 3: 4 if big else 3}):
        cols = [_col(k, r) for k, r in tab]
        yield {'op': 'multir', 'cols': cols}
        if tick() % 2 == 0:
            yield {'op': 'sortedr', 'cols': cols}
    for tab in tables([s_ for s_ in REPR_MULTI_SETS if len(s_) <= 2], _three_alpha, {1: 4, 2: 4 if big else 3}):
        cols = [_col(k, r) for k, r in tab]
        yield {'op': 'multir', 'cols': cols}
        yield {'op': 'sortedr', 'cols': cols}
    for ws in REPR_FIXED_SETS:
        nc = len(ws)
        for alpha, nmax in ((_two_alpha, 4 if nc <= 2 else 3), (_three_alpha, (4 if big else 3) if nc <= 2 else 0)):
            for n in range(1 if alpha is _three_alpha else 0, nmax + 1):
                for cols in itertools.product(*[list(itertools.product(alpha('fixed', w), repeat=n)) for w in ws]):
                    cs = [_col('fixed', list(r), w=w) for w, r in zip(ws, cols)]
                    yield {'op': 'multir', 'cols': cs}
                    if tick() % 2 == 0:
                        yield {'op': 'sortedr', 'cols': cs}
    # ---- R4. DataFrame.groupby(by=[...]).count() (HDF5-backed; ~15 ms a case): key columns of one dtype are stacked as
    #          they are, of different dtypes are ranked first
    for kinds in REPR_GB_SETS:
        nc = len(kinds)
        for n in range(0, {1: 4, 2: 3 if big else 2, 3: 2}[nc] + 1):
            for cols in itertools.product(*[list(itertools.product(_two_alpha(k, 3), repeat=n)) for k in kinds]):
                cs = [_col(k, list(r)) for k, r in zip(kinds, cols)]
                t = tick()
                yield {'op': 'gb', 'cols': cs, 'hint': not (t % 3 == 0 and _sorted_by_value(cs)), 'by_str': nc == 1 and t % 2 == 0}
    yield {'op': 'gb', 'cols': [_col('fixed', [[97], [97, 0], [97]], w=1 + 1), _col('fixed', [[98], [98], [98, 0]], w=3)]}
    # ---- R5. reductions on float columns given by bit patterns: ties between the two zeros (first one wins by VALUE)
    fns = ['min', 'max', 'index_of_min', 'index_of_max', 'first', 'last']
    for n in range(0, (5 if big else 4) + 1):
        for sp in _compositions(n):
            for k in ('f64b', 'f32b'):
                for rows in itertools.product(_fb_small(FBITS[k]), repeat=n):
                    t = tick()
                    fsel = [fns[t % 6], fns[(t + 3) % 6]] + ([fns[(t + 1) % 6]] if big else [])
                    for fn in fsel:
                        level = ['kernel', 'session', 'field'][(t + len(fn)) % 3]
                        if level == 'field' and fn.startswith('index_of'):
                            level = 'kernel'
                        case = {'op': 'ap', 'fn': fn, 'level': level, 'sdt': 'int32' if (t // 3) % 2 else 'int64',
                                'spans': sp, 'col': _col(k, rows)}
                        if level == 'session' and t % 3 == 0: case['tf'] = True
                        if level == 'field' and t % 5 == 0: case['inplace'] = True
                        if level == 'field' and t % 32 == 0: case['h5'] = True
                        yield case
    for n in range(0, 4):
        weak = [list(t) for ln in range(1, 5) for t in itertools.combinations_with_replacement(range(0, n + 1), ln)]
        for sp in weak:
            for rows in itertools.product(_fb_small(64), repeat=n):
                t = tick()
                if t % 3 and not big:
                    continue
                yield {'op': 'apf', 'fn': ['min', 'max', 'first', 'last'][t % 4], 'sdt': 'int32' if t % 2 else 'int64', 'spans': sp,
                       'col': _col('f64b', rows), 'dest': [7] * (len(sp) - 1), 'flt': [(i + t) % 2 for i in range(len(sp) - 1)]}
    # ---- R7. the opposite direction: indexed strings are compared byte-exactly, 'a' and 'a\\0' are DIFFERENT rows (a kernel
    #          that moves them into an 'S' array would merge them); [] and [0] likewise
    nul_pool = [[97], [97, 0], [], [0]]
    for rows in _seqs(nul_pool, 5 if big else 4):
        yield {'op': 'gs', 'col': _col('indexed', rows), 'h5': tick() % 16 == 0}
    for n in range(0, 4):
        for r0 in itertools.product(nul_pool[:3], repeat=n):
            yield {'op': 'gs2f', 'c0': _col('indexed', r0), 'c1': _col('f64b', [fbits(64, 0.0), fbits(64, -0.0), fbits(64, 0.0)][:n])}
            for sp in _compositions(n):
                for fn in ('index_of_min', 'index_of_max'):
                    yield {'op': 'ap', 'fn': fn, 'level': 'kernel' if tick() % 2 else 'field', 'sdt': 'int32', 'spans': sp,
                           'col': _col('indexed', r0)}
    # ---- R6. structured random: runs over the whole pool (infinities, extremes, subnormals next to the zeros), a sign
    #          flip of a zero planted inside a run, through every entry point incl. several arrays and group-by
    def frows(k, n):
        pool = _fb_pool(FBITS[k])
        rows = []
        while len(rows) < n:
            v = rng.choice(pool + _fb_two(FBITS[k]) * 2)
            ln = rng.choice([1, 1, 2, 3, 5])
            if v in _fb_two(FBITS[k]):
                rows.extend(rng.choice(_fb_two(FBITS[k])) for _ in range(ln))     # one run of zeros, signs mixed
            else:
                rows.extend([v] * ln)
        return rows[:n]

    def anyrows(k, n, w=3):
        if k in FBITS:
            return frows(k, n)
        pool = [[97], [97, 0], [98], [], [97, 32]] if k == 'fixed' and w >= 2 else [[97], [98], []] if k == 'fixed' else [0, 1] if k == 'bool' else [0, 1, 2]
        rows = []
        while len(rows) < n:
            rows.extend([rng.choice(pool)] * rng.choice([1, 2, 3, 5, 8]))
        return rows[:n]
    for _ in range(1500 if big else 250):
        n = rng.randint(2, 40)
        k = rng.choice(['f64b', 'f32b', 'tsb'])
        col = _col(k, frows(k, n))
        yield {'op': 'gs', 'col': col, 'h5': rng.random() < 0.05}
        k1 = rng.choice(['int32', 'fixed', 'f64b', 'f32b', 'indexed'])
        c1 = _col(k1, runs_pool(rng, INDEXED_POOL, n) if k1 == 'indexed' else anyrows(k1, n))
        yield {'op': 'gs2f', 'c0': col, 'c1': c1}
        if k1 != 'indexed':
            yield {'op': 'gs2a', 'c0': c1, 'c1': col}
        kinds = rng.choice(REPR_MULTI_SETS)
        cs = [_col(kk, anyrows(kk, n)) for kk in kinds]
        yield {'op': 'multir', 'cols': cs}
        yield {'op': 'sortedr', 'cols': cs}
        ws = rng.choice(REPR_FIXED_SETS)
        cs = [_col('fixed', anyrows('fixed', n, w), w=w) for w in ws]
        yield {'op': 'multir', 'cols': cs}
        if rng.random() < (1.0 if big else 0.4):
            kinds = rng.choice(REPR_GB_SETS)
            m = rng.randint(2, 16)
            cs = [_col(kk, anyrows(kk, m)) for kk in kinds]
            yield {'op': 'gb', 'cols': cs, 'hint': not (rng.random() < 0.3 and _sorted_by_value(cs))}
        keys = anyrows('int32', n)
        sp = [0] + [i for i in range(1, n) if keys[i] != keys[i - 1]] + [n]
        for fn in rng.sample(list(KID), 3):
            levels = ['kernel', 'session'] + (['field'] if fn in ('min', 'max', 'first', 'last') else [])
            yield {'op': 'ap', 'fn': fn, 'level': rng.choice(levels), 'sdt': rng.choice(['int32', 'int64']), 'spans': sp, 'col': col}


def runs_pool(rng, pool, n):
    rows = []
    while len(rows) < n:
        rows.extend([rng.choice(pool)] * rng.choice([1, 1, 2, 3, 5]))
    return rows[:n]


def shrink(case):
    def without(rows, i):
        return rows[:i] + rows[i + 1:]
    op = case['op']
    if op in ('gsr', 'gsr2f'):
        key = 'col' if op == 'gsr' else 'c0'
        runs = case[key]['runs']
        base = {k: v for k, v in case.items() if k not in ('K', 'hotK', 'layout')}
        for i in range(len(runs)):
            yield dict(base, **{key: dict(case[key], runs=runs[:i] + runs[i + 1:])})
        for i, (v, n) in enumerate(runs):
            for m in sorted({n // 2, n - (1 << max(0, n.bit_length() - 2)), n - 1}):
                if 0 < m < n:
                    yield dict(base, **{key: dict(case[key], runs=runs[:i] + [[v, m]] + runs[i + 1:])})
        return
    if op == 'gs':
        for i in range(len(case['col']['rows'])):
            c = dict(case); c['col'] = dict(case['col'], rows=without(case['col']['rows'], i)); yield c
    elif op in ('gs2f', 'gs2a'):
        n = min(len(case['c0']['rows']), len(case['c1']['rows']))
        for i in range(n):
            c = dict(case)
            c['c0'] = dict(case['c0'], rows=without(case['c0']['rows'], i))
            c['c1'] = dict(case['c1'], rows=without(case['c1']['rows'], i))
            yield c
    elif op in ('multi', 'sorted'):
        n = min(len(c) for c in case['cols']) if case['cols'] else 0
        for i in range(n):
            yield dict(case, cols=[without(c, i) for c in case['cols']])
    elif op in ('multir', 'sortedr', 'gb'):
        cols = case['cols']
        n = min(len(c['rows']) for c in cols) if cols else 0
        for i in range(n):
            yield dict(case, cols=[dict(c, rows=without(c['rows'], i)) for c in cols])
        if len(cols) > 1:
            for j in range(len(cols)):
                yield dict(case, cols=cols[:j] + cols[j + 1:])
    elif op == 'ap':
        sp, rows = case['spans'], case['col']['rows']
        for i in range(len(rows)):
            sp2 = [s - 1 if s > i else s for s in sp]
            sp2 = [s for j, s in enumerate(sp2) if j == 0 or s != sp2[j - 1]]
            yield dict(case, spans=sp2, col=dict(case['col'], rows=without(rows, i)))
        for i in range(1, len(sp) - 1):
            yield dict(case, spans=without(sp, i))
