"""C13 — field arithmetic / comparison / logic (exetera/core/fields.py operator layer) vs coq/Model/Dispatch.v.

The extracted model answers each case with a *symbolic* final state (which numpy function is applied to
which operand in which order, wrapped into which new field, what is stored into the dataframe); this module
interprets the symbols with the real numpy on the operands' underlying arrays (eval_sym) — numpy is the
oracle the property names — and compares with what ExeTera returned, observed as the property says:
result.data[:] and dtype, the operands before/after, the field read back from the dataframe.
"""
import itertools, os, sys, operator, json

PROP, NUM = 'C13', 13
PROPS_FILES = ['Props/C13.v']
GENERATED_OBLIGATIONS = True
MODES = ['jit']            # pure Python/numpy code path: the JIT switch does not reach it
MODES_THOROUGH = ['jit', 'nojit']
LEVEL = 'proof'
TIMEOUT_S = 30.0

DT = ['bool', 'int8', 'int16', 'int32', 'int64', 'uint8', 'uint16', 'uint32', 'uint64', 'float32', 'float64']
BOPS = ['add', 'sub', 'mul', 'truediv', 'floordiv', 'mod', 'divmod', 'and', 'or', 'xor', 'lt', 'le', 'eq', 'ne', 'gt', 'ge']
UOPS = ['invert', 'logical_not']
OPCODE = {o: i for i, o in enumerate(BOPS + UOPS)}
CLASSES = ['NumericMemField', 'CategoricalMemField', 'TimestampMemField', 'NumericField', 'CategoricalField', 'TimestampField']
CLSCODE = {c: i for i, c in enumerate(CLASSES)}
NUMERIC, CATEG, TSTAMP = {0, 3}, {1, 4}, {2, 5}

_np = None


def _npmod():
    global _np
    if _np is None:
        import numpy
        _np = numpy
    return _np


def _pyop(code):
    """npop code (Model/Dispatch.v npop_code) -> the numpy-level function"""
    np = _npmod()
    return {0: operator.add, 1: operator.sub, 2: operator.mul, 3: operator.truediv, 4: operator.floordiv,
            5: operator.mod, 6: np.divmod, 7: operator.and_, 8: operator.or_, 9: operator.xor,
            10: operator.lt, 11: operator.le, 12: operator.eq, 13: operator.ne, 14: operator.gt, 15: operator.ge,
            16: operator.invert, 17: np.logical_not}[code]


def _pyop_by_name(name):
    np = _npmod()
    if name == 'divmod':
        return divmod
    if name == 'logical_not':
        return None
    return getattr(operator, {'and': 'and_', 'or': 'or_'}.get(name, name))


# --------------------------------------------------------------------------- values
def dec_scalar(dt, x):
    np = _npmod()
    if isinstance(x, str):
        x = float.fromhex(x)
    return np.dtype(dt).type(x)


def dec_array(dt, vs):
    np = _npmod()
    vs = [float.fromhex(x) if isinstance(x, str) else x for x in vs]
    return np.array(vs, dtype=dt)


def enc_values(a):
    """canonical JSON form of an array: ints, or float.hex strings"""
    np = _npmod()
    a = np.asarray(a)
    if a.dtype == bool:
        return [1 if x else 0 for x in a.ravel().tolist()]
    if a.dtype.kind in 'iu':
        return [int(x) for x in a.ravel().tolist()]
    if a.dtype.kind == 'f':
        return ['nan' if x != x else float(x).hex() for x in a.ravel().tolist()]
    return ['?%s' % a.dtype]


def operand_object(o):
    """the plain numpy / Python object an operand description denotes (for fields: the underlying array)"""
    k = o['k']
    if k in ('f', 'a'):
        return dec_array(o['dt'], o['v'])
    if k == 'a0':
        np = _npmod()
        return np.array(dec_scalar(o['dt'], o['v']))
    if k == 's':
        return dec_scalar(o['dt'], o['v'])
    if k == 'p':
        v = o['v']
        if o['ty'] == 'float':
            return float.fromhex(v) if isinstance(v, str) else float(v)
        if o['ty'] == 'bool':
            return bool(v)
        return int(v)
    raise ValueError(k)


# --------------------------------------------------------------------------- implementation side
_S = {'session': None, 'ds': None, 'df': None, 'bio': None, 'cache': {}, 'n': 0, 'F': None}


def setup():
    import numpy, warnings
    global _np
    _np = numpy
    warnings.simplefilter('ignore')
    numpy.seterr(all='ignore')
    from exetera.core import session, fields  # noqa
    _S['F'] = fields
    _S['session_mod'] = session


def _fresh_store():
    import io
    if _S['session'] is not None:
        try:
            _S['session'].close()
        except Exception:
            pass
    _S['session'] = _S['session_mod'].Session()
    _S['bio'] = io.BytesIO()
    _S['ds'] = _S['session'].open_dataset(_S['bio'], 'w', 'ds')
    _S['df'] = _S['ds'].create_dataframe('df')
    _S['cache'] = {}
    _S['n'] = 0
    _S['pid'] = os.getpid()


def _store():
    if _S['session'] is None or _S.get('pid') != os.getpid() or _S['n'] > 3000:
        _fresh_store()
    return _S


def make_field(o):
    F = _S['F']
    st = _store()
    s = st['session']
    c = o['c']
    arr = dec_array(o['dt'], o['v'])
    unw = bool(o.get('unw'))     # a field that was created but never written (the natural "empty field")
    if c == 'NumericMemField':
        f = F.NumericMemField(s, o['dt'])
    elif c == 'CategoricalMemField':
        f = F.CategoricalMemField(s, 'int8', {'a': 1, 'b': 2})
    elif c == 'TimestampMemField':
        f = F.TimestampMemField(s)
    else:
        f = None
    if f is not None:
        if not unw:
            f.data.write(arr)
        return f
    key = json.dumps(o, sort_keys=True)
    if key in st['cache']:
        return st['cache'][key]
    st['n'] += 1
    name = 'o%d' % st['n']
    df = st['df']
    if c == 'NumericField':
        f = df.create_numeric(name, o['dt'])
    elif c == 'CategoricalField':
        f = df.create_categorical(name, 'int8', {'a': 1, 'b': 2})
    elif c == 'TimestampField':
        f = df.create_timestamp(name)
    else:
        raise ValueError(c)
    if not unw:
        f.data.write(arr)
    st['cache'][key] = f
    return f


def make_operand(o):
    if o['k'] == 'f':
        return make_field(o)
    return operand_object(o)


def canon_field(f):
    d = f.data[:]
    return [type(f).__name__, str(f.data.dtype), str(d.dtype), enc_values(d)]


def canon_result(r, operands):
    np = _np
    F = _S['F']
    if isinstance(r, F.Field):
        fresh = all(r is not x for x in operands)
        d = r.data[:]
        for x in operands:
            xd = x.data[:] if isinstance(x, F.Field) else x
            if isinstance(xd, np.ndarray) and isinstance(d, np.ndarray) and d.size and np.shares_memory(d, xd):
                fresh = False
        return canon_field(r) + ([] if fresh else ['ALIASES-OPERAND'])
    if isinstance(r, np.ndarray):
        if r.dtype == object:
            return ['ndarray', 'object']
        return ['ndarray', str(r.dtype), enc_values(r)]
    return ['other', type(r).__name__]


def snapshot(x):
    np = _np
    F = _S['F']
    if isinstance(x, F.Field):
        d = x.data[:]
        return ('f', type(x).__name__, str(x.data.dtype), str(d.dtype), d.tobytes(), len(x))
    if isinstance(x, np.ndarray):
        return ('a', str(x.dtype), x.shape, x.tobytes())
    return ('s', type(x).__name__, repr(x))


def run(case):
    np = _np
    F = _S['F']
    op = case['op']
    l = make_operand(case['l'])
    if op in UOPS:
        ops_ = [l]
    else:
        r = l if case['r'] == 'same' else make_operand(case['r'])
        ops_ = [l, r]
    before = [snapshot(x) for x in ops_]
    if op == 'invert':
        res = ~l
    elif op == 'logical_not':
        res = l.logical_not()
    else:
        res = _pyop_by_name(op)(l, r)
    results = list(res) if isinstance(res, tuple) else [res]
    out = {'res': [canon_result(x, ops_) for x in results]}
    out['same'] = [1 if snapshot(x) == b else 0 for x, b in zip(ops_, before)]
    if case.get('df'):
        st = _store()
        stored = []
        for x in results:
            st['n'] += 1
            name = 'r%d' % st['n']
            st['df'][name] = x
            g = st['df'][name]
            stored.append(canon_field(g))
            del st['df'][name]
        out['df'] = stored
        out['same2'] = [1 if snapshot(x) == b else 0 for x, b in zip(ops_, before)]
        out['res2'] = [canon_result(x, ops_) for x in results]      # the result itself is not disturbed by the assignment
    return out


# --------------------------------------------------------------------------- model side
def kind_code(o):
    if o == 'same':
        return 9
    k = o['k']
    if k == 'f':
        return CLSCODE[o['c']]
    return {'a': 6, 'a0': 6, 's': 7, 'p': 8}[k]


TABLES = 1 if os.environ.get('VERIF_C13_TABLES') == 'orig' else 0


def to_val(case):
    op = case['op']
    st = 1 if case.get('df') else 0
    unw = lambda o: 1 if isinstance(o, dict) and o.get('unw') else 0
    if op in UOPS:
        return [2, kind_code(case['l']), OPCODE[op], st, TABLES, unw(case['l'])]
    return [1, kind_code(case['l']), kind_code(case['r']), OPCODE[op], st, TABLES, unw(case['l']), unw(case['r'])]


NF_NAMES = {'bool': 'bool', 'int8': 'int8', 'int16': 'int16', 'int32': 'int32', 'int64': 'int64', 'uint8': 'uint8',
            'uint16': 'uint16', 'uint32': 'uint32', 'uint64': 'uint64', 'float32': 'float32', 'float64': 'float64'}


def dtype_to_str_oracle(dt):
    """the 11 strings of the property's dtype lattice; anything else: ValueError (as fields.dtype_to_str)"""
    s = str(dt)
    if s in NF_NAMES:
        return s
    raise ValueError('Unsupported dtype')


def eval_sym(s, env, descs=None):
    """interpret a symbolic numpy value (Model/Dispatch.v `sym`) with the real numpy"""
    np = _npmod()
    t = s[0]
    if t == 6:
        return np.zeros(0, dtype=descs[s[1]]['dt'])
    if t == 7:
        return np.zeros(0, dtype=np.asarray(eval_sym(s[1], env, descs)).dtype)
    if t == 0:
        return env[s[1]]
    if t == 1:
        return _pyop(s[1])(eval_sym(s[2], env, descs), eval_sym(s[3], env, descs))
    if t == 2:
        return _pyop(s[1])(eval_sym(s[2], env, descs))
    if t == 3:
        return np.divmod(eval_sym(s[2], env, descs), eval_sym(s[3], env, descs))[s[1]]
    if t == 4:
        return eval_sym(s[1], env, descs).item()
    if t == 5:
        nf = dtype_to_str_oracle(eval_sym(s[1], env, descs).dtype)
        return np.asarray(eval_sym(s[2], env, descs)).astype(nf)
    raise ValueError('sym %r' % (s,))


def _exc(e):
    from harness.worker import exc_name
    return 'EXC:' + exc_name(e)


def eval_outcome(case, v):
    """model/spec outcome (wire) -> the canonical form of run()"""
    np = _npmod()
    if v[0] == 0:
        code = v[1]
        return {1: 'EXC:ValueError', 2: 'EXC:TypeError', 9: 'EXC:AttributeError'}.get(code, 'EXC:Other')
    _, heap, results, stored = v
    op = case['op']
    descs = [case['l']] + ([] if op in UOPS else [case['l'] if case['r'] == 'same' else case['r']])
    env = [operand_object(d) for d in descs]
    try:
        with np.errstate(all='ignore'):
            fields = []
            for (c, nf, data) in heap:
                if nf[0] == 0:
                    i = nf[1]
                    d = descs[i]
                    # a written operand still holds its array, a never-written one still holds nothing
                    ok = (data == ([] if d.get('unw') else [[0, i]]) and c == CLSCODE[d['c']])
                    fields.append(('operand', i, ok))
                else:
                    nfs = dtype_to_str_oracle(eval_sym(nf[1], env, descs).dtype)
                    arr = eval_sym(data[0], env, descs) if data else np.zeros(0, dtype=nfs)
                    arr = np.asarray(arr)
                    fields.append(('new', [CLASSES[c], nfs, str(arr.dtype), enc_values(arr)]))

            def canon_value(val):
                if val[0] == 0:
                    f = fields[val[1]]
                    if f[0] == 'new':
                        return f[1]
                    return ['OPERAND', f[1]]
                if val[0] == 1:
                    return ['ndarray', 'object']
                if val[0] == 2:
                    other = env[0]
                    return ['ndarray', 'bool', [1] * int(np.asarray(other).size)]
                return ['other']
            out = {'res': [canon_value(x) for x in results]}
            # operands after: a field operand's heap entry must still be (class, nformat, data) of the operand
            same = []
            for i, d in enumerate(descs):
                if isinstance(d, dict) and d['k'] == 'f':
                    ents = [f for f in fields if f[0] == 'operand' and f[1] == i]
                    if case['op'] not in UOPS and case['r'] == 'same':
                        ents = [f for f in fields if f[0] == 'operand']
                    same.append(1 if ents and all(f[2] for f in ents) else 0)
                else:
                    same.append(1)
            out['same'] = same
            if case.get('df'):
                out['df'] = [canon_value(x) for x in stored]
                out['same2'] = same
                out['res2'] = out['res']
            return out
    except Exception as e:  # numpy refuses the operation: the same exception is expected from the field operator
        return _exc(e)


def from_val(case, v):
    m, s = v
    model = eval_outcome(case, m)
    spec = eval_outcome(case, s) if s != [] else None
    return (model, spec)


# --------------------------------------------------------------------------- generators
INT_RANGE = {'int8': (-128, 127), 'int16': (-2 ** 15, 2 ** 15 - 1), 'int32': (-2 ** 31, 2 ** 31 - 1), 'int64': (-2 ** 63, 2 ** 63 - 1),
             'uint8': (0, 255), 'uint16': (0, 2 ** 16 - 1), 'uint32': (0, 2 ** 32 - 1), 'uint64': (0, 2 ** 64 - 1)}


def pool(dt, variant, n):
    """deterministic value vectors of length n: signs, zero, extremes, inf/nan"""
    if dt == 'bool':
        base = [[1, 0, 1, 1, 0], [0, 0, 1, 0, 1], [1, 1, 1, 0, 0]][variant % 3]
    elif dt.startswith('float'):
        base = [['0x1.8p+0', '-inf', 'nan', '-0x1.2p+1', '0x0p+0'],
                ['-0x1.2p+1', '0x0p+0', 'inf', '0x1.cp+2', '-0x0p+0'],
                ['0x1p+0', '0x1.8p+1', '-0x1p-1', 'inf', 'nan']][variant % 3]
    elif dt.startswith('uint'):
        hi = INT_RANGE[dt][1]
        base = [[3, 250, 0, 7, hi], [2, 5, hi, 1, 0], [1, 1, 6, hi - 1, 9]][variant % 3]
    else:
        lo, hi = INT_RANGE[dt]
        base = [[3, -7, 0, 5, lo], [-2, 5, hi, -1, 0], [-3, -3, 7, lo + 1, hi]][variant % 3]
    return base[:n]


def scalar_val(dt, variant):
    if dt == 'bool':
        return [1, 0, 1][variant % 3]
    if dt.startswith('float'):
        return ['-0x1.4p+1', 'inf', '0x0p+0'][variant % 3]
    if dt.startswith('uint'):
        return [3, 0, INT_RANGE[dt][1]][variant % 3]
    return [-3, 0, INT_RANGE[dt][0]][variant % 3]


def field_types():
    out = []
    for c in ('NumericMemField', 'NumericField'):
        for dt in DT:
            out.append(('f', c, dt))
    for c in ('CategoricalMemField', 'CategoricalField'):
        out.append(('f', c, 'int8'))
    for c in ('TimestampMemField', 'TimestampField'):
        out.append(('f', c, 'float64'))
    return out


def other_types():
    return [('a', None, dt) for dt in DT] + [('s', None, dt) for dt in DT] + \
           [('p', None, 'int'), ('p', None, 'float'), ('p', None, 'bool')]


def mk_operand_desc(t, variant, n):
    k, c, dt = t
    if k == 'f':
        return {'k': 'f', 'c': c, 'dt': dt, 'v': pool(dt, variant, n)}
    if k == 'a':
        return {'k': 'a', 'dt': dt, 'v': pool(dt, variant, n)}
    if k == 'a0':
        return {'k': 'a0', 'dt': dt, 'v': scalar_val(dt, variant)}
    if k == 's':
        return {'k': 's', 'dt': dt, 'v': scalar_val(dt, variant)}
    if k == 'p':
        v = {'int': [-3, 0, 1000, 2 ** 40], 'float': ['-0x1.4p+1', 'inf', '0x0p+0', 'nan'], 'bool': [1, 0, 1, 0]}[dt][variant % 4]
        return {'k': 'p', 'ty': dt, 'v': v}
    raise ValueError(k)


def gen(tier, rng):
    big = tier == 'thorough'
    ft, ot = field_types(), other_types()
    allt = ft + ot
    pairs = [(a, b) for a in allt for b in allt if a[0] == 'f' or b[0] == 'f']
    # 1. exhaustive: every operator x every (operand type, operand type) pair with a field on at least one side
    #    (26 field types, 11 ndarray dtypes, 11 numpy-scalar dtypes, 3 Python scalar types), length-3 data
    cnt = 0
    for (va, vb) in ([(0, 1), (1, 2), (2, 0)] if big else [(0, 1)]):
        for (a, b) in pairs:
            for op in BOPS:
                cnt += 1
                store = (cnt % (4 if big else 16) == 0)
                yield {'op': op, 'l': mk_operand_desc(a, va, 3), 'r': mk_operand_desc(b, vb, 3), 'df': store}
    # 2. unary operators on every field type, lengths 0..3, with and without dataframe assignment
    for a in ft:
        for op in UOPS:
            for n in (0, 1, 3):
                for var in (0, 1):
                    for store in (False, True):
                        yield {'op': op, 'l': mk_operand_desc(a, var, n), 'df': store}
    # 3. the same field object on both sides
    for a in ft:
        for op in BOPS:
            for n in (0, 3):
                yield {'op': op, 'l': mk_operand_desc(a, 2, n), 'r': 'same', 'df': n == 3}
    # 4. empty and length-1 operands, 0-d arrays, other value variants, scalar variants: exhaustive over operators
    #    and operand *kinds*, dtypes sampled
    reps = 6 if big else 2
    kinds_f = [[t for t in ft if t[1] == c] for c in CLASSES]
    kinds_o = [[('a', None, dt) for dt in DT], [('a0', None, dt) for dt in DT], [('s', None, dt) for dt in DT],
               [('p', None, 'int')], [('p', None, 'float')], [('p', None, 'bool')]]
    groups = kinds_f + kinds_o
    for ga in groups:
        for gb in groups:
            if ga[0][0] != 'f' and gb[0][0] != 'f':
                continue
            for op in BOPS:
                for n in (0, 1, 3, 5):
                    for _ in range(reps):
                        a, b = rng.choice(ga), rng.choice(gb)
                        va, vb = rng.randrange(3), rng.randrange(4)
                        yield {'op': op, 'l': mk_operand_desc(a, va, n), 'r': mk_operand_desc(b, vb, n),
                               'df': rng.random() < 0.15}
    # 5. broadcasting / shape mismatch (numpy raises or broadcasts; the field operator must do the same)
    for a in rng.sample(ft, len(ft) if big else 10):
        for op in ('add', 'floordiv', 'lt', 'and', 'divmod'):
            yield {'op': op, 'l': mk_operand_desc(a, 0, 3), 'r': {'k': 'a', 'dt': 'int32', 'v': [1, -2]}, 'df': False}
            yield {'op': op, 'l': {'k': 'a', 'dt': 'int32', 'v': [1, -2]}, 'r': mk_operand_desc(a, 0, 3), 'df': False}
            yield {'op': op, 'l': mk_operand_desc(a, 0, 3), 'r': {'k': 'a', 'dt': 'int32', 'v': [-2]}, 'df': True}
            yield {'op': op, 'l': mk_operand_desc(a, 0, 1), 'r': mk_operand_desc(a, 1, 3), 'df': True}
    # 7. fields that were created and never written (create_like(), NumericMemField(session, nformat), df.create_numeric):
    #    their underlying array is the empty array of the field's dtype
    for a in ft:
        unw = {'k': 'f', 'c': a[1], 'dt': a[2], 'v': [], 'unw': 1}
        others = [{'k': 'p', 'ty': 'int', 'v': -3}, {'k': 's', 'dt': 'float32', 'v': '-0x1.4p+1'},
                  {'k': 'a', 'dt': 'int16', 'v': []}, {'k': 'f', 'c': a[1], 'dt': a[2], 'v': []},
                  {'k': 'f', 'c': 'NumericMemField', 'dt': 'int64', 'v': [], 'unw': 1}]
        for op in BOPS:
            for k, o in enumerate(others):
                yield {'op': op, 'l': unw, 'r': o, 'df': k == 0}
                yield {'op': op, 'l': o, 'r': unw, 'df': False}
            yield {'op': op, 'l': unw, 'r': 'same', 'df': False}
        for op in UOPS:
            yield {'op': op, 'l': unw, 'df': True}
    # 6. random: longer data, random dtype pairs and operators
    for _ in range(20000 if big else 2500):
        a, b = rng.choice(allt + [('a0', None, rng.choice(DT))]), rng.choice(allt)
        if a[0] != 'f' and b[0] != 'f':
            a = rng.choice(ft)
        if rng.random() < 0.5:
            a, b = b, a
        n = rng.choice([0, 1, 2, 4, 5])
        yield {'op': rng.choice(BOPS), 'l': mk_operand_desc(a, rng.randrange(3), n),
               'r': mk_operand_desc(b, rng.randrange(4), n), 'df': rng.random() < 0.1}


# --------------------------------------------------------------------------- labels
def _okind(o):
    if o == 'same':
        return 'same-object'
    return {'f': 'field', 'a': 'ndarray', 'a0': 'ndarray0d', 's': 'npscalar', 'p': 'pyscalar'}[o['k']]


def _odt(o, l=None):
    if o == 'same':
        return _odt(l)
    return o['dt'] if 'dt' in o else 'py' + o['ty']


def features(case, model):
    f = ['op:' + case['op']]
    l = case['l']
    r = case.get('r')
    f.append('lhs:' + _okind(l))
    if r is not None:
        f.append('rhs:' + _okind(r))
        if l['k'] != 'f':
            f.append('reflected-form')
        if l['k'] == 'f' and r != 'same' and r['k'] == 'f':
            f.append('field-field')
            if l['c'] != r['c']:
                f.append('field-field-mixed-classes')
    for o in (l, r):
        if isinstance(o, dict) and o['k'] == 'f':
            f.append('class:' + o['c'])
            f.append('hdf5-backed' if not o['c'].endswith('MemField') else 'memory-backed')
            if len(o['v']) == 0:
                f.append('empty-field')
            if o.get('unw'):
                f.append('never-written-field')
    if r is not None:
        dl, dr = _odt(l), _odt(r, l)
        if dl != dr:
            f.append('mixed-dtypes')
        if 'bool' in (dl, dr):
            f.append('bool-operand')
        if dl.startswith('uint') != dr.startswith('uint') and dl.startswith(('int', 'uint')) and dr.startswith(('int', 'uint')):
            f.append('signed-unsigned')
        vals = []
        for o in (l, r):
            if isinstance(o, dict):
                vals += (o['v'] if isinstance(o['v'], list) else [o['v']])
        if any(isinstance(x, str) and ('inf' in x) for x in vals):
            f.append('float-inf')
        if any(isinstance(x, str) and x == 'nan' for x in vals):
            f.append('float-nan')
        if case['op'] in ('floordiv', 'mod', 'divmod') and isinstance(r, dict):
            rv = r['v'] if isinstance(r['v'], list) else [r['v']]
            if any((isinstance(x, int) and x < 0) or (isinstance(x, str) and x.startswith('-')) for x in rv):
                f.append('negative-divisor')
            if any(x == 0 or x == '0x0p+0' for x in rv):
                f.append('zero-divisor')
    if case.get('df'):
        f.append('assigned-into-dataframe')
    if isinstance(model, str):
        f.append('numpy-raises:' + model[4:])
    elif isinstance(model, dict) and model['res'] and len(model['res'][0]) >= 3:
        f.append('result-dtype:' + model['res'][0][2])
    return f


def nontrivial(case, model):
    # numpy produced arrays for a field operand and a result field was compared value by value
    # (cases where numpy refuses the operation only compare the exception)
    return isinstance(model, dict)


def known(case, impl, model, spec, mode):
    return None


def shrink(case):
    for k in ('l', 'r'):
        o = case.get(k)
        if isinstance(o, dict) and isinstance(o.get('v'), list) and len(o['v']) > 0:
            for i in range(len(o['v'])):
                c = json.loads(json.dumps(case))
                c[k]['v'] = o['v'][:i] + o['v'][i + 1:]
                other = 'r' if k == 'l' else 'l'
                oo = c.get(other)
                if isinstance(oo, dict) and isinstance(oo.get('v'), list) and len(oo['v']) == len(o['v']):
                    oo['v'] = oo['v'][:i] + oo['v'][i + 1:]
                yield c
    if case.get('df'):
        c = json.loads(json.dumps(case)); c['df'] = False; yield c


RULE = ('exhaustive: every operator (16 binary) x every ordered pair of operand types with a field on at least one side '
        '(26 field types = NumericMemField/NumericField x 11 dtypes + Categorical(Mem)Field int8 + Timestamp(Mem)Field float64; '
        '11 ndarray dtypes; 11 numpy-scalar dtypes; Python int/float/bool) on length-3 data with negative values, zero, '
        'extremes, inf and nan; both unary operators on every field type for lengths 0,1,3; the same field object on both '
        'sides; then seeded samples over lengths 0,1,3,5, 0-d arrays, scalar variants (0, overflowing Python ints), '
        'broadcasting / shape mismatch, dataframe assignment on a fixed fraction (HDF5-backed cases cost ~1 ms). '
        'Non-trivial = numpy computes result arrays for a field operand and the result field(s) are compared value by '
        'value (cases in which numpy refuses the operation compare the exception only); the features histogram shows '
        'how many cases reach each operator / operand kind / class / dtype / boundary feature.')
EXHAUSTIVE = {'quick': True, 'thorough': True}
TRUSTED = ['numpy is the oracle (the property says so): harness/props/C13.py eval_sym applies operator.* / np.divmod / '
           'np.logical_not to the operands\' underlying arrays',
           'the model of CPython\'s binary-operator protocol and of numpy\'s __array_ufunc__ = None deferral '
           '(Model/Dispatch.v py_binop, 40 lines) — exercised by every reflected-form case of the correspondence',
           'harness/translate_dispatch.py (fail-closed AST reader of exetera/core/fields.py)']
ASSUMPTIONS = ['operand dtypes within the 11 dtypes of dtype_to_str; Python scalars int/float/bool',
               'section hypothesis of c13_*: storing an array into an HDF5 dataset of its own dtype keeps the values (np_cast_id)']
TECHNIQUE = ('Coq proof about a table-driven model of the operator layer (for every table satisfying a decidable '
             'well-formedness check, the dispatch model equals the pass-through specification) + AST translator that '
             're-derives the table from fields.py on every run and discharges the check by computation + exhaustive '
             'differential correspondence against numpy over operator x operand kind x dtype pairs')
LEVEL_TEXT = ('Props/C13.v: for all tables T with tables_ok T = true, all heaps, operand values and operators in scope, the '
              'model of `lhs <op> rhs` (Python protocol + numpy deferral + FieldDataOps wrappers + DataFrame.__setitem__) '
              'equals the specification (new NumericMemField per numpy result, dtype = numpy\'s, operands untouched, stored '
              'values equal), numpy functions being section variables. GenProps/C13Table.v (generated obligations): the '
              'freshly translated tables of the tree under test satisfy tables_ok and equal the tables of the extracted model.')
LEVEL_NOTE = ('The theorem is thin by nature (the code is a dispatch table around numpy); the values themselves are decided '
              'by correspondence with numpy. Trusted: Coq kernel, extraction, translator, the 40-line protocol model, harness.')


# --------------------------------------------------------------------------- generated obligations
def extra_checks(tier):
    from harness import c13_table
    return c13_table.check(tier)
