"""C04 — mapping a column through a join map (operations.py) vs coq/Model/MapStream.v.

Case dicts (JSON):
  {'op':'stream',  'kind':K, 'data':[...], 'map':[k|None...], 'inv':0|1|2, 'cs':n, 'store':'mem'|'h5'}
  {'op':'istream', 'strs':[str...],        'map':..., 'inv':..., 'cs':n, 'vf':n, 'store':...}
  {'op':'safe',    'kind':K, 'data':[...], 'map':..., 'inv':..., 'ev':None|value}
  {'op':'isafe',   'strs':[...],           'map':..., 'inv':..., 'ev':None|str}
  {'op':'mapvalid','kind':K, 'data':[...], 'map':..., 'inv':...}
  {'op':'hist',    'kind':K, 'data':[...], 'strs':[...], 'map':..., 'inv':..., 'steps':[[name, cs?, vf?]...], 'store':...}
      a HISTORY of calls on ONE map field, one numeric source field and one indexed source field (coq/Model/MapHistory.v);
      step names: stream cs | istream cs vf | mapvalid | safe | isafe | self cs (the map column mapped through itself);
      result = [[destination of each step...], [map, numeric source, source offsets, source bytes AFTER the history]]
CALL FORMS (coq/Model/MapCallForms.v): a 'stream' / 'istream' case with a key 'form' = [inv_given, cs|None, vf|None] is
called with exactly the optional arguments that are given (None = omitted: the library's own default applies, nothing is
patched); 'cs' / 'vf' then hold the RESOLVED sizes (DEFAULT_CHUNKSIZE = 2^20 / value_factor 8 as operations.py defines
them), 'proxy' = [pcs, pvf] the small sizes through which the model evaluates the call (theorems *_call_eval_correct),
'kwinv' whether invalid is passed by keyword, 'via' = 'merge' (the column is mapped by DataFrame.merge(how='left') whose
right map is the case's map) or 'session' (Session.ordered_merge_left with fields: _streaming_map_fields).
K in NUM_KINDS (small integral values), 'S3' (data = list of ascii strings of length <= 3), or a bit-pattern kind
'f64b' / 'f32b' (data = IEEE bit patterns as unsigned ints: NaNs, -0.0, infinities, denormals survive the comparison).
A None in 'map' is the invalid marker selected by 'inv' (0: -1, 1: INVALID_INDEX_32, 2: INVALID_INDEX_64).
The environment variable C04_VARIANT=orig makes the *model* the code as found (used once to tie the
`…_refuted` theorems to the unrepaired tree), C04_VARIANT=fixed0 the code after the C04 fixes but before
work/E7/fix-F-C02f.diff (ties map_stream_unordered_map_refuted / indexed_stream_unordered_map_refuted to that
tree); the default model is the repaired code.
"""
import itertools, os

PROP, NUM = 'C04', 4
PROPS_FILES = ['Props/C04.v']
MODES = ['jit', 'nojit']
MODES_THOROUGH = ['jit', 'nojit', 'bounds']
LEVEL = 'proof'
HANG_TIMEOUT_S = 2.0
TIMEOUT_S = 6.0

INV = [-1, (1 << 31) - 1, 1 << 62]
INV_NAME = ['-1', 'S32', 'S64']
NUM_KINDS = ['int32', 'int64', 'uint8', 'float32', 'float64', 'bool']
VARIANT = {'orig': 1, 'fixed0': 2}.get(os.environ.get('C04_VARIANT', 'fixed'), 0)

RULE = ('exhaustive small scope: every map of length <= N whose valid entries are non-decreasing indices into a '
        'source of length <= L with invalid markers at any positions (quick N=5,L=4; thorough N=6,L=5), AND every map '
        'of length <= Nu over a source of length <= Lu with the valid entries in ANY order (quick Nu=5,Lu=4; thorough '
        'Nu=6,Lu=4; one source kind and one value_factor per (map, chunk size) in the quick tier, rotating; since fix-F-C02f the streams accept them) x marker in '
        '{-1, INVALID_INDEX_32, INVALID_INDEX_64} x chunk size 1..N+1 x source kind (int32 exhaustively; int64, '
        'uint8, float32, float64, bool, fixed string S3 rotated over the maps), for ordered_map_valid_stream; the same '
        'maps x value_factor 1..3 x source string-length patterns built around the value-buffer size B = cs*vf '
        '(empty entries, entries of exactly B bytes, B+1 bytes mapped = clear-error regime, B+1 unmapped) for '
        'ordered_map_valid_indexed_stream; all maps for safe_map_values / safe_map_indexed_values / map_valid; then '
        'seeded structured random longer cases (all-invalid chunks, gaps larger than a chunk, HDF5-backed fields; '
        'unordered: saw-tooth maps of many-to-many joins, random permutations, zig-zags between the two ends of the '
        'source). '
        'HISTORIES (coq/Model/MapHistory.v, theorem history_correct): one map field, one numeric source field and one '
        'indexed source field shared by a sequence of calls — every map of length <= 3 (thorough 4) over sources of '
        'length <= 3, ordered and unordered, x 3 markers x EVERY ordered pair of the six call kinds {stream, indexed '
        'stream, map_valid, safe_map_values, safe_map_indexed_values, stream with the map column as its own source} '
        '(thorough: every fifth triple as well), memory-backed (chunk reads are views of the field) and every 48th '
        'HDF5-backed; the map and both sources are read back after the history and compared with what was supplied; '
        'then random histories of 2-5 calls over longer maps. '
        'EXTREMES: every map of length <= 3 over source values at the extremes of int64/int32/uint8 and over float bit '
        'patterns (NaNs, -0.0, infinities, denormals; compared bit for bit); non-ASCII indexed entries (characters != '
        'bytes) with value buffers between character count and byte count; entries of 255..512 bytes. '
        'SCALED: chunk sizes 16..300 (powers of two and neighbours, and random) with near-1:1 maps of 1-3 chunks carrying '
        'planted events (a repeat compensated by a skipped source row, an unmatched row in place of / inserted before a '
        'row, skips around the chunk size, blocks, swapped pairs) for both streams, the helpers and histories; a few '
        'chunk sizes around 1024 (thorough: 2048, 4096). '
        'CALL FORMS: f(src, map, dst[, invalid]) with chunksize / value_factor left to the function defaults, as '
        'DataFrame.merge calls them — defaults patched to every small size (all maps of length <= 3) and the real '
        'defaults (2^20 rows; indexed 2^20 x 8 in the thorough tier only). '
        'OMITTED ARGUMENTS (coq/Model/MapCallForms.v; nothing patched, the library defaults DEFAULT_CHUNKSIZE = 2^20 and '
        'value_factor 8 as they are): both streams called with every subset of {invalid, chunksize, value_factor} given '
        '(none; each alone; both sizes), invalid positionally or by keyword, for every map of length <= 3 over sources of '
        'length <= 3 whose entries are sized around 8 x len(map) bytes (8n-1, 8n, 8n+1, 16n+5) and up to 3000 bytes, for '
        'maps that are short / long relative to the source, empty and all-invalid maps, empty sources; then structured '
        'random ones (maps <= 300, sources <= 300, entries <= 4 KB), the same through DataFrame.merge(how=left, ordered '
        'keys) and Session.ordered_merge_left (fields), and change-directed (entry widths, map lengths and single size '
        'arguments around every new literal K, 8K). The model evaluates a call that uses a default size through a small '
        'proxy size after checking the regime in Gallina (theorems indexed_stream_call_eval_correct / '
        'stream_call_eval_correct; size independence). '
        'CHANGE-DIRECTED: every small integer literal that is new in the tree under test (harness/hot.py) is planted '
        'as chunk size, map length, run length and entry byte width (K-1, K, K+1, 2K, 3K, ...). '
        'Non-trivial = the case reaches at least one planted feature other than its marker/kind tags.')
EXHAUSTIVE = {'quick': True, 'thorough': True}
TRUSTED = ['numba code generation; numpy slicing/fill semantics (modelled by np_slice / np_slice_fill / np_get)',
           'MemoryFieldArray / HDF5 field write, write_part (modelled as list append)',
           'map dtype int32 for markers -1 and INVALID_INDEX_32, int64 for INVALID_INDEX_64 (and rotated for -1)',
           'histories: the model threads the shared fields through the calls unchanged because no modelled statement '
           'stores into a map or source argument; the correspondence run observes the real fields after each history']
ASSUMPTIONS = ['valid map entries are in range (the property quantifies over non-decreasing maps; since fix-F-C02f the '
               'streams are correct for every order, which is what DataFrame.merge needs for many-to-many keys)',
               'chunksize >= 1, value_factor >= 1',
               'indexed streaming: every *mapped* entry fits the value buffer (chunksize*value_factor); otherwise the '
               'repaired code raises ValueError (checked as correspondence, outside the property)']

_np = _ops = _fields = _session = None
_h5 = {}


def setup():
    global _np, _ops, _fields, _session
    import numpy as np
    from exetera.core import operations as ops, fields, session
    _np, _ops, _fields, _session = np, ops, fields, session


# ------------------------------------------------------------------ field construction
def _marker(case):
    return INV[case['inv']]


def _map_dtype(case):
    if case['inv'] == 2:
        return 'int64'
    return case.get('mdt', 'int32')


def _map_array(case):
    inv = _marker(case)
    return _np.asarray([inv if k is None else k for k in case['map']], dtype=_map_dtype(case))


BITS = {'f64b': ('uint64', 'float64'), 'f32b': ('uint32', 'float32')}
STEP_CODE = {'stream': 1, 'istream': 2, 'mapvalid': 3, 'safe': 4, 'isafe': 5, 'self': 6}


def _fkind(kind):
    return BITS[kind][1] if kind in BITS else kind


def _data_array(kind, data):
    np = _np
    if kind in BITS:
        return np.asarray(data, dtype=BITS[kind][0]).view(BITS[kind][1])
    if kind == 'S3':
        return np.asarray([x.encode() for x in data], dtype='S3')
    if kind == 'bool':
        return np.asarray([bool(x) for x in data], dtype=bool)
    return np.asarray(data, dtype=kind)


def _h5_df():
    """one in-memory HDF5 dataset per worker process; a fresh dataframe per case"""
    import io
    if 'ds' in _h5 and _h5['n'] % 16 == 0:
        # the dataset keeps every dataframe's fields and their write buffers alive (about 0.6 MB per case, cyclic
        # garbage once closed): start a new in-memory file every 16 HDF5-backed cases and collect
        import gc
        try:
            _h5['s'].close()
        except Exception:
            pass
        del _h5['ds'], _h5['s']
        gc.collect()
    if 'ds' not in _h5:
        s = _session.Session()
        _h5['s'] = s
        _h5['ds'] = s.open_dataset(io.BytesIO(), 'w', 'ds')
        _h5['n'] = _h5.get('n', 0)
    _h5['n'] += 1
    return _h5['ds'].create_dataframe('df%d' % _h5['n'])


def _num_field(df, name, kind, arr):
    fields = _fields
    kind = _fkind(kind)
    if df is None:
        f = fields.FixedStringMemField(None, 3) if kind == 'S3' else fields.NumericMemField(None, kind)
    else:
        f = df.create_fixed_string(name, 3) if kind == 'S3' else df.create_numeric(name, kind)
    if arr is not None and len(arr) > 0:
        f.data.write(arr)
    return f


def _idx_field(df, name, strs):
    f = _fields.IndexedStringMemField(None, 1 << 20) if df is None else df.create_indexed_string(name)
    if strs is not None and len(strs) > 0:
        f.data.write(strs)
    return f


def _canon_elems(kind, arr):
    if kind == 'S3':
        return [list(bytes(x)) for x in arr]
    if kind in BITS:
        arr = _np.ascontiguousarray(arr).view(BITS[kind][0])
    return [int(x) for x in arr]


def _ints(arr):
    return [int(x) for x in arr]


def _run_hist(case):
    """a history of calls on shared fields; the shared fields are read back afterwards"""
    np, ops = _np, _ops
    inv = _marker(case)
    df = _h5_df() if case.get('store') == 'h5' else None
    kind = case['kind']
    names = set(st[0] for st in case['steps'])
    # a shared field that no call of the history uses is not created (an indexed field costs megabytes of buffers)
    num = _num_field(df, 'src', kind, _data_array(kind, case['data'])) if names & {'stream', 'mapvalid', 'safe'} else None
    idx = _idx_field(df, 'isrc', case['strs']) if names & {'istream', 'isafe'} else None
    mp = _num_field(df, 'map', _map_dtype(case), _map_array(case))
    outs = []
    for j, st in enumerate(case['steps']):
        name = st[0]
        if name == 'stream':
            dst = _num_field(df, 'dst%d' % j, kind, None)
            ops.ordered_map_valid_stream(num, mp, dst, inv, st[1])
            outs.append(_canon_elems(kind, dst.data[:]))
        elif name == 'self':
            dst = _num_field(df, 'dst%d' % j, _map_dtype(case), None)
            ops.ordered_map_valid_stream(mp, mp, dst, inv, st[1])
            outs.append(_ints(dst.data[:]))
        elif name == 'istream':
            dst = _idx_field(df, 'dst%d' % j, None)
            ops.ordered_map_valid_indexed_stream(idx, mp, dst, inv, st[1], st[2])
            outs.append([_ints(dst.indices[:]), _ints(dst.values[:])])
        elif name == 'mapvalid':
            d = num.data[:]
            r = ops.map_valid(d, mp.data[:], invalid=inv)
            assert r.dtype == d.dtype
            outs.append(_canon_elems(kind, r))
        elif name == 'safe':
            d, m = num.data[:], mp.data[:]
            r = ops.safe_map_values(d, m, m != inv)
            assert r.dtype == d.dtype and len(r) == len(m)
            outs.append(_canon_elems(kind, r))
        elif name == 'isafe':
            m = mp.data[:]
            di, dv = np.asarray(idx.indices[:]), np.asarray(idx.values[:])
            if len(di) == 0:
                di = np.zeros(1, dtype=np.int64)
            i, v = ops.safe_map_indexed_values(di, dv, m, m != inv)
            outs.append([_ints(i), _ints(v)])
        else:
            raise ValueError(name)
    if idx is None:
        fin_i, fin_v = [list(x) for x in _split(case['strs'])]
    else:
        fin_i, fin_v = _ints(idx.indices[:]) or [0], _ints(idx.values[:])
    fin_n = _welems(kind, case['data']) if num is None else _canon_elems(kind, num.data[:])
    return [outs, [_ints(mp.data[:]), fin_n, fin_i, fin_v]]


def _call(f, fields3, inv, sizes, dflt):
    """the call forms of the streamed mappings. DataFrame.merge calls them as f(src, map, dst, invalid): chunksize and
    value_factor come from the function's defaults. dflt='patched': the defaults are set to the case's sizes for the
    duration of the call and the size arguments are omitted (the hard-wired size becomes a parameter, the model takes the
    same one); dflt='real': nothing is patched (the case records DEFAULT_CHUNKSIZE and value_factor 8); dflt='vf':
    only value_factor is left to its (patched) default. The invalid argument is omitted as well when it is -1."""
    if not dflt:
        return f(*fields3, inv, *sizes)
    saved = f.__defaults__
    try:
        if dflt == 'patched':
            f.__defaults__ = (saved[0],) + tuple(sizes)
            return f(*fields3) if inv == -1 else f(*fields3, inv)
        if dflt == 'vf':
            f.__defaults__ = (saved[0], saved[1], sizes[1])
            return f(*fields3, inv, sizes[0])
        return f(*fields3) if inv == -1 else f(*fields3, inv)
    finally:
        f.__defaults__ = saved


def _call_form(f, fields3, inv, form, kwinv):
    """f(src, map, dst) plus exactly the optional arguments the case gives: invalid (positionally or by keyword),
    chunksize=, value_factor= ; an omitted argument takes the library's default (nothing is patched)"""
    inv_given, cs, vf = form
    args, kw = list(fields3), {}
    if inv_given:
        if kwinv:
            kw['invalid'] = inv
        else:
            args.append(inv)
    if cs is not None:
        kw['chunksize'] = cs
    if vf is not None:
        kw['value_factor'] = vf
    return f(*args, **kw)


def _merge_keys(case):
    """ordered keys whose left join has the case's (non-decreasing) map as its right map; right keys unique"""
    n_src = len(case['strs']) if case['op'] == 'istream' else len(case['data'])
    rk = [10 * (j + 1) for j in range(n_src)]
    lk, prev = [], -1
    for k in case['map']:
        if k is None:
            lk.append(10 * (prev + 1) + 5)
        else:
            prev = k
            lk.append(10 * (k + 1))
    return lk, rk


def _run_via(case):
    """the production paths to the streamed mappings: neither passes chunksize / value_factor"""
    np = _np
    inv = _marker(case)
    lk, rk = _merge_keys(case)
    lu = len(set(lk)) == len(lk)
    want = _map_array(case)
    if case['via'] == 'session':
        s = _session.Session()
        kind = case['kind']
        lkf = _num_field(None, 'lk', 'int32', np.asarray(lk, dtype=np.int32))
        rkf = _num_field(None, 'rk', 'int32', np.asarray(rk, dtype=np.int32))
        src = _num_field(None, 'src', kind, _data_array(kind, case['data']))
        dst = _num_field(None, 'dst', kind, None)
        mp = _num_field(None, 'map', _map_dtype(case), None)
        s.ordered_merge_left(lkf, rkf, right_field_sources=(src,), left_field_sinks=(dst,), left_to_right_map=mp,
                             left_unique=lu, right_unique=True)
        got = mp.data[:]
        if len(got) != len(want) or not np.array_equal(np.asarray(got, dtype=np.int64), want.astype(np.int64)):
            raise AssertionError('the map generated by ordered_merge_left is not the map of the case')
        return _canon_elems(kind, dst.data[:])
    from exetera.core import dataframe
    h5 = case.get('store') == 'h5'
    if h5:
        left, right, dest = _h5_df(), _h5_df(), _h5_df()
    else:
        import io
        ds = _session.Session().open_dataset(io.BytesIO(), 'w', 'ds')
        left, right, dest = ds.create_dataframe('l'), ds.create_dataframe('r'), ds.create_dataframe('d')
    left.create_numeric('id', 'int32').data.write(np.asarray(lk, dtype=np.int32))
    right.create_numeric('id', 'int32').data.write(np.asarray(rk, dtype=np.int32))
    if case['op'] == 'istream':
        _idx_field(right, 'col', case['strs'])
    else:
        _num_field(right, 'col', case['kind'], _data_array(case['kind'], case['data']))
    dataframe.merge(left, right, dest, 'id', 'id', how='left', hint_left_keys_ordered=True, hint_left_keys_unique=lu,
                    hint_right_keys_ordered=True, hint_right_keys_unique=True)
    got = dest['_right_map'].data[:]
    if len(got) != len(want) or not np.array_equal(np.asarray(got, dtype=np.int64), want.astype(np.int64)):
        raise AssertionError('the right map generated by merge is not the map of the case')
    if case['op'] == 'istream':
        return [_ints(dest['col'].indices[:]), _ints(dest['col'].values[:])]
    return _canon_elems(case['kind'], dest['col'].data[:])


def run(case):
    np, ops = _np, _ops
    op = case['op']
    inv = _marker(case)
    if op == 'hist':
        return _run_hist(case)
    if case.get('via'):
        return _run_via(case)
    if 'form' in case:
        df = _h5_df() if case.get('store') == 'h5' else None
        mp = _num_field(df, 'map', _map_dtype(case), _map_array(case))
        if op == 'stream':
            kind = case['kind']
            src = _num_field(df, 'src', kind, _data_array(kind, case['data']))
            dst = _num_field(df, 'dst', kind, None)
            _call_form(ops.ordered_map_valid_stream, (src, mp, dst), inv, case['form'], case.get('kwinv'))
            return _canon_elems(kind, dst.data[:])
        src = _idx_field(df, 'src', case['strs'])
        dst = _idx_field(df, 'dst', None)
        _call_form(ops.ordered_map_valid_indexed_stream, (src, mp, dst), inv, case['form'], case.get('kwinv'))
        return [_ints(dst.indices[:]), _ints(dst.values[:])]
    if op == 'stream':
        df = _h5_df() if case.get('store') == 'h5' else None
        kind = case['kind']
        src = _num_field(df, 'src', kind, _data_array(kind, case['data']))
        mp = _num_field(df, 'map', _map_dtype(case), _map_array(case))
        dst = _num_field(df, 'dst', kind, None)
        _call(ops.ordered_map_valid_stream, (src, mp, dst), inv, (case['cs'],), case.get('dflt'))
        return _canon_elems(kind, dst.data[:])
    if op == 'istream':
        df = _h5_df() if case.get('store') == 'h5' else None
        src = _idx_field(df, 'src', case['strs'])
        mp = _num_field(df, 'map', _map_dtype(case), _map_array(case))
        dst = _idx_field(df, 'dst', None)
        _call(ops.ordered_map_valid_indexed_stream, (src, mp, dst), inv, (case['cs'], case['vf']), case.get('dflt'))
        return [[int(x) for x in dst.indices[:]], [int(x) for x in dst.values[:]]]
    m = _map_array(case)
    flt = m != inv
    if op == 'safe':
        kind = case['kind']
        d = _data_array(kind, case['data'])
        ev = case['ev']
        if ev is not None:
            ev = d.dtype.type(ev.encode() if kind == 'S3' else ev)     # (never given for the bit-pattern kinds)
        r = ops.safe_map_values(d, m, flt, ev) if ev is not None else ops.safe_map_values(d, m, flt)
        assert r.dtype == d.dtype and len(r) == len(m)
        return _canon_elems(kind, r)
    if op == 'isafe':
        idx, val = _split(case['strs'])
        di = np.asarray(idx, dtype=np.int64)
        dv = np.asarray(val, dtype=np.uint8)
        if case['ev'] is None:
            i, v = ops.safe_map_indexed_values(di, dv, m, flt)
        else:
            i, v = ops.safe_map_indexed_values(di, dv, m, flt, np.frombuffer(case['ev'].encode(), dtype=np.uint8))
        return [[int(x) for x in i], [int(x) for x in v]]
    if op == 'mapvalid':
        kind = case['kind']
        d = _data_array(kind, case['data'])
        r = ops.map_valid(d, m, invalid=inv)
        assert r.dtype == d.dtype
        return _canon_elems(kind, r)
    raise ValueError(op)


def warmup():
    global run
    real_run = run

    def run(case):          # a defect of the tree under test must not stop the warm-up
        try:
            real_run(case)
        except Exception:
            pass
    try:
        _warmup(run)
    finally:
        run = real_run


def _warmup(run):
    for kind in NUM_KINDS + ['S3']:
        data = ['a', 'bb'] if kind == 'S3' else [1, 0]
        for inv, mdt in ((0, 'int32'), (0, 'int64'), (1, 'int32'), (2, 'int64')):
            run({'op': 'stream', 'kind': kind, 'data': data, 'map': [0, None, 1], 'inv': inv, 'cs': 2, 'mdt': mdt})
            run({'op': 'mapvalid', 'kind': kind, 'data': data, 'map': [0, None, 1], 'inv': inv, 'mdt': mdt})
            for ev in ((None,) if kind == 'S3' else (None, data[0])):   # numba cannot type a bytes empty_value
                run({'op': 'safe', 'kind': kind, 'data': data, 'map': [0, None, 1], 'inv': inv, 'ev': ev, 'mdt': mdt})
    for via in ('merge', 'session'):
        run(_form_case({'op': 'stream', 'kind': 'int32', 'data': [1, 0], 'map': [0, None, 1], 'inv': 1, 'via': via},
                       [1, None, None], 2))
    run(_form_case({'op': 'istream', 'strs': ['a', 'bb'], 'map': [0, None, 1], 'inv': 1, 'via': 'merge'}, [1, None, None], 2))
    for inv, mdt in ((0, 'int32'), (0, 'int64'), (1, 'int32'), (2, 'int64')):
        run({'op': 'istream', 'strs': ['a', 'bb'], 'map': [0, None, 1], 'inv': inv, 'cs': 2, 'vf': 2, 'mdt': mdt})
        for ev in (None, 'x'):
            run({'op': 'isafe', 'strs': ['a', 'bb'], 'map': [0, None, 1], 'inv': inv, 'ev': ev, 'mdt': mdt})
        run({'op': 'hist', 'kind': 'int32', 'data': [1, 0, 2], 'strs': ['a', 'bb', ''], 'map': [0, None, 1], 'inv': inv,
             'mdt': mdt, 'steps': [['stream', 2], ['istream', 2, 2], ['mapvalid'], ['safe'], ['isafe'], ['self', 2]]})


# ------------------------------------------------------------------ wire
def _split(strs):
    idx, val = [0], []
    for s in strs:
        val.extend(s.encode())
        idx.append(len(val))
    return idx, val


def _wmap(case):
    return [-1000 if k is None else k for k in case['map']]


def _welems(kind, data):
    if kind == 'S3':
        return [list(x.encode()) for x in data]
    if kind == 'bool':
        return [1 if x else 0 for x in data]
    return list(data)


def to_val(case):
    op = case['op']
    head = lambda code: [code, VARIANT, case['inv'], case.get('cs', 1), case.get('vf', 1), _wmap(case)]
    if 'form' in case:
        ig, fcs, fvf = case['form']
        args = [1 if ig else 0, -1 if fcs is None else fcs, -1 if fvf is None else fvf] + list(case['proxy'])
        if op == 'stream':
            return head(11 if case['kind'] == 'S3' else 10) + [_welems(case['kind'], case['data']), args]
        idx, val = _split(case['strs'])
        return head(12) + [idx, val, args]
    if op == 'stream':
        return head(2 if case['kind'] == 'S3' else 1) + [_welems(case['kind'], case['data'])]
    if op == 'istream':
        idx, val = _split(case['strs'])
        return head(3) + [idx, val]
    if op == 'safe':
        k = case['kind']
        ev = [] if case['ev'] is None else _welems(k, [case['ev']])
        return head(5 if k == 'S3' else 4) + [_welems(k, case['data']), ev]
    if op == 'isafe':
        idx, val = _split(case['strs'])
        ev = [] if case['ev'] is None else [list(case['ev'].encode())]
        return head(6) + [idx, val, ev]
    if op == 'mapvalid':
        k = case['kind']
        return head(8 if k == 'S3' else 7) + [_welems(k, case['data'])]
    if op == 'hist':
        idx, val = _split(case['strs'])
        steps = [[STEP_CODE[st[0]], st[1] if len(st) > 1 else 1, st[2] if len(st) > 2 else 1] for st in case['steps']]
        return head(9) + [_welems(case['kind'], case['data']), idx, val, steps]
    raise ValueError(op)


def _derr(v):
    from harness import core
    return core.decode_err(v)


def _bl(s):
    return len(s.encode())


def mapped_too_long(case):
    """indexed streaming outside the property's regime: a mapped entry exceeds the value buffer"""
    if case['op'] == 'hist':
        bs = [st[1] * st[2] for st in case['steps'] if st[0] == 'istream']
        if not bs:
            return False
        b = min(bs)
    elif case['op'] != 'istream':
        return False
    else:
        b = case['cs'] * case['vf']
    return any(k is not None and 0 <= k < len(case['strs']) and _bl(case['strs'][k]) > b for k in case['map'])


def in_range(case):
    if case['op'] == 'hist':
        names = set(st[0] for st in case['steps'])
        n = 1 << 62
        if names & {'stream', 'mapvalid', 'safe'}:
            n = min(n, len(case['data']))
        if names & {'istream', 'isafe'}:
            n = min(n, len(case['strs']))
        if 'self' in names:
            n = min(n, len(case['map']))
        return all(k is None or 0 <= k < n for k in case['map'])
    n = len(case['strs']) if 'strs' in case else len(case['data'])
    return all(k is None or 0 <= k < n for k in case['map'])


def ordered(case):
    v = [k for k in case['map'] if k is not None]
    return all(a <= b for a, b in zip(v, v[1:]))


def in_precondition(case):
    """valid entries in range; the repaired streams (fix-F-C02f) do not need them ordered. With C04_VARIANT=orig /
    fixed0 the streams are held to the specification on ordered maps only (outside: correspondence)."""
    if not in_range(case):
        return False
    if VARIANT and case['op'] in ('stream', 'istream') and not ordered(case):
        return False
    if case['op'] == 'hist':
        return all(x >= 1 for st in case['steps'] for x in st[1:])
    return case.get('cs', 1) >= 1 and case.get('vf', 1) >= 1


def equal(case, impl, expected, mode):
    """default comparison, except for the tie of the PRE-fix-F-C02f models (C04_VARIANT=orig/fixed0) to the pre-fix tree on
    unordered maps: where the model reports an access below the value window, interpreted numpy wraps the negative
    index and goes on with a wrong value (the compiled modes are not run on model-OOB cases)"""
    from harness import core
    if VARIANT and case['op'] in ('stream', 'istream') and not ordered(case) and \
            isinstance(expected, str) and (expected.startswith('OOB') or expected == 'EXC:IndexError'):
        return True     # IndexError, or any behaviour after the wrapped read (wrong rows, a later ValueError)
    return core.results_equal(impl, expected, mode)


def from_val(case, v):
    model, spec = v
    e = _derr(model)
    if e is not None:
        model = e
    if mapped_too_long(case) or not in_precondition(case):
        return (model, model)          # outside the property: correspondence only
    return (model, spec)


# ------------------------------------------------------------------ features
def features(case, model):
    f = []
    op, m = case['op'], case['map']
    f.append('op:' + op)
    f.append('inv=' + INV_NAME[case['inv']])
    if 'kind' in case:
        f.append('kind:' + case['kind'])
    if case.get('store') == 'h5':
        f.append('hdf5-backed')
    if case.get('dflt'):
        f.append('size arguments omitted (defaults: %s)' % case['dflt'])
    if 'form' in case:
        ig, fcs, fvf = case['form']
        f.append('call form: ' + ('both sizes omitted' if fcs is None and fvf is None and op == 'istream' else
                                 'chunksize omitted' if fcs is None and op == 'stream' else
                                 'value_factor alone (chunksize omitted)' if fcs is None else
                                 'chunksize alone (value_factor omitted)' if fvf is None and op == 'istream' else
                                 'all sizes given by keyword'))
        if not ig:
            f.append('call form: invalid omitted')
        if case.get('via'):
            f.append('via ' + ('DataFrame.merge' if case['via'] == 'merge' else 'Session.ordered_merge_left'))
        if op == 'istream' and fcs is None:
            strs_, n_ = case['strs'], len(m)
            ml_ = [_bl(strs_[k]) for k in m if k is not None and 0 <= k < len(strs_)]
            if ml_ and max(ml_) > 8 * n_:
                f.append('default chunksize: mapped entry > 8 x len(map) bytes')
            if ml_ and max(ml_) >= 1000:
                f.append('default chunksize: mapped entry >= 1000 bytes')
        if fcs is None and m and len(m) < (len(case['strs']) if 'strs' in case else len(case['data'])):
            f.append('default chunksize: map shorter than source')
        if fcs is None and m and len(m) > (len(case['strs']) if 'strs' in case else len(case['data'])):
            f.append('default chunksize: map longer than source')
    if isinstance(model, str):
        f.append('model:' + model.split(':')[0] + (':' + model.split(':')[1] if model.startswith('EXC') else ''))
    if not m:
        f.append('map-empty')
        return f
    valid = [k for k in m if k is not None]
    if not valid:
        f.append('map-all-invalid')
    if m[0] is None and valid:
        f.append('leading-invalid')
    if m[-1] is None and valid:
        f.append('trailing-invalid')
    if any(a is None and b is not None and c is None for a, b, c in zip(m, m[1:], m[2:])) or \
       any(a is not None and b is None and c is not None for a, b, c in zip(m, m[1:], m[2:])):
        f.append('alternating')
    if len(set(valid)) < len(valid):
        f.append('repeated-index')
    n = len(case['strs']) if 'strs' in case else len(case['data'])
    if valid and valid[-1] == n - 1:
        f.append('maps-last-source-row')
    if op in ('stream', 'istream'):
        cs = case['cs']
        if len(m) > cs:
            f.append('multi-chunk')
        if len(m) % cs == 0:
            f.append('map-ends-on-chunk-boundary')
        chunks = [m[i:i + cs] for i in range(0, len(m), cs)]
        if valid and any(all(k is None for k in c) for c in chunks):
            f.append('all-invalid-chunk-among-valid')
        for c in chunks:
            cv = [k for k in c if k is not None]
            if any(b - a >= cs for a, b in zip(cv, cv[1:])):
                f.append('index-gap>=chunk (sub-chunking)')
                break
        for c in chunks:
            seen_valid = False
            hit = False
            for k in c:
                if k is not None:
                    seen_valid = True
                elif seen_valid:
                    hit = True
            if hit:
                f.append('invalid-after-valid-in-chunk (F-C04a region)')
                break
    if op == 'istream':
        b = case['cs'] * case['vf']
        strs = case['strs']
        ml = [_bl(strs[k]) for k in valid if 0 <= k < len(strs)]
        if any(_bl(x) != len(x) for x in strs):
            f.append('non-ASCII entries (characters != bytes)')
        if any(x >= 256 for x in ml):
            f.append('mapped-entry>=256-bytes')
        if any(x == 0 for x in ml):
            f.append('mapped-entry-empty')
        if any(x == b for x in ml):
            f.append('mapped-entry==buffer')
        if any(x > b for x in ml):
            f.append('mapped-entry>buffer (error regime)')
        elif any(_bl(s) > b for s in strs):
            f.append('unmapped-entry>buffer')
        cs = case['cs']
        for i in range(0, len(m), cs):
            c = [k for k in m[i:i + cs] if k is not None and 0 <= k < len(strs)]
            if c and sum(_bl(strs[k]) for k in c) > b:
                f.append('value-buffer-fills-mid-chunk')
                break
        for i in range(0, len(m), cs):
            c = [k for k in m[i:i + cs] if k is not None and 0 <= k < len(strs)]
            if c and sum(_bl(s) for s in strs[c[0]:c[-1] + 1]) > b and c[-1] > c[0]:
                f.append('value-window-decomposed')
                break
    if op == 'hist':
        names = [st[0] for st in case['steps']]
        f.append('history-of-%s-calls' % (len(names) if len(names) < 4 else '4+'))
        for a, b in zip(names, names[1:]):
            f.append('hist:%s->%s' % (a, b))
        if case.get('store') != 'h5':
            f.append('hist:memory-backed-shared-map (chunk reads are views)')
        if case['inv'] != 0 and len(names) >= 2:
            f.append('hist:sentinel-marked-map-used-again')
        if 'self' in names:
            f.append('source-aliases-map')
        if mapped_too_long(case):
            f.append('mapped-entry>buffer (error regime)')
        css = [st[1] for st in case['steps'] if len(st) > 1]
    else:
        css = [case['cs']] if 'cs' in case else []
    if case.get('kind') in BITS:
        f.append('bit-pattern-floats (NaN, -0.0, inf, denormal)')
    if 'data' in case and case.get('kind') not in BITS and case.get('kind') != 'S3' and \
            any(isinstance(x, int) and abs(x) >= (1 << 31) - 1 for x in case['data']):
        f.append('source-values-at-dtype-extremes')
    if css and max(css) >= 16:
        f.append('chunk-size>=16 (beyond the exhaustive scope)')
        cs = max(css)
        for i in range(0, len(m), cs):
            c = m[i:i + cs]
            cv = [k for k in c if k is not None]
            if len(c) >= 16 and c[0] is not None and c[-1] is not None and max(cv) - min(cv) + 1 == len(c) and \
                    c != list(range(c[0], c[0] + len(c))):
                f.append('count-balanced non-1:1 chunk (window rows == entries, ends valid)')
                break
        for i in range(0, len(m), cs):
            c = m[i:i + cs]
            if len(c) >= 16 and c == list(range(c[0] or 0, (c[0] or 0) + len(c))) and c[0] is not None:
                f.append('pure 1:1 chunk')
                break
    elif op in ('safe', 'mapvalid', 'isafe') and len(m) >= 16:
        f.append('map-length>=16 (beyond the exhaustive scope)')
    if op in ('safe', 'isafe') and case['ev'] is not None:
        f.append('explicit-empty-value')
    if not in_precondition(case):
        f.append('outside-precondition')
    if not ordered(case):
        f.append('unordered-map (F-C02f region)')
        if op in ('stream', 'istream'):
            cs = case['cs']
            for i in range(0, len(m), cs):
                cv = [k for k in m[i:i + cs] if k is not None]
                if cv and (cv[0] != min(cv) or cv[-1] != max(cv)):
                    f.append('window-not-first..last')
                    break
            for i in range(0, len(m), cs):
                cv = [k for k in m[i:i + cs] if k is not None]
                if cv and max(cv) - min(cv) >= cs:
                    f.append('unordered-span>=chunk (sub-chunking)')
                    break
        if op == 'istream':
            b = case['cs'] * case['vf']
            strs = case['strs']
            cs = case['cs']
            for i in range(0, len(m), cs):
                cv = [k for k in m[i:i + cs] if k is not None and 0 <= k < len(strs)]
                if cv and sum(_bl(s) for s in strs[min(cv):max(cv) + 1]) > b and \
                        any(y < x for x, y in zip(cv, cv[1:])):
                    f.append('value-sub-chunk-revisited-backwards')
                    break
    return f


_TAGS = ('op:', 'inv=', 'kind:')


def nontrivial(case, model):
    return any(not x.startswith(_TAGS) for x in features(case, model))


def known(case, impl, model, spec, mode):
    return None


# ------------------------------------------------------------------ generators
def all_maps(n, L):
    """every map of length n over a source of length L: valid entries non-decreasing, None anywhere"""
    def rec(pos, lo, acc):
        if pos == n:
            yield list(acc)
            return
        acc.append(None)
        yield from rec(pos + 1, lo, acc)
        acc.pop()
        for k in range(lo, L):
            acc.append(k)
            yield from rec(pos + 1, k, acc)
            acc.pop()
    yield from rec(0, 0, [])


def all_maps_any(n, L):
    """every map of length n over a source of length L, valid entries in any order, None anywhere; only the
    maps that are NOT non-decreasing (the others come from all_maps)"""
    for t in itertools.product([None] + list(range(L)), repeat=n):
        v = [k for k in t if k is not None]
        if any(a > b for a, b in zip(v, v[1:])):
            yield list(t)


NUM_DATA = [10, 20, 30, 40, 50, 60, 70, 80]
S3_DATA = ['a', 'bbb', '', 'cc', 'ddd', 'e', '', 'ff']


def _data(kind, L):
    if kind == 'S3':
        return S3_DATA[:L]
    if kind == 'bool':
        return [1, 0, 1, 1, 0, 1, 0, 0][:L]
    return NUM_DATA[:L]


def str_patterns(L, b):
    """source string-length patterns around the value-buffer size b"""
    pats = [
        [1, 2, 3, 4, 2, 1],
        [0, b, 1, b, 0, b],
        [b, b, b, b, b, b],
        [0, 0, 0, 0, 0, 0],
        [2, 0, b + 1, 1, b, 3],
        [b - 1 if b > 1 else 1, 1, 1, b, 1, 1],
    ]
    out, seen = [], set()
    for p in pats:
        p = tuple(p[:L])
        if p not in seen:
            seen.add(p)
            out.append(p)
    return out


def _strs(lens):
    return [chr(97 + i) * n for i, n in enumerate(lens)]


def gen(tier, rng):
    """C04_SAMPLE=k keeps every k-th generated case (development aid; evidence records the count)"""
    step = int(os.environ.get('C04_SAMPLE', '1'))
    for i, c in enumerate(_gen(tier, rng)):
        if i % step == 0:
            yield c


def _gen(tier, rng):
    big = tier == 'thorough'
    if os.environ.get('C04_NEW'):       # development aid: only the generators added by the strengthening round
        yield from _gen_histories(big, rng)
        yield from _gen_defaults(big, rng)
        yield from _gen_callforms(big, rng)
        yield from _gen_extremes(big, rng)
        yield from _gen_text(big, rng)
        yield from _gen_scaled(big, rng)
        return
    if os.environ.get('C04_FORMS'):     # development aid: only the call-form generators
        yield from _gen_callforms(big, rng)
        return
    N, L = (6, 5) if big else (5, 4)
    other_kinds = ['int64', 'uint8', 'float32', 'float64', 'bool', 'S3']
    rot = 0
    # ---- ordered_map_valid_stream
    for Ls in range(0, L + 1):
        for n in range(0, N + 1):
            for m in all_maps(n, Ls):
                if Ls < L and Ls - 1 not in m and n > 0:
                    continue        # shorter sources only with maps that reach their last row (or empty maps)
                for inv in (0, 1, 2):
                    for cs in range(1, N + 2):
                        rot += 1
                        kinds = ['int32', other_kinds[rot % 6]]
                        if rot % 3 == 0:
                            kinds.append('S3')
                        for kind in dict.fromkeys(kinds):
                            c = {'op': 'stream', 'kind': kind, 'data': _data(kind, Ls), 'map': m, 'inv': inv, 'cs': cs}
                            if inv == 0 and rot % 2:
                                c['mdt'] = 'int64'
                            yield c
    # ---- ordered_map_valid_indexed_stream
    Ni, Li = (6, 4) if big else (5, 3)
    for Ls in range(0, Li + 1):
        for n in range(0, Ni + 1):
            for m in all_maps(n, Ls):
                if Ls < Li and Ls - 1 not in m and n > 0:
                    continue
                for cs in range(1, Ni + 2):
                    for vf in (1, 2, 3):
                        if not big and cs > 3 and vf == 3:
                            continue
                        pats = str_patterns(Ls, cs * vf) if Ls else [()]
                        for pi, p in enumerate(pats):
                            rot += 1
                            inv = rot % 3
                            c = {'op': 'istream', 'strs': _strs(p), 'map': m, 'inv': inv, 'cs': cs, 'vf': vf}
                            if inv == 0 and rot % 2:
                                c['mdt'] = 'int64'
                            yield c
    # ---- the same two streams on unordered maps (fix-F-C02f)
    Nu, Lu = (6, 4) if big else (5, 4)
    for Ls in range(2, Lu + 1):
        for n in range(2, Nu + 1):
            for m in all_maps_any(n, Ls):
                if Ls < Lu and Ls - 1 not in m:
                    continue
                for cs in range(1, Nu + 2):
                    rot += 1
                    inv = rot % 3
                    for kind in (('int32', other_kinds[rot % 6]) if big else ((['int32'] + other_kinds)[rot % 7],)):
                        c = {'op': 'stream', 'kind': kind, 'data': _data(kind, Ls), 'map': m, 'inv': inv, 'cs': cs}
                        if inv == 0 and rot % 2:
                            c['mdt'] = 'int64'
                        yield c
                    for vf in ((1, 2) if big else (1 + rot % 2,)):
                        pats = str_patterns(Ls, cs * vf)
                        p = pats[rot % len(pats)]
                        c = {'op': 'istream', 'strs': _strs(p), 'map': m, 'inv': (rot + vf) % 3, 'cs': cs, 'vf': vf}
                        yield c
    # ---- non-streaming helpers
    for Ls in range(0, L + 1):
        for n in range(0, N + 1):
            for m in all_maps(n, Ls):
                if Ls < L and Ls - 1 not in m and n > 0:
                    continue
                for inv in (0, 1, 2):
                    rot += 1
                    kind = (['int32'] + other_kinds)[rot % 7]
                    d = _data(kind, Ls)
                    yield {'op': 'mapvalid', 'kind': kind, 'data': d, 'map': m, 'inv': inv}
                    ev = None if rot % 2 else (None if kind == 'S3' else 1 if kind == 'bool' else 7)
                    yield {'op': 'safe', 'kind': kind, 'data': d, 'map': m, 'inv': inv, 'ev': ev}
                    if Ls <= Li:
                        p = str_patterns(Ls, 3)[rot % len(str_patterns(Ls, 3))] if Ls else ()
                        yield {'op': 'isafe', 'strs': _strs(p), 'map': m, 'inv': inv, 'ev': None if rot % 2 else 'xy'}
    # ---- structured random, longer
    for k in range(6000 if big else 1200):
        Ls = rng.randint(1, 40)
        cs = rng.choice([1, 2, 3, 4, 5, 8])
        n = rng.randint(1, 30)
        m, cur = [], 0
        mode = rng.choice(['mixed', 'blocks', 'gaps', 'mostly-invalid'])
        while len(m) < n:
            if mode == 'blocks' and rng.random() < 0.3:
                m.extend([None] * rng.choice([cs, cs + 1, 2 * cs]))
                continue
            p_inv = {'mixed': 0.3, 'blocks': 0.1, 'gaps': 0.15, 'mostly-invalid': 0.8}[mode]
            if rng.random() < p_inv:
                m.append(None)
            else:
                step = rng.choice([0, 0, 1, 1, 2, cs, cs + 1, 3 * cs]) if mode == 'gaps' else rng.choice([0, 1, 1, 2])
                cur = min(Ls - 1, cur + step)
                m.append(cur)
        m = m[:n]
        inv = rng.randint(0, 2)
        store = 'h5' if k % 10 == 0 else 'mem'
        if k % 2:
            kind = rng.choice(['int32'] + other_kinds)
            data = [rng.choice(['', 'a', 'bc', 'def']) for _ in range(Ls)] if kind == 'S3' else \
                   [rng.randint(0, 1) for _ in range(Ls)] if kind == 'bool' else [rng.randint(0, 100) for _ in range(Ls)]
            yield {'op': 'stream', 'kind': kind, 'data': data, 'map': m, 'inv': inv, 'cs': cs, 'store': store}
        else:
            vf = rng.choice([1, 2, 3, 8])
            b = cs * vf
            lens = [rng.choice([0, 1, 2, b - 1, b, b, rng.randint(0, b)]) for _ in range(Ls)]
            if rng.random() < 0.1:
                lens[rng.randrange(Ls)] = b + rng.randint(1, 3)
            lens = [max(0, x) for x in lens]
            yield {'op': 'istream', 'strs': _strs([x for x in lens]), 'map': m, 'inv': inv, 'cs': cs, 'vf': vf,
                   'store': store}
    yield from _gen_unordered_random(big, rng)
    if os.environ.get('C04_BASE'):      # development aid: the generators as they were before the strengthening round
        return
    yield from _gen_histories(big, rng)
    yield from _gen_defaults(big, rng)
    yield from _gen_callforms(big, rng)
    yield from _gen_extremes(big, rng)
    yield from _gen_text(big, rng)
    yield from _gen_scaled(big, rng)


# ---- histories of calls on the same fields (coq/Model/MapHistory.v) -------------------------------------
STEP_NAMES = ['stream', 'istream', 'mapvalid', 'safe', 'isafe', 'self']


def _mk_steps(names, cs, vf, rot):
    out = []
    for j, nm in enumerate(names):
        c = 1 + (cs + j * (rot % 3)) % 6 if j else cs
        if nm in ('stream', 'self'):
            out.append([nm, c])
        elif nm == 'istream':
            out.append([nm, c, max(vf, -(-2 // c))])          # buffer >= 2 bytes: every entry of the pattern fits
        else:
            out.append([nm])
    return out


def _self_ok(m):
    return all(k is None or k < len(m) for k in m)


def _gen_histories(big, rng):
    """exhaustive: every map of length <= Nh over sources of length <= Lh x 3 markers x EVERY ordered pair of the six
    call kinds (thorough: every triple as well) on one map field / one numeric source / one indexed source;
    then random longer histories (2-5 calls) over longer maps"""
    Nh, Lh = (4, 3) if big else (3, 3)
    lens = [1, 0, 2, 1]
    rot = 0
    seqs = [list(t) for t in itertools.product(STEP_NAMES, repeat=2)]
    if big:
        seqs += [list(t) for t in itertools.product(STEP_NAMES, repeat=3)]
    for Ls in range(1, Lh + 1):
        for n in range(1, Nh + 1):
            maps = list(all_maps(n, Ls))
            if n <= 3:
                maps += list(all_maps_any(n, Ls))
            for m in maps:
                if Ls < Lh and Ls - 1 not in m:
                    continue
                for inv in (0, 1, 2):
                    for names in seqs:
                        if 'self' in names and not _self_ok(m):
                            continue
                        rot += 1
                        if len(names) == 3 and rot % 5:
                            continue
                        cs = 1 + rot % (n + 1)
                        c = {'op': 'hist', 'kind': (['int32'] * 3 + NUM_KINDS)[rot % 9], 'map': m, 'inv': inv,
                             'strs': _strs(lens[:Ls]), 'steps': _mk_steps(names, cs, 1 + rot % 2, rot),
                             'store': 'h5' if rot % 48 == 0 else 'mem'}
                        c['data'] = _data(c['kind'], Ls)
                        if inv == 0 and rot % 2:
                            c['mdt'] = 'int64'
                        yield c
    for k in range(3000 if big else 700):
        Ls = rng.randint(1, 30)
        cs = rng.choice([1, 2, 3, 4, 5, 8])
        n = rng.randint(1, 30)
        if k % 3 == 0:
            m = [None if rng.random() < 0.3 else rng.randrange(Ls) for _ in range(n)]
        else:
            m, cur = [], 0
            for _ in range(n):
                if rng.random() < 0.3:
                    m.append(None)
                else:
                    cur = min(Ls - 1, cur + rng.choice([0, 1, 1, 2, cs]))
                    m.append(cur)
        names = [rng.choice(STEP_NAMES) for _ in range(rng.randint(2, 5))]
        names = [nm for nm in names if nm != 'self' or _self_ok(m)] or ['stream', 'mapvalid']
        steps = []
        for nm in names:
            c = rng.choice([1, 2, 3, 4, 5, 8, cs, cs])
            steps.append([nm, c] if nm in ('stream', 'self') else [nm, c, rng.choice([1, 2, 3, 8])] if nm == 'istream' else [nm])
        bmin = min([st[1] * st[2] for st in steps if st[0] == 'istream'] or [4])
        strs = _strs([rng.choice([0, 1, 2, bmin, bmin, rng.randint(0, bmin)]) for _ in range(Ls)])
        kind = rng.choice(NUM_KINDS)
        data = [rng.randint(0, 1) for _ in range(Ls)] if kind == 'bool' else [rng.randint(0, 100) for _ in range(Ls)]
        yield {'op': 'hist', 'kind': kind, 'data': data, 'strs': strs, 'map': m, 'inv': rng.randint(0, 2),
               'steps': steps, 'store': 'h5' if k % 10 == 0 else 'mem'}


# ---- the call form production uses: f(src, map, dst, invalid) with chunksize / value_factor left to their defaults ------
DEFAULT_CS = 1 << 20


def _gen_defaults(big, rng):
    rot = 0
    for n in range(0, 4):
        for m in all_maps(n, 3):
            for cs in range(1, n + 2):
                rot += 1
                inv = rot % 3
                kind = (['int32'] * 2 + NUM_KINDS + ['S3'])[rot % 9]
                yield {'op': 'stream', 'kind': kind, 'data': _data(kind, 3), 'map': m, 'inv': inv, 'cs': cs, 'dflt': 'patched'}
                vf = 1 + rot % 3
                p = str_patterns(3, cs * vf)
                yield {'op': 'istream', 'strs': _strs(p[rot % len(p)]), 'map': m, 'inv': (inv + 1) % 3, 'cs': cs, 'vf': vf,
                       'dflt': 'patched' if rot % 2 else 'vf'}
    for k in range(24 if big else 8):          # the real defaults (a 2^20-row buffer: the model takes the same size)
        Ls = rng.randint(1, 12)
        m = [None if rng.random() < 0.3 else rng.randrange(Ls) for _ in range(rng.randint(0, 16))]
        kind = (['int32'] + NUM_KINDS + ['S3'])[k % 8]
        yield {'op': 'stream', 'kind': kind, 'data': _vals(kind, Ls), 'map': m, 'inv': k % 3, 'cs': DEFAULT_CS, 'dflt': 'real',
               'store': 'h5' if k % 4 == 3 else 'mem'}
    if big:
        for k in range(2):                      # indexed: 2^20 offsets and 2^23 bytes of buffer (slow in the model)
            yield {'op': 'istream', 'strs': ['a', '', 'ccc', 'dd'], 'map': [[0, None, 3, 2, 2], [None, 1, 0]][k], 'inv': 1 + k,
                   'cs': DEFAULT_CS, 'vf': 8, 'dflt': 'real'}


# ---- call forms: optional arguments OMITTED, the library's own defaults, nothing patched (Model/MapCallForms.v) ------
DEFAULT_VF = 8


def _form_case(c, form, pcs):
    """complete a stream / istream case with its call form: resolved sizes (what operations.py defines as defaults
    when the argument is omitted) and the proxy sizes through which the model evaluates the call"""
    c = dict(c)
    ig, fcs, fvf = form
    if c['op'] == 'istream':
        c['strs'] = _cap_model_cost(c['strs'], c['map'], c.pop('heavy', False))
    c['form'] = [1 if ig else 0, fcs, fvf]
    c['cs'] = DEFAULT_CS if fcs is None else fcs
    pcs = max(1, pcs)
    if c['op'] == 'istream':
        c['vf'] = DEFAULT_VF if fvf is None else fvf
        ml = [_bl(c['strs'][k]) for k in c['map'] if k is not None and 0 <= k < len(c['strs'])]
        c['proxy'] = [pcs, max(1, -(-max(ml + [1]) // pcs))]
    else:
        c['proxy'] = [pcs, 1]
    return c


def _cap_model_cost(strs, m, heavy):
    """the list model writes a value buffer of B bytes in O(B) per byte, and the proxy buffer is as long as the longest
    mapped entry: a case costs about B x (sum of the mapped entries' lengths) steps. Entries of several KB mapped by long
    maps are kept in the designated heavy cases only; elsewhere the longest mapped entries are shortened until the
    case costs about 6 x 10^5 steps (e.g. one 750-byte entry mapped once, or a 53-byte entry mapped 200 times)"""
    cap = 1.7e7 if heavy else 6.0e5
    strs = list(strs)
    rows = [k for k in m if k is not None and 0 <= k < len(strs)]
    for _ in range(200):
        if not rows or max(len(strs[k]) for k in rows) * sum(len(strs[k]) for k in rows) <= cap:
            break
        k = max(rows, key=lambda r: len(strs[r]))
        strs[k] = strs[k][:len(strs[k]) * 3 // 4]
    return strs


def _forms(op, rot, n, K=None):
    """the subsets of the optional size arguments: none, each alone, both"""
    small = [1, 2, 3, max(1, n), n + 1, 4, 7, 16, 64, 1024] + ([max(1, K - 1), K, K + 1] if K else [])
    c = small[rot % len(small)]
    if op == 'stream':
        return [(None, None), (c, None)]
    v = ([1, 2, 8, 16, 3] + ([K] if K else []))[rot % (6 if K else 5)]
    return [(None, None), (None, v), (c, None), (c, v)]


def _entry_lens(n, rot, K=None):
    """byte lengths of source entries around 8 x len(map) (the value buffer a chunk of len(map) rows would get with the
    default value factor) and up to a few KB"""
    e = 8 * n
    pool = [0, 1, 7, 8, 9, max(0, e - 1), e, e + 1, 2 * e + 5, 53, 255, 256, 300, 1000, 3000]
    if K:
        pool += [max(0, K - 1), K, K + 1, 8 * K - 1, 8 * K, 8 * K + 1]
    return pool


def _gen_callforms(big, rng):
    from harness import hot
    rot = 0
    # -- exhaustive: every map of length <= 3 over sources of length <= 3, every subset of the size arguments
    for Ls in range(0, 4):
        for n in range(0, 4):
            maps = list(all_maps(n, Ls)) + (list(all_maps_any(n, Ls)) if n >= 2 and Ls >= 2 else [])
            for m in maps:
                if 0 < Ls < 3 and Ls - 1 not in m and n > 0:
                    continue
                pool = _entry_lens(n, rot)
                for cs_, vf_ in _forms('istream', rot, n):
                    for rep in range(2):
                        rot += 1
                        inv = rot % 3
                        lens = [pool[(rot * 7 + 3 * i * i + i) % len(pool)] for i in range(Ls)]
                        if rep and [k for k in m if k is not None]:     # the long entry is a MAPPED one
                            lens[[k for k in m if k is not None][rot % len([k for k in m if k is not None])]] = \
                                [53, 8 * n + 1, 16 * n + 5, 300, 1000, 3000][rot % 6]
                        c = {'op': 'istream', 'strs': _strs(lens), 'map': m, 'inv': inv, 'kwinv': rot % 4 == 0,
                             'heavy': rot % 40 == 0 and big}
                        if inv == 0 and rot % 2:
                            c['mdt'] = 'int64'
                        yield _form_case(c, [0 if inv == 0 and rot % 5 < 3 else 1, cs_, vf_], [1, 2, 3, 4, 16][rot % 5])
                for cs_, vf_ in _forms('stream', rot, n):
                    rot += 1
                    inv = rot % 3
                    kind = (['int32'] * 2 + NUM_KINDS + ['S3'])[rot % 9]
                    c = {'op': 'stream', 'kind': kind, 'data': _data(kind, Ls), 'map': m, 'inv': inv, 'kwinv': rot % 4 == 0}
                    if inv == 0 and rot % 2:
                        c['mdt'] = 'int64'
                    yield _form_case(c, [0 if inv == 0 and rot % 5 < 3 else 1, cs_, vf_], 1 + rot % 4)
    # -- structured random: maps short / long relative to the source, entries up to a few KB, production paths
    hots = [K for K in hot.hot_sizes() if K <= 600]
    budget = (6000 if big else 1500) * (2 if hot.changed() else 1)
    for k in range(budget):
        K = rng.choice(hots) if hots and k % 2 else None
        shape = rng.choice(['short-map', 'long-map', 'balanced', 'all-invalid', 'empty-map', 'one-row'])
        Ls = rng.choice([1, 2, 3, 5, 12, 40]) if shape != 'short-map' else rng.choice([8, 40, 120, 300])
        if K and rng.random() < 0.3:
            Ls = max(1, rng.choice([K - 1, K, K + 1]))
        n = {'short-map': rng.randint(1, 4), 'long-map': rng.choice([Ls + 1, 2 * Ls, 8 * Ls, 50, 300]),
             'balanced': rng.randint(max(1, Ls - 2), Ls + 2), 'all-invalid': rng.choice([1, 2, 3, 9, 70]),
             'empty-map': 0, 'one-row': 1}[shape]
        if K and rng.random() < 0.3:
            n = max(0, rng.choice([K - 1, K, K + 1, 2 * K]))
        n = min(n, 600)
        via = None
        r = rng.random()
        if k % 12 == 0 and n >= 1:
            via = 'merge'
        elif k % 12 == 1 and n >= 1:
            via = 'session'
        if shape == 'all-invalid':
            m = [None] * n
        elif via or rng.random() < 0.6:
            m, cur, gap = [], rng.randrange(Ls) if shape == 'short-map' else 0, False
            for _ in range(n):
                if rng.random() < 0.25:
                    m.append(None)
                    gap = True
                else:
                    step = rng.choice([0, 1, 1, 2, Ls // 2])
                    if via and gap and m and step == 0 and any(x is not None for x in m):
                        step = 1        # an unmatched key of an ordered join lies strictly between two right rows
                    if cur + step > Ls - 1 and via and gap and any(x is not None for x in m):
                        m.append(None)
                        continue
                    cur = min(Ls - 1, cur + step)
                    m.append(cur)
                    gap = False
        else:
            m = [None if rng.random() < 0.25 else rng.randrange(Ls) for _ in range(n)]
        sel = 'istream' if (k % 3 or via == 'merge') and via != 'session' else 'stream'
        if via == 'merge' and k % 24 == 0:
            sel = 'stream'
        forms = _forms(sel, rng.randrange(1000), n, K)
        form = forms[0] if via or rng.random() < 0.4 else rng.choice(forms)
        inv = 1 if via == 'merge' else rng.choice([1, 2]) if via == 'session' else rng.randint(0, 2)
        ig = 1 if via or inv != 0 or rng.random() < 0.4 else 0
        c = {'map': m, 'inv': inv, 'kwinv': rng.random() < 0.3, 'store': 'h5' if k % 16 == 5 and not via == 'session' else 'mem'}
        if via:
            c['via'] = via
        if inv == 0 and rng.random() < 0.5:
            c['mdt'] = 'int64'
        if sel == 'istream':
            pool = _entry_lens(n, 0, K)
            lens = [rng.choice(pool) if rng.random() < 0.5 else rng.choice([0, 1, 2, 5]) for _ in range(Ls)]
            big_one = rng.choice([8 * n + 1, 16 * n + 5, 53, 300, 1000, 2047, 4096] + ([8 * K + 1] if K else []))
            valid = [x for x in m if x is not None]
            if valid and rng.random() < 0.7:
                lens[rng.choice(valid)] = big_one              # one mapped entry far longer than 8 x len(map)
            elif rng.random() < 0.5:
                lens[rng.randrange(Ls)] = big_one
            if k % 50 == 7 and valid:                         # the designated heavy cases: an entry of 1-4 KB, mapped
                lens[valid[0]] = rng.choice([1000, 2047, 3000, 4096])
            if sum(lens) > 40000:
                lens = [x if x > 64 and i % 7 == 0 else min(x, 9) for i, x in enumerate(lens)]
            c.update({'op': 'istream', 'strs': _strs(lens), 'heavy': k % 50 == 7})
        else:
            kind = rng.choice(['int32'] + NUM_KINDS + ([] if via == 'session' else ['S3']))
            c.update({'op': 'stream', 'kind': kind, 'data': _vals(kind, Ls)})
        yield _form_case(c, [ig, form[0], form[1]], rng.choice([1, 2, 3, 5, 8, 16, min(64, max(1, n))]))
    # -- empty sources (only all-invalid / empty maps are in range)
    for n in (0, 1, 2, 5):
        for inv in (0, 1, 2):
            for form in ((None, None), (2, None), (None, 2)):
                rot += 1
                yield _form_case({'op': 'istream', 'strs': [], 'map': [None] * n, 'inv': inv, 'kwinv': rot % 2 == 0},
                                 [1 if inv else rot % 2, form[0], form[1]], 2)
                if form[1] is None:
                    kind = (NUM_KINDS + ['S3'])[rot % 7]
                    yield _form_case({'op': 'stream', 'kind': kind, 'data': [], 'map': [None] * n, 'inv': inv},
                                     [1 if inv else rot % 2, form[0], None], 2)


# ---- source values at the extremes of their type ----------------------------------------------------------
EXTREME = {
    'int64': [(1 << 63) - 1, -(1 << 63), (1 << 53) + 1, -(1 << 53) - 1, 1 << 62, -1, 0, (1 << 31) - 1],
    'int32': [(1 << 31) - 1, -(1 << 31), -1, 0, 1 << 30, 65536, -2, 1],
    'uint8': [255, 0, 128, 127, 1, 254, 48, 2],
    'f64b': [0x7ff8000000000000, 0x8000000000000000, 0x7ff0000000000000, 0xfff0000000000000, 1, 0x7fefffffffffffff,
             0x3ff0000000000000, 0xfff8000000000001],
    'f32b': [0x7fc00000, 0x80000000, 0x7f800000, 0xff800000, 1, 0x7f7fffff, 0x3f800000, 0xffc00001],
}


def _gen_extremes(big, rng):
    """every map of length <= 3 over 3 extreme source values per kind, plus random longer ones"""
    rot = 0
    for kind, pool in EXTREME.items():
        for off in range(0, len(pool) - 2, 2 if not big else 1):
            data = pool[off:off + 3]
            for n in range(1, 4):
                for m in all_maps(n, 3):
                    rot += 1
                    inv = rot % 3
                    yield {'op': 'stream', 'kind': kind, 'data': data, 'map': m, 'inv': inv, 'cs': 1 + rot % 3}
                    if rot % 2:
                        yield {'op': 'mapvalid', 'kind': kind, 'data': data, 'map': m, 'inv': inv}
                    else:
                        yield {'op': 'safe', 'kind': kind, 'data': data, 'map': m, 'inv': inv, 'ev': None}
        for k in range(300 if big else 60):
            Ls = rng.randint(1, 20)
            data = [rng.choice(pool) for _ in range(Ls)]
            m = [None if rng.random() < 0.3 else rng.randrange(Ls) for _ in range(rng.randint(1, 24))]
            yield {'op': 'stream', 'kind': kind, 'data': data, 'map': m, 'inv': rng.randint(0, 2),
                   'cs': rng.choice([1, 2, 3, 5, 8]), 'store': 'h5' if k % 10 == 0 else 'mem'}


NONASCII = ['\u00e9', '\u20aca', '\U0001d11e', '', 'a\u00e9\u20ac', 'z']      # 2, 4, 4, 0, 6, 1 bytes; 1, 2, 1, 0, 3, 1 characters


def _gen_text(big, rng):
    """indexed sources whose entries are non-ASCII (characters != bytes) with value buffers between the longest entry's
    character count and its byte count; entries of 255 / 256 / 257 / 300 bytes (offsets beyond one byte)"""
    rot = 0
    for n in range(1, 4):
        for m in all_maps(n, 3):
            for off in range(0, 4):
                strs = NONASCII[off:off + 3]
                mb = max([_bl(strs[k]) for k in m if k is not None] or [1])
                mc = max([len(strs[k]) for k in m if k is not None] or [1])
                for b in sorted(set([max(1, mc), max(1, mb - 1), max(1, mb), mb + 1, 2 * mb])):
                    rot += 1
                    cs = 1 + rot % 3
                    vf = -(-b // cs)
                    if cs * vf != b and not (mb <= cs * vf):
                        continue
                    yield {'op': 'istream', 'strs': strs, 'map': m, 'inv': rot % 3, 'cs': cs, 'vf': vf}
                    if rot % 4 == 0:
                        yield {'op': 'isafe', 'strs': strs, 'map': m, 'inv': rot % 3, 'ev': None if rot % 8 else '\u00e9'}
                    if rot % 5 == 0:
                        yield {'op': 'hist', 'kind': 'int32', 'data': [1, 2, 3], 'strs': strs, 'map': m, 'inv': rot % 3,
                               'steps': [['istream', cs, vf], ['isafe'], ['istream', cs + 1, vf]], 'store': 'mem'}
    for k in range(400 if big else 80):
        Ls = rng.randint(1, 6)
        lens = [rng.choice([0, 1, 255, 256, 257, 300, 511, 512]) for _ in range(Ls)]
        m = [None if rng.random() < 0.25 else rng.randrange(Ls) for _ in range(rng.randint(1, 8))]
        cs = rng.choice([1, 2, 3, 4, 8, 16, 64, 256])
        need = max(lens)
        vf = max(1, -(-rng.choice([need, need, 256, 257, 512, need + 1]) // cs))
        yield {'op': 'istream', 'strs': _strs(lens), 'map': m, 'inv': rng.randint(0, 2), 'cs': cs, 'vf': vf,
               'store': 'h5' if k % 10 == 0 else 'mem'}
        if k % 3 == 0:
            yield {'op': 'isafe', 'strs': _strs(lens), 'map': m, 'inv': rng.randint(0, 2), 'ev': None}


# ---- scaled cases: chunk sizes / run lengths of tens to hundreds (beyond the exhaustive scope) -------------
def _vals(kind, L):
    """source values in which neighbouring rows differ (a row shifted by one shows)"""
    if kind == 'S3':
        return ['%c%c' % (97 + k % 26, 97 + (k // 26) % 26) for k in range(L)]
    if kind == 'bool':
        return [(k * 5 // 3) % 2 for k in range(L)]
    return [(k * 37 + 11) % 251 for k in range(L)]


def near_identity_map(rng, n, cs, unordered_ok=True):
    """a long, almost 1:1 map (what a join on sorted, nearly unique keys produces) with a few planted events:
    a repeat compensated by a skipped source row ([.., 40, 40, 42, ..]), an unmatched row in place of a row
    (compensated) or inserted (not), a skip, a block of equal entries followed by a jump, a swapped pair.
    Compensated events keep first entry, last entry and entry count equal to those of the pure 1:1 run."""
    m = list(range(rng.choice([0, 0, 1, 3]), 0 + n + 3))[:n]
    ev = rng.choice([0, 1, 1, 1, 2, 2, 3, 4])
    spots = [0, 1, n - 1, n - 2, cs - 1, cs, cs + 1, cs // 2, 2 * cs - 1, 2 * cs, n // 2]
    for _ in range(ev):
        i = rng.choice(spots) if rng.random() < 0.4 else rng.randrange(max(1, n))
        if not (0 <= i < len(m)) or not m:
            continue
        kind = rng.choice(['rep-skip', 'rep-skip', 'fwd-rep', 'inv-inplace', 'inv-inplace', 'inv-insert', 'rep-insert',
                           'skip', 'block', 'swap', 'inv-run'])
        if kind == 'rep-skip' and i > 0 and m[i - 1] is not None:
            m[i] = m[i - 1]
        elif kind == 'fwd-rep' and i + 1 < len(m) and m[i + 1] is not None:
            m[i] = m[i + 1]                  # with a rep-skip elsewhere the SUM of the entries is that of the 1:1 run too
        elif kind == 'inv-inplace':
            m[i] = None
        elif kind == 'inv-insert':
            m.insert(i, None)
        elif kind == 'rep-insert' and m[i] is not None:
            m.insert(i, m[i])
        elif kind == 'skip':
            d = rng.choice([1, 1, 2, cs - 1, cs, cs + 1])
            m = m[:i] + [None if k is None else k + d for k in m[i:]]
        elif kind == 'block' and m[i] is not None:
            w = rng.choice([2, 3, 5])
            for j in range(i, min(len(m), i + w)):
                if m[j] is not None:
                    m[j] = m[i]
        elif kind == 'swap' and unordered_ok and i + 1 < len(m):
            m[i], m[i + 1] = m[i + 1], m[i]
        elif kind == 'inv-run':
            w = rng.choice([2, cs - 1, cs, cs + 1])
            for j in range(i, min(len(m), i + w)):
                m[j] = None
    return m[:max(n, 1)] if rng.random() < 0.7 else m


def _scaled_case(rng, cs, n, sel, hot_k=None):
    m = near_identity_map(rng, n, cs)
    valid = [k for k in m if k is not None]
    Ls = (max(valid) + 1 if valid else 1) + rng.choice([0, 0, 1, 7])
    inv = rng.randint(0, 2)
    store = 'h5' if rng.random() < 0.04 else 'mem'
    kinds = ['int32', 'int32', 'int64', 'uint8', 'float32', 'float64', 'bool', 'S3']
    if sel == 'stream':
        kind = rng.choice(kinds)
        return {'op': 'stream', 'kind': kind, 'data': _vals(kind, Ls), 'map': m, 'inv': inv, 'cs': cs, 'store': store}
    if sel == 'istream':
        vf = rng.choice([1, 1, 2, 3])
        if cs >= 1000:
            vf = 1
        b = cs * vf
        w = [0, 1, 1, 2, 3] + ([hot_k - 1, hot_k, hot_k + 1] if hot_k and hot_k + 1 <= b and hot_k <= 300 else [])
        lens = [rng.choice(w) for _ in range(Ls)]
        if rng.random() < 0.25:
            lens = [rng.choice([1, 2, 3])] * Ls          # all entries equally long (a fixed-width column in disguise)
        if rng.random() < 0.3:
            lens[rng.randrange(Ls)] = b
        return {'op': 'istream', 'strs': _strs(lens), 'map': m, 'inv': inv, 'cs': cs, 'vf': vf, 'store': store}
    if sel == 'helper':
        kind = rng.choice(kinds)
        r = rng.random()
        if r < 0.4:
            return {'op': 'mapvalid', 'kind': kind, 'data': _vals(kind, Ls), 'map': m, 'inv': inv}
        if r < 0.8:
            return {'op': 'safe', 'kind': kind, 'data': _vals(kind, Ls), 'map': m, 'inv': inv, 'ev': None}
        return {'op': 'isafe', 'strs': _strs([rng.choice([0, 1, 2, 3]) for _ in range(Ls)]), 'map': m, 'inv': inv,
                'ev': None if rng.random() < 0.5 else 'xy'}
    # history at scale
    names = [rng.choice(STEP_NAMES) for _ in range(rng.randint(2, 3))]
    names = [nm for nm in names if nm != 'self' or _self_ok(m)] or ['stream', 'safe']
    steps = [[nm, rng.choice([cs, cs, cs + 1, max(1, cs - 1), 2 * cs])] if nm in ('stream', 'self') else
             [nm, cs, rng.choice([1, 2, 3])] if nm == 'istream' else [nm] for nm in names]
    kind = rng.choice(NUM_KINDS)
    return {'op': 'hist', 'kind': kind, 'data': _vals(kind, Ls), 'strs': _strs([rng.choice([0, 1, 1, 2, 3]) for _ in range(Ls)]),
            'map': m, 'inv': inv, 'steps': steps, 'store': store}


SCALED_CS = [16, 17, 31, 32, 33, 48, 63, 64, 65, 100, 127, 128, 129, 200, 255, 256, 257]


def _gen_scaled(big, rng):
    """chunk sizes of tens to hundreds (powers of two and their neighbours, and random ones) with map lengths around
    1, 2 and 3 chunks; then the change-directed part: every small integer literal that is NEW in the tree under test
    (harness/hot.py) is planted as chunk size, map length, run length and entry byte width (K-1, K, K+1, 2K, ...)"""
    from harness import hot
    mult = 2 if hot.changed() else 1
    plan = [('stream', 5000 if big else 1500), ('istream', 2000 if big else 600), ('helper', 1000 if big else 400),
            ('hist', 1000 if big else 400)]
    for sel, cnt in plan:
        for _ in range(cnt * mult):
            cs = rng.choice(SCALED_CS) if rng.random() < 0.7 else rng.randint(16, 300)
            n = rng.choice([cs - 1, cs, cs + 1, 2 * cs, 2 * cs + 1, rng.randint(cs // 2, 3 * cs + 2), 3 * cs])
            if sel in ('istream', 'hist') and cs > 130:
                n = min(n, cs + 1)
            yield _scaled_case(rng, cs, n, sel)
    # a few chunk sizes in the thousands (the model is quadratic there: seconds per case)
    for cs in ([1000, 1023, 1024, 1025] + ([2048, 4095, 4096, 4097] if big else [])):
        for sel in ('stream', 'stream', 'istream', 'helper'):
            for n in ((cs - 1, cs, cs + 1, 2 * cs) if big or cs == 1024 else (cs + 1,)):
                if cs > 1025 and sel == 'istream' and n > cs + 1:
                    continue
                yield _scaled_case(rng, cs, n, sel)
    for K in hot.hot_sizes():
        small = K <= 300
        for sel, cnt in [('stream', 1400), ('istream', 500), ('helper', 400), ('hist', 300)]:
            cnt = cnt * (3 if big else 1)
            if not small:
                if sel in ('istream', 'hist'):
                    continue
                cnt = max(20, cnt * 300 // (K * 4))
            for _ in range(cnt):
                cs = max(1, rng.choice([K - 1, K, K + 1, 2 * K, 2 * K + 1, 3 * K, max(2, K // 2), K + K // 2]))
                n = max(1, rng.choice([K - 1, K, K + 1, 2 * K, cs - 1, cs, cs + 1, 2 * cs, cs + K, rng.randint(1, 2 * cs + 2)]))
                yield _scaled_case(rng, cs, n, sel, hot_k=K)


def _gen_unordered_random(big, rng):
    other_kinds = ['int64', 'uint8', 'float32', 'float64', 'bool', 'S3']
    for k in range(4000 if big else 1000):
        Ls = rng.randint(2, 30)
        cs = rng.choice([1, 2, 3, 4, 5, 8])
        mode = rng.choice(['sawtooth', 'perm', 'zigzag', 'random'])
        if mode == 'sawtooth':          # right-hand map of a many-to-many join: runs a..b repeated p times
            m, a = [], 0
            while a < Ls and len(m) < 40:
                q = rng.choice([1, 1, 2, 3, cs, cs + 1])
                b = min(Ls, a + q)
                p = rng.choice([1, 2, 2, 3])
                if rng.random() < 0.2:
                    m.append(None)
                m.extend(list(range(a, b)) * p)
                a = b + rng.choice([0, 0, 1, cs])
        elif mode == 'perm':
            m = list(range(Ls)); rng.shuffle(m); m = m[:rng.randint(2, Ls)]
        elif mode == 'zigzag':          # alternate between the two ends of the source
            m = [(0 if i % 2 else Ls - 1) if rng.random() < 0.8 else rng.randrange(Ls) for i in range(rng.randint(2, 20))]
        else:
            m = [None if rng.random() < 0.25 else rng.randrange(Ls) for _ in range(rng.randint(2, 30))]
        inv = rng.randint(0, 2)
        store = 'h5' if k % 10 == 0 else 'mem'
        if k % 2:
            kind = rng.choice(['int32'] + other_kinds)
            data = [rng.choice(['', 'a', 'bc', 'def']) for _ in range(Ls)] if kind == 'S3' else \
                   [rng.randint(0, 1) for _ in range(Ls)] if kind == 'bool' else [rng.randint(0, 100) for _ in range(Ls)]
            yield {'op': 'stream', 'kind': kind, 'data': data, 'map': m, 'inv': inv, 'cs': cs, 'store': store}
        else:
            vf = rng.choice([1, 2, 3, 8])
            b = cs * vf
            lens = [max(0, rng.choice([0, 1, 2, b - 1, b, b, rng.randint(0, b)])) for _ in range(Ls)]
            if rng.random() < 0.05:
                lens[rng.randrange(Ls)] = b + rng.randint(1, 3)
            yield {'op': 'istream', 'strs': _strs(lens), 'map': m, 'inv': inv, 'cs': cs, 'vf': vf, 'store': store}


def _strs(lens):  # noqa: F811  (letters wrap for long sources)
    return [chr(97 + i % 26) * n for i, n in enumerate(lens)]


def shrink(case):
    m = case['map']
    if case['op'] == 'hist':
        st = case['steps']
        for i in range(len(st)):
            if len(st) > 1:
                c = dict(case); c['steps'] = st[:i] + st[i + 1:]; yield c
        for i in range(len(st)):
            for j in (1, 2):
                if len(st[i]) > j and st[i][j] > 1:
                    c = dict(case); c['steps'] = [list(x) for x in st]; c['steps'][i][j] = st[i][j] // 2 if j == 1 else st[i][j] - 1
                    yield c
    if len(m) > 24:
        for a, b in ((0, len(m) // 2), (len(m) // 2, len(m)), (0, len(m) // 4), (len(m) - len(m) // 4, len(m))):
            c = dict(case); c['map'] = m[:a] + m[b:]; yield c
    for i in range(len(m)):
        c = dict(case)
        c['map'] = m[:i] + m[i + 1:]
        yield c
    if 'form' in case:
        if case.get('via'):
            c = dict(case); del c['via']; yield c
        if case.get('kwinv'):
            c = dict(case); c['kwinv'] = False; yield c
        if case['op'] == 'istream':
            for i, sv in enumerate(case['strs']):          # shorter entries (the map and the sizes stay)
                if len(sv) > 1:
                    c = dict(case); c['strs'] = list(case['strs']); c['strs'][i] = sv[:len(sv) // 2]
                    yield _form_case(c, case['form'], case['proxy'][0])
    elif case['op'] in ('stream', 'istream'):
        for cs in range(1, case['cs']):
            c = dict(case); c['cs'] = cs; yield c
    if 'form' not in case and case['op'] == 'istream' and case['vf'] > 1:
        c = dict(case); c['vf'] = case['vf'] - 1; yield c
    used = [k for k in m if k is not None]
    for key in ('strs', 'data'):
        d = case.get(key)
        if d and (not used or max(used) < len(d) - 1):
            c = dict(case); c[key] = d[:-1]; yield c
    if case.get('store') == 'h5':
        c = dict(case); c['store'] = 'mem'; yield c


TECHNIQUE = ('Coq proof (faithful model of the streamed and non-streamed map drivers/kernels = map_spec for every '
             'marker and chunk size) + exhaustive small-scope differential correspondence against /repo in JIT, '
             'interpreted and bounds-checked modes')
LEVEL_TEXT = ('Theorems in coq/Props/C04.v about the Gallina model coq/Model/MapStream.v of ordered_map_valid_stream, '
              'ordered_map_valid_indexed_stream, safe_map_values, safe_map_indexed_values and map_valid; the model is '
              'tied to /repo by running the extracted model and the real functions on the same generated cases. Algebra: mapping '
              'twice = mapping once through the composed map (map_spec_compose, map_stream_twice for any chunk sizes).')
LEVEL_NOTE = ('Trusted: Coq kernel, extraction, harness, numba/numpy. The model is hand-written; the `Orig` version of '
              'the drivers (code before the fixes) is kept for the `_refuted` theorems and was run once against the '
              'unrepaired tree (C04_VARIANT=orig).')
