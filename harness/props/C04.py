"""C04 — mapping a column through a join map (operations.py) vs coq/Model/MapStream.v.

Case dicts (JSON):
  {'op':'stream',  'kind':K, 'data':[...], 'map':[k|None...], 'inv':0|1|2, 'cs':n, 'store':'mem'|'h5'}
  {'op':'istream', 'strs':[str...],        'map':..., 'inv':..., 'cs':n, 'vf':n, 'store':...}
  {'op':'safe',    'kind':K, 'data':[...], 'map':..., 'inv':..., 'ev':None|value}
  {'op':'isafe',   'strs':[...],           'map':..., 'inv':..., 'ev':None|str}
  {'op':'mapvalid','kind':K, 'data':[...], 'map':..., 'inv':...}
K in NUM_KINDS (small integral values) or 'S3' (data = list of ascii strings of length <= 3).
A None in 'map' is the invalid marker selected by 'inv' (0: -1, 1: INVALID_INDEX_32, 2: INVALID_INDEX_64).
The environment variable C04_VARIANT=orig makes the *model* the code as found (used once to tie the
`…_refuted` theorems to the unrepaired tree), C04_VARIANT=fixed0 the code after the C04 fixes but before
work/E7/fix-F-C02f.diff (ties map_stream_unordered_map_refuted / indexed_stream_unordered_map_refuted to that
tree); the default model is the repaired code.
"""
import itertools, os

PROP, NUM = 'C04', 4
PROPS_FILES = ['Props/C04.v']
MODES = ['jit', 'nojit']
MODES_THOROUGH = ['jit', 'nojit', 'bounds']
LEVEL = 'proof'
HANG_TIMEOUT_S = 2.0
TIMEOUT_S = 6.0

INV = [-1, (1 << 31) - 1, 1 << 62]
INV_NAME = ['-1', 'S32', 'S64']
NUM_KINDS = ['int32', 'int64', 'uint8', 'float32', 'float64', 'bool']
VARIANT = {'orig': 1, 'fixed0': 2}.get(os.environ.get('C04_VARIANT', 'fixed'), 0)

RULE = ('exhaustive small scope: every map of length <= N whose valid entries are non-decreasing indices into a '
        'source of length <= L with invalid markers at any positions (quick N=5,L=4; thorough N=6,L=5), AND every map '
        'of length <= Nu over a source of length <= Lu with the valid entries in ANY order (quick Nu=5,Lu=4; thorough '
        'Nu=6,Lu=4; one source kind and one value_factor per (map, chunk size) in the quick tier, rotating; since fix-F-C02f the streams accept them) x marker in '
        '{-1, INVALID_INDEX_32, INVALID_INDEX_64} x chunk size 1..N+1 x source kind (int32 exhaustively; int64, '
        'uint8, float32, float64, bool, fixed string S3 rotated over the maps), for ordered_map_valid_stream; the same '
        'maps x value_factor 1..3 x source string-length patterns built around the value-buffer size B = cs*vf '
        '(empty entries, entries of exactly B bytes, B+1 bytes mapped = clear-error regime, B+1 unmapped) for '
        'ordered_map_valid_indexed_stream; all maps for safe_map_values / safe_map_indexed_values / map_valid; then '
        'seeded structured random longer cases (all-invalid chunks, gaps larger than a chunk, HDF5-backed fields; '
        'unordered: saw-tooth maps of many-to-many joins, random permutations, zig-zags between the two ends of the '
        'source). '
        'Non-trivial = the case reaches at least one planted feature other than its marker/kind tags.')
EXHAUSTIVE = {'quick': True, 'thorough': True}
TRUSTED = ['numba code generation; numpy slicing/fill semantics (modelled by np_slice / np_slice_fill / np_get)',
           'MemoryFieldArray / HDF5 field write, write_part (modelled as list append)',
           'map dtype int32 for markers -1 and INVALID_INDEX_32, int64 for INVALID_INDEX_64 (and rotated for -1)']
ASSUMPTIONS = ['valid map entries are in range (the property quantifies over non-decreasing maps; since fix-F-C02f the '
               'streams are correct for every order, which is what DataFrame.merge needs for many-to-many keys)',
               'chunksize >= 1, value_factor >= 1',
               'indexed streaming: every *mapped* entry fits the value buffer (chunksize*value_factor); otherwise the '
               'repaired code raises ValueError (checked as correspondence, outside the property)']

_np = _ops = _fields = _session = None
_h5 = {}


def setup():
    global _np, _ops, _fields, _session
    import numpy as np
    from exetera.core import operations as ops, fields, session
    _np, _ops, _fields, _session = np, ops, fields, session


# ------------------------------------------------------------------ field construction
def _marker(case):
    return INV[case['inv']]


def _map_dtype(case):
    if case['inv'] == 2:
        return 'int64'
    return case.get('mdt', 'int32')


def _map_array(case):
    inv = _marker(case)
    return _np.asarray([inv if k is None else k for k in case['map']], dtype=_map_dtype(case))


def _data_array(kind, data):
    np = _np
    if kind == 'S3':
        return np.asarray([x.encode() for x in data], dtype='S3')
    if kind == 'bool':
        return np.asarray([bool(x) for x in data], dtype=bool)
    return np.asarray(data, dtype=kind)


def _h5_df():
    """one in-memory HDF5 dataset per worker process; a fresh dataframe per case"""
    import io
    if 'ds' not in _h5:
        s = _session.Session()
        _h5['s'] = s
        _h5['ds'] = s.open_dataset(io.BytesIO(), 'w', 'ds')
        _h5['n'] = 0
    _h5['n'] += 1
    return _h5['ds'].create_dataframe('df%d' % _h5['n'])


def _num_field(df, name, kind, arr):
    fields = _fields
    if df is None:
        f = fields.FixedStringMemField(None, 3) if kind == 'S3' else fields.NumericMemField(None, kind)
    else:
        f = df.create_fixed_string(name, 3) if kind == 'S3' else df.create_numeric(name, kind)
    if arr is not None and len(arr) > 0:
        f.data.write(arr)
    return f


def _idx_field(df, name, strs):
    f = _fields.IndexedStringMemField(None, 1 << 20) if df is None else df.create_indexed_string(name)
    if strs is not None and len(strs) > 0:
        f.data.write(strs)
    return f


def _canon_elems(kind, arr):
    if kind == 'S3':
        return [list(bytes(x)) for x in arr]
    return [int(x) for x in arr]


def run(case):
    np, ops = _np, _ops
    op = case['op']
    inv = _marker(case)
    if op == 'stream':
        df = _h5_df() if case.get('store') == 'h5' else None
        kind = case['kind']
        src = _num_field(df, 'src', kind, _data_array(kind, case['data']))
        mp = _num_field(df, 'map', _map_dtype(case), _map_array(case))
        dst = _num_field(df, 'dst', kind, None)
        ops.ordered_map_valid_stream(src, mp, dst, inv, case['cs'])
        return _canon_elems(kind, dst.data[:])
    if op == 'istream':
        df = _h5_df() if case.get('store') == 'h5' else None
        src = _idx_field(df, 'src', case['strs'])
        mp = _num_field(df, 'map', _map_dtype(case), _map_array(case))
        dst = _idx_field(df, 'dst', None)
        ops.ordered_map_valid_indexed_stream(src, mp, dst, inv, case['cs'], case['vf'])
        return [[int(x) for x in dst.indices[:]], [int(x) for x in dst.values[:]]]
    m = _map_array(case)
    flt = m != inv
    if op == 'safe':
        kind = case['kind']
        d = _data_array(kind, case['data'])
        ev = case['ev']
        if ev is not None:
            ev = d.dtype.type(ev.encode() if kind == 'S3' else ev)
        r = ops.safe_map_values(d, m, flt, ev) if ev is not None else ops.safe_map_values(d, m, flt)
        assert r.dtype == d.dtype and len(r) == len(m)
        return _canon_elems(kind, r)
    if op == 'isafe':
        idx, val = _split(case['strs'])
        di = np.asarray(idx, dtype=np.int64)
        dv = np.asarray(val, dtype=np.uint8)
        if case['ev'] is None:
            i, v = ops.safe_map_indexed_values(di, dv, m, flt)
        else:
            i, v = ops.safe_map_indexed_values(di, dv, m, flt, np.frombuffer(case['ev'].encode(), dtype=np.uint8))
        return [[int(x) for x in i], [int(x) for x in v]]
    if op == 'mapvalid':
        kind = case['kind']
        d = _data_array(kind, case['data'])
        r = ops.map_valid(d, m, invalid=inv)
        assert r.dtype == d.dtype
        return _canon_elems(kind, r)
    raise ValueError(op)


def warmup():
    global run
    real_run = run

    def run(case):          # a defect of the tree under test must not stop the warm-up
        try:
            real_run(case)
        except Exception:
            pass
    try:
        _warmup(run)
    finally:
        run = real_run


def _warmup(run):
    for kind in NUM_KINDS + ['S3']:
        data = ['a', 'bb'] if kind == 'S3' else [1, 0]
        for inv, mdt in ((0, 'int32'), (0, 'int64'), (1, 'int32'), (2, 'int64')):
            run({'op': 'stream', 'kind': kind, 'data': data, 'map': [0, None, 1], 'inv': inv, 'cs': 2, 'mdt': mdt})
            run({'op': 'mapvalid', 'kind': kind, 'data': data, 'map': [0, None, 1], 'inv': inv, 'mdt': mdt})
            for ev in ((None,) if kind == 'S3' else (None, data[0])):   # numba cannot type a bytes empty_value
                run({'op': 'safe', 'kind': kind, 'data': data, 'map': [0, None, 1], 'inv': inv, 'ev': ev, 'mdt': mdt})
    for inv, mdt in ((0, 'int32'), (0, 'int64'), (1, 'int32'), (2, 'int64')):
        run({'op': 'istream', 'strs': ['a', 'bb'], 'map': [0, None, 1], 'inv': inv, 'cs': 2, 'vf': 2, 'mdt': mdt})
        for ev in (None, 'x'):
            run({'op': 'isafe', 'strs': ['a', 'bb'], 'map': [0, None, 1], 'inv': inv, 'ev': ev, 'mdt': mdt})


# ------------------------------------------------------------------ wire
def _split(strs):
    idx, val = [0], []
    for s in strs:
        val.extend(s.encode())
        idx.append(len(val))
    return idx, val


def _wmap(case):
    return [-1000 if k is None else k for k in case['map']]


def _welems(kind, data):
    if kind == 'S3':
        return [list(x.encode()) for x in data]
    if kind == 'bool':
        return [1 if x else 0 for x in data]
    return list(data)


def to_val(case):
    op = case['op']
    head = lambda code: [code, VARIANT, case['inv'], case.get('cs', 1), case.get('vf', 1), _wmap(case)]
    if op == 'stream':
        return head(2 if case['kind'] == 'S3' else 1) + [_welems(case['kind'], case['data'])]
    if op == 'istream':
        idx, val = _split(case['strs'])
        return head(3) + [idx, val]
    if op == 'safe':
        k = case['kind']
        ev = [] if case['ev'] is None else _welems(k, [case['ev']])
        return head(5 if k == 'S3' else 4) + [_welems(k, case['data']), ev]
    if op == 'isafe':
        idx, val = _split(case['strs'])
        ev = [] if case['ev'] is None else [list(case['ev'].encode())]
        return head(6) + [idx, val, ev]
    if op == 'mapvalid':
        k = case['kind']
        return head(8 if k == 'S3' else 7) + [_welems(k, case['data'])]
    raise ValueError(op)


def _derr(v):
    from harness import core
    return core.decode_err(v)


def mapped_too_long(case):
    """indexed streaming outside the property's regime: a mapped entry exceeds the value buffer"""
    if case['op'] != 'istream':
        return False
    b = case['cs'] * case['vf']
    return any(k is not None and 0 <= k < len(case['strs']) and len(case['strs'][k]) > b for k in case['map'])


def in_range(case):
    n = len(case['strs']) if 'strs' in case else len(case['data'])
    return all(k is None or 0 <= k < n for k in case['map'])


def ordered(case):
    v = [k for k in case['map'] if k is not None]
    return all(a <= b for a, b in zip(v, v[1:]))


def in_precondition(case):
    """valid entries in range; the repaired streams (fix-F-C02f) do not need them ordered. With C04_VARIANT=orig /
    fixed0 the streams are held to the specification on ordered maps only (outside: correspondence)."""
    if not in_range(case):
        return False
    if VARIANT and case['op'] in ('stream', 'istream') and not ordered(case):
        return False
    return case.get('cs', 1) >= 1 and case.get('vf', 1) >= 1


def equal(case, impl, expected, mode):
    """default comparison, except for the tie of the PRE-fix-F-C02f models (C04_VARIANT=orig/fixed0) to the pre-fix tree on
    unordered maps: where the model reports an access below the value window, interpreted numpy wraps the negative
    index and goes on with a wrong value (the compiled modes are not run on model-OOB cases)"""
    from harness import core
    if VARIANT and case['op'] in ('stream', 'istream') and not ordered(case) and \
            isinstance(expected, str) and (expected.startswith('OOB') or expected == 'EXC:IndexError'):
        return True     # IndexError, or any behaviour after the wrapped read (wrong rows, a later ValueError)
    return core.results_equal(impl, expected, mode)


def from_val(case, v):
    model, spec = v
    e = _derr(model)
    if e is not None:
        model = e
    if mapped_too_long(case) or not in_precondition(case):
        return (model, model)          # outside the property: correspondence only
    return (model, spec)


# ------------------------------------------------------------------ features
def features(case, model):
    f = []
    op, m = case['op'], case['map']
    f.append('op:' + op)
    f.append('inv=' + INV_NAME[case['inv']])
    if 'kind' in case:
        f.append('kind:' + case['kind'])
    if case.get('store') == 'h5':
        f.append('hdf5-backed')
    if isinstance(model, str):
        f.append('model:' + model.split(':')[0] + (':' + model.split(':')[1] if model.startswith('EXC') else ''))
    if not m:
        f.append('map-empty')
        return f
    valid = [k for k in m if k is not None]
    if not valid:
        f.append('map-all-invalid')
    if m[0] is None and valid:
        f.append('leading-invalid')
    if m[-1] is None and valid:
        f.append('trailing-invalid')
    if any(a is None and b is not None and c is None for a, b, c in zip(m, m[1:], m[2:])) or \
       any(a is not None and b is None and c is not None for a, b, c in zip(m, m[1:], m[2:])):
        f.append('alternating')
    if len(set(valid)) < len(valid):
        f.append('repeated-index')
    n = len(case['strs']) if 'strs' in case else len(case['data'])
    if valid and valid[-1] == n - 1:
        f.append('maps-last-source-row')
    if op in ('stream', 'istream'):
        cs = case['cs']
        if len(m) > cs:
            f.append('multi-chunk')
        if len(m) % cs == 0:
            f.append('map-ends-on-chunk-boundary')
        chunks = [m[i:i + cs] for i in range(0, len(m), cs)]
        if valid and any(all(k is None for k in c) for c in chunks):
            f.append('all-invalid-chunk-among-valid')
        for c in chunks:
            cv = [k for k in c if k is not None]
            if any(b - a >= cs for a, b in zip(cv, cv[1:])):
                f.append('index-gap>=chunk (sub-chunking)')
                break
        for c in chunks:
            seen_valid = False
            hit = False
            for k in c:
                if k is not None:
                    seen_valid = True
                elif seen_valid:
                    hit = True
            if hit:
                f.append('invalid-after-valid-in-chunk (F-C04a region)')
                break
    if op == 'istream':
        b = case['cs'] * case['vf']
        strs = case['strs']
        ml = [len(strs[k]) for k in valid if 0 <= k < len(strs)]
        if any(x == 0 for x in ml):
            f.append('mapped-entry-empty')
        if any(x == b for x in ml):
            f.append('mapped-entry==buffer')
        if any(x > b for x in ml):
            f.append('mapped-entry>buffer (error regime)')
        elif any(len(s) > b for s in strs):
            f.append('unmapped-entry>buffer')
        cs = case['cs']
        for i in range(0, len(m), cs):
            c = [k for k in m[i:i + cs] if k is not None and 0 <= k < len(strs)]
            if c and sum(len(strs[k]) for k in c) > b:
                f.append('value-buffer-fills-mid-chunk')
                break
        for i in range(0, len(m), cs):
            c = [k for k in m[i:i + cs] if k is not None and 0 <= k < len(strs)]
            if c and sum(len(s) for s in strs[c[0]:c[-1] + 1]) > b and c[-1] > c[0]:
                f.append('value-window-decomposed')
                break
    if op in ('safe', 'isafe') and case['ev'] is not None:
        f.append('explicit-empty-value')
    if not in_precondition(case):
        f.append('outside-precondition')
    if not ordered(case):
        f.append('unordered-map (F-C02f region)')
        if op in ('stream', 'istream'):
            cs = case['cs']
            for i in range(0, len(m), cs):
                cv = [k for k in m[i:i + cs] if k is not None]
                if cv and (cv[0] != min(cv) or cv[-1] != max(cv)):
                    f.append('window-not-first..last')
                    break
            for i in range(0, len(m), cs):
                cv = [k for k in m[i:i + cs] if k is not None]
                if cv and max(cv) - min(cv) >= cs:
                    f.append('unordered-span>=chunk (sub-chunking)')
                    break
        if op == 'istream':
            b = case['cs'] * case['vf']
            strs = case['strs']
            cs = case['cs']
            for i in range(0, len(m), cs):
                cv = [k for k in m[i:i + cs] if k is not None and 0 <= k < len(strs)]
                if cv and sum(len(s) for s in strs[min(cv):max(cv) + 1]) > b and \
                        any(y < x for x, y in zip(cv, cv[1:])):
                    f.append('value-sub-chunk-revisited-backwards')
                    break
    return f


_TAGS = ('op:', 'inv=', 'kind:')


def nontrivial(case, model):
    return any(not x.startswith(_TAGS) for x in features(case, model))


def known(case, impl, model, spec, mode):
    return None


# ------------------------------------------------------------------ generators
def all_maps(n, L):
    """every map of length n over a source of length L: valid entries non-decreasing, None anywhere"""
    def rec(pos, lo, acc):
        if pos == n:
            yield list(acc)
            return
        acc.append(None)
        yield from rec(pos + 1, lo, acc)
        acc.pop()
        for k in range(lo, L):
            acc.append(k)
            yield from rec(pos + 1, k, acc)
            acc.pop()
    yield from rec(0, 0, [])


def all_maps_any(n, L):
    """every map of length n over a source of length L, valid entries in any order, None anywhere; only the
    maps that are NOT non-decreasing (the others come from all_maps)"""
    for t in itertools.product([None] + list(range(L)), repeat=n):
        v = [k for k in t if k is not None]
        if any(a > b for a, b in zip(v, v[1:])):
            yield list(t)


NUM_DATA = [10, 20, 30, 40, 50, 60, 70, 80]
S3_DATA = ['a', 'bbb', '', 'cc', 'ddd', 'e', '', 'ff']


def _data(kind, L):
    if kind == 'S3':
        return S3_DATA[:L]
    if kind == 'bool':
        return [1, 0, 1, 1, 0, 1, 0, 0][:L]
    return NUM_DATA[:L]


def str_patterns(L, b):
    """source string-length patterns around the value-buffer size b"""
    pats = [
        [1, 2, 3, 4, 2, 1],
        [0, b, 1, b, 0, b],
        [b, b, b, b, b, b],
        [0, 0, 0, 0, 0, 0],
        [2, 0, b + 1, 1, b, 3],
        [b - 1 if b > 1 else 1, 1, 1, b, 1, 1],
    ]
    out, seen = [], set()
    for p in pats:
        p = tuple(p[:L])
        if p not in seen:
            seen.add(p)
            out.append(p)
    return out


def _strs(lens):
    return [chr(97 + i) * n for i, n in enumerate(lens)]


def gen(tier, rng):
    """C04_SAMPLE=k keeps every k-th generated case (development aid; evidence records the count)"""
    step = int(os.environ.get('C04_SAMPLE', '1'))
    for i, c in enumerate(_gen(tier, rng)):
        if i % step == 0:
            yield c


def _gen(tier, rng):
    big = tier == 'thorough'
    N, L = (6, 5) if big else (5, 4)
    other_kinds = ['int64', 'uint8', 'float32', 'float64', 'bool', 'S3']
    rot = 0
    # ---- ordered_map_valid_stream
    for Ls in range(0, L + 1):
        for n in range(0, N + 1):
            for m in all_maps(n, Ls):
                if Ls < L and Ls - 1 not in m and n > 0:
                    continue        # shorter sources only with maps that reach their last row (or empty maps)
                for inv in (0, 1, 2):
                    for cs in range(1, N + 2):
                        rot += 1
                        kinds = ['int32', other_kinds[rot % 6]]
                        if rot % 3 == 0:
                            kinds.append('S3')
                        for kind in dict.fromkeys(kinds):
                            c = {'op': 'stream', 'kind': kind, 'data': _data(kind, Ls), 'map': m, 'inv': inv, 'cs': cs}
                            if inv == 0 and rot % 2:
                                c['mdt'] = 'int64'
                            yield c
    # ---- ordered_map_valid_indexed_stream
    Ni, Li = (6, 4) if big else (5, 3)
    for Ls in range(0, Li + 1):
        for n in range(0, Ni + 1):
            for m in all_maps(n, Ls):
                if Ls < Li and Ls - 1 not in m and n > 0:
                    continue
                for cs in range(1, Ni + 2):
                    for vf in (1, 2, 3):
                        if not big and cs > 3 and vf == 3:
                            continue
                        pats = str_patterns(Ls, cs * vf) if Ls else [()]
                        for pi, p in enumerate(pats):
                            rot += 1
                            inv = rot % 3
                            c = {'op': 'istream', 'strs': _strs(p), 'map': m, 'inv': inv, 'cs': cs, 'vf': vf}
                            if inv == 0 and rot % 2:
                                c['mdt'] = 'int64'
                            yield c
    # ---- the same two streams on unordered maps (fix-F-C02f)
    Nu, Lu = (6, 4) if big else (5, 4)
    for Ls in range(2, Lu + 1):
        for n in range(2, Nu + 1):
            for m in all_maps_any(n, Ls):
                if Ls < Lu and Ls - 1 not in m:
                    continue
                for cs in range(1, Nu + 2):
                    rot += 1
                    inv = rot % 3
                    for kind in (('int32', other_kinds[rot % 6]) if big else ((['int32'] + other_kinds)[rot % 7],)):
                        c = {'op': 'stream', 'kind': kind, 'data': _data(kind, Ls), 'map': m, 'inv': inv, 'cs': cs}
                        if inv == 0 and rot % 2:
                            c['mdt'] = 'int64'
                        yield c
                    for vf in ((1, 2) if big else (1 + rot % 2,)):
                        pats = str_patterns(Ls, cs * vf)
                        p = pats[rot % len(pats)]
                        c = {'op': 'istream', 'strs': _strs(p), 'map': m, 'inv': (rot + vf) % 3, 'cs': cs, 'vf': vf}
                        yield c
    # ---- non-streaming helpers
    for Ls in range(0, L + 1):
        for n in range(0, N + 1):
            for m in all_maps(n, Ls):
                if Ls < L and Ls - 1 not in m and n > 0:
                    continue
                for inv in (0, 1, 2):
                    rot += 1
                    kind = (['int32'] + other_kinds)[rot % 7]
                    d = _data(kind, Ls)
                    yield {'op': 'mapvalid', 'kind': kind, 'data': d, 'map': m, 'inv': inv}
                    ev = None if rot % 2 else (None if kind == 'S3' else 1 if kind == 'bool' else 7)
                    yield {'op': 'safe', 'kind': kind, 'data': d, 'map': m, 'inv': inv, 'ev': ev}
                    if Ls <= Li:
                        p = str_patterns(Ls, 3)[rot % len(str_patterns(Ls, 3))] if Ls else ()
                        yield {'op': 'isafe', 'strs': _strs(p), 'map': m, 'inv': inv, 'ev': None if rot % 2 else 'xy'}
    # ---- structured random, longer
    for k in range(6000 if big else 1200):
        Ls = rng.randint(1, 40)
        cs = rng.choice([1, 2, 3, 4, 5, 8])
        n = rng.randint(1, 30)
        m, cur = [], 0
        mode = rng.choice(['mixed', 'blocks', 'gaps', 'mostly-invalid'])
        while len(m) < n:
            if mode == 'blocks' and rng.random() < 0.3:
                m.extend([None] * rng.choice([cs, cs + 1, 2 * cs]))
                continue
            p_inv = {'mixed': 0.3, 'blocks': 0.1, 'gaps': 0.15, 'mostly-invalid': 0.8}[mode]
            if rng.random() < p_inv:
                m.append(None)
            else:
                step = rng.choice([0, 0, 1, 1, 2, cs, cs + 1, 3 * cs]) if mode == 'gaps' else rng.choice([0, 1, 1, 2])
                cur = min(Ls - 1, cur + step)
                m.append(cur)
        m = m[:n]
        inv = rng.randint(0, 2)
        store = 'h5' if k % 10 == 0 else 'mem'
        if k % 2:
            kind = rng.choice(['int32'] + other_kinds)
            data = [rng.choice(['', 'a', 'bc', 'def']) for _ in range(Ls)] if kind == 'S3' else \
                   [rng.randint(0, 1) for _ in range(Ls)] if kind == 'bool' else [rng.randint(0, 100) for _ in range(Ls)]
            yield {'op': 'stream', 'kind': kind, 'data': data, 'map': m, 'inv': inv, 'cs': cs, 'store': store}
        else:
            vf = rng.choice([1, 2, 3, 8])
            b = cs * vf
            lens = [rng.choice([0, 1, 2, b - 1, b, b, rng.randint(0, b)]) for _ in range(Ls)]
            if rng.random() < 0.1:
                lens[rng.randrange(Ls)] = b + rng.randint(1, 3)
            lens = [max(0, x) for x in lens]
            yield {'op': 'istream', 'strs': _strs([x for x in lens]), 'map': m, 'inv': inv, 'cs': cs, 'vf': vf,
                   'store': store}
    yield from _gen_unordered_random(big, rng)


def _gen_unordered_random(big, rng):
    other_kinds = ['int64', 'uint8', 'float32', 'float64', 'bool', 'S3']
    for k in range(4000 if big else 1000):
        Ls = rng.randint(2, 30)
        cs = rng.choice([1, 2, 3, 4, 5, 8])
        mode = rng.choice(['sawtooth', 'perm', 'zigzag', 'random'])
        if mode == 'sawtooth':          # right-hand map of a many-to-many join: runs a..b repeated p times
            m, a = [], 0
            while a < Ls and len(m) < 40:
                q = rng.choice([1, 1, 2, 3, cs, cs + 1])
                b = min(Ls, a + q)
                p = rng.choice([1, 2, 2, 3])
                if rng.random() < 0.2:
                    m.append(None)
                m.extend(list(range(a, b)) * p)
                a = b + rng.choice([0, 0, 1, cs])
        elif mode == 'perm':
            m = list(range(Ls)); rng.shuffle(m); m = m[:rng.randint(2, Ls)]
        elif mode == 'zigzag':          # alternate between the two ends of the source
            m = [(0 if i % 2 else Ls - 1) if rng.random() < 0.8 else rng.randrange(Ls) for i in range(rng.randint(2, 20))]
        else:
            m = [None if rng.random() < 0.25 else rng.randrange(Ls) for _ in range(rng.randint(2, 30))]
        inv = rng.randint(0, 2)
        store = 'h5' if k % 10 == 0 else 'mem'
        if k % 2:
            kind = rng.choice(['int32'] + other_kinds)
            data = [rng.choice(['', 'a', 'bc', 'def']) for _ in range(Ls)] if kind == 'S3' else \
                   [rng.randint(0, 1) for _ in range(Ls)] if kind == 'bool' else [rng.randint(0, 100) for _ in range(Ls)]
            yield {'op': 'stream', 'kind': kind, 'data': data, 'map': m, 'inv': inv, 'cs': cs, 'store': store}
        else:
            vf = rng.choice([1, 2, 3, 8])
            b = cs * vf
            lens = [max(0, rng.choice([0, 1, 2, b - 1, b, b, rng.randint(0, b)])) for _ in range(Ls)]
            if rng.random() < 0.05:
                lens[rng.randrange(Ls)] = b + rng.randint(1, 3)
            yield {'op': 'istream', 'strs': _strs(lens), 'map': m, 'inv': inv, 'cs': cs, 'vf': vf, 'store': store}


def _strs(lens):  # noqa: F811  (letters wrap for long sources)
    return [chr(97 + i % 26) * n for i, n in enumerate(lens)]


def shrink(case):
    m = case['map']
    for i in range(len(m)):
        c = dict(case)
        c['map'] = m[:i] + m[i + 1:]
        yield c
    if case['op'] in ('stream', 'istream'):
        for cs in range(1, case['cs']):
            c = dict(case); c['cs'] = cs; yield c
    if case['op'] == 'istream' and case['vf'] > 1:
        c = dict(case); c['vf'] = case['vf'] - 1; yield c
    key = 'strs' if 'strs' in case else 'data'
    d = case[key]
    used = [k for k in m if k is not None]
    if d and (not used or max(used) < len(d) - 1):
        c = dict(case); c[key] = d[:-1]; yield c
    if case.get('store') == 'h5':
        c = dict(case); c['store'] = 'mem'; yield c


TECHNIQUE = ('Coq proof (faithful model of the streamed and non-streamed map drivers/kernels = map_spec for every '
             'marker and chunk size) + exhaustive small-scope differential correspondence against /repo in JIT, '
             'interpreted and bounds-checked modes')
LEVEL_TEXT = ('Theorems in coq/Props/C04.v about the Gallina model coq/Model/MapStream.v of ordered_map_valid_stream, '
              'ordered_map_valid_indexed_stream, safe_map_values, safe_map_indexed_values and map_valid; the model is '
              'tied to /repo by running the extracted model and the real functions on the same generated cases.')
LEVEL_NOTE = ('Trusted: Coq kernel, extraction, harness, numba/numpy. The model is hand-written; the `Orig` version of '
              'the drivers (code before the fixes) is kept for the `_refuted` theorems and was run once against the '
              'unrepaired tree (C04_VARIANT=orig).')
