"""C10 — compiled kernels never touch memory outside their arrays.
Meta-check: the generators of the per-operation properties are re-run in the two CHECKED execution modes
(USE_NUMBA=false: numpy raises IndexError; NUMBA_BOUNDSCHECK=1: numba raises IndexError) and judged by
those properties' own oracles; the Coq side is the set of total-correctness theorems of the modelled kernels
(every array access of a kernel model is a checked get/set returning `OOB site`; a theorem `model x = Ok ..`
therefore excludes an out-of-bounds access for all inputs in its domain) plus the explicit corollaries of
coq/Props/C10.v."""
from harness.props import _meta

PROP, NUM = 'C10', 10
SOURCES = _meta.available(['C01', 'C02', 'C03', 'C04', 'C05', 'C06', 'C07', 'C08', 'C09', 'C14', 'C16', 'C17', 'C19', 'C21'])
PROPS_FILES = ['Props/C10.v'] + _meta.props_files(SOURCES)
MODES = ['nojit', 'bounds']
MODES_THOROUGH = ['nojit', 'bounds']
LEVEL = 'proof'
TIMEOUT_S = 60.0
HANG_TIMEOUT_S = 3.0
RULE = ('every k-th case of the exhaustive small-scope + random generators of %s (so that all their regions are '
        'visited), run under USE_NUMBA=false and NUMBA_BOUNDSCHECK=1 and compared with the extracted model: an '
        'IndexError where the model returns a value, or a model OOB on an input the source property accepts, is a '
        'violation. Non-trivial by the source property\'s own rule.' % ', '.join(SOURCES))
EXHAUSTIVE = {'quick': False, 'thorough': False}
TRUSTED = ['numba bounds checking and numpy index checking are the oracle for "out of bounds" at run time',
           'the kernels no other property owns (chunks, ordered_get_last_as_filter, streaming_sort_partial, the result-size '
           'kernels, ordered_inner_map_left_unique_partial and its driver, data_iterator, ...) are modelled in '
           'Model/MiscKernels.v and proved in Props/C10_kernels.v (auxiliary source C21); merge_entries_segment '
           '(interpreted, no caller, no contract) is the only loop helper of operations.py without a model']
ASSUMPTIONS = ['valid input = an input inside the source property\'s quantifier; malformed inputs are compared '
               'model-vs-implementation only (IndexError == model OOB)']
BUDGET = {'quick': {'*': 2500, 'C03': 12000, 'C04': 8000, 'C08': 8000, 'C16': 6000, 'C14': 5000, 'C09': 3000,
                    'C01': 1200, 'C05': 2500, 'C06': 2500, 'C17': 1200, 'C21': 8000},
          'thorough': {'*': 20000, 'C03': 120000, 'C04': 80000, 'C08': 80000, 'C16': 60000, 'C14': 50000}}


def setup():
    _meta.setup_all(SOURCES)


def warmup():
    _meta.warmup_all(SOURCES)


def teardown():
    _meta.teardown_all(SOURCES)


run, to_val, num_of, from_val = _meta.run, _meta.to_val, _meta.num_of, _meta.from_val
features, nontrivial, known, skip, shrink = _meta.features, _meta.nontrivial, _meta.known, _meta.skip, _meta.shrink
equal = _meta.src_equal
KNOWN_PROPS = ['C10'] + SOURCES


def spec_ok(case, impl, spec, mode):
    """C10 only judges memory safety: an IndexError (checked modes) or a crashed worker is a violation unless the
    source property itself expects that error for this (malformed) input; every other difference is left to the
    source property's own check (and to the model correspondence, `equal`)."""
    if impl in ('EXC:IndexError', 'CRASH'):
        return _meta.src_spec_ok(case, impl, spec, mode)
    return True


def gen(tier, rng):
    return _meta.sample(SOURCES, tier, rng, BUDGET[tier])


TECHNIQUE = 'Coq total-correctness theorems of kernel models with checked array accesses (result = Ok, never OOB) + differential runs of all source generators under NUMBA_BOUNDSCHECK=1 and USE_NUMBA=false'
LEVEL_TEXT = ('Every modelled kernel reads and writes through get/set that return OOB outside [0,len); the theorems '
              'model = Ok(spec) of C01-C09/C14/C16/C17 (re-checked here) and the corollaries in coq/Props/C10.v exclude '
              'OOB for all inputs in their domain, incl. result buffers of size chunksize for every ratio of matches to '
              'rows. The model is tied to the code by running the same cases in the two bounds-checked modes.')
LEVEL_NOTE = ('Partial by construction: the proof is about the hand-written models; kernels not modelled are only '
              'exercised; numba code generation and the effect of an actual out-of-bounds write are outside the model.')
