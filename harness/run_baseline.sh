#!/bin/bash
# harness/run_baseline.sh [out.xml] — runs the pinned test-suite command of /root/.vp/BASELINE.json on /repo (guard off)
# and reports which baseline-stable tests no longer pass. Dev helper (takes 20-30 min).
OUT="${1:-/tmp/baseline_junit.xml}"
cd /repo && env -u EXETERA_VERIF /venv/bin/python -m pytest -ra -q -p no:cacheprovider --timeout=900 --continue-on-collection-errors --junitxml="$OUT" > /tmp/baseline_pytest.log 2>&1
/venv/bin/python - "$OUT" <<'PY'
import sys, json, xml.etree.ElementTree as ET
base = set(json.load(open('/root/.vp/BASELINE.json'))['stable_pass'])
passed = set()
for tc in ET.parse(sys.argv[1]).getroot().iter('testcase'):
    if not any(c.tag in ('failure', 'error', 'skipped') for c in tc):
        passed.add(tc.get('classname') + '::' + tc.get('name'))
missing = sorted(base - passed)
print('baseline stable: %d, passing now: %d, baseline tests not passing: %d' % (len(base), len(base & passed), len(missing)))
for m in missing: print('  NOT PASSING', m)
PY
