#!/usr/bin/env python3
"""harness/mergekf.py <branch>: resolve a merge conflict in known_findings.json by union (dev helper):
entries of HEAD are kept, entries whose id only exists on <branch> are appended."""
import json, subprocess, sys
def load(rev):
    return json.loads(subprocess.check_output(['git', 'show', '%s:known_findings.json' % rev]))
ours, theirs = load('HEAD'), load(sys.argv[1])
key = 'findings' if isinstance(ours, dict) else None
a = ours[key] if key else ours
b = theirs[key] if key else theirs
ids = {e['id'] for e in a}
new = [e for e in b if e['id'] not in ids]
a.extend(new)
json.dump(ours, open('known_findings.json', 'w'), indent=1, ensure_ascii=False)
open('known_findings.json', 'a').write('\n')
print('added', [e['id'] for e in new])
