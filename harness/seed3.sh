#!/bin/bash
# confirm round-3 seeds: harness/seed2.sh  (list inside)
cd /verif
run() { # mutdir n prop [extras] ; stores as seeded/<prop>-r3-<n>
  echo "=== $3-r3-$2"; SEED_SUFFIX=r3 harness/seed.py "$@" 2>&1 | tail -6
}
for spec in "$@"; do
  set -- $spec
  p=$1; n=$2; shift 2
  run /tmp/mut3_$p $n $p "$@"
done
echo ALLDONE
