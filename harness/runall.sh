#!/bin/bash
# harness/runall.sh [tier] [ids...] — run the checks one after another; one summary line per property
TIER="${1:-quick}"; shift
IDS="$@"; [ -z "$IDS" ] && IDS=$(cd "$(dirname "$0")/props" && ls C*.py | sed 's/\.py//' | sort)
cd "$(dirname "$0")/.."
for p in $IDS; do
  s=$(date +%s)
  ./check $p --tier $TIER > /tmp/check_$p.log 2>&1; rc=$?
  echo "$p rc=$rc $(( $(date +%s) - s ))s :: $(grep -E '^(OK|FAIL|MACHINERY|VIOLATION|KNOWN)' /tmp/check_$p.log | tr '\n' '|' | cut -c1-400)"
done
