#!/bin/bash
# harness/coqchk_all.sh — re-check every compiled theorem file (coq/Props/*.vo) and everything it depends on with Coq's
# independent checker; writes coqchk_report.txt (axioms of all loaded libraries as coqchk -o reports them).
# Two runs: (1) every property file except the Flocq-based C20_float (expected: no axioms at all);
#           (2) C20_float alone (expected: the real-number axioms of the standard library, brought in by Flocq/Reals).
cd "$(dirname "$0")/../coq" || exit 2
ALL=$(ls Props/*.vo | sed 's/\.vo$//; s#/#.#; s/^/EV./')
MAIN=$(echo "$ALL" | grep -v 'C20_float')
{
  echo "# $(date -u)  $(coqchk --version 2>&1 | head -1)"
  echo "# run 1: coqchk -silent -o -Q coq EV $(echo $MAIN | tr '\n' ' ')"
  timeout 7200 coqchk -silent -o -Q . EV $MAIN 2>&1 | tail -16
  echo "# exit status run 1: ${PIPESTATUS[0]}"
  echo
  echo "# run 2: coqchk -silent -o -Q coq EV EV.Props.C20_float"
  timeout 7200 coqchk -silent -o -Q . EV EV.Props.C20_float 2>&1 | tail -20
  echo "# exit status run 2: ${PIPESTATUS[0]}"
} > ../coqchk_report.txt
cat ../coqchk_report.txt | tail -45
