#!/bin/bash
# harness/coqchk_all.sh — re-check every compiled theorem file (coq/Props/*.vo and coq/GenProps if compiled) and everything it
# depends on with Coq's independent checker; writes coqchk_report.txt (axioms of all loaded libraries as coqchk -o reports them).
cd "$(dirname "$0")/../coq" || exit 2
MODS=$(ls Props/*.vo | sed 's/\.vo$//; s#/#.#; s/^/EV./')
( echo "# coqchk -silent -o -Q coq EV $MODS"; echo "# $(date -u) coqchk $(coqchk --version 2>&1 | head -1)";
  timeout 7200 coqchk -silent -o -Q . EV $MODS 2>&1 | tail -40 ) > ../coqchk_report.txt
tail -14 ../coqchk_report.txt
