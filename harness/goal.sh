#!/bin/bash
# harness/goal.sh <file.v> <line> : show the proof state after <line> lines of the file (dev helper)
f="$1"; n="$2"; d="$(dirname "$f")"; b="$(basename "$f" .v)"
tmp="$d/Tmp_goal_$$.v"
trap 'rm -f "$d/Tmp_goal_$$".* "$d/.Tmp_goal_$$".*' EXIT
head -n "$n" "$f" > "$tmp"; echo "Show. " >> "$tmp"
cd "$(dirname "$0")/../coq" && timeout 300 coqc -Q . EV "${tmp#$(pwd)/}" 2>&1 | tail -${3:-40}
rm -f "$d/Tmp_goal_$$".* "$d/.Tmp_goal_$$".*
