#!/bin/bash
# harness/mkwt.sh Cxx — scratch worktrees for developing one property in isolation:
#   /tmp/vf_Cxx  (branch prop/Cxx of /verif)   /tmp/rp_Cxx  (detached worktree of /repo HEAD)
set -e
P="$1"
git -C /verif worktree add -q -B "prop/$P" "/tmp/vf_$P" HEAD
git -C /repo worktree add -q --detach "/tmp/rp_$P" HEAD
mkdir -p "/tmp/vf_$P/work/$P"
echo "/tmp/vf_$P /tmp/rp_$P"
