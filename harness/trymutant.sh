#!/bin/bash
# harness/trymutant.sh <patch.diff> <Cxx> [Cyy ...] — apply a seeded change to a scratch worktree of /repo HEAD,
# run the quick checks of the named properties against it (VERIF_REPO), remove the worktree. Dev helper.
PATCH="$(readlink -f "$1")"; shift
WT="/tmp/mt_$$"
git -C /repo worktree add -q --detach "$WT" HEAD || exit 2
trap 'git -C /repo worktree remove --force "$WT" >/dev/null 2>&1' EXIT
git -C "$WT" apply "$PATCH" || { echo "PATCH DOES NOT APPLY"; exit 2; }
cd "$(dirname "$0")/.."
for p in "$@"; do
  s=$(date +%s)
  VERIF_REPO="$WT" ./check $p --tier "${TIER:-quick}" > /tmp/mt_$$_$p.log 2>&1; rc=$?
  echo "$p rc=$rc $(( $(date +%s) - s ))s :: $(grep -E '^(OK|FAIL|MACHINERY|VIOLATION|KNOWN)' /tmp/mt_$$_$p.log | tr '\n' '|' | cut -c1-300)"
  # evidence and replays written by this run describe the mutant, not /repo: restore them
done
git -C "$(pwd)" checkout -- evidence 2>/dev/null
exit 0
