"""harness/core.py — the decision procedure shared by every property check (DESIGN §2.3).

   audit + build  ->  theorems of Props/Cxx.v (Print Assumptions)  ->  corpus  ->
   generated cases: extracted model (OCaml) vs implementation (/repo, per mode)  ->
   verdict, evidence, replay files.

Exit codes: 0 held, 1 violation (VIOLATION line printed), 2 machinery broken.
"""
import os, sys, json, time, subprocess, hashlib, random, re, tempfile, shutil, importlib, glob, itertools

ROOT = os.path.dirname(os.path.dirname(os.path.abspath(__file__)))
COQ = os.path.join(ROOT, 'coq')
DRIVER = os.path.join(ROOT, 'ocaml', 'driver')
PY = '/venv/bin/python'
REPO = os.environ.get('VERIF_REPO', '/repo')
NCPU = int(os.environ.get('VERIF_JOBS', '16'))

ALLOWED_AXIOMS = {
    # axioms declared by the standard library that this development may rely on (DESIGN §7).
    'functional_extensionality_dep', 'FunctionalExtensionality.functional_extensionality_dep',
    'Eqdep.Eq_rect_eq.eq_rect_eq', 'eq_rect_eq', 'JMeq_eq', 'JMeq.JMeq_eq',
    'classic', 'Classical_Prop.classic', 'proof_irrelevance',
    'ClassicalDedekindReals.sig_not_dec', 'ClassicalDedekindReals.sig_forall_dec',
}

ERR_TAG = -999
EXC_BY_CODE = {1: 'ValueError', 2: 'TypeError', 3: 'IndexError', 4: 'KeyError', 5: 'OverflowError', 9: 'Other'}


class MachineryError(Exception):
    pass


def log(*a):
    sys.stderr.write(' '.join(str(x) for x in a) + '\n')
    sys.stderr.flush()


# --------------------------------------------------------------------------- audit/build
FORBIDDEN = re.compile(
    r'\b(Admitted|admit|Axiom|Axioms|Parameter|Parameters|Conjecture|Conjectures|Admit Obligations)\b'
    r'|Unset\s+Guard|bypass_check|Unset\s+Positivity|Unset\s+Universe|type-in-type|impredicative-set')


def strip_comments(src):
    out, depth, i, n = [], 0, 0, len(src)
    while i < n:
        if src.startswith('(*', i):
            depth += 1; i += 2
        elif src.startswith('*)', i) and depth > 0:
            depth -= 1; i += 2
        else:
            if depth == 0:
                out.append(src[i])
            i += 1
    return ''.join(out)


def audit():
    """No Admitted/Axiom/... anywhere; Variable/Hypothesis only inside sections."""
    bad = []
    for path in glob.glob(os.path.join(COQ, '**', '*.v'), recursive=True):
        src = strip_comments(open(path).read())
        for m in FORBIDDEN.finditer(src):
            bad.append('%s: %s' % (os.path.relpath(path, ROOT), m.group(0)))
        depth = 0
        for line in src.split('\n'):
            s = line.strip()
            if re.match(r'^Section\s', s):
                depth += 1
            elif re.match(r'^End\s', s) and depth > 0:
                depth -= 1
            elif depth == 0 and re.match(r'^(Variable|Variables|Hypothesis|Hypotheses|Context)\b', s):
                bad.append('%s: %s outside a section' % (os.path.relpath(path, ROOT), s[:40]))
    return bad


def build():
    r = subprocess.run([os.path.join(ROOT, 'harness', 'build.sh'), 'all'], capture_output=True, text=True)
    if r.returncode == 3:
        # some file of the development does not compile; the extraction does. The theorems of the property
        # under check are re-compiled separately (check_theorems) and fail there if they are affected.
        log('WARNING: partial Coq build:\n' + r.stdout[-1500:])
        return False
    if r.returncode != 0:
        raise MachineryError('build failed:\n' + r.stdout + r.stderr)
    return True


def check_theorems(props_file):
    """Re-compile Props/Cxx.v and parse its Print Assumptions output.
    Returns (theorems:list of (name, closed:bool, axioms:list)), raw output)."""
    path = os.path.join(COQ, props_file)
    src = strip_comments(open(path).read())
    names = re.findall(r'^\s*(?:Theorem|Lemma|Corollary)\s+([A-Za-z0-9_\']+)', src, re.M)
    printed = re.findall(r'Print\s+Assumptions\s+([A-Za-z0-9_\'.]+)\s*\.', src)
    missing = [n for n in names if n not in printed]
    if missing:
        raise MachineryError('%s: theorems without Print Assumptions: %s' % (props_file, missing))
    with tempfile.TemporaryDirectory() as td:
        # compile to a scratch output so that a concurrent make is not disturbed
        r = subprocess.run(['coqc', '-Q', '.', 'EV', '-w', '-all', '-o', os.path.join(td, os.path.basename(props_file)[:-2] + '.vo'), props_file],
                           cwd=COQ, capture_output=True, text=True, timeout=900)
    out = r.stdout + r.stderr
    if r.returncode != 0:
        return None, out
    # split output into blocks, one per Print Assumptions, in order
    blocks = re.split(r'(?=Closed under the global context|Axioms:)', out)
    blocks = [b for b in blocks if b.startswith('Closed under') or b.startswith('Axioms:')]
    if len(blocks) != len(printed):
        raise MachineryError('%s: %d Print Assumptions, %d result blocks' % (props_file, len(printed), len(blocks)))
    res = []
    for name, b in zip(printed, blocks):
        if b.startswith('Closed'):
            res.append((name, True, []))
        else:
            axs = re.findall(r'^([A-Za-z0-9_\'.]+)\s*:', b[len('Axioms:'):], re.M)
            res.append((name, False, axs))
    return res, out


# --------------------------------------------------------------------------- model runner
def val_to_wire(v):
    return json.dumps(v, separators=(',', ':'))


def run_model(num, vals, shards=None):
    """Run the extracted model on a list of wire values; returns list of python values.
    `num` is the property number of the entry, or a list with one number per value."""
    if not vals:
        return []
    nums = num if isinstance(num, list) else [num] * len(vals)
    if not os.path.exists(DRIVER):
        raise MachineryError('ocaml driver missing (run setup_cmd)')
    shards = shards or max(1, min(NCPU, len(vals) // 200 + 1))
    n = len(vals)
    bounds = [(k * n // shards, (k + 1) * n // shards) for k in range(shards)]
    procs = []
    tmpd = tempfile.mkdtemp(prefix='evm_')
    try:
        for k, (a, b) in enumerate(bounds):
            inp = os.path.join(tmpd, 'in%d' % k)
            with open(inp, 'w') as f:
                for n_, v in zip(nums[a:b], vals[a:b]):
                    f.write('%d %s\n' % (n_, val_to_wire(v)))
            fo = open(os.path.join(tmpd, 'out%d' % k), 'w')
            p = subprocess.Popen(['bash', '-c', 'ulimit -s unlimited 2>/dev/null; exec "%s"' % DRIVER],
                                 stdin=open(inp), stdout=fo, stderr=subprocess.PIPE)
            procs.append((p, fo))
        out = []
        for k, (p, fo) in enumerate(procs):
            _, err = p.communicate(timeout=3600)
            fo.close()
            if p.returncode != 0:
                raise MachineryError('model driver failed: %s' % err.decode()[:500])
            with open(os.path.join(tmpd, 'out%d' % k)) as f:
                lines = f.read().split('\n')
            lines = [l for l in lines if l != '']
            a, b = bounds[k]
            if len(lines) != b - a:
                raise MachineryError('model driver: %d lines for %d cases' % (len(lines), b - a))
            out.extend(json.loads(l) for l in lines)
        return out
    finally:
        shutil.rmtree(tmpd, ignore_errors=True)


def decode_err(v):
    """[-999,kind,arg] -> canonical error string, else None."""
    if isinstance(v, list) and len(v) == 3 and v[0] == ERR_TAG:
        kind, arg = v[1], v[2]
        if kind == 1:
            return 'OOB:%d' % arg
        if kind == 2:
            return 'EXC:' + EXC_BY_CODE.get(arg, 'Other')
        if kind == 3:
            return 'FUEL'
        if kind == 5:
            return 'MODEL-STACK'
        return 'BADCASE'
    return None


# --------------------------------------------------------------------------- impl runner
MODE_ENV = {
    'jit': {'USE_NUMBA': 'true'},
    'nojit': {'USE_NUMBA': 'false'},
    'bounds': {'USE_NUMBA': 'true', 'NUMBA_BOUNDSCHECK': '1'},
}


def run_impl(prop, mode, items, nchildren, timeout_s, extra_env=None):
    """items: list of (idx, case, tlimit or None). Returns dict idx -> result."""
    if not items:
        return {}
    tmpd = tempfile.mkdtemp(prefix='evi_')
    try:
        cpath, opath = os.path.join(tmpd, 'cases.jsonl'), os.path.join(tmpd, 'out.jsonl')
        with open(cpath, 'w') as f:
            for (i, c, t) in items:
                f.write(json.dumps({"i": i, "c": c, "t": t}) + '\n')
        env = dict(os.environ)
        env.pop('NUMBA_BOUNDSCHECK', None)
        env.update(MODE_ENV[mode])
        env.update({'PYTHONPATH': REPO, 'PYTHONHASHSEED': '0', 'VERIF_MODE': mode, 'EXETERA_VERIF': '1',
                    'NUMBA_DISABLE_PERFORMANCE_WARNINGS': '1', 'PYTHONWARNINGS': 'ignore',
                    'TMPDIR': tmpd, 'OMP_NUM_THREADS': '1', 'NUMBA_NUM_THREADS': '1'})
        if extra_env:
            env.update(extra_env)
        r = subprocess.run([PY, os.path.join(ROOT, 'harness', 'worker.py'), prop, cpath, opath,
                            str(nchildren), str(timeout_s)], env=env, cwd=ROOT,
                           stdout=subprocess.PIPE, stderr=subprocess.PIPE, text=True)
        if r.returncode == -14:
            # killed by the warm-up alarm: the library did not terminate on the small standard warm-up inputs
            log('impl worker (%s): warm-up did not terminate; reporting HANG' % mode)
            return {i: 'HANG' for (i, c, t) in items[:50]}
        if r.returncode != 0 or not os.path.exists(opath):
            raise MachineryError('impl worker (%s) failed rc=%s\n%s' % (mode, r.returncode, r.stderr[-3000:]))
        res = {}
        with open(opath) as f:
            for line in f:
                d = json.loads(line)
                res[d["i"]] = d["r"]
        return res
    finally:
        shutil.rmtree(tmpd, ignore_errors=True)


def canon_impl(r):
    if isinstance(r, dict) and 'exc' in r:
        return 'EXC:' + r['exc']
    return r


def results_equal(impl, model, mode):
    """Equality modulo the error conventions: model OOB == IndexError (checked modes);
    model FUEL == HANG."""
    if isinstance(model, str):
        if model.startswith('OOB'):
            return impl == 'EXC:IndexError'
        if model == 'FUEL':
            return impl == 'HANG'
        return impl == model
    return impl == model


# --------------------------------------------------------------------------- known findings
def load_known():
    p = os.path.join(ROOT, 'known_findings.json')
    if not os.path.exists(p):
        return []
    return json.load(open(p)).get('findings', [])


# --------------------------------------------------------------------------- main procedure
def case_key(case):
    return hashlib.sha256(json.dumps(case, sort_keys=True).encode()).hexdigest()[:16]


def write_replay(prop, payload):
    d = os.path.join(ROOT, 'replays')
    os.makedirs(d, exist_ok=True)
    h = hashlib.sha256(json.dumps(payload, sort_keys=True, default=str).encode()).hexdigest()[:12]
    path = os.path.join(d, '%s-%s.json' % (prop, h))
    with open(path, 'w') as f:
        json.dump(payload, f, indent=1, default=str)
    return path


def evaluate(mod, cases, modes, tier, timeout_s=None, retry_hangs=True):
    """Run model and implementation on cases. Returns list of records."""
    timeout_s = timeout_s or getattr(mod, 'TIMEOUT_S', 20.0)
    vals = [mod.to_val(c) for c in cases]
    t0 = time.time()
    raw = run_model([mod.num_of(c) for c in cases] if hasattr(mod, 'num_of') else mod.NUM, vals)
    t_model = time.time() - t0
    recs = []
    for c, v in zip(cases, raw):
        e = decode_err(v)
        if e == 'BADCASE':
            raise MachineryError('model rejected case (harness bug): %s' % json.dumps(c)[:300])
        if e is not None:
            m, s = e, None
        else:
            ms = mod.from_val(c, v)
            m, s = ms if isinstance(ms, tuple) else (ms, None)
        if s is None:
            s = m
        recs.append({'case': c, 'model': m, 'spec': s, 'impl': {}})
    # per-mode item lists
    nmodes = len(modes)
    nchild = max(1, NCPU // nmodes)
    hang_t = getattr(mod, 'HANG_TIMEOUT_S', 3.0)
    import concurrent.futures as cf
    t0 = time.time()

    def do_mode(mode):
        items = []
        for i, r in enumerate(recs):
            m = r['model']
            if mode == 'jit' and isinstance(m, str) and (m.startswith('OOB') or m == 'MODEL-STACK'):
                continue   # undefined behaviour in unchecked compiled code: decided by the checked modes
            if hasattr(mod, 'skip') and mod.skip(r['case'], mode):
                continue
            t = hang_t if m == 'FUEL' else None
            items.append((i, r['case'], t))
        return mode, run_impl(mod.PROP, mode, items, nchild, timeout_s, getattr(mod, 'EXTRA_ENV', None))

    with cf.ThreadPoolExecutor(max_workers=nmodes) as ex:
        for mode, res in ex.map(do_mode, modes):
            for i, r in res.items():
                recs[i]['impl'][mode] = canon_impl(r)
    # a HANG the model does not predict may be a watchdog expiry on a loaded machine: re-run those cases (at most 8 per
    # mode) on their own with a ten times longer limit before they are judged
    retried = 0
    for mode in (modes if retry_hangs else []):
        for batch in range(6):
            long_t = min(10 * timeout_s, max(60.0, 2 * timeout_s))
            again = [(i, r['case'], long_t) for i, r in enumerate(recs)
                     if r['impl'].get(mode) == 'HANG' and r['model'] != 'FUEL' and not r.get('_retried_' + mode)][:8]
            if not again:
                break
            retried += len(again)
            log('  [%s] re-running %d unpredicted HANG case(s) with a %.0f s limit' % (mode, len(again), long_t))
            res = run_impl(mod.PROP, mode, again, min(8, nchild), long_t, getattr(mod, 'EXTRA_ENV', None))
            still = 0
            for (i, _, _) in again:
                recs[i]['_retried_' + mode] = True
                if i in res:
                    recs[i]['impl'][mode] = canon_impl(res[i])
                still += recs[i]['impl'][mode] == 'HANG'
            if still:
                break          # a genuine non-termination: no need to spend the long limit on the others
    for r in recs:
        for k in [k for k in r if k.startswith('_retried_')]:
            del r[k]
    t_impl = time.time() - t0
    return recs, {'model_s': round(t_model, 2), 'impl_s': round(t_impl, 2), 'hang_retries': retried}


def judge(mod, rec, known_entries):
    """Classify one record. Returns (kind, detail) with kind in
    ok | known:<id> | violation | corr (impl != model but impl == spec)."""
    worst = ('ok', None)
    if hasattr(mod, 'cross_mode'):
        msg = mod.cross_mode(rec['case'], rec['impl'], rec['model'])
        if msg:
            kid = mod.known(rec['case'], rec['impl'], rec['model'], rec['spec'], 'cross') if hasattr(mod, 'known') else None
            if kid is not None and any(k['id'] == kid and k.get('status') == 'known' for k in known_entries):
                worst = ('known:' + kid, 'cross')
            else:
                return ('violation', 'cross:' + msg)
    for mode, impl in rec['impl'].items():
        cmp_ = getattr(mod, 'equal', None)
        sok = getattr(mod, 'spec_ok', None)
        eq_spec = (sok(rec['case'], impl, rec['spec'], mode) if sok else
                   cmp_(rec['case'], impl, rec['spec'], mode) if cmp_ else results_equal(impl, rec['spec'], mode))
        eq_model = cmp_(rec['case'], impl, rec['model'], mode) if cmp_ else results_equal(impl, rec['model'], mode)
        if eq_spec and eq_model:
            continue
        if not eq_spec:
            kid = None
            if hasattr(mod, 'known'):
                kid = mod.known(rec['case'], impl, rec['model'], rec['spec'], mode)
            if kid is not None and any(k['id'] == kid and k.get('status') == 'known' for k in known_entries):
                if worst[0] == 'ok':
                    worst = ('known:' + kid, mode)
                continue
            return ('violation', mode)
        if worst[0] in ('ok',) or worst[0].startswith('known'):
            worst = ('corr', mode)
    return worst


def shrink(mod, rec, modes, known_entries, budget_s=60):
    if not hasattr(mod, 'shrink') or 'HANG' in rec['impl'].values():
        return rec          # every candidate of a non-terminating case costs a full watchdog period
    t0 = time.time()
    best = rec
    improved = True
    while improved and time.time() - t0 < budget_s:
        improved = False
        cands = list(itertools.islice(mod.shrink(best['case']), 200))
        if not cands:
            break
        try:
            recs, _ = evaluate(mod, cands, modes, 'quick', retry_hangs=False)
        except MachineryError:
            break
        for r in recs:
            k, _ = judge(mod, r, known_entries)
            if k == 'violation':
                best = r
                improved = True
                break
    return best


def main(prop, tier='quick', seed=None, replay=None):
    t_start = time.time()
    seed = int(seed if seed is not None else os.environ.get('VERIF_SEED', '20260930'))
    mod = importlib.import_module('harness.props.' + prop)
    known_entries = [k for k in load_known() if k.get('property') in getattr(mod, 'KNOWN_PROPS', [prop])]
    try:
        bad = audit()
        if bad:
            raise MachineryError('audit: forbidden constructs:\n  ' + '\n  '.join(bad))
        build()
        thms_all, failed_files = [], []
        for pf in mod.PROPS_FILES:
            thms, out = check_theorems(pf)
            if thms is None:
                failed_files.append((pf, out))
            else:
                thms_all.extend((pf, *t) for t in thms)
        for (pf, name, closed, axs) in thms_all:
            extra = [a for a in axs if a.split('.')[-1] not in {x.split('.')[-1] for x in ALLOWED_AXIOMS}]
            if extra:
                raise MachineryError('%s: theorem %s depends on undeclared axioms %s' % (pf, name, extra))
        if failed_files and not getattr(mod, 'GENERATED_OBLIGATIONS', False):
            raise MachineryError('Props file does not compile (development broken):\n' + failed_files[0][1][-2000:])

        modes = list(mod.MODES_THOROUGH if tier == 'thorough' and hasattr(mod, 'MODES_THOROUGH') else mod.MODES)
        rng = random.Random(seed)

        if replay:
            payload = json.load(open(replay))
            cases = [payload['case']] if 'case' in payload else payload.get('cases', [])
            recs, _ = evaluate(mod, cases, modes, tier)
            rc = 0
            for r in recs:
                k, mode = judge(mod, r, [])
                print('REPLAY', prop, k, json.dumps(r, default=str)[:2000])
                if k in ('violation', 'corr') or k.startswith('known'):
                    rc = 1
            return rc

        # corpus first
        corpus = []
        for p in sorted(glob.glob(os.path.join(ROOT, 'corpus', prop, '*.json'))):
            d = json.load(open(p))
            corpus.extend(d['cases'] if 'cases' in d else [d['case']])
        from harness import hot as _hot
        hot_info = _hot.analyse(REPO)
        os.environ['VERIF_HOT_SIZES'] = ','.join(str(x) for x in hot_info['hot'][:4])
        os.environ['VERIF_HOT_BIG'] = ','.join(str(x) for x in hot_info['big'][:8])
        os.environ['VERIF_TIER'] = tier
        os.environ['VERIF_SRC_CHANGED'] = '1' if hot_info['changed_files'] else ''
        gen_cases = list(mod.gen(tier, rng))
        cases = corpus + gen_cases
        # de-duplicate, keeping order
        seen, uniq = set(), []
        for c in cases:
            k = case_key(c)
            if k not in seen:
                seen.add(k); uniq.append(c)
        n_generated = len(cases)
        cases = uniq
        t_ph = time.time()
        recs, timing = evaluate(mod, cases, modes, tier)
        log('  evaluated %d cases in %.0f s %s' % (len(cases), time.time() - t_ph, timing))

        # extra obligations from generated files (C13) are handled by the module itself
        extra = mod.extra_checks(tier) if hasattr(mod, 'extra_checks') else {'violations': [], 'info': {}}

        # confirmation pass: a case that fails is run once more in fresh worker processes; only failures that reproduce
        # are judged (a worker disturbed by an earlier case, or by a loaded machine, must not raise an alarm)
        not_reproduced = 0
        suspects = [i for i, r in enumerate(recs) if judge(mod, r, known_entries)[0] in ('violation', 'corr')
                    and 'HANG' not in r['impl'].values()]        # a HANG has already had its own long re-run
        if suspects:
            sub = suspects[:400]
            recs2, _ = evaluate(mod, [recs[i]['case'] for i in sub], modes, tier, retry_hangs=False)
            for i, r2 in zip(sub, recs2):
                if judge(mod, r2, known_entries)[0] not in ('violation', 'corr'):
                    recs[i] = r2
                    not_reproduced += 1
        timing['failures_not_reproduced_on_rerun'] = not_reproduced
        log('  confirmation pass: %d suspect(s), %d not reproduced; %.0f s since evaluation started'
            % (len(suspects), not_reproduced, time.time() - t_ph))

        feats, nontrivial = {}, 0
        kinds = {'ok': 0, 'violation': 0, 'corr': 0}
        known_hits = {}
        violations, corrs = [], []
        for r in recs:
            fs = mod.features(r['case'], r['model']) if hasattr(mod, 'features') else []
            for f in fs:
                feats[f] = feats.get(f, 0) + 1
            if (mod.nontrivial(r['case'], r['model']) if hasattr(mod, 'nontrivial') else bool(fs)):
                nontrivial += 1
            k, mode = judge(mod, r, known_entries)
            if k.startswith('known:'):
                known_hits.setdefault(k[6:], []).append(r)
            elif k == 'violation':
                violations.append((r, mode)); kinds['violation'] += 1
            elif k == 'corr':
                corrs.append((r, mode)); kinds['corr'] += 1
            else:
                kinds['ok'] += 1

        rc = 0
        lines = []
        for kid, rs in sorted(known_hits.items()):
            ent = [k for k in known_entries if k['id'] == kid][0]
            lines.append('KNOWN-FINDING: property=%s %s: %s (%d cases in the finding\'s region this run)'
                         % (prop, kid, ent.get('text', ''), len(rs)))
        if violations:
            r, mode = violations[0]
            r = shrink(mod, r, modes, known_entries)
            path = write_replay(prop, {'property': prop, 'kind': 'failing-input', 'mode': mode, 'case': r['case'],
                                       'impl': r['impl'], 'model': r['model'], 'spec': r['spec'],
                                       'n_failing_cases': len(violations), 'seed': seed, 'tier': tier})
            lines.append('VIOLATION property=%s replay=%s' % (prop, os.path.relpath(path, ROOT)))
            rc = 1
        elif extra['violations']:
            v = extra['violations'][0]
            path = write_replay(prop, dict(v, property=prop, seed=seed, tier=tier))
            tail = '' if v.get('case') is not None else ' no-failing-input-found'
            lines.append('VIOLATION property=%s replay=%s%s' % (prop, os.path.relpath(path, ROOT), tail))
            rc = 1
        elif corrs or failed_files:
            if corrs:
                r, mode = corrs[0]
                payload = {'property': prop, 'kind': 'correspondence-broken',
                           'what': 'model %s (coq/Model) and implementation disagree although the implementation '
                                   'meets the specification on every case explored' % mod.PROPS_FILES,
                           'mode': mode, 'case': r['case'], 'impl': r['impl'], 'model': r['model'], 'spec': r['spec']}
            else:
                payload = {'property': prop, 'kind': 'theorem-broken', 'what': failed_files[0][0],
                           'coqc_output': failed_files[0][1][-3000:]}
            path = write_replay(prop, dict(payload, seed=seed, tier=tier))
            lines.append('VIOLATION property=%s replay=%s no-failing-input-found' % (prop, os.path.relpath(path, ROOT)))
            rc = 1

        # evidence
        n_thm = len(thms_all) + len(failed_files)
        ev = {
            'property_id': prop, 'tier': tier, 'seed': seed, 'level': getattr(mod, 'LEVEL', 'proof'),
            'coverage': {
                'obligations': n_thm + extra.get('info', {}).get('obligations', 0),
                'discharged': len(thms_all) + extra.get('info', {}).get('discharged', 0),
                'checker_cmd': 'harness/build.sh all && coqc -Q coq EV coq/%s  (full .vo build with coqc 8.16.1; '
                               'Print Assumptions parsed per theorem)' % ' '.join(mod.PROPS_FILES),
                'trusted_base': getattr(mod, 'TRUSTED', []) + [
                    'Coq 8.16.1 kernel (coqc; vm_compute only where a theorem says so; no native_compute)',
                    'extraction (ExtrOcamlBasic only, Z kept inductive) + OCaml 4.13.1 + ocaml/driver.ml',
                    'harness/core.py, harness/worker.py, harness/props/%s.py (generators, canonicalisation)' % prop,
                    'hand-written Gallina model tied to /repo only by this correspondence run'],
                'theorems': [{'file': pf, 'name': n, 'closed': c, 'axioms': a} for (pf, n, c, a) in thms_all],
                'evaluations': len(recs) * max(1, len(modes)),
                'cases': len(recs),
                'generated_before_dedup': n_generated,
                'corpus_cases': len(corpus),
                'distinct_nontrivial': nontrivial,
                'rule': getattr(mod, 'RULE', ''),
                'exhaustive': bool(getattr(mod, 'EXHAUSTIVE', {}).get(tier, False)),
                'modes': modes,
                'features': feats,
                'outcomes': kinds,
                'known_finding_cases': {k: len(v) for k, v in known_hits.items()},
                'samples': [{'case': r['case'], 'model': r['model'], 'impl': r['impl']}
                            for r in (recs[:2] + recs[len(recs) // 2:len(recs) // 2 + 2] + recs[-2:])][:6],
                'timing': timing,
                'change_directed': {'source_files_changed_since_model': hot_info['changed_files'],
                                    'new_small_literals_planted': hot_info['hot'][:4],
                                    'new_literals_too_large_to_enumerate': hot_info['big'][:8]},
            },
            'assumptions': getattr(mod, 'ASSUMPTIONS', []),
            'wall_s': round(time.time() - t_start, 2),
            'violations': len(violations) + len(extra['violations']) + (1 if (corrs and not violations) else 0),
        }
        ev['coverage'].update(extra.get('info', {}).get('coverage', {}))
        if hasattr(mod, 'summarize'):
            ev['coverage'].update(mod.summarize(recs))
        os.makedirs(os.path.join(ROOT, 'evidence'), exist_ok=True)
        with open(os.path.join(ROOT, 'evidence', prop + '.json'), 'w') as f:
            json.dump(ev, f, indent=1, default=str)
        for l in lines:
            print(l)
        print('%s %s tier=%s cases=%d nontrivial=%d modes=%s theorems=%d/%d outcomes=%s wall=%.1fs' % (
            'FAIL' if rc else 'OK', prop, tier, len(recs), nontrivial, ','.join(modes), len(thms_all), n_thm,
            kinds, time.time() - t_start))
        return rc
    except MachineryError as e:
        print('MACHINERY-ERROR %s: %s' % (prop, e))
        return 2
