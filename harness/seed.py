#!/venv/bin/python
"""harness/seed.py <mut_dir> <n> <prop> [more props to run...]
Confirms a seeded change delivered by an independent sub-agent (out/patchN.diff, out/demoN.py, out/metaN.json in
<mut_dir>) and, if confirmed, keeps it as /verif/seeded/<prop>-<n>/ {patch.diff, demo.py, meta.json}:
  1. fresh scratch worktree of /repo HEAD; the demo must PASS there;
  2. the patch must apply; the demo must FAIL with it;
  3. the pinned test suite must still pass every baseline-stable test with the patch;
  4. the quick checks of <prop> (and the extra ones) are run against the patched worktree; meta.json records which
     reported a VIOLATION.
The scratch worktree is removed at the end. Dev helper; never touches /repo's working tree."""
import sys, os, json, subprocess, shutil, time, xml.etree.ElementTree as ET

ROOT = os.path.dirname(os.path.dirname(os.path.abspath(__file__)))
PY = '/venv/bin/python'


def sh(cmd, cwd=None, env=None, timeout=3600):
    r = subprocess.run(cmd, shell=True, cwd=cwd, env=env, capture_output=True, text=True, timeout=timeout)
    return r.returncode, (r.stdout + r.stderr)


def main():
    mut, n, prop = sys.argv[1], sys.argv[2], sys.argv[3]
    extra = sys.argv[4:]
    out = os.path.join(mut, 'out')
    patch, demo, meta = [os.path.join(out, f % n) for f in ('patch%s.diff', 'demo%s.py', 'meta%s.json')]
    for f in (patch, demo):
        if not os.path.exists(f):
            print('missing', f); return 2
    wt = '/tmp/seedwt_%d' % os.getpid()
    rc, o = sh('git -C /repo worktree add -q --detach %s HEAD' % wt)
    if rc: print(o); return 2
    env = dict(os.environ, PYTHONPATH=wt, PYTHONHASHSEED='0')
    res = {'property': prop, 'source': '%s/out/*%s*' % (mut, n)}
    try:
        # some demos hard-code the path of the worktree they were written in: run a copy that points at OUR worktree
        demo_src = open(demo).read().replace(os.path.abspath(mut), wt)
        os.makedirs(os.path.join(wt, 'out'), exist_ok=True)     # same layout as the agents' <worktree>/out/demoN.py
        demo_run = os.path.join(wt, 'out', '_seed_demo.py')
        open(demo_run, 'w').write(demo_src)
        demo_orig, demo = demo, demo_run
        rc0, o0 = sh('%s %s' % (PY, demo), cwd=wt, env=env, timeout=900)
        res['demo_on_head'] = rc0
        rc, o = sh('git apply %s' % patch, cwd=wt)
        if rc:
            print('PATCH DOES NOT APPLY to /repo HEAD:', o[:500]); return 1
        rc1, o1 = sh('%s %s' % (PY, demo), cwd=wt, env=env, timeout=900)
        res['demo_with_patch'] = rc1
        print('demo on HEAD rc=%d, with patch rc=%d' % (rc0, rc1))
        if rc0 != 0 or rc1 == 0:
            print('NOT CONFIRMED (demo must pass on HEAD and fail with the patch)')
            print(o0[-600:]); print(o1[-600:]); return 1
        # test suite
        xml = '/tmp/seed_junit_%d.xml' % os.getpid()
        t0 = time.time()
        sh('%s -m pytest -q -p no:cacheprovider --timeout=900 --continue-on-collection-errors --junitxml=%s tests' % (PY, xml),
           cwd=wt, env=env, timeout=7200)
        base = set(json.load(open('/root/.vp/BASELINE.json'))['stable_pass'])
        passed = set()
        for tc in ET.parse(xml).getroot().iter('testcase'):
            if not any(c.tag in ('failure', 'error', 'skipped') for c in tc):
                passed.add(tc.get('classname') + '::' + tc.get('name'))
        missing = sorted(base - passed)
        res['suite'] = {'baseline_stable': len(base), 'passing': len(base & passed), 'not_passing': missing[:10], 'wall_s': round(time.time() - t0)}
        print('test suite: %d/%d baseline-stable tests pass (%ds)' % (len(base & passed), len(base), time.time() - t0))
        if missing:
            print('NOT CONFIRMED: the change breaks existing tests:', missing[:5]); return 1
        # our checks
        caught, ran = [], {}
        for p in [prop] + extra:
            if not os.path.exists(os.path.join(ROOT, 'harness', 'props', p + '.py')):
                continue
            e2 = dict(os.environ, VERIF_REPO=wt)
            t0 = time.time()
            rc, o = sh('./check %s --tier quick' % p, cwd=ROOT, env=e2, timeout=7200)
            line = [l for l in o.split('\n') if l.startswith(('VIOLATION', 'OK', 'FAIL', 'MACHINERY'))]
            ran[p] = {'rc': rc, 'wall_s': round(time.time() - t0), 'lines': line[:3]}
            print(p, 'rc=%d' % rc, line[:2])
            if rc == 1:
                caught.append(p)
            # keep the replay of the mutant for the record
        res['checks'] = ran
        res['caught_by'] = caught
        sh('git checkout -- evidence', cwd=ROOT)
        # store
        sid = '%s-%s%s' % (prop, (os.environ.get('SEED_SUFFIX') + '-') if os.environ.get('SEED_SUFFIX') else '', n)
        d = os.path.join(ROOT, 'seeded', sid)
        os.makedirs(d, exist_ok=True)
        shutil.copy(patch, os.path.join(d, 'patch.diff'))
        shutil.copy(demo_orig, os.path.join(d, 'demo.py'))
        m = json.load(open(meta)) if os.path.exists(meta) else {}
        m.update({'property': prop, 'confirmed': res, 'caught_by': caught,
                  'what_was_run': 'harness/seed.py: demo on a clean worktree of /repo HEAD (pass) and with the patch (fail); pinned '
                                  'pytest suite with the patch (all baseline-stable tests pass); ./check <prop> --tier quick with '
                                  'VERIF_REPO=<patched worktree>'})
        json.dump(m, open(os.path.join(d, 'meta.json'), 'w'), indent=1)
        print('KEPT as seeded/%s  caught_by=%s' % (sid, caught))
        return 0
    finally:
        sh('git -C /repo worktree remove --force %s' % wt)


if __name__ == '__main__':
    sys.exit(main())
