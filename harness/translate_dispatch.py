#!/venv/bin/python
"""harness/translate_dispatch.py — the C13 translator (DESIGN §5.C13).

Walks the AST of $VERIF_REPO/exetera/core/fields.py and emits coq/Gen/DispatchTable.v:

  gen_table  : list entry          one entry per operator method of the six field classes:
                                   (class, dunder, FieldDataOps function, argument list)
  gen_ufunc  : list (cls * bool)   does the class body assign  __array_ufunc__ = None ?
  gen_ops    : list opdef          FieldDataOps.<fn>  ->  (wrapper, numpy/operator function)
  gen_wrappers_ok : bool           _binary_op / _unary_op / numeric_divmod / dtype_to_str have
                                   exactly the statement structure that Model/Dispatch.v mirrors

The translation is FAIL-CLOSED: any operator method whose body is not
    [self._ensure_valid()]  return FieldDataOps.<fn>(self._session, A [, B])     A,B in {self, <the parameter>}
any unknown FieldDataOps function shape, any base class that defines an operator, any
class-level attribute that changes numpy's/Python's dispatch (__array_priority__, __array__,
__array_wrap__, __getattr__, __getattribute__, __class_getitem__ …) aborts with TranslationError.

It is a *reader*: nothing from /repo is imported or executed.
usage: translate_dispatch.py [fields.py] [out.v]     (prints a summary; exit 3 on abort)
"""
import ast, os, sys, hashlib, json

CLASSES = [('NumericMemField', 'NumericMem'), ('CategoricalMemField', 'CategoricalMem'),
           ('TimestampMemField', 'TimestampMem'), ('NumericField', 'NumericH5'),
           ('CategoricalField', 'CategoricalH5'), ('TimestampField', 'TimestampH5')]

ARITH = ['add', 'sub', 'mul', 'truediv', 'floordiv', 'mod', 'divmod', 'and', 'or', 'xor']
CMP = ['lt', 'le', 'eq', 'ne', 'gt', 'ge']
BOP_COQ = {'add': 'Add', 'sub': 'Sub', 'mul': 'Mul', 'truediv': 'TrueDiv', 'floordiv': 'FloorDiv', 'mod': 'Mod',
           'divmod': 'DivMod', 'and': 'And', 'or': 'Or', 'xor': 'Xor',
           'lt': 'Lt', 'le': 'Le', 'eq': 'Eq', 'ne': 'Ne', 'gt': 'Gt', 'ge': 'Ge'}
DUNDERS = {}
for o in ARITH:
    DUNDERS['__%s__' % o] = 'D_fwd %s' % BOP_COQ[o]
    DUNDERS['__r%s__' % o] = 'D_refl %s' % BOP_COQ[o]
for o in CMP:
    DUNDERS['__%s__' % o] = 'D_fwd %s' % BOP_COQ[o]
DUNDERS['__invert__'] = 'D_un Invert'
DUNDERS['logical_not'] = 'D_un LogicalNot'
# other special methods that would take part in operator dispatch and that the model does not
# know: their presence anywhere in the MRO of a field class aborts the translation
UNMODELLED = {'__neg__', '__pos__', '__abs__', '__pow__', '__rpow__', '__matmul__', '__rmatmul__',
              '__lshift__', '__rlshift__', '__rshift__', '__rrshift__',
              '__iadd__', '__isub__', '__imul__', '__itruediv__', '__ifloordiv__', '__imod__', '__iand__',
              '__ior__', '__ixor__', '__ipow__', '__ilshift__', '__irshift__', '__imatmul__',
              '__array__', '__array_priority__', '__array_wrap__', '__array_finalize__', '__array_interface__',
              '__array_struct__', '__array_function__', '__getattr__', '__getattribute__', '__index__',
              '__int__', '__float__', '__complex__', '__buffer__', '__init_subclass__', '__new__'}
# in-place operators are not defined: Python falls back to the binary operator (x += y  ==  x = x + y).

FDO = ['numeric_add', 'numeric_sub', 'numeric_mul', 'numeric_truediv', 'numeric_floordiv', 'numeric_mod',
       'numeric_divmod', 'numeric_and', 'numeric_xor', 'numeric_or', 'invert', 'logical_not',
       'less_than', 'less_than_equal', 'equal', 'not_equal', 'greater_than', 'greater_than_equal']
FDO_COQ = {f: 'F_' + f for f in FDO}
OPERATOR_COQ = {'add': 'Op_add', 'sub': 'Op_sub', 'mul': 'Op_mul', 'truediv': 'Op_truediv',
                'floordiv': 'Op_floordiv', 'mod': 'Op_mod', 'and_': 'Op_and', 'or_': 'Op_or', 'xor': 'Op_xor',
                'invert': 'Op_invert', 'lt': 'Op_lt', 'le': 'Op_le', 'eq': 'Op_eq', 'ne': 'Op_ne',
                'gt': 'Op_gt', 'ge': 'Op_ge'}


class TranslationError(Exception):
    pass


def _strip_doc(body):
    if body and isinstance(body[0], ast.Expr) and isinstance(getattr(body[0], 'value', None), ast.Constant) \
            and isinstance(body[0].value.value, str):
        return body[1:]
    return body


def _is_name(n, s):
    return isinstance(n, ast.Name) and n.id == s


def _is_attr(n, base, attr):
    return isinstance(n, ast.Attribute) and n.attr == attr and _is_name(n.value, base)


class _Alpha(ast.NodeTransformer):
    """renames the local variables of one function (parameters and assigned names) to v0, v1, … in order of
    first occurrence, so that a pure renaming is not a structural difference"""
    def __init__(self, locals_):
        self.locals_, self.map = locals_, {}

    def _n(self, name):
        if name in self.locals_:
            return self.map.setdefault(name, 'v%d' % len(self.map))
        return name

    def visit_Name(self, node):
        return ast.copy_location(ast.Name(id=self._n(node.id), ctx=node.ctx), node)

    def visit_arg(self, node):
        return ast.copy_location(ast.arg(arg=self._n(node.arg), annotation=None), node)

    def visit_FunctionDef(self, node):
        node = self.generic_visit(node)
        node.name = self._n(node.name)
        return node


def _local_names(fn):
    names = set()
    for n in ast.walk(fn):
        if isinstance(n, ast.arg):
            names.add(n.arg)
        elif isinstance(n, ast.Name) and isinstance(n.ctx, ast.Store):
            names.add(n.id)
        elif isinstance(n, ast.FunctionDef) and n is not fn:
            names.add(n.name)
    return names


def norm_fn(fn):
    """position-free, docstring-free, alpha-normalised dump of a function (parameters + body)"""
    import copy
    fn = copy.deepcopy(fn)
    fn.decorator_list = []
    fn.returns = None
    fn.body = _strip_doc(fn.body) or [ast.Pass()]
    name = fn.name
    fn = _Alpha(_local_names(fn)).visit(fn)
    fn.name = name
    return ast.dump(fn, annotate_fields=True, include_attributes=False)


def translate_method(cname, fn):
    """-> (fdo_name, [args])   args over {'Self','Other'}"""
    where = '%s.%s (line %d)' % (cname, fn.name, fn.lineno)
    if fn.decorator_list:
        raise TranslationError('%s: decorated operator method' % where)
    a = fn.args
    if a.vararg or a.kwarg or a.kwonlyargs or a.defaults or a.posonlyargs:
        raise TranslationError('%s: unexpected signature' % where)
    params = [x.arg for x in a.args]
    if not params or params[0] != 'self' or len(params) > 2:
        raise TranslationError('%s: unexpected parameters %s' % (where, params))
    other = params[1] if len(params) == 2 else None
    body = _strip_doc(fn.body)
    if len(body) == 2:
        s = body[0]
        ok = (isinstance(s, ast.Expr) and isinstance(s.value, ast.Call) and not s.value.args and not s.value.keywords
              and _is_attr(s.value.func, 'self', '_ensure_valid'))
        if not ok:
            raise TranslationError('%s: first statement is not self._ensure_valid()' % where)
        body = body[1:]
    if len(body) != 1 or not isinstance(body[0], ast.Return) or not isinstance(body[0].value, ast.Call):
        raise TranslationError('%s: body is not a single `return FieldDataOps.f(...)`' % where)
    call = body[0].value
    if call.keywords or not (isinstance(call.func, ast.Attribute) and _is_name(call.func.value, 'FieldDataOps')):
        raise TranslationError('%s: callee is not FieldDataOps.<f>' % where)
    f = call.func.attr
    if f not in FDO_COQ:
        raise TranslationError('%s: unknown FieldDataOps function %s' % (where, f))
    if not call.args or not _is_attr(call.args[0], 'self', '_session'):
        raise TranslationError('%s: first argument is not self._session' % where)
    args = []
    for x in call.args[1:]:
        if _is_name(x, 'self'):
            args.append('Self')
        elif other is not None and _is_name(x, other):
            args.append('Other')
        else:
            raise TranslationError('%s: argument %s is neither self nor the parameter' % (where, ast.dump(x)))
    return f, args


# the exact statement structure (normalised dumps are compared) of the wrappers that Model/Dispatch.v mirrors
EXPECT_SRC = {
    '_binary_op': '''
def _binary_op(session, first, second, function):
    if isinstance(first, Field):
        first_data = first.data[:]
    else:
        first_data = first

    if isinstance(second, Field):
        second_data = second.data[:]
    else:
        second_data = second

    r = function(first_data, second_data)
    f = NumericMemField(session, dtype_to_str(r.dtype))
    f.data.write(r)
    return f
''',
    '_unary_op': '''
def _unary_op(session, first, function):
    if isinstance(first, Field):
        first_data = first.data[:]
    else:
        first_data = first

    r = function(first_data)
    f = NumericMemField(session, dtype_to_str(r.dtype))
    f.data.write(r)
    return f
''',
    'numeric_divmod': '''
def numeric_divmod(cls, session, first, second):
    if isinstance(first, Field):
        first_data = first.data[:]
    else:
        first_data = first

    if isinstance(second, Field):
        second_data = second.data[:]
    else:
        second_data = second

    r1, r2 = np.divmod(first_data, second_data)
    f1 = NumericMemField(session, dtype_to_str(r1.dtype))
    f1.data.write(r1)
    f2 = NumericMemField(session, dtype_to_str(r2.dtype))
    f2.data.write(r2)
    return f1, f2
''',
    'logical_not': '''
def logical_not(cls, session, first):
    def function_logical_not(first):
        return np.logical_not(first)

    return cls._unary_op(session, first, function_logical_not)
''',
    'dtype_to_str': '''
def dtype_to_str(dtype):
    if isinstance(dtype, str):
        return dtype

    if dtype == bool:
        return 'bool'
    elif dtype == np.int8:
        return 'int8'
    elif dtype == np.int16:
        return 'int16'
    elif dtype == np.int32:
        return 'int32'
    elif dtype == np.int64:
        return 'int64'
    elif dtype == np.uint8:
        return 'uint8'
    elif dtype == np.uint16:
        return 'uint16'
    elif dtype == np.uint32:
        return 'uint32'
    elif dtype == np.uint64:
        return 'uint64'
    elif dtype == np.float32:
        return 'float32'
    elif dtype == np.float64:
        return 'float64'

    raise ValueError("Unsupported dtype '{}'".format(dtype))
''',
}


def _as_expected(fn):
    """does the function have the statement structure recorded in EXPECT_SRC (up to renaming of locals)?"""
    return norm_fn(fn) == norm_fn(ast.parse(EXPECT_SRC[fn.name]).body[0])


WRAPPER_NOTES = []


def translate_fdo(fn):
    """FieldDataOps.<fn> -> (wrapper, npop)"""
    where = 'FieldDataOps.%s (line %d)' % (fn.name, fn.lineno)
    decs = [d.id for d in fn.decorator_list if isinstance(d, ast.Name)]
    if decs != ['classmethod'] or len(fn.decorator_list) != 1:
        raise TranslationError('%s: not a plain classmethod' % where)
    if fn.name in ('numeric_divmod', 'logical_not'):
        # whole-body functions: compared structurally with the statements the model mirrors; a difference is
        # reported through gen_wrappers_ok (obligation gen_wrappers_unchanged), the entry itself is by name
        if not _as_expected(fn):
            WRAPPER_NOTES.append('%s differs from the modelled statement list' % where)
        return ('W_divmod', 'Np_divmod') if fn.name == 'numeric_divmod' else ('W_unary', 'Np_logical_not')
    params = [x.arg for x in fn.args.args]
    body = _strip_doc(fn.body)
    if len(body) != 1 or not isinstance(body[0], ast.Return) or not isinstance(body[0].value, ast.Call):
        raise TranslationError('%s: body is not a single return of a call' % where)
    call = body[0].value
    if call.keywords:
        raise TranslationError('%s: keyword arguments' % where)
    if _is_attr(call.func, 'cls', '_binary_op'):
        w, want = 'W_binary', ['session', 'first', 'second']
    elif _is_attr(call.func, 'cls', '_unary_op'):
        w, want = 'W_unary', ['session', 'first']
    else:
        raise TranslationError('%s: callee is neither cls._binary_op nor cls._unary_op' % where)
    if params != ['cls'] + want:
        raise TranslationError('%s: parameters %s' % (where, params))
    got = call.args[:-1]
    if len(got) != len(want) or not all(_is_name(g, n) for g, n in zip(got, want)):
        raise TranslationError('%s: arguments are not passed through in order' % where)
    op = call.args[-1]
    if not (isinstance(op, ast.Attribute) and _is_name(op.value, 'operator') and op.attr in OPERATOR_COQ):
        raise TranslationError('%s: function argument is not operator.<known>' % where)
    return w, OPERATOR_COQ[op.attr]


def class_defs(tree):
    return {n.name: n for n in tree.body if isinstance(n, ast.ClassDef)}


def mro_names(classes, name, seen=None):
    """linearised base-class names (single inheritance chain expected); `classes` holds the classes of
    fields.py plus those imported from other exetera modules (see load_imported_classes)"""
    out = []
    c = classes.get(name)
    while c is not None:
        out.append(c.name)
        if len(c.bases) > 1:
            raise TranslationError('class %s: multiple inheritance' % c.name)
        if c.keywords:
            raise TranslationError('class %s: metaclass / class keywords' % c.name)
        if not c.bases:
            break
        b = c.bases[0]
        if not isinstance(b, ast.Name):
            raise TranslationError('class %s: base is not a plain name' % c.name)
        if b.id not in classes:
            if b.id not in ('object', 'ABC'):   # abc.ABC defines no operator and no numpy protocol attribute
                raise TranslationError('class %s: base %s cannot be resolved' % (c.name, b.id))
            break
        c = classes[b.id]
    return out


def load_imported_classes(tree, path, classes):
    """`from exetera.core.X import Name`: parse X.py next to fields.py and add class Name (and its
    own local bases) so that the whole MRO of the field classes is inspected."""
    pkg_root = os.path.dirname(os.path.dirname(os.path.dirname(os.path.abspath(path))))
    for n in tree.body:
        if isinstance(n, ast.ImportFrom) and n.module and n.module.startswith('exetera.') and n.level == 0:
            mp = os.path.join(pkg_root, *n.module.split('.')) + '.py'
            if not os.path.exists(mp):
                continue
            sub = None
            for al in n.names:
                if al.asname not in (None, al.name):
                    raise TranslationError('import %s as %s' % (al.name, al.asname))
                if sub is None:
                    sub = class_defs(ast.parse(open(mp).read()))
                if al.name in sub and al.name not in classes:
                    classes[al.name] = sub[al.name]
                    # bases of the imported class that live in the same module
                    todo = [sub[al.name]]
                    while todo:
                        c = todo.pop()
                        for b in c.bases:
                            if isinstance(b, ast.Name) and b.id in sub and b.id not in classes:
                                classes[b.id] = sub[b.id]
                                todo.append(sub[b.id])


def translate(path):
    src = open(path).read()
    tree = ast.parse(src)
    classes = class_defs(tree)
    load_imported_classes(tree, path, classes)
    # `operator` and `np` must be the real modules, not rebound in this file
    for n in ast.walk(tree):
        tg = []
        if isinstance(n, ast.Assign):
            tg = n.targets
        elif isinstance(n, (ast.AugAssign, ast.AnnAssign)):
            tg = [n.target]
        for t in tg:
            if isinstance(t, ast.Name) and t.id in ('operator', 'np', 'FieldDataOps', 'Field', 'NumericMemField', 'dtype_to_str'):
                raise TranslationError('name %s is rebound at line %d' % (t.id, n.lineno))
            if isinstance(t, ast.Attribute) and (t.attr in DUNDERS or t.attr in UNMODELLED or t.attr == '__array_ufunc__') \
                    and not _is_name(t.value, 'self'):
                raise TranslationError('attribute %s is assigned outside a class body at line %d' % (t.attr, n.lineno))
        if isinstance(n, ast.Call) and _is_name(n.func, 'setattr'):
            raise TranslationError('setattr() call at line %d' % n.lineno)
    imports = [n for n in tree.body if isinstance(n, (ast.Import, ast.ImportFrom))]
    imp_ok = {'operator': False, 'np': False}
    for n in imports:
        if isinstance(n, ast.Import):
            for al in n.names:
                if al.name == 'operator' and al.asname in (None, 'operator'):
                    imp_ok['operator'] = True
                if al.name == 'numpy' and al.asname == 'np':
                    imp_ok['np'] = True
    if not all(imp_ok.values()):
        raise TranslationError('`import operator` / `import numpy as np` not found at module level: %s' % imp_ok)

    table, ufunc = [], []
    for pyname, coqname in CLASSES:
        if pyname not in classes:
            raise TranslationError('class %s not found' % pyname)
        chain = mro_names(classes, pyname)
        flag = None
        for depth, cn in enumerate(chain):
            c = classes[cn]
            if c.decorator_list:
                raise TranslationError('class %s: decorated' % cn)
            for st in c.body:
                names = []
                if isinstance(st, (ast.FunctionDef, ast.AsyncFunctionDef)):
                    names = [st.name]
                elif isinstance(st, ast.Assign):
                    names = [t.id for t in st.targets if isinstance(t, ast.Name)]
                elif isinstance(st, ast.AnnAssign) and isinstance(st.target, ast.Name):
                    names = [st.target.id]
                for nm in names:
                    if nm in UNMODELLED:
                        raise TranslationError('class %s defines %s, which the dispatch model does not cover' % (cn, nm))
                    if nm == '__array_ufunc__':
                        if not (isinstance(st, ast.Assign) and isinstance(st.value, ast.Constant) and st.value.value is None):
                            raise TranslationError('class %s: __array_ufunc__ is not assigned the constant None' % cn)
                        if flag is None:
                            flag = True
                    if nm in DUNDERS:
                        if depth > 0:
                            raise TranslationError('base class %s of %s defines operator %s' % (cn, pyname, nm))
                        if not isinstance(st, ast.FunctionDef):
                            raise TranslationError('class %s: %s is not a plain method' % (cn, nm))
                        f, args = translate_method(cn, st)
                        table.append((coqname, DUNDERS[nm], FDO_COQ[f], args, st.lineno))
        # a method defined twice: Python keeps the last one
        seen = {}
        for e in [e for e in table if e[0] == coqname]:
            if e[1] in seen:
                raise TranslationError('class %s defines %s twice (lines %d, %d)' % (pyname, e[1], seen[e[1]], e[4]))
            seen[e[1]] = e[4]
        ufunc.append((coqname, bool(flag)))

    if 'FieldDataOps' not in classes:
        raise TranslationError('class FieldDataOps not found')
    fdo = classes['FieldDataOps']
    if fdo.bases or fdo.keywords or fdo.decorator_list:
        raise TranslationError('FieldDataOps has bases/decorators')
    fdo_funcs = {}
    for st in fdo.body:
        if isinstance(st, ast.FunctionDef):
            if st.name in fdo_funcs:
                raise TranslationError('FieldDataOps.%s defined twice' % st.name)
            fdo_funcs[st.name] = st
    ops = []
    del WRAPPER_NOTES[:]
    used = sorted({e[2] for e in table})
    for f in FDO:
        if f not in fdo_funcs:
            if FDO_COQ[f] in used:
                raise TranslationError('FieldDataOps.%s is called but not defined' % f)
            continue
        w, o = translate_fdo(fdo_funcs[f])
        ops.append((FDO_COQ[f], w, o))
    notes = list(WRAPPER_NOTES)
    for nm in ('_binary_op', '_unary_op'):
        st = fdo_funcs.get(nm)
        good = (st is not None and [d.id for d in st.decorator_list if isinstance(d, ast.Name)] == ['staticmethod']
                and len(st.decorator_list) == 1 and _as_expected(st))
        if not good:
            notes.append('FieldDataOps.%s differs from the modelled statement list' % nm)
    d2s = [n for n in tree.body if isinstance(n, ast.FunctionDef) and n.name == 'dtype_to_str']
    if len(d2s) != 1 or d2s[0].decorator_list or not _as_expected(d2s[0]):
        notes.append('dtype_to_str differs from the modelled statement list')
    wrappers_ok = not notes
    # a wrapper that no longer has the modelled statement list does not abort the translation: it makes
    # gen_wrappers_ok false, i.e. exactly the obligation gen_wrappers_unchanged fails
    digest = hashlib.sha256(json.dumps([table, ufunc, ops], sort_keys=True).encode()).hexdigest()[:16]
    return {'table': table, 'ufunc': ufunc, 'ops': ops, 'wrappers_ok': wrappers_ok, 'digest': digest,
            'source': path, 'notes': notes}


def emit(tr):
    L = []
    L.append('(* GENERATED by harness/translate_dispatch.py from %s — do not edit, not committed.' % tr['source'])
    L.append('   digest %s; %d method entries, %d FieldDataOps functions. *)' % (tr['digest'], len(tr['table']), len(tr['ops'])))
    L.append('From Coq Require Import List.')
    L.append('From EV Require Import Dispatch.')
    L.append('Import ListNotations.')
    L.append('')
    L.append('Definition gen_table : list entry := [')
    L.append(';\n'.join('  (%s, %s, %s, [%s])  (* line %d *)' % (c, d, f, '; '.join('A' + a for a in args), ln)
                        for (c, d, f, args, ln) in tr['table']))
    L.append('].')
    L.append('')
    L.append('Definition gen_ufunc : list (cls * bool) := [')
    L.append(';\n'.join('  (%s, %s)' % (c, 'true' if b else 'false') for c, b in tr['ufunc']))
    L.append('].')
    L.append('')
    L.append('Definition gen_ops : list opdef := [')
    L.append(';\n'.join('  (%s, %s, %s)' % x for x in tr['ops']))
    L.append('].')
    L.append('')
    for n in tr.get('notes', []):
        L.append('(* %s *)' % n.replace('*)', '* )'))
    L.append('Definition gen_wrappers_ok : bool := %s.' % ('true' if tr['wrappers_ok'] else 'false'))
    return '\n'.join(L) + '\n'


def main():
    repo = os.environ.get('VERIF_REPO', '/repo')
    path = sys.argv[1] if len(sys.argv) > 1 else os.path.join(repo, 'exetera', 'core', 'fields.py')
    here = os.path.dirname(os.path.dirname(os.path.abspath(__file__)))
    out = sys.argv[2] if len(sys.argv) > 2 else os.path.join(here, 'coq', 'Gen', 'DispatchTable.v')
    try:
        tr = translate(path)
    except TranslationError as e:
        print('TRANSLATION-ABORTED: %s' % e)
        return 3
    os.makedirs(os.path.dirname(out), exist_ok=True)
    txt = emit(tr)
    if not os.path.exists(out) or open(out).read() != txt:
        with open(out, 'w') as f:
            f.write(txt)
    print('translated %d method entries, %d FieldDataOps functions, ufunc flags %s, digest %s -> %s'
          % (len(tr['table']), len(tr['ops']), tr['ufunc'], tr['digest'], out))
    return 0


if __name__ == '__main__':
    sys.exit(main())
