"""stub"""
def check(tier):
    return {'violations': [], 'info': {}}
