"""harness/c13_table.py — C13's generated obligations (called from harness/props/C13.py extra_checks).

1. translate $VERIF_REPO/exetera/core/fields.py (harness/translate_dispatch.py, fail-closed) and write
   coq/Gen/DispatchTable.v (kept for inspection; gitignored; not part of the make build);
2. compile it and coq/GenProps/C13Table.v in a scratch directory against the built development;
3. every Theorem of GenProps/C13Table.v is one obligation; it is discharged iff it compiles and its
   Print Assumptions is closed (or lists allowed stdlib axioms only).  When the file does not compile the
   theorems are re-tried one by one (each on top of the ones that did compile) to name the failing ones.
"""
import os, re, shutil, subprocess, tempfile
from harness import core
from harness import translate_dispatch as td

GENPROPS = os.path.join(core.COQ, 'GenProps', 'C13Table.v')
GENFILE = os.path.join(core.COQ, 'Gen', 'DispatchTable.v')


def _coqc(tmp, name):
    r = subprocess.run(['coqc', '-Q', core.COQ, 'EV', '-Q', tmp, 'EV', '-w', '-all', os.path.join(tmp, name)],
                       cwd=tmp, capture_output=True, text=True, timeout=900)
    return r.returncode, r.stdout + r.stderr


def _split(src):
    """header, [(theorem name, chunk text)]"""
    idx = [m.start() for m in re.finditer(r'(?m)^Theorem\s', src)]
    header = src[:idx[0]]
    chunks = []
    for k, a in enumerate(idx):
        b = idx[k + 1] if k + 1 < len(idx) else len(src)
        txt = src[a:b]
        name = re.match(r'Theorem\s+([A-Za-z0-9_\']+)', txt).group(1)
        chunks.append((name, txt))
    return header, chunks


def _closed(out, n):
    blocks = re.split(r'(?=Closed under the global context|Axioms:)', out)
    blocks = [b for b in blocks if b.startswith('Closed under') or b.startswith('Axioms:')]
    if len(blocks) != n:
        return None
    res = []
    for b in blocks:
        if b.startswith('Closed'):
            res.append([])
        else:
            res.append(re.findall(r'^([A-Za-z0-9_\'.]+)\s*:', b[len('Axioms:'):], re.M))
    return res


def check(tier):
    src = open(GENPROPS).read()
    header, chunks = _split(core.strip_comments(src))
    names = [n for n, _ in chunks]
    fields_py = os.path.join(core.REPO, 'exetera', 'core', 'fields.py')
    info = {'obligations': len(names), 'discharged': 0,
            'coverage': {'generated_obligations': [], 'translator': None}}
    try:
        tr = td.translate(fields_py)
    except td.TranslationError as e:
        info['coverage']['translator'] = 'ABORTED: %s' % e
        info['coverage']['generated_obligations'] = [{'name': n, 'discharged': False} for n in names]
        return {'violations': [{'kind': 'translation-aborted', 'case': None,
                                'what': 'harness/translate_dispatch.py could not read the operator layer of %s as a '
                                        'dispatch table (fail-closed): %s' % (fields_py, e),
                                'obligations_not_discharged': names}], 'info': info}
    txt = td.emit(tr)
    os.makedirs(os.path.dirname(GENFILE), exist_ok=True)
    if not os.path.exists(GENFILE) or open(GENFILE).read() != txt:
        with open(GENFILE, 'w') as f:
            f.write(txt)
    info['coverage']['translator'] = ('%d operator methods of 6 classes, %d FieldDataOps functions, __array_ufunc__=None flags %s, '
                                      'wrappers structurally as modelled: %s, digest %s'
                                      % (len(tr['table']), len(tr['ops']), dict(tr['ufunc']), tr['wrappers_ok'], tr['digest']))
    tmp = tempfile.mkdtemp(prefix='c13gen_')
    try:
        shutil.copy(GENFILE, os.path.join(tmp, 'DispatchTable.v'))
        rc, out = _coqc(tmp, 'DispatchTable.v')
        if rc != 0:
            raise core.MachineryError('generated Gen/DispatchTable.v does not compile (translator bug):\n' + out[-1500:])
        shutil.copy(GENPROPS, os.path.join(tmp, 'C13Table.v'))
        rc, out = _coqc(tmp, 'C13Table.v')
        failed, outputs = [], {}
        if rc == 0:
            ax = _closed(out, len(names))
            if ax is None:
                raise core.MachineryError('GenProps/C13Table.v: Print Assumptions blocks do not match the theorems')
            status = {n: a for n, a in zip(names, ax)}
        else:
            status, good = {}, ''
            for n, chunk in chunks:
                with open(os.path.join(tmp, 'One.v'), 'w') as f:
                    f.write(header + good + chunk)
                rc1, out1 = _coqc(tmp, 'One.v')
                if rc1 == 0:
                    ax = _closed(out1, good.count('Print Assumptions') + 1)
                    status[n] = ax[-1] if ax else ['?']
                    good += chunk
                else:
                    status[n] = None
                    outputs[n] = out1[-1200:]
        allowed = {x.split('.')[-1] for x in core.ALLOWED_AXIOMS}
        for n in names:
            ok = status[n] is not None and all(a.split('.')[-1] in allowed for a in status[n])
            info['coverage']['generated_obligations'].append({'name': n, 'discharged': ok, 'axioms': status[n] or []})
            if ok:
                info['discharged'] += 1
            else:
                failed.append(n)
        if failed:
            return {'violations': [{'kind': 'generated-obligation-failed', 'case': None,
                                    'what': 'GenProps/C13Table.v: %s do(es) not hold of the operator table translated from %s'
                                            % (', '.join(failed), fields_py),
                                    'translator': info['coverage']['translator'],
                                    'coqc_output': {n: outputs.get(n, '') for n in failed}}], 'info': info}
        return {'violations': [], 'info': info}
    finally:
        shutil.rmtree(tmp, ignore_errors=True)
