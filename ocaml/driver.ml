(* driver.ml — reads one case per line:  <prop-number> <value>
   where <value> is an integer or a bracketed, comma-separated list of values;
   prints the resulting value in the same syntax.  Pure glue around Model.dispatch. *)
open Model

let rec pos_of_int n = if n = 1 then XH else if n land 1 = 0 then XO (pos_of_int (n lsr 1)) else XI (pos_of_int (n lsr 1))
let z_of_int n = if n = 0 then Z0 else if n > 0 then Zpos (pos_of_int n) else Zneg (pos_of_int (-n))
let rec int_of_pos = function XH -> 1 | XO p -> 2 * int_of_pos p | XI p -> 2 * int_of_pos p + 1
let int_of_z = function Z0 -> 0 | Zpos p -> int_of_pos p | Zneg p -> - (int_of_pos p)

(* numbers beyond 61 bits go through the extracted Z arithmetic, digit by digit *)
let rec pos_bits = function XH -> 1 | XO p -> 1 + pos_bits p | XI p -> 1 + pos_bits p
let z_small = function Z0 -> true | Zpos p -> pos_bits p <= 60 | Zneg p -> pos_bits p <= 60
let z_of_string (s:string) : z =
  let n = String.length s in
  if n <= 17 then z_of_int (int_of_string s)
  else begin
    let neg = s.[0] = '-' in
    let acc = ref Z0 in
    for k = (if neg then 1 else 0) to n - 1 do
      acc := z_push_digit !acc (z_of_int (Char.code s.[k] - 48))
    done;
    if neg then z_neg !acc else !acc
  end
let string_of_z (v:z) : string =
  if z_small v then string_of_int (int_of_z v)
  else begin
    let neg = z_is_neg v in
    let cur = ref (if neg then z_neg v else v) in
    let digits = Buffer.create 24 in
    while not (z_is_zero !cur) do
      let (q, r) = z_pop_digit !cur in
      Buffer.add_char digits (Char.chr (48 + int_of_z r));
      cur := q
    done;
    let d = Buffer.contents digits in
    let m = String.length d in
    (if neg then "-" else "") ^ String.init m (fun k -> d.[m - 1 - k])
  end

let parse (s:string) (pos:int ref) : val0 =
  let n = String.length s in
  let rec skip () = while !pos < n && (s.[!pos] = ' ' || s.[!pos] = ',') do incr pos done
  and value () =
    skip ();
    if !pos >= n then failwith "eof"
    else if s.[!pos] = '[' then begin
      incr pos;
      let items = ref [] in
      skip ();
      while !pos < n && s.[!pos] <> ']' do
        items := value () :: !items; skip ()
      done;
      if !pos >= n then failwith "unterminated list";
      incr pos;
      VL (List.rev !items)
    end else begin
      let st = !pos in
      if s.[!pos] = '-' then incr pos;
      while !pos < n && s.[!pos] >= '0' && s.[!pos] <= '9' do incr pos done;
      if !pos = st then failwith ("bad char at " ^ string_of_int st);
      VZ (z_of_string (String.sub s st (!pos - st)))
    end
  in value ()

let rec print buf = function
  | VZ z -> Buffer.add_string buf (string_of_z z)
  | VL l ->
    Buffer.add_char buf '[';
    List.iteri (fun i v -> if i > 0 then Buffer.add_char buf ','; print buf v) l;
    Buffer.add_char buf ']'

let () =
  let buf = Buffer.create 65536 in
  (try
    while true do
      let line = input_line stdin in
      if String.length line > 0 then begin
        let pos = ref 0 in
        (try
          let p = parse line pos in
          let v = parse line pos in
          let prop = (match p with VZ z -> z | _ -> failwith "prop") in
          let r = dispatch prop v in
          print buf r
        with
        | Stack_overflow -> Buffer.add_string buf "[-999,5,0]"
        | Failure m -> Buffer.add_string buf "[-999,4,1]");
        Buffer.add_char buf '\n';
        if Buffer.length buf > 60000 then begin print_string (Buffer.contents buf); Buffer.clear buf end
      end
    done
  with End_of_file -> ());
  print_string (Buffer.contents buf)
