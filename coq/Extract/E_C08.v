(* Extract/E_C08.v — wire entry for C08 (glue, not trusted for theorems).
   Every answer is  [model; spec]  with spec = [] when the case is outside the property's
   precondition (the harness then judges against the model only), [s] otherwise; or a top-level
   error value when the model returns an error. *)
From Coq Require Import ZArith List Bool.
From EV Require Import Res Arr Val Spans SpansSpec SpansRle SpansRepr.
Import ListNotations.
Open Scope Z_scope.

(* column: [0, [z…]] numeric | [1, [[bytes]…]] fixed | [2, [offsets], [bytes]] indexed
           | [3, w, [bits…]] binary<w> floats given by their STORED bit patterns (decoded to keys by float_key; a NaN
             pattern is a bad case) | [4, w, [[bytes]…]] 'S<w>' elements written from byte strings of length <= w *)
Definition as_column (v:val) : option column :=
  match v with
  | VL [VZ 3; VZ w; l] =>
      match as_list l with
      | Some bits => if forallb (fun b => (0 <=? b) && (b <? 2 ^ w) && negb (float_is_nan w (mant_bits w) b)) bits
                     then Some (ColNum (map (float_key w) bits)) else None
      | None => None
      end
  | VL [VZ 4; VZ w; l] =>
      match as_list2 l with
      | Some rows => if forallb (fun r => len r <=? w) rows then Some (ColFixed (map (pad_fixed w) rows)) else None
      | None => None
      end
  | VL [VZ 0; l] => option_map ColNum (as_list l)
  | VL [VZ 1; l] => option_map ColFixed (as_list2 l)
  | VL [VZ 2; i; b] => match as_list i, as_list b with Some i, Some b => Some (ColIndexed i b) | _, _ => None end
  | _ => None
  end.
Definition as_list3 (v:val) : option (list (list (list Z))) :=
  match v with VL l => all_some (map as_list2 l) | _ => None end.
Definition as_bools (v:val) : option (list bool) :=
  option_map (map (fun z => negb (z =? 0))) (as_list v).
Definition vbools (l:list bool) : val := VL (map vbool l).

(* rows of a column with a common row type (byte list / singleton) for the joint specification *)
Definition column_rows (c:column) : list (list Z) :=
  match c with
  | ColNum l => map (fun z => [z]) l
  | ColFixed l => l
  | ColIndexed i v => indexed_rows i v
  end.
Definition column_ok (c:column) : bool :=
  match c with ColIndexed i v => valid_indexedb i v | _ => true end.
Fixpoint zip_rows (a b:list (list Z)) : list (list (list Z)) :=
  match a, b with x :: a', y :: b' => [x; y] :: zip_rows a' b' | _, _ => [] end.
Fixpoint rows_eqb (a b:list (list Z)) : bool :=
  match a, b with
  | [], [] => true
  | x :: a', y :: b' => bytes_eqb x y && rows_eqb a' b'
  | _, _ => false
  end.
Definition rows_neqb a b := negb (rows_eqb a b).
Fixpoint transpose {T} (cols:list (list T)) : list (list T) :=
  match cols with
  | [] => []
  | c :: t => match t with
              | [] => map (fun x => [x]) c
              | _ => map (fun p => fst p :: snd p) (combine c (transpose t))
              end
  end.
Definition same_lengths {T} (cols:list (list T)) : bool :=
  match cols with [] => false | c :: t => forallb (fun c' => len c' =? len c) t end.

Definition answer (m:res val) (s:option val) : val :=
  match m with
  | Ok mv => VL [mv; match s with Some sv => VL [sv] | None => VL [] end]
  | OOB x => VErr K_OOB x
  | Raise c => VErr K_RAISE c
  | OutOfFuel => VErr K_FUEL 0
  end.
Definition rmap {X Y} (f:X -> Y) (r:res X) : res Y := do x <- r; Ok (f x).

(* lexicographic < on rows of byte strings *)
Fixpoint rows_ltb (a b:list (list Z)) : bool :=
  match a, b with
  | _, [] => false
  | [], _ :: _ => true
  | x :: a', y :: b' => if bytes_ltb x y then true else if bytes_ltb y x then false else rows_ltb a' b'
  end.

Definition apply_numeric (kid level:Z) (sp:list Z) (l:list Z) : res val * option val :=
  let n := len l in
  let wrapS {R} (k:list Z -> list Z -> res R) := if level =? 1 then session_apply_spans_src k sp l else k sp l in
  let wrapF {R} (k:list Z -> list Z -> res R) :=
      if level =? 2 then field_apply_spans (fun s => k s l) sp
      else if level =? 1 then session_apply_spans_src k sp l else k sp l in
  let ok := valid_spansb n sp && (if level =? 1 then nthZ sp (len sp - 1) =? n else true) in
  let sp_ (v:val) := if ok then Some v else None in
  match kid with
  | 0 => (rmap vlist (wrapS (apply_spans_index_of_min Z.ltb)), sp_ (vlist (index_of_min_ref Z.ltb sp l)))
  | 1 => (rmap vlist (wrapS (apply_spans_index_of_max Z.ltb)), sp_ (vlist (index_of_max_ref Z.ltb sp l)))
  | 5 => (rmap vlist (wrapF (apply_spans_min Z.ltb 0)), sp_ (vlist (min_ref Z.ltb 0 sp l)))
  | 6 => (rmap vlist (wrapF (apply_spans_max Z.ltb 0)), sp_ (vlist (max_ref Z.ltb 0 sp l)))
  | 7 => (rmap vlist (wrapF (apply_spans_first 0)), sp_ (vlist (first_ref 0 sp l)))
  | 8 => (rmap vlist (wrapF (apply_spans_last 0)), sp_ (vlist (last_ref 0 sp l)))
  | _ => (Raise E_Other, None)
  end.
Definition apply_fixed (kid level:Z) (sp:list Z) (l:list (list Z)) : res val * option val :=
  let n := len l in
  let wrapS {R} (k:list Z -> list (list Z) -> res R) := if level =? 1 then session_apply_spans_src k sp l else k sp l in
  let wrapF {R} (k:list Z -> list (list Z) -> res R) :=
      if level =? 2 then field_apply_spans (fun s => k s l) sp
      else if level =? 1 then session_apply_spans_src k sp l else k sp l in
  let ok := valid_spansb n sp && (if level =? 1 then nthZ sp (len sp - 1) =? n else true) in
  let sp_ (v:val) := if ok then Some v else None in
  match kid with
  | 0 => (rmap vlist (wrapS (apply_spans_index_of_min bytes_ltb)), sp_ (vlist (index_of_min_ref bytes_ltb sp l)))
  | 1 => (rmap vlist (wrapS (apply_spans_index_of_max bytes_ltb)), sp_ (vlist (index_of_max_ref bytes_ltb sp l)))
  | 5 => (rmap vlist2 (wrapF (apply_spans_min bytes_ltb [])), sp_ (vlist2 (min_ref bytes_ltb [] sp l)))
  | 6 => (rmap vlist2 (wrapF (apply_spans_max bytes_ltb [])), sp_ (vlist2 (max_ref bytes_ltb [] sp l)))
  | 7 => (rmap vlist2 (wrapF (apply_spans_first [])), sp_ (vlist2 (first_ref [] sp l)))
  | 8 => (rmap vlist2 (wrapF (apply_spans_last [])), sp_ (vlist2 (last_ref [] sp l)))
  | _ => (Raise E_Other, None)
  end.
(* indexed source: kernels return row indices; level 2 = Field.apply_spans_min/max/first/last guard *)
Definition apply_indexed (kid level:Z) (sp:list Z) (i v:list Z) : res val * option val :=
  let rows := indexed_rows i v in
  let wrapF (k:list Z -> res (list Z)) := if level =? 2 then field_apply_spans k sp else k sp in
  let ok := valid_indexedb i v && valid_spansb (len rows) sp in
  let sp_ (x:val) := if ok then Some x else None in
  match kid with
  | 0 => (rmap vlist (wrapF (fun s => apply_spans_index_of_min_indexed s i v)), sp_ (vlist (index_of_min_ref bytes_ltb sp rows)))
  | 1 => (rmap vlist (wrapF (fun s => apply_spans_index_of_max_indexed s i v)), sp_ (vlist (index_of_max_ref bytes_ltb sp rows)))
  | 2 => (rmap vlist (wrapF apply_spans_index_of_first), sp_ (vlist (index_of_first_ref sp)))
  | 3 => (rmap vlist (wrapF apply_spans_index_of_last), sp_ (vlist (index_of_last_ref sp)))
  | _ => (Raise E_Other, None)
  end.

(* run-length encoded column: [0, [values], [run lengths]] numeric | [1, [[bytes]…], [run lengths]] byte strings
   (fixed-width elements NUL padded; rows of an indexed string field as they are) *)
Inductive rcol : Type := RNum (r:list (Z * Z)) | RBytes (r:list (list Z * Z)).
Definition as_rcol (v:val) : option rcol :=
  match v with
  | VL [VZ 0; vs; ns] =>
      match as_list vs, as_list ns with
      | Some vs, Some ns => if len vs =? len ns then Some (RNum (combine vs ns)) else None
      | _, _ => None
      end
  | VL [VZ 1; vs; ns] =>
      match as_list2 vs, as_list ns with
      | Some vs, Some ns => if len vs =? len ns then Some (RBytes (combine vs ns)) else None
      | _, _ => None
      end
  | _ => None
  end.
Definition rcol_len (c:rcol) : Z := match c with RNum r => rle_len r | RBytes r => rle_len r end.
Definition rcol_spans (c:rcol) : list Z :=
  match c with RNum r => spans_of_rle Z_neqb r | RBytes r => spans_of_rle bytes_neqb r end.
Definition rcol_spans_2 (c0 c1:rcol) : res (list Z) :=
  match c0, c1 with
  | RNum a, RNum b => spans_of_rle_2 Z_neqb Z_neqb a b
  | RNum a, RBytes b => spans_of_rle_2 Z_neqb bytes_neqb a b
  | RBytes a, RNum b => spans_of_rle_2 bytes_neqb Z_neqb a b
  | RBytes a, RBytes b => spans_of_rle_2 bytes_neqb bytes_neqb a b
  end.

(* reductions of a run-length encoded column on VALID spans (anything else is a harness bug): kid as for op 10;
   level 1 (Session) additionally needs spans[-1] = row count *)
Definition apply_rle (kid level:Z) (sp:list Z) (c:rcol) : val :=
  let ok := valid_spansb (rcol_len c) sp && (if level =? 1 then nthZ sp (len sp - 1) =? rcol_len c else true) in
  if negb ok then vbad else
  let out (x:val) := answer (Ok x) (Some x) in
  match c with
  | RNum r =>
      match kid with
      | 0 => out (vlist (rle_index_of_min_ref Z.ltb sp r))
      | 1 => out (vlist (rle_index_of_max_ref Z.ltb sp r))
      | 5 => out (vlist (rle_min_ref Z.ltb 0 sp r))
      | 6 => out (vlist (rle_max_ref Z.ltb 0 sp r))
      | 7 => out (vlist (rle_first_ref 0 sp r))
      | 8 => out (vlist (rle_last_ref 0 sp r))
      | _ => vbad
      end
  | RBytes r =>
      match kid with
      | 0 => out (vlist (rle_index_of_min_ref bytes_ltb sp r))
      | 1 => out (vlist (rle_index_of_max_ref bytes_ltb sp r))
      | 5 => out (vlist2 (rle_min_ref bytes_ltb [] sp r))
      | 6 => out (vlist2 (rle_max_ref bytes_ltb [] sp r))
      | 7 => out (vlist2 (rle_first_ref [] sp r))
      | 8 => out (vlist2 (rle_last_ref [] sp r))
      | _ => vbad
      end
  end.

Definition as_columns (v:val) : option (list column) :=
  match v with VL l => all_some (map as_column l) | _ => None end.
Definition all_num (cs:list column) : option (list (list Z)) :=
  all_some (map (fun c => match c with ColNum l => Some l | _ => None end) cs).
Definition all_fixed (cs:list column) : option (list (list (list Z))) :=
  all_some (map (fun c => match c with ColFixed l => Some l | _ => None end) cs).

Definition entry_C08 (v:val) : val :=
  match v with
  (* DataFrame.groupby(by=[...]) on key columns given by representation: mixed = the dtypes differ *)
  | VL [VZ 7; VZ mixed; cols] =>
      match as_columns cols with
      | Some cs =>
          if forallb (fun c => match c with ColIndexed _ _ => false | _ => true end) cs then
            let rows := map column_rows cs in
            answer (rmap vlist (groupby_spans (negb (mixed =? 0)) rows))
                   (if same_lengths rows then Some (vlist (spans_ref rows_neqb (transpose rows))) else None)
          else vbad
      | None => vbad
      end
  (* _get_spans_for_multi_fields (which = 0) / check_if_sorted_for_multi_fields (which = 1) on np.asarray of columns
     given by representation (all numeric, widened to a common dtype; or all fixed, re-padded to a common width) *)
  | VL [VZ 8; VZ which; cols] =>
      match as_columns cols with
      | Some cs =>
          match all_num cs, all_fixed cs with
          | Some fs, _ =>
              if which =? 0 then
                answer (rmap vlist (get_spans_for_multi_fields Z_neqb fs))
                       (if same_lengths fs then Some (vlist (spans_ref bytes_neqb (transpose fs))) else None)
              else
                answer (rmap vbool (check_if_sorted_for_multi_fields Z.ltb fs))
                       (if same_lengths fs then Some (vbool (rows_sortedb Z.ltb (transpose fs))) else None)
          | None, Some fs =>
              if which =? 0 then
                answer (rmap vlist (get_spans_for_multi_fields bytes_neqb fs))
                       (if same_lengths fs then Some (vlist (spans_ref rows_neqb (transpose fs))) else None)
              else
                answer (rmap vbool (check_if_sorted_for_multi_fields bytes_ltb fs))
                       (if same_lengths fs then Some (vbool (rows_sortedb bytes_ltb (transpose fs))) else None)
          | None, None => vbad
          end
      | None => vbad
      end
  | VL [VZ 22; VZ kid; VZ level; sp; c] =>
      match as_list sp, as_rcol c with
      | Some sp, Some c => apply_rle kid level sp c
      | _, _ => vbad
      end
  (* get_spans on a run-length encoded column (theorems spans_rle_*: = the models on the expanded column = THE spans) *)
  | VL [VZ 20; c] =>
      match as_rcol c with
      | Some c => let sp := vlist (rcol_spans c) in answer (Ok sp) (Some sp)
      | None => vbad
      end
  (* Session.get_spans(fields=(c0, c1)), Fields or ndarrays, on two run-length encoded columns *)
  | VL [VZ 21; c0; c1] =>
      match as_rcol c0, as_rcol c1 with
      | Some c0, Some c1 =>
          let m := rcol_spans_2 c0 c1 in
          answer (rmap vlist m)
                 (if rcol_len c0 =? rcol_len c1 then match m with Ok sp => Some (vlist sp) | _ => None end else None)
      | _, _ => vbad
      end
  (* Field.get_spans / Session.get_spans(field) / ops.get_spans_for_field *)
  | VL [VZ 1; c] =>
      match as_column c with
      | Some c => answer (rmap vlist (field_get_spans c))
                         (if column_ok c then Some (vlist (spans_ref bytes_neqb (column_rows c))) else None)
      | None => vbad
      end
  (* Session.get_spans(fields=(Field, Field)) *)
  | VL [VZ 2; c0; c1] =>
      match as_column c0, as_column c1 with
      | Some c0, Some c1 =>
          let r0 := column_rows c0 in let r1 := column_rows c1 in
          answer (rmap vlist (session_get_spans_fields c0 c1))
                 (if column_ok c0 && column_ok c1 && (len r0 =? len r1)
                  then Some (vlist (spans_ref rows_neqb (zip_rows r0 r1))) else None)
      | _, _ => vbad
      end
  (* Session.get_spans(fields=(ndarray, ndarray)) *)
  | VL [VZ 3; c0; c1] =>
      match as_column c0, as_column c1 with
      | Some c0, Some c1 =>
          let r0 := column_rows c0 in let r1 := column_rows c1 in
          answer (rmap vlist (session_get_spans_arrays c0 c1))
                 (if len r0 =? len r1 then Some (vlist (spans_ref rows_neqb (zip_rows r0 r1))) else None)
      | _, _ => vbad
      end
  (* _get_spans_for_multi_fields: kind 0 numeric 2-D array, kind 1 fixed strings *)
  | VL [VZ 4; VZ 0; cols] =>
      match as_list2 cols with
      | Some cols => answer (rmap vlist (get_spans_for_multi_fields Z_neqb cols))
                            (if same_lengths cols then Some (vlist (spans_ref bytes_neqb (transpose cols))) else None)
      | None => vbad
      end
  | VL [VZ 4; VZ 1; cols] =>
      match as_list3 cols with
      | Some cols => answer (rmap vlist (get_spans_for_multi_fields bytes_neqb cols))
                            (if same_lengths cols then Some (vlist (spans_ref rows_neqb (transpose cols))) else None)
      | None => vbad
      end
  (* check_if_sorted_for_multi_fields *)
  | VL [VZ 5; VZ 0; cols] =>
      match as_list2 cols with
      | Some cols => answer (rmap vbool (check_if_sorted_for_multi_fields Z.ltb cols))
                            (if same_lengths cols then Some (vbool (rows_sortedb Z.ltb (transpose cols))) else None)
      | None => vbad
      end
  | VL [VZ 5; VZ 1; cols] =>
      match as_list3 cols with
      | Some cols => answer (rmap vbool (check_if_sorted_for_multi_fields bytes_ltb cols))
                            (if same_lengths cols then Some (vbool (rows_sortedb bytes_ltb (transpose cols))) else None)
      | None => vbad
      end
  (* raw _get_spans_for_2_fields_by_spans *)
  | VL [VZ 6; s0; s1] =>
      match as_list s0, as_list s1 with
      | Some s0, Some s1 => answer (rmap vlist (get_spans_for_2_fields_by_spans s0 s1)) None
      | _, _ => vbad
      end
  (* apply_spans_*: kid, level (0 kernel, 1 Session, 2 Field), spans, column *)
  | VL [VZ 10; VZ kid; VZ level; sp; c] =>
      match as_list sp, as_column c with
      | Some sp, Some c =>
          if (kid =? 4) then
            answer (rmap vlist (apply_spans_count sp)) (if 1 <=? len sp then Some (vlist (count_ref sp)) else None)
          else if ((kid =? 2) || (kid =? 3)) && negb (match c with ColIndexed _ _ => true | _ => false end) then
            answer (rmap vlist (if kid =? 2 then apply_spans_index_of_first sp else apply_spans_index_of_last sp))
                   (if 1 <=? len sp then Some (vlist (if kid =? 2 then index_of_first_ref sp else index_of_last_ref sp)) else None)
          else
            let '(m, s) := match c with
                           | ColNum l => apply_numeric kid level sp l
                           | ColFixed l => apply_fixed kid level sp l
                           | ColIndexed i b => apply_indexed kid level sp i b
                           end in
            answer m s
      | _, _ => vbad
      end
  (* *_filter kernels: kid 0 min, 1 max, 2 first, 3 last *)
  | VL [VZ 11; VZ kid; sp; c; dest; flt] =>
      match as_list sp, as_column c, as_list dest, as_bools flt with
      | Some sp, Some c, Some dest, Some flt =>
          let enc (p:list Z * list bool) := VL [vlist (fst p); vbools (snd p)] in
          let pre n := weak_spansb n sp && (len dest =? len sp - 1) && (len flt =? len sp - 1) in
          match c with
          | ColNum l =>
              let spec f := if pre (len l) then Some (VL [vlist (filter_dest_ref f sp l dest); vbools (filter_flags_ref sp)]) else None in
              match kid with
              | 0 => answer (rmap enc (apply_spans_index_of_min_filter Z.ltb sp l dest flt)) (spec (fun a rows => a + argmin_spec Z.ltb rows))
              | 1 => answer (rmap enc (apply_spans_index_of_max_filter Z.ltb sp l dest flt)) (spec (fun a rows => a + argmax_spec Z.ltb rows))
              | 2 => answer (rmap enc (apply_spans_index_of_first_filter sp dest flt)) (spec (fun a _ => a))
              | _ => answer (rmap enc (apply_spans_index_of_last_filter sp dest flt)) (spec (fun a rows => a + len rows - 1))
              end
          | _ => vbad
          end
      | _, _, _, _ => vbad
      end
  | _ => vbad
  end.
