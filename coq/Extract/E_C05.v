(* Extract/E_C05.v — wire entry for C05 (glue, not trusted for theorems).
   case  [1, file, crs, ncols, offs, index_map]                      driver called directly
         [2, file, crs, names, sizes, [] | [include], [] | [exclude]]  read_csv_with_schema_dict
   answer [rows, [[indices, values] per imported column], trace (one row per kernel call, in call order)] *)
From Coq Require Import ZArith List Bool.
From EV Require Import Res Arr Val Csv.
Import ListNotations.
Open Scope Z_scope.

Definition as_optlist2 (v:val) : option (option (list (list Z))) :=
  match v with
  | VL [] => Some None
  | VL [l] => match as_list2 l with Some x => Some (Some x) | None => None end
  | _ => None
  end.

Definition drv_fuel (file:list Z) : nat := (8 * length file + 200)%nat.

(* errors travel as an ordinary value [-1, kind, arg] so that the python side can still attach the
   specification's answer to the case (a model error on a well-formed file is a finding, not a verdict) *)
Definition of_res' {A} (f:A -> val) (r:res A) : val :=
  match r with
  | Ok a => f a
  | OOB s => VL [VZ (-1); VZ K_OOB; VZ s]
  | Raise c => VL [VZ (-1); VZ K_RAISE; VZ c]
  | OutOfFuel => VL [VZ (-1); VZ K_FUEL; VZ 0]
  end.

Definition enc_dst (d:dst) : val :=
  VL [VZ (d_acc d);
      VL (map (fun m => VL [vlist (i_indices m); vlist (i_values m)]) (d_imps d));
      vlist2 (rev (d_trace d))].

Definition entry_C05 (v:val) : val :=
  match v with
  | VL [VZ 1; file; VZ crs; VZ ncols; offs; imap] =>
      match as_list file, as_list offs, as_list imap with
      | Some file, Some offs, Some imap =>
          of_res' enc_dst (read_file (drv_fuel file) file crs ncols offs imap)
      | _, _, _ => vbad
      end
  | VL [VZ 2; file; VZ crs; names; sizes; inc; exc] =>
      match as_list file, as_list2 names, as_list sizes, as_optlist2 inc, as_optlist2 exc with
      | Some file, Some names, Some sizes, Some inc, Some exc =>
          of_res' enc_dst (read_csv (drv_fuel file) file names sizes inc exc crs)
      | _, _, _, _, _ => vbad
      end
  | _ => vbad
  end.
