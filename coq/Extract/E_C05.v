(* Extract/E_C05.v — wire entry for C05 (glue, not trusted for theorems).
   case  [1, file, crs, ncols, offs, index_map]                      driver called directly
         [2, file, crs, names, sizes, [] | [include], [] | [exclude]]  read_csv_with_schema_dict
         [3, file, crs, ncols, offs, index_map, defs]                  driver called directly, typed importer list
         [4, file, crs, names, sizes, defs]                            read_csv_with_schema_dict, typed schema
               [5, crs, schema_keys, [[name, file, names, sizes, schema_fields] per table of `files`],
             [] | [[[table, [field ...]] ...]] (include), the same for exclude]   importer.import_with_schema (Model/CsvImport.v);
             answer: per table [names of the fields created, rows, [[indices, values] per field], trace]
   def = [0] string | [1, n] fixed string | [2, cats] categorical | [3, cats] categorical + free text
             | [4, inv, mode] bool | [5, lo, hi, mode, inv_text, inv_val] integer      (Model/CsvTyped.v)
   answer [rows, [[indices, values] per imported column], trace (one row per kernel call, in call order)];
          a typed column answers [data] (fixed, categorical), [codes, freetext indices, freetext values]
          (categorical + free text) or [values, flags] (bool, integer) *)
From Coq Require Import ZArith List Bool.
From EV Require Import Res Arr Val Csv Transform CsvTyped CsvImport.
Import ListNotations.
Open Scope Z_scope.

Definition as_optlist2 (v:val) : option (option (list (list Z))) :=
  match v with
  | VL [] => Some None
  | VL [l] => match as_list2 l with Some x => Some (Some x) | None => None end
  | _ => None
  end.

Definition drv_fuel (file:list Z) : nat := (8 * length file + 200)%nat.

(* errors travel as an ordinary value [-1, kind, arg] so that the python side can still attach the
   specification's answer to the case (a model error on a well-formed file is a finding, not a verdict) *)
Definition of_res' {A} (f:A -> val) (r:res A) : val :=
  match r with
  | Ok a => f a
  | OOB s => VL [VZ (-1); VZ K_OOB; VZ s]
  | Raise c => VL [VZ (-1); VZ K_RAISE; VZ c]
  | OutOfFuel => VL [VZ (-1); VZ K_FUEL; VZ 0]
  end.

Definition enc_dst (d:dst) : val :=
  VL [VZ (d_acc d);
      VL (map (fun m => VL [vlist (i_indices m); vlist (i_values m)]) (d_imps d));
      vlist2 (rev (d_trace d))].

Definition as_cats5 (v:val) : option (list (list Z * Z)) :=
  match v with
  | VL l => all_some (map (fun kv => match kv with
                                     | VL [k; VZ x] => match as_list k with Some k => Some (k, x) | None => None end
                                     | _ => None end) l)
  | _ => None
  end.

Definition as_fdef (v:val) : option fdef :=
  match v with
  | VL [VZ 0] => Some FStr
  | VL [VZ 1; VZ n] => Some (FFixed n)
  | VL [VZ 2; cats] => option_map FCat (as_cats5 cats)
  | VL [VZ 3; cats] => option_map FLeaky (as_cats5 cats)
  | VL [VZ 4; VZ inv; VZ mode] => Some (FBool inv mode)
  | VL [VZ 5; VZ lo; VZ hi; VZ mode; it; VZ iv] =>
      match as_list it with Some it => Some (FInt lo hi mode it iv) | None => None end
  | _ => None
  end.

Definition as_fdefs (v:val) : option (list fdef) :=
  match v with VL l => all_some (map as_fdef l) | _ => None end.

Definition enc_fimp (m:fimp) : val :=
  match m with
  | MStr s => VL [vlist (i_indices s); vlist (i_values s)]
  | MFixed _ d => VL [vlist d]
  | MCat _ d => VL [vlist d]
  | MLeaky _ st => VL [vlist (ls_data st); vlist (ls_idx st); vlist (ls_vals st)]
  | MBool _ _ st => VL [vlist (fst st); vlist (snd st)]
  | MInt _ _ _ _ _ st => VL [vlist (fst st); vlist (snd st)]
  end.

Definition enc_gdst (d:gdst (list fimp)) : val :=
  VL [VZ (g_acc d); VL (map enc_fimp (g_imps d)); vlist2 (rev (g_trace d))].

Definition as_table (v:val) : option table :=
  match v with
  | VL [name; file; names; sizes; sch] =>
      match as_list name, as_list file, as_list2 names, as_list sizes, as_list2 sch with
      | Some name, Some file, Some names, Some sizes, Some sch => Some (mkTable name file names sizes sch)
      | _, _, _, _, _ => None
      end
  | _ => None
  end.

Definition as_tables (v:val) : option (list table) :=
  match v with VL l => all_some (map as_table l) | _ => None end.

Definition as_seldict (v:val) : option (option seldict) :=
  match v with
  | VL [] => Some None
  | VL [VL l] =>
      match all_some (map (fun kv => match kv with
                                     | VL [k; fs] => match as_list k, as_list2 fs with
                                                     | Some k, Some fs => Some (k, fs)
                                                     | _, _ => None end
                                     | _ => None end) l) with
      | Some d => Some (Some d)
      | None => None
      end
  | _ => None
  end.

Definition imp_fuel (files:list table) : nat := fold_right (fun t a => Nat.max (drv_fuel (t_file t)) a) 200%nat files.

Definition enc_tables (out:list (list (list Z) * dst)) : val :=
  VL (map (fun r => match enc_dst (snd r) with
                    | VL l => VL (vlist2 (fst r) :: l)
                    | x => x
                    end) out).

Definition entry_C05 (v:val) : val :=
  match v with
  | VL [VZ 1; file; VZ crs; VZ ncols; offs; imap] =>
      match as_list file, as_list offs, as_list imap with
      | Some file, Some offs, Some imap =>
          of_res' enc_dst (read_file (drv_fuel file) file crs ncols offs imap)
      | _, _, _ => vbad
      end
  | VL [VZ 2; file; VZ crs; names; sizes; inc; exc] =>
      match as_list file, as_list2 names, as_list sizes, as_optlist2 inc, as_optlist2 exc with
      | Some file, Some names, Some sizes, Some inc, Some exc =>
          of_res' enc_dst (read_csv (drv_fuel file) file names sizes inc exc crs)
      | _, _, _, _, _ => vbad
      end
  | VL [VZ 3; file; VZ crs; VZ ncols; offs; imap; defs] =>
      match as_list file, as_list offs, as_list imap, as_fdefs defs with
      | Some file, Some offs, Some imap, Some defs =>
          of_res' enc_gdst (tread_file (drv_fuel file) file crs ncols offs imap defs)
      | _, _, _, _ => vbad
      end
  | VL [VZ 4; file; VZ crs; names; sizes; defs] =>
      match as_list file, as_list2 names, as_list sizes, as_fdefs defs with
      | Some file, Some names, Some sizes, Some defs =>
          of_res' enc_gdst (tread_csv (drv_fuel file) file names sizes defs crs)
      | _, _, _, _ => vbad
      end
  | VL [VZ 5; VZ crs; keys; tables; inc; exc] =>
      match as_list2 keys, as_tables tables, as_seldict inc, as_seldict exc with
      | Some keys, Some tables, Some inc, Some exc =>
          of_res' enc_tables (import_with_schema (imp_fuel tables) keys tables inc exc crs)
      | _, _, _, _ => vbad
      end
  | _ => vbad
  end.
