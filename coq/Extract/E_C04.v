(* Extract/E_C04.v — wire entry for C04 (glue, not trusted for theorems).
   case = [op; ver; invcode; cs; vf; map; payload...]   answer = [model; spec]
     ver      0 = Fixed (repaired code incl. fix-F-C02f), 1 = Orig (code as found), 2 = Fixed0 (C04 fixes only)
     invcode  0 -> -1, 1 -> INVALID_INDEX_32, 2 -> INVALID_INDEX_64 (2^62 does not fit the
              wire's 63-bit integers); a map entry -1000 on the wire stands for the marker
     op 1  ordered_map_valid_stream, numeric/bool source        payload [data]
     op 2  ordered_map_valid_stream, fixed-string source        payload [data : list of byte lists]
     op 3  ordered_map_valid_indexed_stream                     payload [indices; values]
     op 4  safe_map_values numeric     payload [data; ev]  (ev = [] for None, [x] for a value)
     op 5  safe_map_values fixed str   payload [data; ev]
     op 6  safe_map_indexed_values     payload [indices; values; ev] (ev = [] None, [bytes])
     op 7  map_valid numeric           payload [data]
     op 8  map_valid fixed string      payload [data]
     op 9  history of calls on shared fields (Model/MapHistory.v)
           payload [num; indices; values; steps]   steps = list of [code; cs; vf]
           code 1 stream, 2 indexed stream, 3 map_valid, 4 safe_map_values, 5 safe_map_indexed_values,
                6 stream with the map as its own source
           answer: [[out...]; [map; num; indices; values]] (out = list, or [indices; values])
     op 10 CALL FORM of ordered_map_valid_stream, numeric/bool (Model/MapCallForms.v)   payload [data; args]
     op 11 the same, fixed-string source                                               payload [data; args]
     op 12 CALL FORM of ordered_map_valid_indexed_stream                               payload [indices; values; args]
           args = [inv_given; cs; vf; pcs; pvf]: inv_given 0 = `invalid` omitted (the head's invcode is then 0);
           cs / vf = -1 when the argument is omitted (the model supplies DEFAULT_CHUNKSIZE / 8); pcs, pvf = the proxy
           sizes for stream_call_eval / indexed_stream_call_eval (theorems *_call_eval_correct); the head's cs, vf
           are ignored *)
From Coq Require Import ZArith List Bool.
From EV Require Import Res Arr Val MapStream MapStreamSpec MapHistorySpec MapHistory MapCallForms.
Import ListNotations.
Open Scope Z_scope.

Definition inv_of_code (c:Z) : Z :=
  if c =? 1 then INVALID_INDEX_32 else if c =? 2 then INVALID_INDEX_64 else -1.
Definition ver_of_code (c:Z) : version := if c =? 1 then Orig else if c =? 2 then Fixed0 else Fixed.
Definition subst_marker (inv:Z) (m:list Z) : list Z := map (fun k => if k =? -1000 then inv else k) m.

Definition vpair2 (p:list Z * list Z) : val := VL [vlist (fst p); vlist (snd p)].
Definition c04_fuel (m d:list Z) : nat := (2 * (length m + length d) + 8)%nat.

Definition as_optZ04 (v:val) : option (option Z) :=
  match v with VL [] => Some None | VL [VZ z] => Some (Some z) | _ => None end.
Definition as_optL04 (v:val) : option (option (list Z)) :=
  match v with
  | VL [] => Some None
  | VL [l] => match as_list l with Some x => Some (Some x) | None => None end
  | _ => None
  end.

Definition step_of04 (l:list Z) : option hstep :=
  match l with
  | [1; cs; _] => Some (HStream cs)
  | [2; cs; vf] => Some (HIStream cs vf)
  | [3; _; _] => Some HMapValid
  | [4; _; _] => Some HSafe
  | [5; _; _] => Some HISafe
  | [6; cs; _] => Some (HSelf cs)
  | _ => None
  end.
Definition vout04 (o:hout) : val :=
  match o with ONum l => vlist l | OIdx i v => VL [vlist i; vlist v] end.
Definition vhstate04 (s:hstate) : val :=
  VL [VL (map vout04 (h_out s)); VL [vlist (h_map s); vlist (h_num s); vlist (h_idx s); vlist (h_val s)]].

Definition optarg04 (z:Z) : option Z := if z <? 0 then None else Some z.
Definition optinv04 (given inv:Z) : option Z := if given =? 0 then None else Some inv.

Definition entry_C04 (v:val) : val :=
  match v with
  | VL (VZ op :: VZ ver :: VZ ic :: VZ cs :: VZ vf :: m :: payload) =>
    match as_list m with
    | None => vbad
    | Some m0 =>
      let inv := inv_of_code ic in
      let m := subst_marker inv m0 in
      let ver := ver_of_code ver in
      match op, payload with
      | 1, [d] =>
        match as_list d with
        | Some d => VL [of_res vlist (ordered_map_valid_stream 0 0 (c04_fuel m d) ver d m inv cs);
                        vlist (map_spec 0 d inv m)]
        | None => vbad end
      | 2, [d] =>
        match as_list2 d with
        | Some d => VL [of_res vlist2 (ordered_map_valid_stream [48] [] (c04_fuel m []) ver d m inv cs);
                        vlist2 (map_spec [] d inv m)]
        | None => vbad end
      | 3, [di; dv] =>
        match as_list di, as_list dv with
        | Some di, Some dv =>
          VL [of_res vpair2 (ordered_map_valid_indexed_stream (c04_fuel m di) ver di dv m inv cs vf);
              vpair2 (indexed_spec di dv inv m)]
        | _, _ => vbad end
      | 4, [d; ev] =>
        match as_list d, as_optZ04 ev with
        | Some d, Some ev => VL [of_res vlist (safe_map_values 0 ver d m (filter_of inv m) ev);
                                 vlist (map_spec (match ev with Some e => e | None => 0 end) d inv m)]
        | _, _ => vbad end
      | 5, [d; ev] =>
        match as_list2 d, as_optL04 ev with
        | Some d, Some ev => VL [of_res vlist2 (safe_map_values [] ver d m (filter_of inv m) ev);
                                 vlist2 (map_spec (match ev with Some e => e | None => [] end) d inv m)]
        | _, _ => vbad end
      | 6, [di; dv; ev] =>
        match as_list di, as_list dv, as_optL04 ev with
        | Some di, Some dv, Some ev =>
          let e := match ev with Some e => e | None => [] end in
          let strs := map_spec e (decode di dv) inv m in
          VL [of_res vpair2 (safe_map_indexed_values di dv m (filter_of inv m) e);
              vpair2 (offsets_of strs, concat strs)]
        | _, _, _ => vbad end
      | 7, [d] =>
        match as_list d with
        | Some d => VL [of_res vlist (map_valid 0 d m inv); vlist (map_spec 0 d inv m)]
        | None => vbad end
      | 8, [d] =>
        match as_list2 d with
        | Some d => VL [of_res vlist2 (map_valid [] d m inv); vlist2 (map_spec [] d inv m)]
        | None => vbad end
      | 9, [d; di; dv; st] =>
        match as_list d, as_list di, as_list dv, as_list2 st with
        | Some d, Some di, Some dv, Some st =>
          match all_some (map step_of04 st) with
          | Some steps =>
            VL [of_res vhstate04 (run_history (c04_fuel m (d ++ di)) ver inv m d di dv steps);
                vhstate04 (history_spec m d di dv inv steps)]
          | None => vbad end
        | _, _, _, _ => vbad end
      | 10, [d; a] =>
        match as_list d, as_list a with
        | Some d, Some [ig; c; _; pcs; _] =>
          let oi := optinv04 ig inv in
          VL [of_res vlist (stream_call_eval 0 0 (c04_fuel m d) d m oi (optarg04 c) pcs);
              vlist (map_spec 0 d (opt_default oi DEFAULT_INVALID) m)]
        | _, _ => vbad end
      | 11, [d; a] =>
        match as_list2 d, as_list a with
        | Some d, Some [ig; c; _; pcs; _] =>
          let oi := optinv04 ig inv in
          VL [of_res vlist2 (stream_call_eval [48] [] (c04_fuel m []) d m oi (optarg04 c) pcs);
              vlist2 (map_spec [] d (opt_default oi DEFAULT_INVALID) m)]
        | _, _ => vbad end
      | 12, [di; dv; a] =>
        match as_list di, as_list dv, as_list a with
        | Some di, Some dv, Some [ig; c; f; pcs; pvf] =>
          let oi := optinv04 ig inv in
          VL [of_res vpair2 (indexed_stream_call_eval (c04_fuel m di) di dv m oi (optarg04 c) (optarg04 f) pcs pvf);
              vpair2 (indexed_spec di dv (opt_default oi DEFAULT_INVALID) m)]
        | _, _, _ => vbad end
      | _, _ => vbad
      end
    end
  | _ => vbad
  end.
