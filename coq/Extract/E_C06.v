(* Extract/E_C06.v — wire entry for C06 (glue, not trusted for theorems).
   case = [kind, params, chunks, [off, slack, tail]]   chunks = list of lists of cell byte strings
   answer = [model, spec]  (spec = [] where the specification does not speak: invalid schema) *)
From Coq Require Import ZArith List Bool.
From EV Require Import Res Arr Val Transform TransformSpec.
Import ListNotations.
Open Scope Z_scope.

Definition as_cats (v:val) : option (list (list Z * Z)) :=
  match v with
  | VL l => all_some (map (fun kv => match kv with
                                     | VL [k; VZ x] => match as_list k with Some k => Some (k, x) | None => None end
                                     | _ => None end) l)
  | _ => None
  end.

Definition as_chunks (v:val) : option (list (list (list Z))) :=
  match v with VL l => all_some (map as_list2 l) | _ => None end.

(* float oracle table: [[text, [] | [token]], ...] *)
Definition as_table (v:val) : option (list (list Z * option Z)) :=
  match v with
  | VL l => all_some (map (fun e => match e with
                                    | VL [k; VL []] => match as_list k with Some k => Some (k, None) | None => None end
                                    | VL [k; VL [VZ t]] => match as_list k with Some k => Some (k, Some t) | None => None end
                                    | _ => None end) l)
  | _ => None
  end.
Fixpoint table_parse (t:list (list Z * option Z)) (e:list Z) : option Z :=
  match t with
  | [] => None
  | (k, r) :: t' => if list_eqb k e then r else table_parse t' e
  end.

(* the bool importer's own exception: [-77, message] *)
Definition of_res_num {A} (f:A -> val) (r:res A) : val :=
  match r with
  | Raise c => if (c =? E_NumEmpty) || (c =? E_NumParse) then VL [VZ (-77); VZ (c - 100)] else of_res f r
  | _ => of_res f r
  end.

Definition vpair2 (p:list Z * list Z) : val := VL [vlist (fst p); vlist (snd p)].
Definition vtriple (p:list Z * list Z * list Z) : val := VL [vlist (fst (fst p)); vlist (snd (fst p)); vlist (snd p)].

Definition entry_C06 (v:val) : val :=
  match v with
  | VL [VZ kind; params; chunks; VL [VZ off; VZ slack; VZ tail]] =>
    match as_chunks chunks with
    | None => vbad
    | Some cc =>
      let chs := map (mk_chunk off slack tail) cc in
      let cells := concat cc in
      match kind, params with
      | 1, VL [cats] =>
        match as_cats cats with
        | Some cats => VL [of_res vlist (cat_import cats chs);
                           if cats_ok cats then vlist (spec_cat cats cells) else VL []]
        | None => vbad
        end
      | 2, VL [cats] =>
        match as_cats cats with
        | Some cats => VL [of_res (fun s => VL [vlist (ls_data s); vlist (ls_idx s); vlist (ls_vals s)])
                                  (leaky_import cats chs);
                           if cats_ok cats then vtriple (spec_leaky cats cells) else VL []]
        | None => vbad
        end
      | 3, VL [VZ inv; VZ mode] =>
        VL [of_res_num vpair2 (bool_import inv mode chs); of_res_num vpair2 (spec_bool mode inv cells)]
      | 4, VL [VZ sgn; VZ bits; VZ mode; inv_text; VZ inv_val] =>
        let lo := if sgn =? 0 then 0 else - 2 ^ (bits - 1) in
        let hi := if sgn =? 0 then 2 ^ bits - 1 else 2 ^ (bits - 1) - 1 in
        match as_list inv_text with
        | Some inv_text =>
          VL [of_res vpair2 (num_import py_int (Some (lo, hi)) mode inv_text inv_val chs);
              if mode_ok mode && in_rng (Some (lo, hi)) inv_val
              then of_res vpair2 (spec_num py_int (Some (lo, hi)) mode inv_val cells) else VL []]
        | None => vbad
        end
      | 5, VL [VZ mode; inv_text; VZ inv_tok; table] =>
        match as_list inv_text, as_table table with
        | Some inv_text, Some t =>
          VL [of_res vpair2 (num_import (table_parse t) None mode inv_text inv_tok chs);
              if mode_ok mode then of_res vpair2 (spec_num (table_parse t) None mode inv_tok cells) else VL []]
        | _, _ => vbad
        end
      | 6, VL [VZ n] =>
        VL [of_res vlist (fixed_import n chs); vlist (spec_fixed n cells)]
      | 7, VL [] => VL [of_res vtriple (datetime_import chs); VL []]
      | 8, VL [] => VL [of_res vtriple (date_import chs); VL []]
      | _, _ => vbad
      end
    end
  | VL [VZ 20; text] =>        (* py_int alone, for the differential check against Python's int() *)
    match as_list text with
    | Some t => VL [vopt VZ (py_int t); VL []]
    | None => vbad
    end
  | _ => vbad
  end.
