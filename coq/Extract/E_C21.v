(* Extract/E_C21.v — wire entry 21 (auxiliary source of C10/C11: kernels not owned by another property).
   Glue, not trusted for theorems.  A case is [op; args...]; the answer is [model; spec; valid] where
   valid = 1 iff the input satisfies the precondition of the kernel's theorem in Props/C10_kernels.v
   (outside it the harness compares the implementation with the model only). *)
From Coq Require Import ZArith List Bool.
From EV Require Import Res Arr Val MiscKernels MiscKernelsSpec.
Import ListNotations.
Open Scope Z_scope.

Definition vpairs (l:list (Z * Z)) : val := VL (map (fun p => VL [VZ (fst p); VZ (snd p)]) l).
Definition v3 (m s:val) (valid:bool) : val := VL [m; s; vbool valid].

(* model result r, spec value sp (already a val), validity flag *)
Definition answer {A} (f:A -> val) (r:res A) (sp:val) (valid:bool) : val :=
  match r with
  | Ok a => v3 (f a) sp valid
  | _ => of_res f r
  end.

Definition v_ilu (t:Z * Z * Z * list Z * list Z) : val :=
  let '(i, j, m, lti, rti) := t in VL [VZ i; VZ j; VZ m; vlist lti; vlist rti].
Definition v_ssp (t:Z * list Z * list Z * list Z) : val :=
  let '(d, idx, dv, di) := t in VL [VZ d; vlist idx; vlist dv; vlist di].
Definition v_pair2 (p:list Z * list Z) : val := VL [vlist (fst p); vlist (snd p)].

Definition nonempty (l:list Z) : bool := match l with [] => false | _ => true end.

Definition entry_C21 (v:val) : val :=
  match v with
  | VL [VZ 1; VZ n; VZ cs] =>
      answer vpairs (chunks (chunks_fuel n) n cs) (vpairs (chunks_spec n cs)) (1 <=? cs)
  | VL [VZ 2; l; r] =>
      match as_list l, as_list r with
      | Some l, Some r => answer VZ (ordered_left_map_result_size l r) (VZ (left_size_spec l r)) true
      | _, _ => vbad
      end
  | VL [VZ 3; l; r] =>
      match as_list l, as_list r with
      | Some l, Some r =>
          answer VZ (ordered_outer_map_result_size_both_unique (outer_fuel l r) l r) (VZ (outer_size_spec l r)) true
      | _, _ => vbad
      end
  | VL [VZ 4; VZ d_i; VZ d_j; l; r; lti; rti] =>
      match as_list l, as_list r, as_list lti, as_list rti with
      | Some l, Some r, Some lti, Some rti =>
          answer v_ilu (ordered_inner_map_left_unique_partial (ilu_fuel l r) d_i d_j l r lti rti)
                 (v_ilu (ilu_partial_spec d_i d_j l r lti rti)) (ilu_pre_b lti rti)
      | _, _, _, _ => vbad
      end
  | VL [VZ 5; l; r] =>
      match as_list l, as_list r with
      | Some l, Some r =>
          answer v_pair2 (ordered_inner_map_left_unique_streamed (ilus_fuel l r) l r)
                 (v_pair2 (ilus_spec 4 l r)) (nonempty l && nonempty r)
      | _, _ => vbad
      end
  | VL [VZ 6; VZ fixed; f] =>
      match as_list f with
      | Some f => answer vlist (ordered_get_last_as_filter (negb (fixed =? 0)) f) (vlist (last_spec f)) true
      | None => vbad
      end
  | VL [VZ 7; idx; lens; svals; sidx; dv; di] =>
      match as_list idx, as_list lens, as_list2 svals, as_list2 sidx, as_list dv, as_list di with
      | Some idx, Some lens, Some svals, Some sidx, Some dv, Some di =>
          answer v_ssp (streaming_sort_partial (ssp_fuel lens) idx lens svals sidx dv di)
                 (v_ssp (ssp_spec idx lens svals sidx dv di)) (ssp_pre_b idx lens svals sidx dv di)
      | _, _, _, _, _, _ => vbad
      end
  | VL [VZ 8; VZ fixed; d; VZ cs] =>
      match as_list d with
      | Some d => answer vlist (data_iterator (negb (fixed =? 0)) (chunks_fuel (len d)) d cs) (vlist d) (1 <=? cs)
      | None => vbad
      end
  | VL [VZ 9; pk; fk] =>
      match as_list pk, as_list fk with
      | Some pk, Some fk => answer vlist (foreign_key_is_in_primary_key pk fk) (vlist (fk_spec pk fk)) true
      | _, _ => vbad
      end
  | VL [VZ 10; f] =>
      match as_list f with
      | Some f => answer vlist (filter_duplicate_fields f) (vlist (dup_spec [] f)) true
      | None => vbad
      end
  | VL [VZ 11; VZ which; flags; VZ flag] =>
      match as_list flags with
      | Some flags =>
          if which =? 0 then v3 (VZ (count_flag_empty flags)) (VZ (count_if (fun f => f =? 0) flags)) true
          else if which =? 1 then v3 (VZ (count_flag_not_set flags flag))
                                     (VZ (count_if (fun f => Z.land f flag =? 0) flags)) true
          else v3 (VZ (count_flag_set flags flag))
                  (VZ (count_if (fun f => negb (Z.land f flag =? 0)) flags)) true
      | None => vbad
      end
  | _ => vbad
  end.
