(* Extract/E_C02.v — wire entry for C02 (glue, not trusted for theorems).
   case   = [ver; how; lo; lu; ro; ru; lkeys; rkeys; lcols; rcols; lsuf; rsuf; cs; mcs; vf; ccs; kvs]
          | the same 17 elements followed by  ext = [pre; chain]   (strengthening VC02, Model/MergeChain.v)
            pre   = fields the destination holds before the call (columns as below)
            chain = [] | [[dest_is_left; how2; lo2; lu2; ro2; ru2; key name; sel; other keys; other cols]]
                    a second merge whose left (or right) frame is the destination of the first;
                    sel = [] (left_fields=None: every field of that destination) | [[name; ...]]
                    The specification of a chain is merge_spec of the second call applied to the modelled first
                    destination (the first call is held to its own specification by the one-call cases).
            kvs  = per key column: 1 when the code under test casts both key columns of that pair to float64
                   before joining (pandas path, integer with float: Model/KeyView.v), 0 otherwise.  The MODEL
                   joins on the viewed keys; the SPECIFICATION always joins on the keys themselves.
            ver 0 = MFixed (repaired dataframe.py), 1 = MOrig (as found)
            how 0 left, 1 right, 2 inner, 3 outer; lkeys/rkeys = list of key columns (list of ints)
            column = [name; 0; zfill; empty; data]  fixed width (data = list of byte/one-element lists)
                   | [name; 1; idx; vals]           indexed string
   answer = [model; spec]
            model = [ordered?; columns] (or an error), column = [name; 0; data] | [name; 1; idx; vals]
            spec  = columns of merge_spec
   pandas.merge (the Section variable of the unordered path) is instantiated with the relational
   join of the specification; the harness compares unordered-path results up to row order. *)
From Coq Require Import ZArith List Bool.
From EV Require Import Res Arr Val Join MapStream Merge MergeSpec KeyView MergeChain.
Import ListNotations.
Open Scope Z_scope.

Definition dec_col (v:val) : option field :=
  match v with
  | VL [n; VZ 0; z; e; d] =>
    match as_list n, as_list z, as_list e, as_list2 d with
    | Some n, Some z, Some e, Some d => Some (n, CFix z e d)
    | _, _, _, _ => None end
  | VL [n; VZ 1; i; vs] =>
    match as_list n, as_list i, as_list vs with
    | Some n, Some i, Some vs => Some (n, CIdx i vs)
    | _, _, _ => None end
  | _ => None
  end.

Definition dec_frame (v:val) : option frame :=
  match v with VL l => all_some (map dec_col l) | _ => None end.

Definition enc_col (f:field) : val :=
  match snd f with
  | CFix _ _ d => VL [vlist (fst f); VZ 0; vlist2 d]
  | CIdx i vs => VL [vlist (fst f); VZ 1; vlist i; vlist vs]
  end.
Definition enc_frame (f:frame) : val := VL (map enc_col f).

Definition entry_one (v:list val) : option margs :=
  match v with
  | [VZ ver; VZ how; lo; lu; ro; ru; lkeys; rkeys; lcols; rcols; lsuf; rsuf; VZ cs; VZ mcs; VZ vf; VZ ccs; kvs] =>
    match as_bool lo, as_bool lu, as_bool ro, as_bool ru, as_list kvs with
    | Some lo, Some lu, Some ro, Some ru, Some kvs =>
      match as_list2 lkeys, as_list2 rkeys, dec_frame lcols, dec_frame rcols, as_list lsuf, as_list rsuf with
      | Some lkeys, Some rkeys, Some lcols, Some rcols, Some lsuf, Some rsuf =>
        Some (mk_margs (if ver =? 1 then MOrig else MFixed) how lo lu ro ru
                       (view_keys kvs lkeys) (view_keys kvs rkeys) lcols rcols
                       lsuf rsuf cs mcs vf ccs)
      | _, _, _, _, _, _ => None
      end
    | _, _, _, _, _ => None
    end
  | _ => None
  end.

Definition dec_step2 (v:val) : option step2 :=
  match v with
  | VL [sl; VZ how; lo; lu; ro; ru; key; sel; okeys; ocols] =>
    match as_bool sl, as_bool lo, as_bool lu, as_bool ro, as_bool ru, as_list key, as_list okeys, dec_frame ocols with
    | Some sl, Some lo, Some lu, Some ro, Some ru, Some key, Some okeys, Some ocols =>
      match sel with
      | VL [] => Some (mk_step2 sl how lo lu ro ru key None okeys ocols)
      | VL [ns] => match as_list2 ns with
                   | Some ns => Some (mk_step2 sl how lo lu ro ru key (Some ns) okeys ocols)
                   | None => None end
      | _ => None
      end
    | _, _, _, _, _, _, _, _ => None
    end
  | _ => None
  end.

Definition enc_answer (r:res (bool * frame)) (spec:frame) : val :=
  VL [ of_res (fun p => VL [vbool (fst p); enc_frame (snd p)]) r; enc_frame spec ].

Definition spec_of (a:margs) (lkeys rkeys:list (list Z)) : frame :=
  merge_spec (a_how a) lkeys rkeys (a_lcols a) (a_rcols a) (a_lsuf a) (a_rsuf a).

Definition entry_C02 (v:val) : val :=
  match v with
  | VL [ver; VZ how; lo; lu; ro; ru; lkeys; rkeys; lcols; rcols; lsuf; rsuf; cs; mcs; vf; ccs; kvs] =>
    match entry_one [ver; VZ how; lo; lu; ro; ru; lkeys; rkeys; lcols; rcols; lsuf; rsuf; cs; mcs; vf; ccs; kvs],
          as_list2 lkeys, as_list2 rkeys with
    | Some a, Some lk, Some rk => enc_answer (merge join_pairs a) (spec_of a lk rk)
    | _, _, _ => vbad
    end
  | VL [ver; VZ how; lo; lu; ro; ru; lkeys; rkeys; lcols; rcols; lsuf; rsuf; cs; mcs; vf; ccs; kvs; VL [pre; VL ch]] =>
    match entry_one [ver; VZ how; lo; lu; ro; ru; lkeys; rkeys; lcols; rcols; lsuf; rsuf; cs; mcs; vf; ccs; kvs],
          as_list2 lkeys, as_list2 rkeys, dec_frame pre with
    | Some a, Some lk, Some rk, Some pre =>
      match ch with
      | [] => enc_answer (merge_into join_pairs pre a) (pre ++ spec_of a lk rk)
      | [s] =>
        match dec_step2 s with
        | None => vbad
        | Some s =>
          let spec2 := match merge_into join_pairs pre a with
                       | Ok (_, d1) =>
                         match chain_args a d1 s with
                         | Some a2 => spec_of a2 (a_lkeys a2) (a_rkeys a2)
                         | None => []
                         end
                       | _ => []
                       end in
          enc_answer (merge_chain join_pairs pre a s) spec2
        end
      | _ => vbad
      end
    | _, _, _, _ => vbad
    end
  | _ => vbad
  end.
