(* Extract/E_C20.v — wire entry for C20 (glue, not trusted for theorems). *)
From Coq Require Import ZArith List Bool.
From EV Require Import Res Arr Val Dates.
Import ListNotations.
Open Scope Z_scope.

Definition as_optZ (v:val) : option (option Z) :=
  match v with VL [] => Some None | VL [VZ z] => Some (Some z) | _ => None end.
Definition as_optbools (v:val) : option (option (list bool)) :=
  match v with
  | VL [] => Some None
  | VL [l] => match as_list l with Some zs => Some (Some (map (fun z => negb (z =? 0)) zs)) | None => None end
  | _ => None
  end.
Definition vbools (l:list bool) : val := VL (map vbool l).

Definition entry_C20 (v:val) : val :=
  match v with
  | VL [VZ 1; VZ s; VZ e; VZ unit; VZ delta] =>
      (* unit = 0 encodes an argument the validation of lines 32-37 rejects (period not a str /
         not one of day(s), week(s); delta not an int): ValueError before any arithmetic *)
      if unit =? 0 then of_res vlist (Raise E_ValueError)
      else of_res vlist (get_periods (periods_fuel s e unit delta) s e unit delta)
  | VL [VZ 2; VZ dlen; ts; flt; s; e] =>
      match as_list ts, as_optbools flt, as_optZ s, as_optZ e with
      | Some ts, Some flt, Some s, Some e =>
          of_res (fun p => VL [vlist (fst p); vopt vbools (snd p)]) (get_days dlen ts flt s e)
      | _, _, _, _ => vbad
      end
  | VL [VZ 3; VZ dlen; ps] =>
      match as_list ps with
      | Some ps => of_res vlist (generate_period_offset_map dlen ps)
      | None => vbad
      end
  | VL [VZ 4; pbd; days; inrg] =>
      match as_list pbd, as_list days, as_optbools inrg with
      | Some pbd, Some days, Some inrg => of_res vlist (get_period_offsets pbd days inrg)
      | _, _, _ => vbad
      end
  | VL [VZ 5; VZ dlen; VZ s; VZ e; VZ unit; VZ delta; ts; flt; VZ e2] =>
      (* the pipeline of the get_period_offsets docstring *)
      match as_list ts, as_optbools flt with
      | Some ts, Some flt =>
          of_res vlist
            (do l <- get_periods (periods_fuel s e unit delta) s e unit delta;
             do m <- generate_period_offset_map dlen l;
             do '(days, fl) <- get_days dlen ts flt (Some s) (Some e2);
             get_period_offsets m days fl)
      | _, _ => vbad
      end
  | _ => vbad
  end.
