(* Extract/E_C01.v — wire entry for C01 (glue, not trusted for theorems).
   Every answer is VL [model; spec]: what the faithful model of the code produces and what
   the specification (Spec/IdxWriterSpec.v) demands, in the same shape.

   case 1  indexed string   [1; h5; cs; ops; extra]
           ops    [0; strs] write_part | [1] complete | [2; strs] write | [3] clear | [4] new wrapper
           extra  [kind; a; b]   reads outside the property's range (kind 0 W-slice, 1 RO-slice, 2 int):
                                 model only (the spec column repeats the model)
           answer [offsets; bytes; W-slices; RO-slices; items; extra]
                  slices for all 0<=a<=b<=n in lexicographic order, items for 0<=i<n
   case 2  plain field      [2; h5; fdt; parts; key]      parts [pdt; values], key [] | [lo; hi; key_values]
           (numeric, timestamp, fixed string, categorical codes; a value is the byte list of
            its canonical representation, so that 64-bit integers and floats fit the wire)
           answer [dtype; data; slices; items; key_values] *)
From Coq Require Import ZArith List Bool.
From EV Require Import Res Arr Val IdxWriter IdxWriterSpec.
Import ListNotations.
Open Scope Z_scope.

Definition as_op (v:val) : option iwop :=
  match v with
  | VL [VZ 0; p] => match as_list2 p with Some p => Some (OpPart p) | None => None end
  | VL [VZ 1] => Some OpComplete
  | VL [VZ 2; p] => match as_list2 p with Some p => Some (OpWrite p) | None => None end
  | VL [VZ 3] => Some OpClear
  | VL [VZ 4] => Some OpReopen
  | _ => None
  end.

Definition pairs_upto (n:Z) : list (Z * Z) :=
  flat_map (fun a => map (fun b => (a, b)) (map (fun k => a + k) (rangeZ (n - a + 1)))) (rangeZ (n + 1)).

(* the sequence the history leaves in the field *)
Fixpoint written (acc:list (list Z)) (ops:list iwop) : list (list Z) :=
  match ops with
  | [] => acc
  | OpPart p :: t => written (acc ++ p) t
  | OpWrite p :: t => written (acc ++ p) t
  | OpComplete :: t => written acc t
  | OpClear :: t => written [] t
  | OpReopen :: t => written acc t
  end.

Definition do_extra (ind vals:list Z) (e:val) : val :=
  match e with
  | VL [VZ 0; VZ a; VZ b] => of_res vlist2 (iw_getslice false ind vals a b)
  | VL [VZ 1; VZ a; VZ b] => of_res vlist2 (iw_getslice true ind vals a b)
  | VL [VZ 2; VZ a; VZ _] => of_res vlist (iw_getint ind vals a)
  | _ => vbad
  end.

Definition idx_answer (ind vals:list Z) (extra:list val) : val :=
  let n := iw_length ind in
  VL [vlist ind; vlist vals;
      VL (map (fun p => of_res vlist2 (iw_getslice false ind vals (fst p) (snd p))) (pairs_upto n));
      VL (map (fun p => of_res vlist2 (iw_getslice true ind vals (fst p) (snd p))) (pairs_upto n));
      VL (map (fun i => of_res vlist (iw_getint ind vals i)) (rangeZ n));
      VL (map (do_extra ind vals) extra)].

Definition idx_spec (strs:list (list Z)) (extra:val) : val :=
  let n := len strs in
  let sl := VL (map (fun p => vlist2 (spec_slice strs (fst p) (snd p))) (pairs_upto n)) in
  VL [vlist (spec_offsets strs); vlist (spec_bytes strs); sl; sl;
      VL (map (fun i => vlist (spec_item strs i)) (rangeZ n)); extra].

Definition nth_val (v:val) (k:nat) : val :=
  match v with VL l => nth k l (VL []) | _ => VL [] end.

Definition entry_idx (h5:bool) (cs:Z) (ops:list iwop) (extra:list val) : val :=
  match iw_history h5 cs ops with
  | Ok (ind, vals) =>
    let m := idx_answer ind vals extra in
    VL [m; idx_spec (written [] ops) (nth_val m 5)]
  | r => let e := of_res (fun _ => vbad) r in
         VL [e; idx_spec (written [] ops) (VL [])]
  end.

(* plain fields over an element type *)
Section Plain.
Context {A:Type}.
Variable zero : A.
Variable enc : A -> val.

Definition plain_reads (dt:Z) (data:list A) (key:val) : val :=
  let n := len data in
  VL [VZ dt; VL (map enc data);
      VL (map (fun p => VL (map enc (np_slice data (fst p) (snd p)))) (pairs_upto n));
      VL (map (fun i => of_res enc (np_index 20 data i)) (rangeZ n));
      key].

Definition plain_spec (dt:Z) (data:list A) (key:val) : val :=
  let n := len data in
  VL [VZ dt; VL (map enc data);
      VL (map (fun p => VL (map enc (spec_slice data (fst p) (snd p)))) (pairs_upto n));
      VL (map (fun i => match nth_error data (Z.to_nat i) with Some x => enc x | None => vbad end) (rangeZ n));
      key].

Definition entry_plain (h5:bool) (fdt:Z) (pdts:list Z) (parts:list (list A)) (key:res val) (skey:val) : val :=
  let s0 : store A := if h5 then H5 [] else Mem None in
  let spec := plain_spec fdt (spec_written parts) skey in
  match key with
  | Ok k =>
    match st_write_parts zero s0 parts with
    | Ok s => VL [plain_reads (stored_dtype h5 fdt pdts) (st_data s) k; spec]
    | r => VL [of_res (fun _ => vbad) r; spec]
    end
  | r => VL [of_res (fun _ => vbad) r; spec]
  end.
End Plain.

Definition as_part {A} (dec:val -> option (list A)) (v:val) : option (Z * list A) :=
  match v with
  | VL [VZ pdt; xs] => match dec xs with Some xs => Some (pdt, xs) | None => None end
  | _ => None
  end.

Definition entry_C01 (v:val) : val :=
  match v with
  | VL [VZ 1; VZ h5; VZ cs; VL ops; VL extra] =>
    match all_some (map as_op ops) with
    | Some ops => entry_idx (negb (h5 =? 0)) cs ops extra
    | None => vbad
    end
  | VL [VZ 2; VZ h5; VZ fdt; VL parts; key] =>
    match all_some (map (as_part as_list2) parts) with
    | Some ps =>
      let h5b := negb (h5 =? 0) in
      let k : option (res val * val) :=
        match key with
        | VL [] => Some (Ok (VL []), VL [])
        | VL [VZ lo; VZ hi; kv] =>
          match as_list kv with
          | Some kv => Some (if h5b then bind (key_store lo hi kv) (fun l => Ok (vlist l))
                             else Ok (vlist kv), vlist kv)
          | None => None
          end
        | _ => None
        end in
      match k with
      | Some (mk, sk) => entry_plain [] vlist h5b fdt (map fst ps) (map snd ps) mk sk
      | None => vbad
      end
    | None => vbad
    end
  | _ => vbad
  end.
