(* Extract/E_C01.v — wire entry for C01 (glue, not trusted for theorems).
   Every answer is VL [model; spec]: what the faithful model of the code produces and what
   the specification (Spec/IdxWriterSpec.v) demands, in the same shape.

   case 1  indexed string   [1; h5; cs; ops; extra]
           ops    [0; strs] write_part | [1] complete | [2; strs] write | [3] clear | [4] new wrapper
           extra  [kind; a; b]   reads outside the property's range (kind 0 W-slice, 1 RO-slice, 2 int):
                                 model only (the spec column repeats the model)
           answer [offsets; bytes; W-slices; RO-slices; items; extra]
                  slices for all 0<=a<=b<=n in lexicographic order, items for 0<=i<n
           [1; h5; cs; ops; []; pairs]   long columns: slices only for the listed in-range [a; b], items for the a < n
   case 2  plain field      [2; h5; fdt; parts; key]      parts [pdt; values], key [] | [lo; hi; key_values]
           (numeric, timestamp, fixed string, categorical codes; a value is the byte list of
            its canonical representation, so that 64-bit integers and floats fit the wire)
           answer [dtype; data; slices; items; key_values]
   case 3  several fields   [3; specs; ops]     specs [0; h5; cs] indexed | [1; h5; dtype] plain
           ops    [field; op]   op as in case 1, or [5] = a read (data[:], len) that must leave no trace
           answer one entry per field: the case-1 answer (no extra) | [dtype; data]
   case 4  arrays as objects [4; backings; ops]  (Model/FieldWorld.v part 2; values are byte lists)
           ops    [0; vals] a_n = array(vals) | [1; k; vals] a_k[:] = vals | [2; k; i; v] a_k[i] = v
                  [3; f; arg] field_f.write_part(arg)   arg [0; k] a_k | [1; k; a; b] a_k[a:b] | [2; g; a; b] field_g.data[a:b]
                  [4; f; k; same] write_part(a_k, move_mem=True) | [5; f] complete | [6; f; i; v] data[i] = v | [7; f] clear
           answer [caller arrays; fields]; the spec column is -1 when the value semantics does not
                  define the history (move_mem, out-of-range index): no claim
   case 5  several NAMED fields in several named dataframes of one file   [5; subcases]
           every subcase is a case 1 or a case 2.  The model is name-agnostic: a file is a collection of independent
           fields whatever they and their dataframes are called, so the answer is the list of the subcases' answers:
           [models; specs]  (names never reach the model; the harness places the i-th answer under the i-th name) *)
From Coq Require Import ZArith List Bool.
From EV Require Import Res Arr Val IdxWriter IdxWriterSpec FieldWorld FieldWorldSpec.
Import ListNotations.
Open Scope Z_scope.

Definition as_op (v:val) : option iwop :=
  match v with
  | VL [VZ 0; p] => match as_list2 p with Some p => Some (OpPart p) | None => None end
  | VL [VZ 1] => Some OpComplete
  | VL [VZ 2; p] => match as_list2 p with Some p => Some (OpWrite p) | None => None end
  | VL [VZ 3] => Some OpClear
  | VL [VZ 4] => Some OpReopen
  | _ => None
  end.

Definition pairs_upto (n:Z) : list (Z * Z) :=
  flat_map (fun a => map (fun b => (a, b)) (map (fun k => a + k) (rangeZ (n - a + 1)))) (rangeZ (n + 1)).

(* the sequence the history leaves in the field *)
Fixpoint written (acc:list (list Z)) (ops:list iwop) : list (list Z) :=
  match ops with
  | [] => acc
  | OpPart p :: t => written (acc ++ p) t
  | OpWrite p :: t => written (acc ++ p) t
  | OpComplete :: t => written acc t
  | OpClear :: t => written [] t
  | OpReopen :: t => written acc t
  end.

Definition do_extra (ind vals:list Z) (e:val) : val :=
  match e with
  | VL [VZ 0; VZ a; VZ b] => of_res vlist2 (iw_getslice false ind vals a b)
  | VL [VZ 1; VZ a; VZ b] => of_res vlist2 (iw_getslice true ind vals a b)
  | VL [VZ 2; VZ a; VZ _] => of_res vlist (iw_getint ind vals a)
  | _ => vbad
  end.

(* reads for the given (a, b) pairs and items; the full answer takes all 0<=a<=b<=n and all 0<=i<n *)
Definition idx_answer_gen (ind vals:list Z) (pairs:list (Z * Z)) (items:list Z) (extra:list val) : val :=
  VL [vlist ind; vlist vals;
      VL (map (fun p => of_res vlist2 (iw_getslice false ind vals (fst p) (snd p))) pairs);
      VL (map (fun p => of_res vlist2 (iw_getslice true ind vals (fst p) (snd p))) pairs);
      VL (map (fun i => of_res vlist (iw_getint ind vals i)) items);
      VL (map (do_extra ind vals) extra)].

Definition idx_answer (ind vals:list Z) (extra:list val) : val :=
  let n := iw_length ind in idx_answer_gen ind vals (pairs_upto n) (rangeZ n) extra.

Definition idx_spec_gen (strs:list (list Z)) (pairs:list (Z * Z)) (items:list Z) (extra:val) : val :=
  let sl := VL (map (fun p => vlist2 (spec_slice strs (fst p) (snd p))) pairs) in
  VL [vlist (spec_offsets strs); vlist (spec_bytes strs); sl; sl;
      VL (map (fun i => vlist (spec_item strs i)) items); extra].

Definition idx_spec (strs:list (list Z)) (extra:val) : val :=
  let n := len strs in idx_spec_gen strs (pairs_upto n) (rangeZ n) extra.

Definition nth_val (v:val) (k:nat) : val :=
  match v with VL l => nth k l (VL []) | _ => VL [] end.

Definition entry_idx (h5:bool) (cs:Z) (ops:list iwop) (extra:list val) : val :=
  match iw_history h5 cs ops with
  | Ok (ind, vals) =>
    let m := idx_answer ind vals extra in
    VL [m; idx_spec (written [] ops) (nth_val m 5)]
  | r => let e := of_res (fun _ => vbad) r in
         VL [e; idx_spec (written [] ops) (VL [])]
  end.

(* long columns: only the listed in-range (a, b) slices, and the items a < n, are read *)
Definition as_pair (v:val) : option (Z * Z) :=
  match v with VL [VZ a; VZ b] => Some (a, b) | _ => None end.

Definition entry_idx_lite (h5:bool) (cs:Z) (ops:list iwop) (pairs:list (Z * Z)) : val :=
  let strs := written [] ops in
  let items := filter (fun i => i <? len strs) (map fst pairs) in
  match iw_history h5 cs ops with
  | Ok (ind, vals) => VL [idx_answer_gen ind vals pairs items []; idx_spec_gen strs pairs items (VL [])]
  | r => VL [of_res (fun _ => vbad) r; idx_spec_gen strs pairs items (VL [])]
  end.

(* plain fields over an element type *)
Section Plain.
Context {A:Type}.
Variable zero : A.
Variable enc : A -> val.

Definition plain_reads (dt:Z) (data:list A) (key:val) : val :=
  let n := len data in
  VL [VZ dt; VL (map enc data);
      VL (map (fun p => VL (map enc (np_slice data (fst p) (snd p)))) (pairs_upto n));
      VL (map (fun i => of_res enc (np_index 20 data i)) (rangeZ n));
      key].

Definition plain_spec (dt:Z) (data:list A) (key:val) : val :=
  let n := len data in
  VL [VZ dt; VL (map enc data);
      VL (map (fun p => VL (map enc (spec_slice data (fst p) (snd p)))) (pairs_upto n));
      VL (map (fun i => match nth_error data (Z.to_nat i) with Some x => enc x | None => vbad end) (rangeZ n));
      key].

Definition entry_plain (h5:bool) (fdt:Z) (pdts:list Z) (parts:list (list A)) (key:res val) (skey:val) : val :=
  let s0 : store A := if h5 then H5 [] else Mem None in
  let spec := plain_spec fdt (spec_written parts) skey in
  match key with
  | Ok k =>
    match st_write_parts zero s0 parts with
    | Ok s => VL [plain_reads (stored_dtype h5 fdt pdts) (st_data s) k; spec]
    | r => VL [of_res (fun _ => vbad) r; spec]
    end
  | r => VL [of_res (fun _ => vbad) r; spec]
  end.
End Plain.

Definition as_part {A} (dec:val -> option (list A)) (v:val) : option (Z * list A) :=
  match v with
  | VL [VZ pdt; xs] => match dec xs with Some xs => Some (pdt, xs) | None => None end
  | _ => None
  end.

(* ---- case 3: several fields ------------------------------------------------------------------ *)
Definition as_fspec (v:val) : option (fspec * Z) :=
  match v with
  | VL [VZ 0; VZ h5; VZ cs] => Some (SIdx (negb (h5 =? 0)) cs, 0)
  | VL [VZ 1; VZ h5; VZ dt] => Some (SPlain (negb (h5 =? 0)), dt)
  | _ => None
  end.

Definition as_mop (v:val) : option (Z * mop) :=
  match v with
  | VL [VZ i; VL [VZ 5]] => Some (i, MRead)
  | VL [VZ i; o] => match as_op o with Some o => Some (i, MOp o) | None => None end
  | _ => None
  end.

Definition writer_ops (ms:list mop) : list iwop :=
  flat_map (fun m => match m with MOp o => [o] | MRead => [] end) ms.

Definition fld_answer (sd:fspec * Z) (f:fld) : val :=
  match fst sd with
  | SIdx _ _ => let d := fld_idx_data f in idx_answer (fst d) (snd d) []
  | SPlain _ => VL [VZ (snd sd); vlist2 (fld_plain_data f)]
  end.

Definition fld_spec (sd:fspec * Z) (ms:list mop) : val :=
  let w := written [] (writer_ops ms) in
  match fst sd with
  | SIdx _ _ => idx_spec w (VL [])
  | SPlain _ => VL [VZ (snd sd); vlist2 w]
  end.

Definition entry_multi (specs:list (fspec * Z)) (h:list (Z * mop)) : val :=
  let spec := VL (map (fun isd => fld_spec (snd isd) (proj (fst isd) h))
                      (combine (rangeZ (len specs)) specs)) in
  match world_history (map fst specs) h with
  | Ok fs => VL [VL (map (fun sf => fld_answer (fst sf) (snd sf)) (combine specs fs)); spec]
  | r => VL [of_res (fun _ => vbad) r; spec]
  end.

(* ---- case 4: arrays as objects ------------------------------------------------------------------ *)
Definition as_arg (v:val) : option arg :=
  match v with
  | VL [VZ 0; VZ k] => Some (ACaller k)
  | VL [VZ 1; VZ k; VZ a; VZ b] => Some (ACallerSlice k a b)
  | VL [VZ 2; VZ g; VZ a; VZ b] => Some (AField g a b)
  | _ => None
  end.

Definition as_aop (v:val) : option (aop (list Z)) :=
  match v with
  | VL [VZ 0; vals] => match as_list2 vals with Some l => Some (CNew l) | None => None end
  | VL [VZ 1; VZ k; vals] => match as_list2 vals with Some l => Some (CFill k l) | None => None end
  | VL [VZ 2; VZ k; VZ i; x] => match as_list x with Some x => Some (CSet k i x) | None => None end
  | VL [VZ 3; VZ f; a] => match as_arg a with Some a => Some (FPart f a) | None => None end
  | VL [VZ 4; VZ f; VZ k; VZ same] => Some (FPartMove f k (negb (same =? 0)))
  | VL [VZ 5; VZ f] => Some (FComplete f)
  | VL [VZ 6; VZ f; VZ i; x] => match as_list x with Some x => Some (FSetItem f i x) | None => None end
  | VL [VZ 7; VZ f] => Some (FClear f)
  | _ => None
  end.

Definition world_val (v:list (list (list Z)) * list (list (list Z))) : val :=
  VL [VL (map vlist2 (fst v)); VL (map vlist2 (snd v))].

Definition entry_alias (backings:list bool) (ops:list (aop (list Z))) : val :=
  VL [of_res world_val (aw_history [] backings ops);
      match v_run (v_fresh backings) ops with Some v => world_val v | None => VZ (-1) end].

Definition entry_C01_one (v:val) : val :=
  match v with
  | VL [VZ 1; VZ h5; VZ cs; VL ops; VL extra] =>
    match all_some (map as_op ops) with
    | Some ops => entry_idx (negb (h5 =? 0)) cs ops extra
    | None => vbad
    end
  | VL [VZ 1; VZ h5; VZ cs; VL ops; VL extra; VL pairs] =>
    match all_some (map as_op ops), all_some (map as_pair pairs) with
    | Some ops, Some pairs => entry_idx_lite (negb (h5 =? 0)) cs ops pairs
    | _, _ => vbad
    end
  | VL [VZ 2; VZ h5; VZ fdt; VL parts; key] =>
    match all_some (map (as_part as_list2) parts) with
    | Some ps =>
      let h5b := negb (h5 =? 0) in
      let k : option (res val * val) :=
        match key with
        | VL [] => Some (Ok (VL []), VL [])
        | VL [VZ lo; VZ hi; kv] =>
          match as_list kv with
          | Some kv => Some (if h5b then bind (key_store lo hi kv) (fun l => Ok (vlist l))
                             else Ok (vlist kv), vlist kv)
          | None => None
          end
        | _ => None
        end in
      match k with
      | Some (mk, sk) => entry_plain [] vlist h5b fdt (map fst ps) (map snd ps) mk sk
      | None => vbad
      end
    | None => vbad
    end
  | VL [VZ 3; VL specs; VL ops] =>
    match all_some (map as_fspec specs), all_some (map as_mop ops) with
    | Some specs, Some ops => entry_multi specs ops
    | _, _ => vbad
    end
  | VL [VZ 4; backings; VL ops] =>
    match as_list backings, all_some (map as_aop ops) with
    | Some bs, Some ops => entry_alias (map (fun b => negb (b =? 0)) bs) ops
    | _, _ => vbad
    end
  | _ => vbad
  end.

(* ---- case 5: a batch of independent fields (names stay in the harness) ------------------------------ *)
Definition as_ms (v:val) : option (val * val) :=
  match v with VL [m; s] => Some (m, s) | _ => None end.

Definition entry_C01 (v:val) : val :=
  match v with
  | VL [VZ 5; VL subs] =>
    match all_some (map (fun c => as_ms (entry_C01_one c)) subs) with
    | Some rs => VL [VL (map fst rs); VL (map snd rs)]
    | None => vbad
    end
  | _ => entry_C01_one v
  end.
