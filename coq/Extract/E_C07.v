(* Extract/E_C07.v — wire entry for C07 (glue, not trusted for theorems).
   Every answer is VL [model; spec] where spec = VL [] when the case is outside the specification's
   precondition (then only model == implementation is decided). *)
From Coq Require Import ZArith List Bool.
From EV Require Import Res Arr Val StableSort Spans SpansSpec FilterIndex FilterIndexSpec Group GroupSpec GroupHist GroupHistSpec E_C09.
Import ListNotations.
Open Scope Z_scope.

Definition as_agg (z:Z) : option agg :=
  if z =? 0 then Some AMin else if z =? 1 then Some AMax else if z =? 2 then Some AFirst
  else if z =? 3 then Some ALast else None.

Definition as_gstep (v:val) : option gstep :=
  match v with
  | VL [VZ kind; VZ a; ts; VZ wk] =>
    match as_list ts with
    | Some ts =>
      let wk := negb (wk =? 0) in
      if kind =? 0 then Some (GCount wk)
      else if kind =? 1 then Some (GDistinct wk)
      else match as_agg a with Some a => Some (GAgg a ts wk) | None => None end
    | None => None
    end
  | _ => None
  end.
Definition as_gsteps (v:val) : option (list gstep) :=
  match v with VL l => all_some (map as_gstep l) | _ => None end.

Definition as_column (v:val) : option column :=
  match v with
  | VL [VZ 0; d] => match as_list d with Some d => Some (ColNum d) | None => None end
  | VL [VZ 2; i; vs] => match as_list i, as_list vs with Some i, Some vs => Some (ColIndexed i vs) | _, _ => None end
  | _ => None
  end.

Definition vcells (l:list (list Z)) : val := vlist2 l.
Definition vopt_frame (o:option frame) : val := match o with Some d => vframe d | None => vna end.

(* the references session_aggregate_ref / session_distinct_ref are in Spec/GroupSpec.v *)
Definition vres2' (r:list Z * option (list Z)) : val := VL [vlist (fst r); vopt vlist (snd r)].

(* a history event: [0; by; hint; steps] | [1; by; hint] | [2; name; field] | [3; name; idx] | [4; flt] | [5; idx] | [6; by] *)
Definition as_hev (v:val) : option hev :=
  match v with
  | VL [VZ 0; by_; VZ hint; steps] =>
    match as_list by_, as_gsteps steps with
    | Some by_, Some ss => Some (HGroup by_ (negb (hint =? 0)) ss)
    | _, _ => None
    end
  | VL [VZ 1; by_; VZ hint] =>
    match as_list by_ with Some by_ => Some (HDropDup by_ (negb (hint =? 0))) | None => None end
  | VL [VZ 2; VZ name; f] =>
    match as_field f with Some f => Some (HWrite name (fbody f)) | None => None end
  | VL [VZ 3; VZ name; idx] =>
    match as_list idx with Some idx => Some (HFieldIndex name idx) | None => None end
  | VL [VZ 4; flt] => match as_list flt with Some flt => Some (HFilter flt) | None => None end
  | VL [VZ 5; idx] => match as_list idx with Some idx => Some (HIndex idx) | None => None end
  | VL [VZ 6; by_] => match as_list by_ with Some by_ => Some (HSort by_) | None => None end
  | _ => None
  end.
Definition as_hevs (v:val) : option (list hev) :=
  match v with VL l => all_some (map as_hev l) | _ => None end.
Definition vhist (r:list frame * frame) : val := VL [VL (map vframe (fst r)); vframe (snd r)].

Definition entry_C07 (v:val) : val :=
  match v with
  | VL [VZ 5; cols; evs] =>
    match as_frame cols, as_hevs evs with
    | Some cols, Some evs =>
      both (of_res vhist (run_hist cols evs []))
           (match spec_hist cols evs [] with Some r => vhist r | None => vna end)
    | _, _ => vbad
    end
  | VL [VZ 1; cols; by_; VZ hint; ddf; steps] =>
    match as_frame cols, as_list by_, as_frame ddf, as_gsteps steps with
    | Some cols, Some by_, Some ddf, Some steps =>
      let hint := negb (hint =? 0) in
      both (of_res vframe (df_groupby_steps cols by_ hint ddf steps))
           (vopt_frame (spec_groupby_steps cols by_ hint ddf steps))
    | _, _, _, _ => vbad
    end
  | VL [VZ 2; cols; by_; VZ hint; ddf] =>
    match as_frame cols, as_list by_, as_frame ddf with
    | Some cols, Some by_, Some ddf =>
      let hint := negb (hint =? 0) in
      both (of_res vframe (df_drop_duplicates cols by_ ddf hint))
           (vopt_frame (spec_groupby_steps cols by_ hint ddf [GDistinct true]))
    | _, _, _ => vbad
    end
  | VL [VZ 3; VZ a; index; target; dest] =>
    match as_column index, as_list target, as_opt as_list dest with
    | Some index, Some target, Some dest =>
      if a =? (-1) then
        both (of_res vres2' (session_aggregate_count index dest))
             (match session_aggregate_ref None index target with
              | Some r => vres2' (r, write_dest dest r) | None => vna end)
      else
        match as_agg a with
        | Some a =>
          both (of_res vres2' (session_aggregate a index target dest))
               (match session_aggregate_ref (Some a) index target with
                | Some r => vres2' (r, write_dest dest r) | None => vna end)
        | None => vbad
        end
    | _, _, _ => vbad
    end
  | VL [VZ 4; fields] =>
    match as_list3 fields with
    | Some fields =>
      both (of_res (fun l => VL (map vcells l)) (session_distinct fields))
           (match session_distinct_ref fields with
            | Some r => VL (map vcells r)
            | None => vna
            end)
    | None => vbad
    end
  | _ => vbad
  end.
