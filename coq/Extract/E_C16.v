(* Extract/E_C16.v — wire entry for C16 (glue, not trusted for theorems).
   case  = [variant; strs; spans; src_chunksize; dest_chunksize; mult]
           variant 1 = repaired driver (session_concat), 0 = driver as found (session_concat_v0)
   reply = [model; spec]
           model = [data; indices; values; parsed] or an error triple (parsed = csv_parse_line of each entry)
           spec  = [[data; indices; values; non-empty strings per span]] when the case satisfies the property's
                   precondition (spans within the column, src_chunksize >= 1, buffer fits
                   every span's output), [] otherwise *)
From Coq Require Import ZArith List Bool.
From EV Require Import Res Arr Val Concat ConcatSpec.
Import ListNotations.
Open Scope Z_scope.

Definition nonempty_list {A} (l:list A) : bool := match l with [] => false | _ => true end.

Definition enc4 (d:list (list Z)) (i v:list Z) (parsed:list (list (list Z))) : val :=
  VL [vlist2 d; vlist i; vlist v; VL (map vlist2 parsed)].

Definition entry_C16 (v:val) : val :=
  match v with
  | VL [VZ variant; strs; spans; VZ sc; VZ dc; VZ mult] =>
    match as_list2 strs, as_list spans with
    | Some strs, Some spans =>
      let si := field_index strs in
      let sv := field_values strs in
      let r := session_concat_gen (negb (variant =? 0)) (session_fuel spans) spans si sv sc dc mult in
      let entries := concat_spec spans strs in
      let pre := spans_in_rangeb spans (len strs) && (1 <=? sc) && (0 <=? dc * mult)
                 && fitsb (dc * mult) entries
                 && (nonempty_list strs || (Z.of_nat (length spans) <=? 1)) in
      VL [ of_res (fun p => let d := read_all (fst p) (snd p) in
                           enc4 d (fst p) (snd p) (map csv_parse_line d)) r;
           if pre then VL [enc4 entries (spec_indices entries) (spec_values entries)
                                (map (fun q => filter nonempty (span_strs strs q)) (adjacent_pairs spans))]
           else VL [] ]
    | _, _ => vbad
    end
  | _ => vbad
  end.
