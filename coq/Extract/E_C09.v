(* Extract/E_C09.v — wire entry for C09 (glue, not trusted for theorems).
   Every answer is VL [model; spec] where spec = VL [] when the case is outside the
   specification's precondition (then only model == implementation is decided). *)
From Coq Require Import ZArith List Bool.
From EV Require Import Res Arr Val StableSort FilterIndex FilterIndexSpec FrameHist FrameHistSpec.
Import ListNotations.
Open Scope Z_scope.

(* ---- decoding ---- *)
Definition as_field (v:val) : option field :=
  match v with
  | VL [m; VZ wr; VZ kind; a; b] =>
    match as_list m, as_list a, as_list b with
    | Some m, Some a, Some b =>
      Some (mkField m (negb (wr =? 0)) (if kind =? 0 then BIdx a b else BDat a))
    | _, _, _ => None
    end
  | _ => None
  end.

Definition as_opt {A} (f:val -> option A) (v:val) : option (option A) :=
  match v with
  | VL [] => Some None
  | VL [x] => match f x with Some a => Some (Some a) | None => None end
  | _ => None
  end.

Definition as_named (v:val) : option (Z * field) :=
  match v with
  | VL [VZ n; f] => match as_field f with Some f => Some (n, f) | None => None end
  | _ => None
  end.

Definition as_frame (v:val) : option frame :=
  match v with VL l => all_some (map as_named l) | _ => None end.

Definition as_world (v:val) : option world :=
  match v with VL l => all_some (map as_frame l) | _ => None end.

Definition as_step (v:val) : option step :=
  match v with
  | VL [VZ kind; VZ src; VZ dt; arg; dst] =>
    match as_list arg, as_opt as_Z dst with
    | Some arg, Some dst =>
      if kind =? 0 then Some (SFilter src dt arg dst)
      else if kind =? 1 then Some (SIndex src arg dst)
      else if kind =? 2 then Some (SSort src arg dst)
      else if kind =? 3 then Some (SSortOn src arg dst)
      else None
    | _, _ => None
    end
  | _ => None
  end.

Definition as_steps (v:val) : option (list step) :=
  match v with VL l => all_some (map as_step l) | _ => None end.

Definition as_fev (v:val) : option fev :=
  match v with
  | VL [VZ 0; st] => match as_step st with Some s => Some (FCall s) | None => None end
  | VL [VZ 1; VZ src; VZ name; f] =>
    match as_field f with Some f => Some (FWrite src name (fbody f)) | None => None end
  | VL [VZ 2; VZ src; VZ name; idx] =>
    match as_list idx with Some idx => Some (FFieldIndex src name idx) | None => None end
  | VL [VZ 3; VZ src; VZ name; VZ dt; flt] =>
    match as_list flt with Some flt => Some (FFieldFilter src name dt flt) | None => None end
  | VL [VZ 4; VZ src; VZ name; idx] =>
    match as_list idx with Some idx => Some (FSessIndex src name idx) | None => None end
  | _ => None
  end.

Definition as_fevs (v:val) : option (list fev) :=
  match v with VL l => all_some (map as_fev l) | _ => None end.

Definition as_list3 (v:val) : option (list (list (list Z))) :=
  match v with VL l => all_some (map as_list2 l) | _ => None end.

(* ---- encoding ---- *)
Definition vfield (f:field) : val :=
  match fbody f with
  | BIdx i v => VL [vlist (fmeta f); vbool (fwr f); VZ 0; vlist i; vlist v]
  | BDat d => VL [vlist (fmeta f); vbool (fwr f); VZ 1; vlist d; vlist []]
  end.
Definition vframe (d:frame) : val := VL (map (fun nf:Z * field => VL [VZ (fst nf); vfield (snd nf)]) d).
Definition vworld (w:world) : val := VL (map vframe w).
Definition vpairl (p:list Z * list Z) : val := VL [vlist (fst p); vlist (snd p)].
Definition vna : val := VL [].
Definition both (m s:val) : val := VL [m; s].

(* ---- executable specification of the kernels / field level / histories ---- *)
Definition wf_idx (i v:list Z) : bool := wf_bodyb (BIdx i v) && negb (len i =? 0).

Definition enc (cs:list cell) : list Z * list Z := (psums (map (@len Z) cs), concat cs).

(* one field-level call: mode 0 = new memory field, 1 = into the (persistent) target, 2 = in place *)
Definition fstep_model (st:field * option field) (what dt:Z) (arg:list Z) (mode:Z)
  : res (field * option field * field) :=
  let '(src, tgt) := st in
  let target := if mode =? 1 then tgt else None in
  let in_place := mode =? 2 in
  do r <- (if what =? 0 then field_apply_filter src dt arg target in_place
           else field_apply_index src arg target in_place);
  Ok (r_src r, (if mode =? 1 then r_tgt r else tgt), r_ret r).

Definition fstep_spec (st:field * option field) (what dt:Z) (arg:list Z) (mode:Z)
  : option (field * option field * field) :=
  let '(src, tgt) := st in
  let n := field_len src in
  let ps := if what =? 0 then sel (truthy arg) else arg in
  let valid := wf_bodyb (fbody src)
               && (if what =? 0 then ((dt =? 0) || (dt =? 1)) && (len arg =? n) else in_range n arg) in
  if negb valid then None
  else
    let b := select_body (fbody src) ps in
    if mode =? 2 then
      if fwr src then let s' := mkField (fmeta src) (fwr src) b in Some (s', tgt, s') else None
    else if mode =? 1 then
      match tgt with
      | Some t =>
        match fbody t, b with
        | BIdx _ _, BIdx _ _ | BDat _, BDat _ =>
          let t' := mkField (fmeta t) (fwr t) b in Some (src, Some t', t')
        | _, _ => None
        end
      | None => let m := mkField (fmeta src) true b in Some (src, tgt, m)
      end
    else let m := mkField (fmeta src) true b in Some (src, tgt, m).

Fixpoint fsteps_model (st:field * option field) (steps:list val) (rets:list field)
  : option (res (field * option field * list field)) :=
  match steps with
  | [] => Some (Ok (fst st, snd st, rev rets))
  | VL [VZ what; VZ dt; arg; VZ mode] :: t =>
    match as_list arg with
    | None => None
    | Some arg =>
      match fstep_model st what dt arg mode with
      | Ok (s, tg, r) => fsteps_model (s, tg) t (r :: rets)
      | OOB x => Some (OOB x) | Raise c => Some (Raise c) | OutOfFuel => Some OutOfFuel
      end
    end
  | _ => None
  end.

Fixpoint fsteps_spec (st:field * option field) (steps:list val) (rets:list field)
  : option (field * option field * list field) :=
  match steps with
  | [] => Some (fst st, snd st, rev rets)
  | VL [VZ what; VZ dt; arg; VZ mode] :: t =>
    match as_list arg with
    | None => None
    | Some arg =>
      match fstep_spec st what dt arg mode with
      | Some (s, tg, r) => fsteps_spec (s, tg) t (r :: rets)
      | None => None
      end
    end
  | _ => None
  end.

Definition vfstate (x:field * option field * list field) : val :=
  let '(s, tg, rs) := x in VL [vfield s; vopt vfield tg; VL (map vfield rs)].

Definition spec_step (w:world) (s:step) : option world :=
  let go (src:Z) (dst:option Z) (f:frame -> option frame -> option (frame * option frame)) : option world :=
    match wget w src with
    | Ok cols =>
      match dst with
      | None =>
        match f cols None with
        | Some (c', _) => match wset w src c' with Ok w' => Some w' | _ => None end
        | None => None
        end
      | Some j =>
        if j =? src then None
        else
          match wget w j with
          | Ok d =>
            match f cols (Some d) with
            | Some (c', Some d') =>
              match wset w src c' with
              | Ok w1 => match wset w1 j d' with Ok w2 => Some w2 | _ => None end
              | _ => None
              end
            | _ => None
            end
          | _ => None
          end
      end
    | _ => None
    end in
  match s with
  | SFilter src dt flt dst => go src dst (fun c d => spec_filter c dt flt d)
  | SIndex src idx dst => go src dst (fun c d => spec_index c idx d)
  | SSort src by_ dst => go src dst (fun c d => spec_sort c by_ d)
  | SSortOn src keys dst => go src dst (fun c d => spec_sort_on c keys d)
  end.

Fixpoint spec_steps (w:world) (ss:list step) : option world :=
  match ss with
  | [] => Some w
  | s :: t => match spec_step w s with Some w' => spec_steps w' t | None => None end
  end.

Definition vres2 (r:list Z * option (list Z)) : val := VL [vlist (fst r); vopt vlist (snd r)].

Definition entry_C09 (v:val) : val :=
  match v with
  | VL [VZ 1; flt; idx; vals] =>
    match as_list flt, as_list idx, as_list vals with
    | Some flt, Some idx, Some vals =>
      let m := truthy flt in
      both (of_res vpairl (apply_filter_to_index_values m idx vals))
           (if wf_idx idx vals && (len m <=? len idx - 1)
            then vpairl (enc (FilterIndex.mask (cells_of idx vals) m)) else vna)
    | _, _, _ => vbad
    end
  | VL [VZ 2; ix; idx; vals] =>
    match as_list ix, as_list idx, as_list vals with
    | Some ix, Some idx, Some vals =>
      both (of_res vpairl (apply_indices_to_index_values ix idx vals))
           (if wf_idx idx vals && in_range (len idx - 1) ix
            then vpairl (enc (gather [] (cells_of idx vals) ix)) else vna)
    | _, _, _ => vbad
    end
  | VL [VZ 3; src; tgt; VL steps] =>
    match as_field src, as_opt as_field tgt with
    | Some src, Some tgt =>
      match fsteps_model (src, tgt) steps [] with
      | Some r =>
        both (of_res vfstate r)
             (match fsteps_spec (src, tgt) steps [] with Some x => vfstate x | None => vna end)
      | None => vbad
      end
    | _, _ => vbad
    end
  | VL [VZ 4; w; steps] =>
    match as_world w, as_steps steps with
    | Some w, Some steps =>
      both (of_res vworld (run_steps w steps))
           (match spec_steps w steps with Some w' => vworld w' | None => vna end)
    | _, _ => vbad
    end
  | VL [VZ 7; w; evs] =>
    match as_world w, as_fevs evs with
    | Some w, Some evs =>
      both (of_res vworld (run_fhist w evs))
           (match spec_fhist w evs with Some w' => vworld w' | None => vna end)
    | _, _ => vbad
    end
  | VL [VZ 5; VZ what; src; VZ dt; arg; dest] =>
    match as_list src, as_list arg, as_opt as_list dest with
    | Some src, Some arg, Some dest =>
      if what =? 0 then
        both (of_res vres2 (session_apply_filter_array src dt arg dest))
             (if ((dt =? 0) || (dt =? 1)) && (len arg =? len src)
              then let r := gather 0 src (sel (truthy arg)) in
                   vres2 (r, match dest with Some d => Some (d ++ r) | None => None end)
              else vna)
      else
        both (of_res vres2 (session_apply_index_array src arg dest))
             (if in_range (len src) arg
              then let r := gather 0 src arg in
                   vres2 (r, match dest with Some d => Some (d ++ r) | None => None end)
              else vna)
    | _, _, _ => vbad
    end
  | VL [VZ 6; readers; index] =>
    match as_list3 readers, as_list index with
    | Some readers, Some index =>
      let n := len index in
      both (of_res vlist (dataset_sort_index readers index))
           (if negb (len readers =? 0) && forallb (fun c => len c =? n) readers
               && forallb (fun p:Z * Z => fst p =? snd p) (combine index (iota 0 (length index)))
            then vlist (lexsort_perm (rows_of n readers)) else vna)
    | _, _ => vbad
    end
  | _ => vbad
  end.
