(* Extract/E_C15.v — wire entry for C15 (glue, not trusted for theorems).
   case   = [fix_a, fix_b, fix_c, nquiet, [op, ...]]
   op     = [tag, args...]   names are lists of byte values, a rename mapping is [[k, v], ...]
   result = [[step, ...], [final per dataset], obs before the first reported step]
   step   = [code, obs, [flags], identobs]  code 0 = returned, else the exception code of Base/Res.v; the last flag is
                                            the identity verdict (Spec/CatalogueIdentSpec.v), identobs = per dataset
                                            [[name, place]...], place = [] (new object) or [dataset index, name]
   obs    = [[dsobs, dsobs], [handle status, ...]] *)
From Coq Require Import ZArith List Bool.
From EV Require Import Res Val Catalogue CatalogueSpec CatalogueIdentSpec.
Import ListNotations.
Open Scope Z_scope.

Definition as_pair (v:val) : option (name * name) :=
  match v with
  | VL [a; b] => match as_list a, as_list b with Some a, Some b => Some (a, b) | _, _ => None end
  | _ => None
  end.
Definition as_ndict (v:val) : option ndict :=
  match v with VL l => all_some (map as_pair l) | _ => None end.

Definition dec_op (v:val) : option op :=
  match v with
  | VL [VZ 1; VZ i; d; n; VZ t; dat] =>
      match as_list d, as_list n, as_list dat with Some d, Some n, Some dat => Some (OCreate i d n t dat) | _, _, _ => None end
  | VL [VZ 2; VZ i; d; n; VZ j; d'; n'] =>
      match as_list d, as_list n, as_list d', as_list n' with
      | Some d, Some n, Some d', Some n' => Some (OSetItem i d n j d' n') | _, _, _, _ => None end
  | VL [VZ 3; VZ i; d; VZ j; d'; n'] =>
      match as_list d, as_list d', as_list n' with Some d, Some d', Some n' => Some (OAdd i d j d' n') | _, _, _ => None end
  | VL [VZ 4; VZ i; d; n] =>
      match as_list d, as_list n with Some d, Some n => Some (ODelItem i d n) | _, _ => None end
  | VL [VZ 5; VZ i; d; n] =>
      match as_list d, as_list n with Some d, Some n => Some (ODrop i d n) | _, _ => None end
  | VL [VZ 6; VZ i; d; VZ j; d'; n'] =>
      match as_list d, as_list d', as_list n' with Some d, Some d', Some n' => Some (ODeleteField i d j d' n') | _, _, _ => None end
  | VL [VZ 7; VZ i; d; m] =>
      match as_list d, as_ndict m with Some d, Some m => Some (ORename i d m) | _, _ => None end
  | VL [VZ 8; VZ i; d; n; VZ j; d'; n'] =>
      match as_list d, as_list n, as_list d', as_list n' with
      | Some d, Some n, Some d', Some n' => Some (OFCopy i d n j d' n') | _, _, _, _ => None end
  | VL [VZ 9; VZ i; d; n; VZ j; d'; n'] =>
      match as_list d, as_list n, as_list d', as_list n' with
      | Some d, Some n, Some d', Some n' => Some (OFMove i d n j d' n') | _, _, _, _ => None end
  | VL [VZ 10; VZ i; d] => match as_list d with Some d => Some (OCreateDF i d) | None => None end
  | VL [VZ 11; VZ i; d; VZ j; d'] =>
      match as_list d, as_list d' with Some d, Some d' => Some (OCreateDFFrom i d j d') | _, _ => None end
  | VL [VZ 12; VZ i; d] => match as_list d with Some d => Some (ORequireDF i d) | None => None end
  | VL [VZ 13; VZ i; d; VZ j; d'] =>
      match as_list d, as_list d' with Some d, Some d' => Some (ODSCopy i d j d') | _, _ => None end
  | VL [VZ 14; VZ i; d; VZ j; d'] =>
      match as_list d, as_list d' with Some d, Some d' => Some (ODSMove i d j d') | _, _ => None end
  | VL [VZ 15; VZ j; d'; VZ i; d] =>
      match as_list d', as_list d with Some d', Some d => Some (ODSSetItem j d' i d) | _, _ => None end
  | VL [VZ 16; VZ i; d] => match as_list d with Some d => Some (ODSDelItem i d) | None => None end
  | VL [VZ 17; VZ i; d] => match as_list d with Some d => Some (ODSDrop i d) | None => None end
  | VL [VZ 18; VZ i; d] => match as_list d with Some d => Some (ODSDeleteDF i d) | None => None end
  | _ => None
  end.

Definition enc_h (h:hstat) : val :=
  match h with
  | HInvalid => VL [VZ 0]
  | HDead => VL [VZ 1]
  | HLive i d n t dat => VL [VZ 2; VZ i; vlist d; vlist n; VZ t; vlist dat]
  end.
Definition enc_df (d:dfobs) : val := VL [vlist (o_key d); vlist (o_nameattr d); vlist2 (o_cols d); vlist2 (o_h5 d)].
Definition enc_ds (d:dsobs) : val :=
  VL [VL (map enc_df (o_dfs d)); VL (map (fun e => VL [vlist (fst e); vlist2 (snd e)]) (o_file d))].
Definition enc_obs (o:obs) : val := VL [VL (map enc_ds (o_ds o)); VL (map enc_h (o_handles o))].
Definition enc_place (p:place) : val := match p with None => VL [] | Some (j, k) => VL [VZ j; vlist k] end.
Definition enc_ident (io:identobs) : val :=
  VL (map (fun l => VL (map (fun e => VL [vlist (fst e); enc_place (snd e)]) l)) io).
Definition enc_step (x:stepres * (identobs * bool)) : val :=
  let (r, ib) := x in
  VL [VZ (sr_code r); enc_obs (sr_obs r); VL (map vbool (sr_flags r ++ [snd ib])); enc_ident (fst ib)].
Definition enc_fview (v:fview) : val :=
  VL (map (fun e => VL [vlist (fst e);
                        VL (map (fun x => match x with (n, t, dat) => VL [vlist n; VZ t; vlist dat] end) (snd e))]) v).
Definition enc_final (x:fview * fview * bool) : val :=
  match x with (a, b, ok) => VL [enc_fview a; enc_fview b; vbool ok] end.

Definition entry_C15 (v:val) : val :=
  match v with
  | VL [VZ fa; VZ fb; VZ fc; VZ nquiet; VL ops] =>
      match all_some (map dec_op ops) with
      | Some ops =>
          let cf := mkCfg (negb (fa =? 0)) (negb (fb =? 0)) (negb (fc =? 0)) in
          let (tr, fv) := run_case cf ops in
          (* identity observation and verdict of every recorded step (the recording stops where run_trace stops) *)
          let trz := combine tr (ident_trace cf ops init_state) in
          (* the steps of the case's fixed preamble are not reported unless the history stopped there *)
          let quiet := (Z.to_nat nquiet <? length tr)%nat in
          let shown := if quiet then skipn (Z.to_nat nquiet) trz else trz in
          (* observation before the first reported step *)
          let start := if quiet then match nth_error tr (Z.to_nat nquiet - 1) with
                                     | Some r => if 0 <? nquiet then sr_obs r else observe init_state []
                                     | None => observe init_state []
                                     end
                       else observe init_state [] in
          VL [VL (map enc_step shown); VL (map enc_final fv); enc_obs start]
      | None => vbad
      end
  | _ => vbad
  end.
