(* Extract/E_C13.v — wire entry for C13 (glue, not trusted for theorems).
   case  [1; lkind; rkind; op; store; tables; lunw; runw]   binary (l/runw: that field operand was never written)   kinds: 0..5 field classes, 6 ndarray,
                                                 7 numpy scalar, 8 Python scalar, 9 (right only) the
                                                 very same field object as the left operand
         [2; cls; uop; store; tables; unw]       unary    uop: 16 invert, 17 logical_not
   tables: 0 = repo_tables (tree after fix F-C13a), 1 = orig_tables (class flags of the pinned commit)
   answer [model; spec]   outcome = [1; heap; results; stored] | [0; exception code];  spec = [] when the
   case is outside the property's scope. *)
From Coq Require Import ZArith List Bool.
From EV Require Import Res Val Dispatch DispatchSpec.
Import ListNotations.
Open Scope Z_scope.

Definition cls_of_code (z:Z) : option cls :=
  match z with 0 => Some NumericMem | 1 => Some CategoricalMem | 2 => Some TimestampMem
             | 3 => Some NumericH5 | 4 => Some CategoricalH5 | 5 => Some TimestampH5 | _ => None end.
Definition bop_of_code (z:Z) : option bop := find (fun o => bop_code o =? z) all_bops.
Definition uop_of_code (z:Z) : option uop :=
  match z with 16 => Some Invert | 17 => Some LogicalNot | _ => None end.

Fixpoint enc_sym (s:sym) : val :=
  match s with
  | SOperand i => VL [VZ 0; VZ i]
  | SBin f a b => VL [VZ 1; VZ (npop_code f); enc_sym a; enc_sym b]
  | SUn f a => VL [VZ 2; VZ (npop_code f); enc_sym a]
  | SProj i a b => VL [VZ 3; VZ i; enc_sym a; enc_sym b]
  | SItem a => VL [VZ 4; enc_sym a]
  | SCast nf a => VL [VZ 5; enc_sym nf; enc_sym a]
  | SEmptyOf i => VL [VZ 6; VZ i]
  | SEmptyLike a => VL [VZ 7; enc_sym a]
  end.
Definition enc_nf (n:symnf) : val :=
  match n with NfGiven c => VL [VZ 0; VZ c] | NfOf a => VL [VZ 1; enc_sym a] end.
Definition enc_field (f:fieldobj sym symnf) : val :=
  VL [VZ (cls_code (fo_cls _ _ f)); enc_nf (fo_nformat _ _ f);
      match fo_data _ _ f with Some a => VL [enc_sym a] | None => VL [] end].
Definition enc_value (v:value sym) : val :=
  match v with
  | VField id => VL [VZ 0; VZ (Z.of_nat id)]
  | VObjArray => VL [VZ 1]
  | VBoolTrue => VL [VZ 2]
  | _ => VL [VZ 3]
  end.
Definition enc_outcome (r:res (outcome sym symnf)) : val :=
  match r with
  | Ok o => VL [VZ 1; VL (map enc_field (o_heap _ _ o)); VL (map enc_value (o_results _ _ o));
                VL (map enc_value (o_stored _ _ o))]
  | Raise c => VL [VZ 0; VZ c]
  | OOB s => VL [VZ 0; VZ (-1)]
  | OutOfFuel => VL [VZ 0; VZ (-2)]
  end.

(* operand i (0 left, 1 right) of kind code k, appended to the heap when it is a field *)
Definition mk_operand (h:heap sym symnf) (i k unw:Z) : option (heap sym symnf * value sym) :=
  match cls_of_code k with
  | Some c => Some (h ++ [mkfield sym symnf c (NfGiven i) (if unw =? 0 then Some (SOperand i) else None)],
                    VField (length h))
  | None =>
    match k with
    | 6 => Some (h, VNd (SOperand i))
    | 7 => Some (h, VNpScalar (SOperand i))
    | 8 => Some (h, VPyScalar (SOperand i))
    | _ => None
    end
  end.

Definition tables_of (z:Z) : option code_tables :=
  match z with 0 => Some repo_tables | 1 => Some orig_tables | _ => None end.

Definition kind_of_code (k:Z) : option kind :=
  match cls_of_code k with
  | Some c => Some (KField c)
  | None => match k with 6 => Some KNdarray | 7 => Some KNpScalar | 8 => Some KPyScalar | _ => None end
  end.

Definition entry_C13 (v:val) : val :=
  match v with
  | VL [VZ 1; VZ lk; VZ rk; VZ oc; VZ st; VZ tb; VZ lunw; VZ runw] =>
      match mk_operand [] 0 lk lunw, bop_of_code oc, tables_of tb with
      | Some (h0, lhs), Some o, Some T =>
          let second := if rk =? 9 then (if lk <? 6 then Some (h0, lhs) else None) else mk_operand h0 1 rk runw in
          match second, kind_of_code lk, kind_of_code (if rk =? 9 then lk else rk) with
          | Some (h, rhs), Some kl, Some kr =>
              let store := negb (st =? 0) in
              VL [enc_outcome (sym_run_binop T h lhs o rhs store);
                  if in_scope kl o kr then enc_outcome (sym_spec_binop h lhs o rhs store) else VL []]
          | _, _, _ => vbad
          end
      | _, _, _ => vbad
      end
  | VL [VZ 2; VZ k; VZ uc; VZ st; VZ tb; VZ unw] =>
      match cls_of_code k, uop_of_code uc, tables_of tb with
      | Some c, Some u, Some T =>
          let h := [mkfield sym symnf c (NfGiven 0) (if unw =? 0 then Some (SOperand 0) else None)] in
          let store := negb (st =? 0) in
          VL [enc_outcome (sym_run_unop T h (VField 0) u store);
              if supported_u c u then enc_outcome (sym_spec_unop h (VField 0) u store) else VL []]
      | _, _, _ => vbad
      end
  | _ => vbad
  end.
