(* Extract/E_C03.v — wire entry for C03: [kind 0..3; is_left; L; R; inv; cs]
   -> [[outl; outr]; [spec_l; spec_r]]   (glue, not trusted for theorems) *)
From Coq Require Import ZArith List Bool.
From EV Require Import Res Arr Val Join JoinSpec.
Import ListNotations.
Open Scope Z_scope.

Definition kind_of (z:Z) : option kind :=
  match z with 0 => Some KGen | 1 => Some KLU | 2 => Some KRU | 3 => Some KBU | _ => None end.

Definition entry_C03 (v:val) : val :=
  match v with
  | VL [VZ k; VZ isl; l; r; VZ inv; VZ cs] =>
    match kind_of k, as_list l, as_list r with
    | Some k, Some L, Some R =>
      let var := mkvar k (negb (isl =? 0)) in
      let sp := join_spec (v_left var) inv L R in
      VL [ of_res (fun p => VL [vlist (fst p); vlist (snd p)]) (streamed var L R inv cs);
           VL [vlist (map fst sp); vlist (map snd sp)] ]
    | _, _, _ => vbad
    end
  | _ => vbad
  end.
