(* Extract/E_C14.v — wire entry for C14 (glue, not trusted for theorems).
   Every answer is VL [model; spec]: the model's result on the stored representation and the
   specification evaluated on the rows of the column. *)
From Coq Require Import ZArith List Bool.
From EV Require Import Res Arr Val UniqueSpec Unique.
Import ListNotations.
Open Scope Z_scope.

Definition rows_of (indices values:list Z) : list (list Z) :=
  map (fun i => slice values (nthZ indices i) (nthZ indices (i + 1)))
      (iota 0 (Z.to_nat (len indices - 1))).

Definition v_ures {A} (f:list A -> val) (r:list A * option (list Z) * option (list Z) * option (list Z)) : val :=
  match r with (u, i, v, c) => VL [f u; vopt vlist i; vopt vlist v; vopt vlist c] end.

Definition vbools (l:list bool) : val := VL (map vbool l).

(* optional elements: VL [] = None, VL [x] = Some x *)
Definition as_opt {A} (f:val -> option A) (v:val) : option (option A) :=
  match v with
  | VL [] => Some None
  | VL [x] => match f x with Some a => Some (Some a) | None => None end
  | _ => None
  end.
Definition as_opts {A} (f:val -> option A) (v:val) : option (list (option A)) :=
  match v with VL l => all_some (map (as_opt f) l) | _ => None end.

Definition entry_C14 (v:val) : val :=
  match v with
  (* unique on an indexed string column *)
  | VL [VZ 1; VZ fixed; indices; values; VZ ri; VZ rv; VZ rc] =>
    match as_list indices, as_list values with
    | Some ind, Some vals =>
      let b z := negb (z =? 0) in
      let m := unique_for_indexed_string (b fixed) ind vals (b ri) (b rv) (b rc) in
      VL [of_res (fun r => v_ures vlist2 (encode_result r)) m;
          v_ures vlist2 (spec_unique lexcmp (rows_of ind vals) (b ri) (b rv) (b rc))]
    | _, _ => vbad
    end
  (* unique, non-indexed: carrier 0 = integers, 1 = byte strings *)
  | VL [VZ 2; VZ 0; data; VZ ri; VZ rv; VZ rc] =>
    match as_list data with
    | Some d =>
      let b z := negb (z =? 0) in
      VL [v_ures vlist (apply_unique_plain Z.compare d (b ri) (b rv) (b rc));
          v_ures vlist (spec_unique Z.compare d (b ri) (b rv) (b rc))]
    | None => vbad
    end
  | VL [VZ 2; VZ 1; data; VZ ri; VZ rv; VZ rc] =>
    match as_list2 data with
    | Some d =>
      let b z := negb (z =? 0) in
      VL [v_ures vlist2 (apply_unique_plain lexcmp d (b ri) (b rv) (b rc));
          v_ures vlist2 (spec_unique lexcmp d (b ri) (b rv) (b rc))]
    | None => vbad
    end
  (* isin on an indexed string column; tests = VL [] (None) or VL [list of optional code-point strings] *)
  | VL [VZ 3; indices; values; tests] =>
    match as_list indices, as_list values, as_opt (as_opts as_list) tests with
    | Some ind, Some vals, Some ts =>
      let enc := match ts with
                 | Some l => map (option_map (fun s => utf8_encode s)) l
                 | None => []
                 end in
      let fuel := isin_fuel (somes enc) in
      VL [of_res vbools (isin_for_indexed_string_field fuel ts ind vals);
          vbools (spec_isin lexcmp (rows_of ind vals) enc)]
    | _, _, _ => vbad
    end
  | VL [VZ 4; VZ 0; data; tests] =>
    match as_list data, as_opts as_Z tests with
    | Some d, Some ts => VL [vbools (apply_isin_plain Z.compare d ts); vbools (spec_isin Z.compare d ts)]
    | _, _ => vbad
    end
  (* isin on an integer column of dtype [lo, hi] (repaired code: FieldDataOps._exact_integer_tests) *)
  | VL [VZ 5; VZ lo; VZ hi; data; tests] =>
    match as_list data, as_opts as_Z tests with
    | Some d, Some ts => VL [vbools (apply_isin_int lo hi d ts); vbools (spec_isin Z.compare d ts)]
    | _, _ => vbad
    end
  | VL [VZ 4; VZ 1; data; tests] =>
    match as_list2 data, as_opts as_list tests with
    | Some d, Some ts => VL [vbools (apply_isin_plain lexcmp d ts); vbools (spec_isin lexcmp d ts)]
    | _, _ => vbad
    end
  | _ => vbad
  end.
