(* Extract/E_C17.v — wire entry for C17 (glue, not trusted for theorems).
   case = [1, okeys, ovf, nkeys, fields]     journal_table (sorts) + the specification
        | [2, okeys, nkeys, fields]          journal_core with identity sort indices (kernel pipeline)
        | [3, old, new]                      ordered_generate_journalling_indices alone
        | [4, w, cs, scs, okeys, ovf, nkeys, fields]
                                             journal_table executed with ops.DEFAULT_CHUNKSIZE = cs and field chunk size
                                             scs; w = 0: integer keys, w >= 2: keys are byte strings of an S<w> column
                                             (ordered through JournalKeys.key_enc) + the specification
   fields = list of [0, old numeric column, new numeric column] | [1, old strings, new strings]
   answer = [model columns, spec columns]; a column is [0, data] or [1, offsets, bytes]. *)
From Coq Require Import ZArith List Bool.
From EV Require Import Res Arr Val Journal JournalSpec JournalKeys.
Import ListNotations.
Open Scope Z_scope.

Definition dec_field (v:val) : option (col * col) :=
  match v with
  | VL [VZ 0; o; n] =>
    match as_list o, as_list n with
    | Some o, Some n => Some (NumCol o, NumCol n)
    | _, _ => None
    end
  | VL [VZ 1; o; n] =>
    match as_list2 o, as_list2 n with
    | Some o, Some n =>
      let '(oo, ov) := encode o in
      let '(no, nv) := encode n in
      Some (StrCol oo ov, StrCol no nv)
    | _, _ => None
    end
  | _ => None
  end.

Definition dec_fields (v:val) : option (list (col * col)) :=
  match v with VL l => all_some (map dec_field l) | _ => None end.

Definition enc_col (c:col) : val :=
  match c with
  | NumCol d => VL [VZ 0; vlist d]
  | StrCol o v => VL [VZ 1; vlist o; vlist v]
  end.
Definition enc_cols (l:list col) : val := VL (map enc_col l).

(* a key cell of an S<w> column: at most w bytes *)
Definition key_cell_ok (w:nat) (bs:list Z) : bool :=
  (Nat.leb (length bs) w) && forallb (fun b => (0 <=? b) && (b <? 256)) bs.

Definition entry_C17 (v:val) : val :=
  match v with
  | VL [VZ 1; okeys; ovf; nkeys; fields] =>
    match as_list okeys, as_list ovf, as_list nkeys, dec_fields fields with
    | Some okeys, Some ovf, Some nkeys, Some fields =>
      if negb (len okeys =? len ovf) then vbad else
      VL [of_res enc_cols (journal_table (journal_fuel okeys nkeys) okeys ovf nkeys fields);
          enc_cols (journal_spec okeys ovf nkeys fields)]
    | _, _, _, _ => vbad
    end
  | VL [VZ 2; okeys; nkeys; fields] =>
    match as_list okeys, as_list nkeys, dec_fields fields with
    | Some okeys, Some nkeys, Some fields =>
      VL [of_res enc_cols (journal_core (journal_fuel okeys nkeys) (iota (length okeys)) (iota (length nkeys))
                             okeys nkeys fields);
          enc_cols (journal_spec okeys (repeat 0 (length okeys)) nkeys fields)]
    | _, _, _ => vbad
    end
  | VL [VZ 4; VZ w; VZ cs; VZ scs; okeys; ovf; nkeys; fields] =>
    if w =? 0 then
      match as_list okeys, as_list ovf, as_list nkeys, dec_fields fields with
      | Some okeys, Some ovf, Some nkeys, Some fields =>
        if negb (len okeys =? len ovf) then vbad else
        VL [of_res enc_cols (journal_table_sized cs scs (journal_fuel okeys nkeys) okeys ovf nkeys fields);
            enc_cols (journal_spec okeys ovf nkeys fields)]
      | _, _, _, _ => vbad
      end
    else
      match as_list2 okeys, as_list ovf, as_list2 nkeys, dec_fields fields with
      | Some okeys, Some ovf, Some nkeys, Some fields =>
        let wn := Z.to_nat w in
        if negb (len okeys =? len ovf) || negb (forallb (key_cell_ok wn) (okeys ++ nkeys)) then vbad else
        let ok := map (key_enc wn) okeys in
        let nk := map (key_enc wn) nkeys in
        VL [of_res enc_cols (journal_table_bytes wn cs scs (journal_fuel ok nk) okeys ovf nkeys fields);
            enc_cols (journal_spec ok ovf nk fields)]
      | _, _, _, _ => vbad
      end
  | VL [VZ 3; old; new] =>
    match as_list old, as_list new with
    | Some old, Some new =>
      VL [of_res (fun p => VL [vlist (fst p); vlist (snd p)]) (gen_indices (indices_fuel old new) old new); VL []]
    | _, _ => vbad
    end
  | _ => vbad
  end.
