(* Extract/Extract.v — extraction of the executable models to OCaml.
   Directives used: ExtrOcamlBasic only (bool, option, unit, list, prod, sumbool, sumor to
   OCaml's own types).  No Extract Constant; Z, positive, nat stay inductive. *)
From Coq Require Import ZArith List.
From Coq Require Import ExtrOcamlBasic.
From EV Require Import Val E_C20.
Open Scope Z_scope.

Definition dispatch (prop:Z) (v:val) : val :=
  match prop with
  | 20 => entry_C20 v
  | _ => vbad
  end.

Extraction "model.ml" dispatch.
