(* Extract/E_C19.v — wire entry for C19 (glue, not trusted for theorems).
   A case is [opcode; args...]; the answer is [model result; specification value].

   1  [1; both; L; R; n; inv]                       left-map kernel (result = zeros(n))
   2  [2; L; R]                                     ordered_inner_map_result_size
   3  [3; kind 0|1|2; L; R; n]                      ordered_inner_map / _left_unique / _both_unique (buffers zeros(n))
   4  [4; L; R; cs; inv]                            generate_ordered_map_to_left_right_unique_streamed_old
   5  [5; data; map; cs; inv]                       ordered_map_valid_stream_old
   6  [6; ver; cs; L; R; srcs; form; sinks0; mapk; lu; ru]     Session.ordered_merge_left / _right
   7  [7; L; R; lsrcs; rsrcs; form; lsinks0; rsinks0; lu; ru]  Session.ordered_merge_inner
   8  [8; which 0|1|2; L; R; lpayloads; rpayloads]  merge_left / merge_right / merge_inner
   9  [9; T; F]                                     get_index
   10 [10; n; fk; vals]                             join
   12 [12; cs; L; R; tsrcs; form; snk_dts; sinks0; mapk; lu; ru; backing]   Session.ordered_merge_left with typed payloads
                                                    (tsrcs: [[dtype code; values]...]; dtype codes: 1 bool, n intn,
                                                    100+n uintn, 200+n floatn, 300+n Sn; backing 0 memory / 1 HDF5)
   13 [13; [case; ...]]                             a history: the cases one after the other on the same Session
   14 [14; [step; ...]]                             a history on named HDF5 columns (Model/SessionWorld.v):
                                                    step [0; frame; name; column]  write to the path (frame, name)
                                                    step [1; case; [[pos; frame; name]...]]  the case with its argument
                                                    positions pos filled from the columns at those paths
   lu / ru carry the TYPE FORM of the hint (Model/FlagForm.v flag_of_wire): 0/1 Python bool, 10+v numpy bool, 20+z Python
   int, 30+z numpy integer, 40+v 0-d boolean array.
   pandas.merge is instantiated with the relational join of Spec/JoinSpec.v (its assumed behaviour). *)
From Coq Require Import ZArith List Bool.
From EV Require Import Res Arr Val Join JoinSpec MapStream MapStreamSpec SessionMerge SessionMergeSpec SessionMergeTyped FlagForm SessionWorld.
Import ListNotations.
Open Scope Z_scope.

Definition vopt_cols (o:option (list (list Z))) : val := vopt vlist2 o.
Definition as_flag (z:Z) : bool := negb (z =? 0).

Definition form_of (z:Z) : option form :=
  match z with 0 => Some FArr | 1 => Some FArrSink | 2 => Some FFld | 3 => Some FFldSink | _ => None end.
Definition mapk_of (z:Z) : option mapk :=
  match z with 0 => Some MNone | 1 => Some MArr | 2 => Some MFld | _ => None end.
Definition ikind_of (z:Z) : option ikind :=
  match z with 0 => Some IGen | 1 => Some ILU | 2 => Some IBU | _ => None end.

Definition as_payload (v:val) : option payload :=
  match v with
  | VL [VZ 0; d] => match as_list d with Some d => Some (PNum d) | None => None end
  | VL [VZ 1; i; b] => match as_list i, as_list b with Some i, Some b => Some (PIdx i b) | _, _ => None end
  | _ => None
  end.
Definition as_payloads (v:val) : option (list payload) :=
  match v with VL l => all_some (map as_payload l) | _ => None end.
Definition vpayload (p:payload) : val :=
  match p with PNum d => VL [VZ 0; vlist d] | PIdx i b => VL [VZ 1; vlist i; vlist b] end.
Definition vpayloads (l:list payload) : val := VL (map vpayload l).

(* pandas, as assumed *)
Definition pd_left (L R:list Z) : list (Z * option Z) := left_rows L R.
Definition pd_inner (L R:list Z) : list (Z * Z) := inner_join L R.

(* specification of one mapped payload *)
Definition spec_payload_left (L R:list Z) (p:payload) : val :=
  match p with
  | PNum d => VL [VZ 0; vlist (left_payload 0 L R d)]
  | PIdx i b => VL [VZ 2; vlist2 (left_payload [] L R (decode i b))]
  end.
Definition spec_payload_inner (left_side:bool) (L R:list Z) (p:payload) : val :=
  match p with
  | PNum d => VL [VZ 0; vlist (if left_side then inner_payload_l 0 L R d else inner_payload_r 0 L R d)]
  | PIdx i b => VL [VZ 2; vlist2 (if left_side then inner_payload_l [] L R (decode i b)
                                  else inner_payload_r [] L R (decode i b))]
  end.

Definition vomi_ret (r:omi_ret) : val :=
  match r with
  | RNone => VL []
  | ROne l => VL [vlist2 l]
  | RPair l r => VL [vlist2 l; vlist2 r]
  end.

Definition dtype_of (z:Z) : option dtype :=
  if z =? 1 then Some DBool
  else if (1 <? z) && (z <=? 64) then Some (DInt z)
  else if (100 <? z) && (z <=? 164) then Some (DUInt (z - 100))
  else if (200 <? z) && (z <=? 264) then Some (DFloat (z - 200))
  else if (300 <? z) && (z <=? 364) then Some (DBytes (z - 300))
  else None.
Definition dtype_code (d:dtype) : Z :=
  match d with DBool => 1 | DInt n => n | DUInt n => 100 + n | DFloat n => 200 + n | DBytes n => 300 + n end.
Definition as_tcol (v:val) : option tcol :=
  match v with
  | VL [VZ c; d] => match dtype_of c, as_list d with Some dt, Some d => Some (dt, d) | _, _ => None end
  | _ => None
  end.
Definition as_tcols (v:val) : option (list tcol) :=
  match v with VL l => all_some (map as_tcol l) | _ => None end.
Definition as_dtypes (v:val) : option (list dtype) :=
  match as_list v with Some l => all_some (map dtype_of l) | None => None end.
Definition vtcol (c:tcol) : val := VL [VZ (dtype_code (fst c)); vlist (snd c)].
Definition vopt_tcols (o:option (list tcol)) : val := vopt (fun l => VL (map vtcol l)) o.

Definition entry_C19_one (v:val) : val :=
  match v with
  | VL [VZ 1; VZ both; l; r; VZ n; VZ inv] =>
    match as_list l, as_list r with
    | Some L, Some R =>
      VL [ of_res (fun p => VL [vlist (fst p); vbool (snd p)])
                  (gen_left_map (as_flag both) L R (repeat 0 (Z.to_nat n)) inv);
           vlist (map snd (left_join inv L R)) ]
    | _, _ => vbad
    end
  | VL [VZ 2; l; r] =>
    match as_list l, as_list r with
    | Some L, Some R => VL [ of_res VZ (ordered_inner_map_result_size L R); VZ (len (inner_join L R)) ]
    | _, _ => vbad
    end
  | VL [VZ 3; VZ k; l; r; VZ n] =>
    match ikind_of k, as_list l, as_list r with
    | Some k, Some L, Some R =>
      let z := repeat 0 (Z.to_nat n) in
      VL [ of_res (fun p => VL [vlist (fst p); vlist (snd p)]) (ordered_inner_map_k k L R z z);
           VL [vlist (map fst (inner_join L R)); vlist (map snd (inner_join L R))] ]
    | _, _, _ => vbad
    end
  | VL [VZ 4; l; r; VZ cs; VZ inv] =>
    match as_list l, as_list r with
    | Some L, Some R =>
      VL [ of_res (fun p => VL [vlist (fst p); vbool (snd p)]) (streamed_old L R inv cs);
           vlist (map snd (left_join inv L R)) ]
    | _, _ => vbad
    end
  | VL [VZ 5; d; m; VZ cs; VZ inv] =>
    match as_list d, as_list m with
    | Some D, Some M => VL [ of_res vlist (map_stream_old D M inv cs); vlist (map_spec 0 D inv M) ]
    | _, _ => vbad
    end
  | VL [VZ 6; VZ ver; VZ cs; l; r; srcs; VZ fm; sinks0; VZ mk; VZ lu; VZ ru] =>
    match as_list l, as_list r, as_list2 srcs, form_of fm, as_list2 sinks0, mapk_of mk with
    | Some L, Some R, Some srcs, Some fm, Some sinks0, Some mk =>
      VL [ of_res (fun o => VL [vopt_cols (oml_ret o); vopt_cols (oml_sinks o); vopt vlist (oml_map o)])
                  (ordered_merge_left_pf (if ver =? 0 then Orig else Fixed) cs L R srcs fm sinks0 mk
                                         (flag_of_wire lu) (flag_of_wire ru));
           vlist2 (map (left_payload 0 L R) srcs) ]
    | _, _, _, _, _, _ => vbad
    end
  | VL [VZ 7; l; r; lsrcs; rsrcs; VZ fm; lsinks0; rsinks0; VZ lu; VZ ru] =>
    match as_list l, as_list r, as_list2 lsrcs, as_list2 rsrcs, form_of fm, as_list2 lsinks0, as_list2 rsinks0 with
    | Some L, Some R, Some lsrcs, Some rsrcs, Some fm, Some ls0, Some rs0 =>
      VL [ of_res (fun o => match o with (ret, ls, rs) => VL [vomi_ret ret; vopt_cols ls; vopt_cols rs] end)
                  (ordered_merge_inner_pf L R lsrcs rsrcs fm ls0 rs0 (flag_of_wire lu) (flag_of_wire ru));
           VL [vlist2 (map (inner_payload_l 0 L R) lsrcs); vlist2 (map (inner_payload_r 0 L R) rsrcs)] ]
    | _, _, _, _, _, _, _ => vbad
    end
  | VL [VZ 8; VZ which; l; r; lp; rp] =>
    match as_list l, as_list r, as_payloads lp, as_payloads rp with
    | Some L, Some R, Some lp, Some rp =>
      match which with
      | 0 => VL [ of_res vpayloads (merge_left pd_left L R rp); VL (map (spec_payload_left L R) rp) ]
      | 1 => VL [ of_res vpayloads (merge_right pd_left L R lp); VL (map (spec_payload_left R L) lp) ]
      | _ => VL [ of_res (fun p => VL [vpayloads (fst p); vpayloads (snd p)]) (merge_inner pd_inner L R lp rp);
                  VL [VL (map (spec_payload_inner true L R) lp); VL (map (spec_payload_inner false L R) rp)] ]
      end
    | _, _, _, _ => vbad
    end
  | VL [VZ 9; t; f] =>
    match as_list t, as_list f with
    | Some T, Some F =>
      VL [ vlist (get_index T F);
           vlist (map (fun k => match last_index k T with Some i => i | None => -1 end) F) ]
    | _, _ => vbad
    end
  | VL [VZ 10; VZ n; fk; vals] =>
    match as_list fk, as_list vals with
    | Some fk, Some vals =>
      VL [ of_res vlist (session_join n fk vals); vlist (join_rows INVALID_INDEX n fk vals) ]
    | _, _ => vbad
    end
  | VL [VZ 12; VZ cs; l; r; tsrcs; VZ fm; dts; sinks0; VZ mk; VZ lu; VZ ru; VZ bk] =>
    match as_list l, as_list r, as_tcols tsrcs, form_of fm, as_dtypes dts, as_list2 sinks0, mapk_of mk with
    | Some L, Some R, Some srcs, Some fm, Some dts, Some sinks0, Some mk =>
      VL [ of_res (fun o => VL [vopt_tcols (toml_ret o); vopt_tcols (toml_sinks o); vopt vlist (toml_map o)])
                  (ordered_merge_left_t_pf cs L R srcs fm dts sinks0 mk (flag_of_wire lu) (flag_of_wire ru)
                                           (if bk =? 0 then BMem else BH5));
           vlist2 (map (left_payload 0 L R) (map snd srcs)) ]
    | _, _, _, _, _, _, _ => vbad
    end
  | _ => vbad
  end.

(* a handle fills one argument position of the wire case with the column it points to *)
Fixpoint set_nth_val (l:list val) (i:nat) (x:val) : list val :=
  match l, i with
  | [], _ => []
  | _ :: t, O => x :: t
  | h :: t, S j => h :: set_nth_val t j x
  end.
Definition fill_val (c:val) (i:nat) (col:list Z) : val :=
  match c with VL l => VL (set_nth_val l i (vlist col)) | _ => c end.
Definition as_ref (v:val) : option (nat * path) :=
  match v with VL [VZ i; VZ f; VZ n] => Some (Z.to_nat i, (f, n)) | _ => None end.
Definition as_step (v:val) : option (step val) :=
  match v with
  | VL [VZ 0; VZ f; VZ n; col] => match as_list col with Some c => Some (SWrite (f, n) c) | None => None end
  | VL [VZ 1; c; VL refs] => match all_some (map as_ref refs) with Some r => Some (SCall c r) | None => None end
  | _ => None
  end.

Definition entry_C19 (v:val) : val :=
  match v with
  | VL [VZ 13; VL cases] => VL (history entry_C19_one cases)
  | VL [VZ 14; VL steps] =>
    match all_some (map as_step steps) with
    | Some st => VL (map (fun o => match o with Some r => r | None => vbad end)
                         (world_history val val fill_val entry_C19_one [] st))
    | None => vbad
    end
  | _ => entry_C19_one v
  end.
