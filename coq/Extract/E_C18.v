(* Extract/E_C18.v — wire entry for C18 (glue, not trusted for theorems).
   case:
     [1, variant, frame, rf, cf, chunk, ascii]   to_csv      -> [model, spec]
          (ascii = 1: the interpreter's locale encoding is ASCII; only the unrepaired code cares, F-C18h)
          model = [file bytes, csv_parse file, predicted re-import]  (or an error)
          spec  = [spec_table, spec_columns]
     [2, variant, frame, rfp, cf]         to_pandas   -> [model, spec]
     [3, bytes]                           csv_parse   -> records
     [4, copies, store, calls]            a history of to_csv calls on one dataframe object and one
          destination (Model/ToCsvHist.v) -> [model, spec], one entry per call:
          model entry = [[file bytes, csv_parse file] or error, destination afterwards ([] none | [bytes])]
          spec entry  = [[spec_table] or error]
          store = [[names] ...]  (the caller's column_filter list objects);
          call  = [frame at call time, rf, cfarg, chunk];  cfarg = [] | [[0, name]] | [[2, k]]
          copies = 1: to_csv copies the caller's list before list.remove (repaired code), 0: it does not
   frame  = [[name, kind, cells] ...]   kind 0 str (cells = byte lists), 1 int (cells = [hi, lo],
            value hi*2^32+lo), 2 float literal (byte lists), 3 int of dtype int64 (as 1), 4 bool literal
   rf     = [] | [[0, flags]] | [[1, name, flags, own]]
   rfp    = [] | [flags]
   cf     = [] | [[0, name]] | [[1, names]]
   variant 0 = repaired code, 1 = code before the repairs.
   Frames with more than 4096 rows: to_csv (repaired code) is evaluated through to_csv_closed
   (theorem to_csv_closed_form).
   csv_parse is evaluated through csv_parse_f (Spec/ToCsvFast.v, linear; csv_parse_f = csv_parse is
   theorem csv_parse_fast_eq of Props/C18.v). *)
From Coq Require Import ZArith List Bool.
From EV Require Import Res Arr Val ToCsv ToCsvSpec ToCsvFast ToCsvHist ToCsvHistSpec.
Import ListNotations.
Open Scope Z_scope.

Definition vlist3 (l:list (list (list Z))) : val := VL (map vlist2 l).

Definition as_bools (v:val) : option (list bool) :=
  match as_list v with Some zs => Some (map (fun z => negb (z =? 0)) zs) | None => None end.

Definition as_int_cell (v:val) : option cell :=
  match v with
  | VL [VZ hi; VZ lo] => Some (CInt (hi * 4294967296 + lo))
  | _ => None
  end.

Definition as_field (v:val) : option (field * Z) :=
  match v with
  | VL [nm; VZ kind; VL cells] =>
    match as_list nm with
    | None => None
    | Some nm =>
      let cs :=
        if (kind =? 1) || (kind =? 3) then all_some (map as_int_cell cells)
        else if kind =? 0 then all_some (map (fun c => match as_list c with Some s => Some (CStr s) | None => None end) cells)
        else all_some (map (fun c => match as_list c with Some s => Some (CLit s) | None => None end) cells) in
      match cs with Some cs => Some ((nm, cs), kind) | None => None end
    end
  | _ => None
  end.

Definition as_frame (v:val) : option (list (field * Z)) :=
  match v with VL l => all_some (map as_field l) | _ => None end.

Definition as_rf (v:val) : option rowfilter :=
  match v with
  | VL [] => Some RF_none
  | VL [VL [VZ 0; fl]] => match as_bools fl with Some b => Some (RF_arr b) | None => None end
  | VL [VL [VZ 1; nm; fl; VZ own]] =>
    match as_list nm, as_bools fl with Some n, Some b => Some (RF_field (negb (own =? 0)) n b) | _, _ => None end
  | _ => None
  end.

Definition as_rfp (v:val) : option (option (list bool)) :=
  match v with
  | VL [] => Some None
  | VL [fl] => match as_bools fl with Some b => Some (Some b) | None => None end
  | _ => None
  end.

Definition as_cf (v:val) : option colfilter :=
  match v with
  | VL [] => Some CF_none
  | VL [VL [VZ 0; nm]] => match as_list nm with Some n => Some (CF_str n) | None => None end
  | VL [VL [VZ 1; nms]] => match as_list2 nms with Some l => Some (CF_list l) | None => None end
  | _ => None
  end.

Definition as_variant (z:Z) : variant := if z =? 0 then V_fix else V_orig.

Definition vcols (l:list (bytes * list bytes)) : val :=
  VL (map (fun p => VL [vlist (fst p); vlist2 (snd p)]) l).

(* what the ExeTera importer makes of the exported file.
   repaired code: exactly the reference re-import of the file (the theorem's claim);
   unrepaired code (for replaying the findings against an unrepaired tree): the reader skips
   blanks at the start of an unquoted cell, and Numeric('int64') is rejected. *)
Fixpoint lstrip (s:bytes) : bytes :=
  match s with c :: t => if c =? BLANK then lstrip t else s | [] => [] end.

(* the reader drops an unquoted CR that immediately precedes the LF of the line end (CRLF, C05) *)
Fixpoint strip_cr_end (s:bytes) : bytes :=
  match s with
  | [] => []
  | c :: t => match t with [] => if c =? CR then [] else [c] | _ => c :: strip_cr_end t end
  end.

Definition orig_text (last:bool) (s:bytes) : bytes :=
  if any (writer_special [LF]) s then s else lstrip (if last then strip_cr_end s else s).

Fixpoint orig_cols (l:list (bytes * list bytes)) : list (bytes * list bytes) :=
  match l with
  | [] => []
  | p :: t => (fst p, map (orig_text (match t with [] => true | _ => false end)) (snd p)) :: orig_cols t
  end.

Definition kind_of (fk:list (field * Z)) (n:name) : Z :=
  match find (fun p => beq_bytes (fst (fst p)) n) fk with Some p => snd p | None => 0 end.

Definition reimport_pred (v:variant) (fk:list (field * Z)) (fr:frame) (rf:rowfilter) (cf:colfilter) (file:bytes) : val :=
  match v with
  | V_fix => vcols (table_columns (csv_parse_f file))
  | V_orig =>
    (* the unrepaired code removes a filter field from the columns by name (F-C18g) *)
    let rf := match rf with RF_field _ n b => RF_field true n b | _ => rf end in
    if existsb (fun n => kind_of fk n =? 3) (spec_names fr rf cf) then VErr K_RAISE E_ValueError
    else if match spec_rows fr rf cf with [] => true | _ => false end
            && existsb (fun n => let k := kind_of fk n in (k =? 1) || (k =? 2)) (spec_names fr rf cf)
         then VErr K_RAISE E_ValueError      (* transform_int / transform_float on zero rows *)
    else vcols (orig_cols (spec_columns fr rf cf))
  end.

Definition as_cfarg (v:val) : option cfarg :=
  match v with
  | VL [] => Some CA_none
  | VL [VL [VZ 0; nm]] => match as_list nm with Some n => Some (CA_str n) | None => None end
  | VL [VL [VZ 2; VZ k]] => Some (CA_ref (Z.to_nat k))
  | _ => None
  end.

Definition as_call (v:val) : option call :=
  match v with
  | VL [fr; rf; cf; VZ chunk] =>
    match as_frame fr, as_rf rf, as_cfarg cf with
    | Some fk, Some rf, Some cf => Some (mkcall (map fst fk) rf cf chunk)
    | _, _, _ => None
    end
  | _ => None
  end.

Definition as_store (v:val) : option store :=
  match v with VL l => all_some (map as_list2 l) | _ => None end.

Definition v_obs (o:obs) : val :=
  VL [of_res (fun file => VL [vlist file; vlist3 (csv_parse_f file)]) (fst o); vopt vlist (snd o)].

Definition v_call_spec (st:store) (c:call) : val :=
  let cf := resolve st (c_cf c) in
  VL [if (0 <? c_chunk c) && cf_valid (c_fr c) cf then VL [vlist3 (spec_table (c_fr c) (c_rf c) cf)]
      else VErr K_RAISE E_ValueError].

(* frames with more than BIG_ROWS rows: the repaired code is evaluated through its closed form
   (Props/C18.v to_csv_closed_form: equal to the statement-level model for every argument) *)
Definition BIG_ROWS : Z := 4096.
Definition rows_of (fr:frame) : Z := fold_right (fun f m => Z.max (len (snd f)) m) 0 fr.

Definition run_to_csv (vr:variant) (fr:frame) (rf:rowfilter) (cf:colfilter) (chunk:Z) : res bytes :=
  match vr with
  | V_fix => if BIG_ROWS <? rows_of fr then to_csv_closed fr rf cf chunk
             else to_csv (to_csv_fuel fr chunk) vr fr rf cf chunk
  | V_orig => to_csv (to_csv_fuel fr chunk) vr fr rf cf chunk
  end.

Definition entry_C18 (v:val) : val :=
  match v with
  | VL [VZ 1; VZ var; fr; rf; cf; VZ chunk; VZ ascii] =>
    match as_frame fr, as_rf rf, as_cf cf with
    | Some fk, Some rf, Some cf =>
      let fr := map fst fk in
      let vr := as_variant var in
      let model :=
        of_res (fun file =>
                  match vr with
                  | V_orig =>
                    (* open(filepath, 'w') encodes with the locale encoding: non-ASCII text cannot be written *)
                    if negb (ascii =? 0) && existsb (fun b => 128 <=? b) file then VErr K_RAISE E_ValueError
                    else VL [vlist file; vlist3 (csv_parse_f file); reimport_pred vr fk fr rf cf file]
                  | V_fix => VL [vlist file; vlist3 (csv_parse_f file); reimport_pred vr fk fr rf cf file]
                  end)
               (run_to_csv vr fr rf cf chunk) in
      let spec :=
        if (0 <? chunk) && cf_valid fr cf
        then VL [vlist3 (spec_table fr rf cf); vcols (spec_columns fr rf cf)]
        else VErr K_RAISE E_ValueError in
      VL [model; spec]
    | _, _, _ => vbad
    end
  | VL [VZ 2; VZ var; fr; rfp; cf] =>
    match as_frame fr, as_rfp rfp, as_cf cf with
    | Some fk, Some rfp, Some cf =>
      let fr := map fst fk in
      let enc := fun l : list (name * list cell) => vcols (map (fun p => (fst p, map cell_text (snd p))) l) in
      VL [of_res enc (to_pandas (as_variant var) fr rfp cf);
          if pandas_valid fr rfp cf then enc (spec_pandas fr rfp cf) else VL [VZ (-998)]]
    | _, _, _ => vbad
    end
  | VL [VZ 4; VZ copies; st; VL calls] =>
    match as_store st, all_some (map as_call calls) with
    | Some st, Some calls =>
      VL [VL (map v_obs (run_hist (negb (copies =? 0)) st None calls)); VL (map (v_call_spec st) calls)]
    | _, _ => vbad
    end
  | VL [VZ 3; s] =>
    match as_list s with
    | Some s => vlist3 (csv_parse_f s)
    | None => vbad
    end
  | _ => vbad
  end.
