(* Proofs/CatalogueData.v — no operation, of either code variant, whatever its outcome, changes the type or the
   stored data of a field object that existed before it: "untouched fields keep their data" (and so do touched ones). *)
From Coq Require Import ZArith List Bool Lia.
From EV Require Import Res Catalogue CatalogueBase.
Import ListNotations.
Open Scope Z_scope.

Definition keepsdata (b:Z) (s s':state) : Prop :=
  b <= next_id s' /\ forall f, f < b -> fld_type s' f = fld_type s f /\ fld_data s' f = fld_data s f.

Lemma keepsdata_refl b s : b <= next_id s -> keepsdata b s s.
Proof. intros H. split; [exact H | auto]. Qed.

Lemma keepsdata_trans b s1 s2 s3 : keepsdata b s1 s2 -> keepsdata b s2 s3 -> keepsdata b s1 s3.
Proof.
  intros [A1 A2] [B1 B2]. split; [exact B1|]. intros f Hf. destruct (A2 f Hf) as [a1 a2]. destruct (B2 f Hf) as [b1 b2].
  split; congruence.
Qed.

Definition mst {A} (b:Z) (m:M A) (Q:A -> Prop) : Prop :=
  forall s s' r, b <= next_id s -> m s = (s', r) -> keepsdata b s s' /\ (forall a, r = Ok a -> Q a).
Definition mst0 {A} (b:Z) (m:M A) : Prop := mst b m (fun _ => True).

Lemma mst_weaken {A} b (m:M A) (Q Q':A -> Prop) : mst b m Q -> (forall a, Q a -> Q' a) -> mst b m Q'.
Proof. intros H HQ s s' r Hb E. destruct (H s s' r Hb E) as [K R]. split; [exact K | intros a Ha; apply HQ; apply R; exact Ha]. Qed.

Lemma mst_to0 {A} b (m:M A) Q : mst b m Q -> mst0 b m.
Proof. intros H. eapply mst_weaken; [exact H | auto]. Qed.

Lemma mst_bind {A B} b (m:M A) (f:A -> M B) Q R :
  mst b m Q -> (forall a, Q a -> mst b (f a) R) -> mst b (bindM m f) R.
Proof.
  intros H1 H2 s s' r Hb E. unfold bindM in E. destruct (m s) as [s1 r1] eqn:Em.
  destruct (H1 s s1 r1 Hb Em) as [K1 Q1]. destruct r1 as [a|x|e|].
  - destruct (H2 a (Q1 a eq_refl) s1 s' r (proj1 K1) E) as [K2 R2]. split; [eapply keepsdata_trans; eassumption | exact R2].
  - inversion E; subst. split; [exact K1 | intros ? X; discriminate X].
  - inversion E; subst. split; [exact K1 | intros ? X; discriminate X].
  - inversion E; subst. split; [exact K1 | intros ? X; discriminate X].
Qed.

Lemma mst_bind0 {A B} b (m:M A) (f:A -> M B) : mst0 b m -> (forall a, mst0 b (f a)) -> mst0 b (bindM m f).
Proof. intros H1 H2. eapply mst_bind; [exact H1 | intros a _; apply H2]. Qed.

(* computations that leave next_id and the field payloads alone *)
Lemma mst_nodata {A} b (m:M A) :
  (forall s s' r, m s = (s', r) -> next_id s' = next_id s /\ (forall f, fld_type s' f = fld_type s f) /\ (forall f, fld_data s' f = fld_data s f)) ->
  mst0 b m.
Proof.
  intros H s s' r Hb E. destruct (H s s' r E) as (N & T & D). split; [|auto].
  split; [lia | intros f _; split; [apply T | apply D]].
Qed.

Ltac nodata := apply mst_nodata; intros s s' r E.
Ltac same E := inversion E; subst; repeat split; reflexivity.

Lemma mst_ret {A} b (a:A) : mst0 b (ret a).
Proof. nodata. same E. Qed.
Lemma mst_raise {A} b c : mst0 b (@raise A c).
Proof. nodata. same E. Qed.
Lemma mst_mget b : mst0 b mget.
Proof. nodata. same E. Qed.
Lemma mst_liftR {A} b (x:res A) : mst0 b (liftR x).
Proof. nodata. same E. Qed.
Lemma mst_ds_getitem b i n : mst0 b (ds_getitem i n).
Proof. nodata. unfold ds_getitem in E. destruct (d_find (py_dfs s i) n); same E. Qed.
Lemma mst_df_getitem b g n : mst0 b (df_getitem g n).
Proof. nodata. unfold df_getitem in E. destruct (d_find (py_cols s g) n); same E. Qed.
Lemma mst_ensure_valid b f : mst0 b (field_ensure_valid f).
Proof. nodata. unfold field_ensure_valid in E. destruct (py_valid s f); same E. Qed.
Lemma mst_field_name b f : mst0 b (field_name f).
Proof.
  unfold field_name. apply mst_bind0; [apply mst_ensure_valid|]. intros _. nodata.
  destruct (h5_fld_path s f) as [[[? ?] ?]|]; same E.
Qed.
Lemma mst_field_dataframe b f : mst0 b (field_dataframe f).
Proof. unfold field_dataframe. apply mst_bind0; [apply mst_ensure_valid|]. intros _. nodata. same E. Qed.
Lemma mst_h5_move b tr src dst : mst0 b (h5_move tr src dst).
Proof.
  nodata. unfold h5_move in E. destruct (name_eqb src dst); [same E|].
  destruct (d_find (tget s tr) src); [|same E]. destruct (d_mem (tget s tr) dst); [same E|].
  destruct tr; same E.
Qed.
Lemma mst_h5_del b tr n : mst0 b (h5_del tr n).
Proof. nodata. unfold h5_del in E. destruct (d_mem (tget s tr) n); [destruct tr|]; same E. Qed.
Lemma mst_h5_move_path b i g dst : mst0 b (h5_move_path i g dst).
Proof.
  nodata. unfold h5_move_path in E. destruct (d_rfind (h5_root s i) g); [|same E].
  destruct (d_mem (h5_root s i) dst); same E.
Qed.
Lemma mst_cols_set b g n f : mst0 b (cols_set g n f).
Proof. nodata. same E. Qed.
Lemma mst_cols_del b g n : mst0 b (cols_del g n).
Proof. nodata. same E. Qed.
Lemma mst_dfs_set b i n g : mst0 b (dfs_set i n g).
Proof. nodata. same E. Qed.
Lemma mst_dfs_del b i n : mst0 b (dfs_del i n).
Proof. nodata. same E. Qed.

Lemma mst_h5_create b tr n : mst b (h5_create tr n) (fun id => b <= id).
Proof.
  intros s s' x Hb E. unfold h5_create in E. destruct (d_mem (tget s tr) n).
  - inversion E; subst. split; [apply keepsdata_refl; exact Hb | intros ? X; discriminate X].
  - inversion E; subst. split.
    + split; [destruct tr; cbn; lia | intros f _; destruct tr; split; reflexivity].
    + intros a X. inversion X; subst. exact Hb.
Qed.

Lemma mst_field_write b f dat : b <= f -> mst0 b (field_write f dat).
Proof.
  intros Hf s s' r Hb E. inversion E; subst. split; [|auto]. split; [exact Hb|].
  intros x Hx. cbn. rewrite fupd_other by lia. split; reflexivity.
Qed.

Lemma mst_raiseQ {A} b c (Q:A -> Prop) : mst b (raise c) Q.
Proof. intros s s' r Hb E. inversion E; subst. split; [apply keepsdata_refl; exact Hb | intros ? X; discriminate X]. Qed.

Lemma mst_modify_nodata b (f:state -> state) :
  (forall s, next_id (f s) = next_id s /\ (forall x, fld_type (f s) x = fld_type s x) /\ (forall x, fld_data (f s) x = fld_data s x)) ->
  mst0 b (modify f).
Proof. intros H. nodata. inversion E; subst. apply H. Qed.

Lemma mst_df_create_field b c g n t : mst b (df_create_field c g n t) (fun f => b <= f).
Proof.
  unfold df_create_field. eapply mst_bind; [apply mst_mget|]. intros s0 _.
  destruct (d_mem (py_cols s0 g) n); [apply mst_raiseQ|].
  eapply mst_bind; [apply mst_h5_create|]. intros f Hf. cbn beta in Hf.
  eapply mst_bind with (Q := fun _ => True).
  { intros s s' r Hb E. inversion E; subst. split; [|auto]. split; [exact Hb|].
    intros x Hx. cbn. rewrite !fupd_other by lia. split; reflexivity. }
  intros _ _. eapply mst_bind; [apply mst_modify_nodata; intros; repeat split; reflexivity|]. intros _ _.
  eapply mst_bind; [apply mst_modify_nodata; intros; repeat split; reflexivity|]. intros _ _.
  intros s s' r Hb E. inversion E; subst. split; [apply keepsdata_refl; exact Hb|]. intros a X. inversion X; subst. exact Hf.
Qed.

Lemma mst_df_create_invalid b g n t : mst b (df_create_invalid g n t) (fun f => b <= f).
Proof.
  unfold df_create_invalid. eapply mst_bind; [apply mst_mget|]. intros s0 _.
  destruct (d_mem (py_cols s0 g) n); apply mst_raiseQ.
Qed.

Lemma mst_copy_field_into b c f g n : mst0 b (copy_field_into c f g n).
Proof.
  unfold copy_field_into. apply mst_bind0; [apply mst_ensure_valid|]. intros _.
  apply mst_bind0; [apply mst_mget|]. intros s0.
  eapply mst_bind; [apply mst_df_create_field|]. intros nf Hnf.
  apply mst_bind0; [apply mst_ensure_valid|]. intros _.
  apply mst_bind0; [apply mst_mget|]. intros s1.
  apply mst_bind0; [apply mst_field_write; exact Hnf|]. intros _. apply mst_ret.
Qed.

Lemma mst_df_add b c g f : mst0 b (df_add c g f).
Proof.
  unfold df_add. apply mst_bind0; [apply mst_field_name|]. intros dn.
  apply mst_bind0; [apply mst_copy_field_into|]. intros nf. apply mst_cols_set.
Qed.
Lemma mst_df_setitem b c g n f : mst0 b (df_setitem c g n f).
Proof. unfold df_setitem. apply mst_bind0; [apply mst_copy_field_into|]. intros nf. apply mst_cols_set. Qed.
Lemma mst_df_delitem b g n : mst0 b (df_delitem g n).
Proof.
  unfold df_delitem. apply mst_bind0; [apply mst_mget|]. intros s0.
  destruct (negb (d_mem (py_cols s0 g) n)); [apply mst_raise|].
  apply mst_bind0; [apply mst_h5_del|]. intros _. apply mst_cols_del.
Qed.
Lemma mst_df_drop b g n : mst0 b (df_drop g n).
Proof.
  unfold df_drop. apply mst_bind0; [apply mst_mget|]. intros s0.
  destruct (negb (d_mem (py_cols s0 g) n)); [apply mst_raise|].
  apply mst_bind0; [apply mst_cols_del|]. intros _. apply mst_h5_del.
Qed.
Lemma mst_df_delete_field b g f : mst0 b (df_delete_field g f).
Proof.
  unfold df_delete_field. apply mst_bind0; [apply mst_field_dataframe|]. intros fd.
  destruct (negb (fd =? g)); [apply mst_raise|].
  apply mst_bind0; [apply mst_field_name|]. intros nm. apply mst_df_delitem.
Qed.

Lemma mst_pass1 b fa g m : forall cols used fr inter, mst0 b (rename_pass1 fa g m cols used fr inter).
Proof.
  induction cols as [|[k f] rest IH]; intros used fr inter; cbn [rename_pass1]; [apply mst_ret|].
  destruct (d_find m k).
  - apply mst_bind0; [apply mst_liftR|]. intros u. apply mst_bind0; [apply mst_h5_move|]. intros _. apply IH.
  - apply IH.
Qed.
Lemma mst_pass2 b g fr : forall inter final, mst0 b (rename_pass2 g fr inter final).
Proof.
  induction inter as [|[k f] rest IH]; intros final; cbn [rename_pass2]; [apply mst_ret|].
  destruct (d_find fr k).
  - apply mst_bind0; [apply mst_h5_move|]. intros _. apply IH.
  - apply IH.
Qed.
Lemma mst_df_rename b c g m : mst0 b (df_rename c g m).
Proof.
  unfold df_rename. apply mst_bind0; [apply mst_mget|]. intros s0. cbv zeta.
  apply mst_bind0; [apply mst_liftR|]. intros keys.
  destruct (negb (length (clash_list keys (map snd m) []) =? 0)%nat); [apply mst_raise|].
  apply mst_bind0; [apply mst_pass1|]. intros p. apply mst_bind0; [apply mst_pass2|]. intros final.
  apply mst_modify_nodata. intros; repeat split; reflexivity.
Qed.
Lemma mst_edf_copy b c f g n : mst0 b (edf_copy c f g n).
Proof. unfold edf_copy. apply mst_bind0; [apply mst_copy_field_into|]. intros _. apply mst_df_getitem. Qed.
Lemma mst_edf_move b c f g n : mst0 b (edf_move c f g n).
Proof.
  unfold edf_move. apply mst_bind0; [apply mst_field_dataframe|]. intros fd. destruct (fd =? g).
  - apply mst_bind0; [apply mst_field_name|]. intros cur. apply mst_bind0; [apply mst_df_rename|]. intros _. apply mst_ret.
  - apply mst_bind0; [apply mst_edf_copy|]. intros _. apply mst_bind0; [apply mst_field_dataframe|]. intros sg.
    destruct (sg =? NONE); [apply mst_raise|].
    apply mst_bind0; [apply mst_field_name|]. intros cur. apply mst_bind0; [apply mst_df_drop|]. intros _.
    apply mst_bind0; [apply mst_modify_nodata; intros; repeat split; reflexivity|]. intros _. apply mst_df_getitem.
Qed.
Lemma mst_copy_all b c g : forall items, mst0 b (copy_all c items g).
Proof.
  induction items as [|[k v] t IH]; cbn [copy_all]; [apply mst_ret|].
  apply mst_bind0; [apply mst_copy_field_into|]. intros _. apply IH.
Qed.
Lemma mst_ds_create_dataframe b c i n src : mst0 b (ds_create_dataframe c i n src).
Proof.
  unfold ds_create_dataframe. apply mst_bind0; [eapply mst_to0; apply mst_h5_create|]. intros g.
  apply mst_bind0; [apply mst_modify_nodata; intros; repeat split; reflexivity|]. intros _.
  apply mst_bind0.
  - destruct src; [apply mst_bind0; [apply mst_mget|]; intros s1; apply mst_copy_all | apply mst_ret].
  - intros _. apply mst_bind0; [apply mst_dfs_set|]. intros _. apply mst_ret.
Qed.
Lemma mst_ds_require b c i n : mst0 b (ds_require_dataframe c i n).
Proof.
  unfold ds_require_dataframe. apply mst_bind0; [apply mst_mget|]. intros s0.
  destruct (d_find (py_dfs s0 i) n); [apply mst_ret | apply mst_ds_create_dataframe].
Qed.
Lemma mst_eds_copy b c sg j n : mst0 b (eds_copy c sg j n).
Proof.
  unfold eds_copy. apply mst_bind0; [apply mst_mget|]. intros s0.
  destruct (d_mem (py_dfs s0 j) n); [apply mst_raise|].
  apply mst_bind0; [apply mst_ds_create_dataframe|]. intros g. apply mst_bind0; [apply mst_mget|]. intros s1.
  apply mst_bind0; [apply mst_copy_all|]. intros _. apply mst_dfs_set.
Qed.
Lemma mst_ds_drop b i n : mst0 b (ds_drop i n).
Proof.
  unfold ds_drop. apply mst_bind0; [apply mst_mget|]. intros s0.
  destruct (negb (d_mem (py_dfs s0 i) n)); [apply mst_raise|].
  apply mst_bind0; [apply mst_dfs_del|]. intros _. apply mst_h5_del.
Qed.
Lemma mst_ds_delitem b i n : mst0 b (ds_delitem i n).
Proof.
  unfold ds_delitem. apply mst_bind0; [apply mst_mget|]. intros s0.
  destruct (negb (d_mem (py_dfs s0 i) n)); [apply mst_raise|].
  apply mst_bind0; [apply mst_dfs_del|]. intros _. apply mst_h5_del.
Qed.
Lemma mst_eds_move b c sg j n : mst0 b (eds_move c sg j n).
Proof.
  unfold eds_move. apply mst_bind0; [apply mst_eds_copy|]. intros _. apply mst_bind0; [apply mst_mget|]. intros s1. apply mst_ds_drop.
Qed.
Lemma mst_ds_setitem b c j n sg : mst0 b (ds_setitem c j n sg).
Proof.
  unfold ds_setitem. apply mst_bind0; [apply mst_mget|]. intros s0.
  destruct (py_ds s0 sg =? j); [|apply mst_eds_copy].
  assert (X : mst0 b (if d_mem (py_dfs s0 j) (py_name s0 sg) then dfs_del j (py_name s0 sg) else raise E_KeyError)).
  { destruct (d_mem (py_dfs s0 j) (py_name s0 sg)); [apply mst_dfs_del | apply mst_raise]. }
  destruct (fix_b c).
  - destruct (d_mem (py_dfs s0 j) n); [apply mst_raise|].
    apply mst_bind0; [apply mst_h5_move_path|]. intros _. apply mst_bind0; [exact X|]. intros _.
    apply mst_bind0; [apply mst_modify_nodata; intros; repeat split; reflexivity|]. intros _. apply mst_dfs_set.
  - apply mst_bind0; [exact X|]. intros _.
    apply mst_bind0; [apply mst_modify_nodata; intros; repeat split; reflexivity|]. intros _.
    apply mst_bind0; [apply mst_dfs_set|]. intros _. apply mst_h5_move_path.
Qed.

Lemma mst_step b c p : mst0 b (step c p).
Proof.
  destruct p; cbn [step];
    repeat first [ apply mst_ret | apply mst_df_setitem | apply mst_df_add | apply mst_df_delitem | apply mst_df_drop
                 | apply mst_df_delete_field | apply mst_df_rename | apply mst_eds_copy | apply mst_eds_move
                 | apply mst_ds_setitem | apply mst_ds_delitem | apply mst_ds_drop
                 | (apply mst_bind0; [first [apply mst_ds_getitem | apply mst_df_getitem | apply mst_edf_copy | apply mst_edf_move
                                             | apply mst_ds_create_dataframe | apply mst_ds_require ] | intros ?]) ].
  - (* OCreate *) eapply mst_bind; [destruct (5 <=? t); [apply mst_df_create_invalid | apply mst_df_create_field]|]. intros f Hf. apply mst_field_write. exact Hf.
  - (* ODSDeleteDF *) unfold ds_delete_dataframe. apply mst_bind0; [apply mst_mget|]. intros s0. apply mst_ds_delitem.
Qed.

(* every field object that exists before a step has the same type and data after it *)
Theorem step_keeps_data c p s s' r f :
  step c p s = (s', r) -> f < next_id s ->
  fld_type s' f = fld_type s f /\ fld_data s' f = fld_data s f /\ next_id s <= next_id s'.
Proof.
  intros E Hf. destruct (mst_step (next_id s) c p s s' r (Z.le_refl _) E) as [[K1 K2] _].
  destruct (K2 f Hf) as [A B]. auto.
Qed.
