(* Proofs/JournalMain.v — journal_core / journal_table = the specification. *)
From Coq Require Import ZArith List Lia Bool Sorted Permutation.
From EV Require Import Res Arr Journal JournalSpec JournalBase JournalWalk JournalMerge JournalSort.
Import ListNotations.
Open Scope Z_scope.

Definition wf_field (f:col * col) : Prop :=
  match f with (NumCol _, NumCol _) => True | (StrCol _ _, StrCol _ _) => True | _ => False end.

Lemma combine_map_r {A B:Type} (g:A -> B) (l:list A) : combine l (map g l) = map (fun x => (x, g x)) l.
Proof. induction l as [|x l IH]; cbn [combine map]; [reflexivity|]. rewrite IH. reflexivity. Qed.

Lemma encode_pair S : encode S = (fst (encode S), snd (encode S)).
Proof. reflexivity. Qed.

Lemma len_take' a idx : len (take a idx) = len idx.
Proof. unfold take. apply len_map. Qed.

Section Core.
Variables (osi nsi okeys nkeys:list Z).
Let oks := take okeys osi.
Let nks := take nkeys nsi.

(* what one compared field contributes, on sorted positions *)
Definition kdif (f:col * col) : Z -> Z -> bool :=
  match f with
  | (NumCol od, NumCol nd) => fun a b => negb (nthZ (take od osi) a =? nthZ (take nd nsi) b)
  | (StrCol oo ov, StrCol no nv) =>
    fun a b => negb (list_eqb (nthd [] (map (cell oo ov) osi) a) (nthd [] (map (cell no nv) nsi) b))
  | _ => fun _ _ => false
  end.

Lemma compare_fields_spec om nm : maps_ok om nm (len osi) (len nsi) ->
  forall fields tk, Forall wf_field fields -> len tk = len om ->
  exists tk', compare_fields osi nsi om nm fields tk = Ok tk' /\ len tk' = len om /\
    forall t, 0 <= t < len om ->
      nthd false tk' t = fold_left (fun b f => keep_step om nm (kdif f) t b) fields (nthd false tk t).
Proof.
  intros Hm. induction fields as [|f fields IH]; intros tk Hwf Hl.
  - exists tk. cbn [compare_fields fold_left]. auto.
  - pose proof (Forall_inv Hwf) as Hf. pose proof (Forall_inv_tail Hwf) as Hwf'.
    destruct f as [[od|oo ov] [nd|no nv]]; cbn [wf_field] in Hf; try contradiction; cbn [compare_fields].
    + destruct (compare_rows_spec om nm (take od osi) (take nd nsi) tk) as (tk1 & Hr & Hl1 & Hp1); auto.
      { rewrite !len_take'. exact Hm. }
      rewrite Hr. cbn [bind]. destruct (IH tk1 Hwf' Hl1) as (tk' & Hr' & Hl' & Hp').
      exists tk'. split; [exact Hr'|]. split; [exact Hl'|]. intros t Ht. rewrite (Hp' t Ht), (Hp1 t Ht). reflexivity.
    + unfold apply_index_str. rewrite (encode_pair (map (cell oo ov) osi)), (encode_pair (map (cell no nv) nsi)).
      destruct (compare_indexed_rows_spec om nm (map (cell oo ov) osi) (map (cell no nv) nsi) tk) as (tk1 & Hr & Hl1 & Hp1); auto.
      { rewrite !len_map. exact Hm. }
      rewrite Hr. cbn [bind]. destruct (IH tk1 Hwf' Hl1) as (tk' & Hr' & Hl' & Hp').
      exists tk'. split; [exact Hr'|]. split; [exact Hl'|]. intros t Ht. rewrite (Hp' t Ht), (Hp1 t Ht). reflexivity.
Qed.

Lemma fold_keep_step om nm t (d:(col * col)%type -> Z -> Z -> bool) fs : forall b x,
  fold_left (fun b f => keep_step om nm (d f) t b) fs
    (b || (nthZ om t =? -1) || (negb (nthZ nm t =? -1) && x)) =
  b || (nthZ om t =? -1) || (negb (nthZ nm t =? -1) && (x || existsb (fun f => d f (nthZ om t) (nthZ nm t)) fs)).
Proof.
  induction fs as [|f fs IH]; intros b x; cbn [fold_left existsb].
  - rewrite orb_false_r. reflexivity.
  - replace (keep_step om nm (d f) t (b || (nthZ om t =? -1) || negb (nthZ nm t =? -1) && x))
      with (b || (nthZ om t =? -1) || (negb (nthZ nm t =? -1) && (x || d f (nthZ om t) (nthZ nm t)))).
    + rewrite IH. rewrite orb_assoc. reflexivity.
    + unfold keep_step. destruct b, (nthZ om t =? -1), (nthZ nm t =? -1), x; cbn; try reflexivity.
      all: destruct (d f (nthZ om t) (nthZ nm t)); reflexivity.
Qed.

Lemma fold_keep_nonempty om nm t (d:(col * col)%type -> Z -> Z -> bool) f fs :
  fold_left (fun b f => keep_step om nm (d f) t b) (f :: fs) false =
  (nthZ om t =? -1) || (negb (nthZ nm t =? -1) && existsb (fun f => d f (nthZ om t) (nthZ nm t)) (f :: fs)).
Proof.
  cbn [fold_left existsb].
  replace (keep_step om nm (d f) t false)
    with (false || (nthZ om t =? -1) || (negb (nthZ nm t =? -1) && d f (nthZ om t) (nthZ nm t))).
  - rewrite fold_keep_step. reflexivity.
  - unfold keep_step. destruct (nthZ om t =? -1), (nthZ nm t =? -1); cbn; try reflexivity.
Qed.
End Core.

(* ---- merge_indexed_journalled_entries, whole kernel --------------------------------------- *)
Section MergeStr3.
Variables (oks:list Z) (os ns:list (list Z)).
Hypothesis Hlo : len os = len oks.

Theorem merge_indexed_spec fuel E keep :
  chain oks 0 E -> Forall (ebound (len oks) (len ns)) E -> length keep = length E -> keep_valid E keep ->
  Z.of_nat fuel > len oks ->
  merge_indexed fuel (map e_old E) (map e_new E) keep (fst (encode os)) (snd (encode os))
    (fst (encode ns)) (snd (encode ns))
    (repeat 0 (Z.to_nat (len oks + count_true keep + 1)))
    (repeat 0 (Z.to_nat (len (concat (map (cellstr os ns) (planE E keep))))))
  = Ok (encode (map (cellstr os ns) (planE E keep))).
Proof.
  intros Hc Hb Hl Hkv Hf. rewrite (merge_indexed_fold os ns) by exact Hl.
  pose proof (len_nonneg oks) as Hn.
  assert (Hct : 0 <= count_true keep) by (unfold count_true; apply len_nonneg).
  assert (HL : len (planE E keep) = len oks + count_true keep).
  { rewrite (planE_length oks E keep 0); auto; try lia.
    eapply Forall_impl; [|exact Hb]. intros x (H0 & H1 & _). auto. }
  set (cells := map (cellstr os ns) (planE E keep)).
  pose proof (len_nonneg (concat cells)) as Hcc.
  rewrite set_ok by (rewrite len_repeat; lia). cbn [bind].
  destruct (merge_fold_str oks os ns Hlo fuel E keep 0 1 0
              (upd (repeat 0 (Z.to_nat (len oks + count_true keep + 1))) 0 0)
              (repeat 0 (Z.to_nat (len (concat cells)))) [0] [] Hc Hb Hl Hkv)
    as (cur' & di' & dv' & Hr & Hl1 & Hl2 & HX1 & HX2); try lia.
  - rewrite len_upd, len_repeat. lia.
  - rewrite len_repeat. fold cells. lia.
  - replace (Z.to_nat 1) with (Z.to_nat (0 + 1)) by lia. rewrite firstn_upd_snoc by (rewrite len_repeat; lia). reflexivity.
  - reflexivity.
  - fold cells in Hr, HX1, HX2. rewrite Hr. cbn [bind].
    rewrite len_upd, len_repeat in Hl1. rewrite len_repeat in Hl2.
    replace (1 + len (planE E keep)) with (len di') in HX1 by lia.
    replace (0 + len (concat cells)) with (len dv') in HX2 by lia.
    rewrite firstn_len_all in HX1, HX2. rewrite HX1, HX2. cbn [app].
    unfold encode, psums. rewrite psums_from_runs. reflexivity.
Qed.
End MergeStr3.

Section Core2.
Variables (osi nsi okeys nkeys:list Z).
Let oks := take okeys osi.
Let nks := take nkeys nsi.
Hypothesis Hlen_o : len osi = len okeys.

Definition outS (P:list src) (f:col * col) : col :=
  match f with
  | (NumCol od, NumCol nd) => NumCol (map (cellnum (take od osi) (take nd nsi)) P)
  | (StrCol oo ov, StrCol no nv) =>
    let cells := map (cellstr (map (cell oo ov) osi) (map (cell no nv) nsi)) P in
    StrCol (fst (encode cells)) (snd (encode cells))
  | (c, _) => c
  end.

Lemma merge_fields_spec fuel E keep :
  chain oks 0 E -> Forall (ebound (len oks) (len nsi)) E -> length keep = length E -> keep_valid E keep ->
  Z.of_nat fuel > len oks ->
  forall fields, Forall wf_field fields ->
  merge_fields fuel osi nsi (map e_old E) (map e_new E) keep (len okeys + count_true keep) fields
  = Ok (map (outS (planE E keep)) fields).
Proof.
  intros Hc Hb Hl Hkv Hf. assert (Hoks : len oks = len okeys) by (unfold oks; rewrite len_take'; exact Hlen_o).
  induction fields as [|f fields IH]; intros Hwf; [reflexivity|].
  pose proof (Forall_inv Hwf) as Hf0. pose proof (Forall_inv_tail Hwf) as Hwf'.
  destruct f as [[od|oo ov] [nd|no nv]]; cbn [wf_field] in Hf0; try contradiction; cbn [merge_fields map outS].
  - rewrite <- Hoks.
    rewrite (merge_entries_spec oks (take od osi) (take nd nsi)); auto.
    + cbn [bind]. rewrite Hoks. rewrite (IH Hwf'). reflexivity.
    + rewrite len_take'. unfold oks. rewrite len_take'. reflexivity.
    + rewrite len_take'. exact Hb.
  - unfold apply_index_str. rewrite (encode_pair (map (cell oo ov) osi)), (encode_pair (map (cell no nv) nsi)).
    assert (Hlo : len (map (cell oo ov) osi) = len oks) by (rewrite len_map; unfold oks; rewrite len_take'; reflexivity).
    assert (Hb2 : Forall (ebound (len oks) (len (map (cell no nv) nsi))) E) by (rewrite len_map; exact Hb).
    rewrite (merge_indexed_count_spec oks _ _ Hlo fuel E keep Hc Hb2 Hl Hkv Hf). cbn [bind].
    rewrite <- Hoks.
    rewrite (merge_indexed_spec oks _ _ Hlo fuel E keep Hc Hb2 Hl Hkv Hf). cbn [bind].
    rewrite Hoks. rewrite (IH Hwf'). reflexivity.
Qed.

(* to_keep as a function of the entry *)
Definition kfun (fields:list (col * col)) (x:entry) : bool :=
  (e_old x =? -1) || (negb (e_new x =? -1) && existsb (fun f => kdif osi nsi f (e_old x) (e_new x)) fields).

Theorem journal_core_sorted fuel fields :
  sorted oks -> ssorted nks -> Forall wf_field fields -> Z.of_nat fuel > len oks + len nks ->
  exists E, W oks nks 0 0 E /\
    journal_core fuel osi nsi okeys nkeys fields = Ok (map (outS (planE E (map (kfun fields) E))) fields).
Proof.
  intros Hso Hsn Hwf Hf. pose proof (len_nonneg oks) as Hn1. pose proof (len_nonneg nks) as Hn2.
  destruct (W_exists oks nks (Z.to_nat (len oks + len nks)) 0 0) as (E & HW); try lia.
  exists E. split; [exact HW|].
  destruct fields as [|f0 fs].
  { unfold journal_core. fold oks nks. rewrite (gen_indices_W oks nks E fuel HW Hf). reflexivity. }
  pose proof (W_entries oks nks Hso Hsn 0 0 E HW (Pre_0 oks nks)) as Hent.
  pose proof (W_chain oks nks 0 0 E HW) as Hch.
  assert (Hnks : len nks = len nsi) by (unfold nks; apply len_take').
  assert (Hoks : len oks = len osi) by (unfold oks; apply len_take').
  assert (Hbnd : Forall (ebound (len oks) (len nsi)) E).
  { eapply Forall_impl; [|exact Hent]. intros x (_ & _ & H0 & H1 & H2 & _). unfold ebound. rewrite <- Hnks. auto. }
  unfold journal_core. fold oks nks. rewrite (gen_indices_W oks nks E fuel HW Hf). cbn [bind].
  set (om := map e_old E). set (nm := map e_new E).
  assert (Hmo : maps_ok om nm (len osi) (len nsi)).
  { unfold maps_ok, om, nm. rewrite !len_map. split; [reflexivity|]. split.
    - intros t Ht. replace t with (Z.of_nat (Z.to_nat t)) by lia.
      rewrite (nthZ_map_nat e_old E _ dE) by (unfold len in Ht; lia).
      assert (Hin : In (nth (Z.to_nat t) E dE) E) by (apply nth_In; unfold len in Ht; lia).
      rewrite Forall_forall in Hbnd. destruct (Hbnd _ Hin) as (H0 & H1 & _). rewrite <- Hoks. destruct H1; lia.
    - intros t Ht. replace t with (Z.of_nat (Z.to_nat t)) by lia.
      rewrite (nthZ_map_nat e_new E _ dE) by (unfold len in Ht; lia).
      assert (Hin : In (nth (Z.to_nat t) E dE) E) by (apply nth_In; unfold len in Ht; lia).
      rewrite Forall_forall in Hbnd. destruct (Hbnd _ Hin) as (_ & _ & H2). exact H2. }
  destruct (compare_fields_spec osi nsi om nm Hmo (f0 :: fs) (repeat false (length om)) Hwf) as (keep & Hr & Hlk & Hpk).
  { rewrite len_repeat. reflexivity. }
  rewrite Hr. cbn [bind].
  assert (Hkeep : keep = map (kfun (f0 :: fs)) E).
  { apply (list_eq_nthd false).
    - rewrite Hlk. unfold om. rewrite !len_map. reflexivity.
    - intros t Ht. rewrite Hlk in Ht. rewrite (Hpk t Ht). rewrite nthd_repeat by (unfold len in Ht; lia).
      rewrite fold_keep_nonempty. unfold om, nm in *. rewrite len_map in Ht.
      replace t with (Z.of_nat (Z.to_nat t)) by lia.
      rewrite (nthZ_map_nat e_old E _ dE), (nthZ_map_nat e_new E _ dE) by (unfold len in Ht; lia).
      unfold nthd. rewrite Nat2Z.id. rewrite (nth_indep _ false (kfun (f0 :: fs) dE)) by (rewrite map_length; unfold len in Ht; lia).
      rewrite map_nth. reflexivity. }
  subst keep.
  apply (merge_fields_spec fuel E (map (kfun (f0 :: fs)) E)); auto.
  - rewrite map_length. reflexivity.
  - intros xk Hin Hs. rewrite combine_map_r in Hin. apply in_map_iff in Hin. destruct Hin as (x & <- & Hx). cbn [fst snd] in *.
    rewrite Forall_forall in Hent. destruct (Hent x Hx) as (_ & _ & _ & _ & _ & Hnb).
    unfold kfun in Hs. intros Hq. rewrite Hq in Hs. cbn [Z.eqb negb andb] in Hs. rewrite orb_false_r in Hs.
    apply Z.eqb_eq in Hs. apply (Hnb Hs Hq).
  - lia.
Qed.
End Core2.

(* ---- journal_table on arbitrary physical order ---------------------------------------------- *)
Theorem journal_table_sorted_view fuel okeys ovf nkeys fields :
  length okeys = length ovf -> NoDup nkeys -> Forall wf_field fields ->
  Z.of_nat fuel > len okeys + len nkeys ->
  let osi := dataset_sort_index [okeys; ovf] in
  let nsi := dataset_sort_index [nkeys] in
  exists E, W (take okeys osi) (take nkeys nsi) 0 0 E /\
    journal_table fuel okeys ovf nkeys fields =
    Ok (map (outS osi nsi (planE E (map (kfun osi nsi fields) E))) fields).
Proof.
  intros Hl Hnd Hwf Hf osi nsi. unfold journal_table. fold osi nsi.
  apply journal_core_sorted; auto.
  - unfold osi, len. rewrite dsi2_length by exact Hl. reflexivity.
  - apply dsi2_keys_sorted. exact Hl.
  - apply dsi1_keys_ssorted. exact Hnd.
  - rewrite !len_take'. unfold osi, nsi, len in *. rewrite dsi2_length by exact Hl. rewrite dsi1_length. exact Hf.
Qed.

(* every output column has as many rows as the plan: columns are aligned *)
Lemma outS_rows osi nsi P f : wf_field f -> col_rows (outS osi nsi P f) = len P.
Proof.
  destruct f as [[od|oo ov] [nd|no nv]]; cbn [wf_field]; intros H; try contradiction; cbn [outS col_rows].
  - apply len_map.
  - rewrite len_encode_offs, len_map. lia.
Qed.

Theorem journal_columns_aligned fuel okeys ovf nkeys fields :
  length okeys = length ovf -> NoDup nkeys -> Forall wf_field fields ->
  Z.of_nat fuel > len okeys + len nkeys ->
  exists cols n, journal_table fuel okeys ovf nkeys fields = Ok cols /\
    length cols = length fields /\ Forall (fun c => col_rows c = n) cols.
Proof.
  intros Hl Hnd Hwf Hf. destruct (journal_table_sorted_view fuel okeys ovf nkeys fields Hl Hnd Hwf Hf) as (E & _ & Hr).
  eexists. eexists. split; [exact Hr|]. split; [apply map_length|].
  apply Forall_forall. intros c Hc. apply in_map_iff in Hc. destruct Hc as (f & <- & Hin).
  apply outS_rows. rewrite Forall_forall in Hwf. apply Hwf. exact Hin.
Qed.

(* the kernel-level facts, packaged: indices *)
Theorem journal_indices_correct oks nks fuel :
  sorted oks -> ssorted nks -> Z.of_nat fuel > len oks + len nks ->
  exists E, gen_indices fuel oks nks = Ok (map e_old E, map e_new E) /\
    map e_key E = all_keys oks nks /\ Forall (entry_ok oks nks) E.
Proof.
  intros Hso Hsn Hf. pose proof (len_nonneg oks). pose proof (len_nonneg nks).
  destruct (W_exists oks nks (Z.to_nat (len oks + len nks)) 0 0) as (E & HW); try lia.
  exists E. split; [apply gen_indices_W; auto|]. split.
  - symmetry. apply W_all_keys; auto.
  - apply (W_entries oks nks Hso Hsn 0 0 E HW (Pre_0 oks nks)).
Qed.
