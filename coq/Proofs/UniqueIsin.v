(* Proofs/UniqueIsin.v — C14: compare_arrays is the lexicographic order, the binary search of
   isin_indexed_string_speedup decides membership in a sorted test list within its fuel, and
   isin_for_indexed_string_field returns the membership flags of the specification. *)
From Coq Require Import ZArith List Lia Bool Sorted Permutation.
From EV Require Import Res Arr UniqueSpec Unique UniqueOrder UniqueUtf8 UniqueSort UniqueStore.
Import ListNotations.
Open Scope Z_scope.

Definition cmp_code (c:comparison) : Z := match c with Lt => -1 | Eq => 0 | Gt => 1 end.

(* ---- compare_arrays ---- *)
Lemma compare_loop_shift n a b x y i :
  0 <= i -> compare_loop n (x :: a) (y :: b) (i + 1) = compare_loop n a b i.
Proof.
  revert i. induction n as [|n IH]; intros i Hi; cbn [compare_loop]; [reflexivity|].
  rewrite !get_cons_succ by lia. destruct (get 1 a i) as [u| | |]; cbn [bind]; try reflexivity.
  destruct (get 2 b i) as [v| | |]; cbn [bind]; try reflexivity.
  destruct (u <? v); [reflexivity|]. destruct (v <? u); [reflexivity|]. apply IH. lia.
Qed.

Theorem compare_arrays_is_lex_order a b : compare_arrays a b = Ok (cmp_code (lexcmp a b)).
Proof.
  revert b. induction a as [|x a IH]; intros [|y b].
  - reflexivity.
  - unfold compare_arrays. replace (Z.to_nat (Z.min (len []) (len (y :: b)))) with O
      by (rewrite len_cons; pose proof (len_nonneg b); unfold len at 1; cbn [length]; lia).
    cbn [compare_loop bind lexcmp cmp_code].
    replace (len [] <? len (y :: b)) with true
      by (rewrite len_cons; pose proof (len_nonneg b); unfold len at 1; cbn [length]; lia).
    reflexivity.
  - unfold compare_arrays. replace (Z.to_nat (Z.min (len (x :: a)) (len []))) with O
      by (rewrite len_cons; pose proof (len_nonneg a); unfold len at 2; cbn [length]; lia).
    cbn [compare_loop bind lexcmp cmp_code].
    replace (len (x :: a) <? len []) with false
      by (rewrite len_cons; pose proof (len_nonneg a); unfold len at 2; cbn [length]; lia).
    replace (len [] <? len (x :: a)) with true
      by (rewrite len_cons; pose proof (len_nonneg a); unfold len at 1; cbn [length]; lia).
    reflexivity.
  - specialize (IH b). unfold compare_arrays in *. rewrite !len_cons.
    pose proof (len_nonneg a). pose proof (len_nonneg b).
    replace (Z.to_nat (Z.min (len a + 1) (len b + 1))) with (S (Z.to_nat (Z.min (len a) (len b)))) by lia.
    cbn [compare_loop]. rewrite !get_cons_0. cbn [bind lexcmp].
    destruct (Z.compare_spec x y) as [E|E|E].
    + subst. rewrite Z.ltb_irrefl. rewrite compare_loop_shift by lia.
      destruct (compare_loop (Z.to_nat (Z.min (len a) (len b))) a b 0) as [[c|]| | |]; cbn [bind] in *;
        try exact IH.
      replace (len a + 1 <? len b + 1) with (len a <? len b) by lia.
      replace (len b + 1 <? len a + 1) with (len b <? len a) by lia. exact IH.
    + replace (x <? y) with true by lia. reflexivity.
    + replace (x <? y) with false by lia. replace (y <? x) with true by lia. reflexivity.
Qed.

(* ---- sorted test lists, index-based ---- *)
Definition lesorted (l:list (list Z)) : Prop :=
  forall i j, 0 <= i -> i <= j -> j < len l -> lexle (nthd [] l i) (nthd [] l j) = true.

Lemma lexle_refl a : lexle a a = true.
Proof. unfold lexle. rewrite lexcmp_refl. reflexivity. Qed.

Lemma lexle_total a b : lexle a b = false -> lexle b a = true.
Proof. unfold lexle. rewrite (lexcmp_antisym a b). destruct (lexcmp a b); cbn; congruence. Qed.

Lemma lexle_trans a b c : lexle a b = true -> lexle b c = true -> lexle a c = true.
Proof.
  unfold lexle. intros H1 H2.
  destruct (lexcmp a b) eqn:E1; try discriminate; destruct (lexcmp b c) eqn:E2; try discriminate.
  - apply lexcmp_eq in E1, E2. subst. rewrite lexcmp_refl. reflexivity.
  - apply lexcmp_eq in E1. subst. rewrite E2. reflexivity.
  - apply lexcmp_eq in E2. subst. rewrite E1. reflexivity.
  - rewrite (lexcmp_trans a b c E1 E2). reflexivity.
Qed.

Lemma StronglySorted_lesorted l : StronglySorted (leP lexle) l -> lesorted l.
Proof.
  induction 1 as [|x t Ht IH Hall]; intros i j Hi Hij Hj.
  - unfold len in Hj; cbn [length] in Hj; lia.
  - rewrite len_cons in Hj. destruct (Z.eq_dec i j) as [->|Hne]; [apply lexle_refl|].
    destruct (Z.eq_dec i 0) as [->|Hi0].
    + rewrite nthd_cons_0. replace j with ((j - 1) + 1) by lia. rewrite nthd_cons_succ by lia.
      rewrite Forall_forall in Hall. apply Hall. unfold nthd. apply nth_In. unfold len in Hj. lia.
    + replace i with ((i - 1) + 1) by lia. replace j with ((j - 1) + 1) by lia.
      rewrite !nthd_cons_succ by lia. apply IH; lia.
Qed.

Lemma isort_lexle_lesorted l : lesorted (isort lexle l).
Proof. apply StronglySorted_lesorted. apply isort_sorted; [apply lexle_total|apply lexle_trans]. Qed.

Lemma existsb_eqc_nth v l :
  existsb (eqc lexcmp v) l = true <-> exists k, 0 <= k < len l /\ nthd [] l k = v.
Proof.
  rewrite existsb_exists. split.
  - intros [x [Hx E]]. apply (eqc_true lexcmp lexcmp_eq) in E. subst x.
    destruct (In_nth _ _ [] Hx) as [n [Hn En]]. exists (Z.of_nat n). unfold len, nthd.
    rewrite Nat2Z.id. split; [lia|exact En].
  - intros [k [Hk E]]. exists v. split; [|apply (eqc_refl lexcmp lexcmp_eq)].
    rewrite <- E. unfold nthd. apply nth_In. unfold len in Hk. lia.
Qed.

(* ---- the binary search ---- *)
Lemma bsearch_correct fuel v tests : lesorted tests ->
  forall start end_,
  0 <= start -> end_ < len tests -> (Z.to_nat (end_ - start + 1) < fuel)%nat ->
  (forall k, 0 <= k < len tests -> nthd [] tests k = v -> start <= k <= end_) ->
  bsearch fuel v tests start end_ = Ok (existsb (eqc lexcmp v) tests).
Proof.
  intros Hs. induction fuel as [|f IH]; intros start end_ H0 H1 Hf Hk; [lia|].
  cbn [bsearch]. destruct (start <=? end_) eqn:E.
  - apply Z.leb_le in E.
    assert (Hm : start <= (start + end_) / 2 <= end_).
    { split; [apply Z.div_le_lower_bound; lia|apply Z.div_le_upper_bound; lia]. }
    set (mid := (start + end_) / 2) in *.
    rewrite (get_ok 3 [] tests mid) by lia. cbn [bind].
    rewrite compare_arrays_is_lex_order. cbn [bind].
    destruct (lexcmp v (nthd [] tests mid)) eqn:C; cbn [cmp_code Z.eqb].
    + apply lexcmp_eq in C. f_equal. symmetry. apply existsb_eqc_nth. exists mid. split; [lia|congruence].
    + (* v < tests[mid]: search the lower half *)
      apply IH; try lia. intros k Hk1 Hk2. specialize (Hk k Hk1 Hk2).
      destruct (Z_lt_le_dec k mid) as [Hlt|Hge]; [lia|]. exfalso.
      specialize (Hs mid k). rewrite Hk2 in Hs. unfold lexle in Hs.
      rewrite (lexcmp_antisym v (nthd [] tests mid)), C in Hs. cbn [CompOpp] in Hs.
      assert (true = false) by (rewrite <- Hs by lia; reflexivity). discriminate.
    + (* v > tests[mid] *)
      apply IH; try lia. intros k Hk1 Hk2. specialize (Hk k Hk1 Hk2).
      destruct (Z_lt_le_dec mid k) as [Hlt|Hge]; [lia|]. exfalso.
      specialize (Hs k mid). rewrite Hk2 in Hs. unfold lexle in Hs. rewrite C in Hs.
      assert (true = false) by (rewrite <- Hs by lia; reflexivity). discriminate.
  - apply Z.leb_gt in E. f_equal. symmetry. apply not_true_is_false. intros Hex.
    apply existsb_eqc_nth in Hex. destruct Hex as [k [Hk1 Hk2]]. specialize (Hk k Hk1 Hk2). lia.
Qed.

Lemma bsearch_all fuel v tests :
  lesorted tests -> (length tests < fuel)%nat ->
  bsearch fuel v tests 0 (len tests - 1) = Ok (existsb (eqc lexcmp v) tests).
Proof.
  intros Hs Hf. apply bsearch_correct; try assumption; try (unfold len; lia).
Qed.

(* ---- the row loop ---- *)
Lemma isin_rows_correct fuel tests xs ind vals :
  stored xs ind vals -> lesorted tests -> (length tests < fuel)%nat ->
  forall n i, 0 <= i -> i + Z.of_nat n = len xs ->
  isin_rows fuel n i tests ind vals
  = Ok (map (fun x => existsb (eqc lexcmp x) tests) (skipn (Z.to_nat i) xs)).
Proof.
  intros Hst Hs Hf. induction n as [|n IH]; intros i Hi Hn; cbn [isin_rows].
  - rewrite skipn_all2 by (unfold len in Hn; lia). reflexivity.
  - destruct (stored_row xs ind vals i Hst) as [a [b [Ha [Hb [_ Hrow]]]]]; [lia|].
    rewrite Ha, Hb. cbn [bind]. rewrite Hrow. rewrite bsearch_all by assumption. cbn [bind].
    rewrite IH by lia. cbn [bind]. rewrite (skipn_nth_cons [] xs i) by lia. reflexivity.
Qed.

Lemma somes_map {A B} (f:A -> B) l : somes (map (option_map f) l) = map f (somes l).
Proof. induction l as [|[a|] t IH]; cbn [map option_map somes]; [reflexivity| |exact IH]. rewrite IH. reflexivity. Qed.

Lemma existsb_perm {A} (p:A -> bool) l1 l2 : Permutation l1 l2 -> existsb p l1 = existsb p l2.
Proof.
  intros H. destruct (existsb p l1) eqn:E1; symmetry.
  - apply existsb_exists in E1. destruct E1 as [x [Hx Px]]. apply existsb_exists. exists x.
    split; [eapply Permutation_in; eauto|exact Px].
  - apply not_true_is_false. intros E2. apply existsb_exists in E2. destruct E2 as [x [Hx Px]].
    assert (existsb p l1 = true) by (apply existsb_exists; exists x; split;
      [eapply Permutation_in; [apply Permutation_sym; exact H|exact Hx]|exact Px]). congruence.
Qed.

(* ---- isin_for_indexed_string_field ---- *)
Theorem isin_indexed_correct (ts:list (option (list Z))) xs ind vals fuel :
  Forall (fun s => valid_strb s = true) (somes ts) ->
  stored xs ind vals ->
  (fuel >= isin_fuel (somes ts))%nat ->
  isin_for_indexed_string_field fuel (Some ts) ind vals
  = Ok (spec_isin lexcmp xs (map (option_map utf8_encode) ts)).
Proof.
  intros Hv Hst Hf. unfold isin_for_indexed_string_field, spec_isin. rewrite somes_map.
  set (T := somes ts) in *.
  destruct (len T =? 0) eqn:E.
  - assert (T = []) as -> by (destruct T; [reflexivity|rewrite len_cons in E; pose proof (len_nonneg T); lia]).
    rewrite (stored_rows xs ind vals Hst). cbn [map existsb]. f_equal.
    clear. induction xs as [|x t IH]; cbn [length repeat map]; [reflexivity|]. rewrite IH. reflexivity.
  - assert (Hstrip : map strip_nul T = T).
    { clear -Hv. induction Hv as [|s t Hs Ht IH]; cbn [map]; [reflexivity|].
      rewrite valid_str_strip by exact Hs. rewrite IH. reflexivity. }
    unfold np_sort_str. rewrite Hstrip.
    assert (Hsc : forallb (forallb scalarb) (isort lexle T) = true).
    { apply forallb_forall. intros s Hs. apply (Permutation_in _ (isort_perm lexle T)) in Hs.
      rewrite Forall_forall in Hv. apply valid_str_scalar. apply Hv. exact Hs. }
    rewrite Hsc.
    rewrite (map_isort utf8_encode lexle lexle (fun s => Forall cp_range s)).
    + unfold isin_indexed_string_speedup. rewrite (stored_rows xs ind vals Hst).
      rewrite (isin_rows_correct fuel (isort lexle (map utf8_encode T)) xs ind vals Hst).
      * cbn [Z.to_nat skipn]. f_equal. apply map_ext. intros x. apply existsb_perm. apply isort_perm.
      * apply isort_lexle_lesorted.
      * rewrite isort_length, map_length. unfold isin_fuel in Hf. lia.
      * lia.
      * unfold len. lia.
    + intros a b Ha Hb. apply lexle_encode; assumption.
    + eapply Forall_impl; [|exact Hv]. intros s Hs. apply valid_str_range. exact Hs.
Qed.

Theorem isin_indexed_none fuel ind vals :
  isin_for_indexed_string_field fuel None ind vals = Raise E_TypeError.
Proof. reflexivity. Qed.
