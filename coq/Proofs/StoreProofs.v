(* Proofs/StoreProofs.v — the field arrays of Model/IdxWriter.v are append-only lists:
   write_part on either backing appends the part (C01). *)
From Coq Require Import ZArith List Lia Bool.
From EV Require Import Res Arr IdxWriter IdxWriterSpec.
Import ListNotations.
Open Scope Z_scope.

Lemma np_norm_id n a : 0 <= a <= n -> np_norm n a = a.
Proof. intros H. unfold np_norm. destruct (a <? 0) eqn:E; lia. Qed.

Lemma np_norm_neg n a : a < 0 -> np_norm n a = Z.max 0 (a + n).
Proof. intros H. unfold np_norm. destruct (a <? 0) eqn:E; lia. Qed.

Section Poly.
Context {A:Type}.
Variable zero : A.

Lemma len_repeat (x:A) n : len (repeat x n) = Z.of_nat n.
Proof. unfold len. rewrite repeat_length. reflexivity. Qed.

Lemma firstn_len_app (l1 l2:list A) : firstn (Z.to_nat (len l1)) (l1 ++ l2) = l1.
Proof.
  unfold len. rewrite Nat2Z.id. rewrite firstn_app, Nat.sub_diag, firstn_all. cbn. apply app_nil_r.
Qed.

Lemma skipn_len_app (l1 l2:list A) : skipn (Z.to_nat (len l1)) (l1 ++ l2) = l2.
Proof.
  unfold len. rewrite Nat2Z.id. rewrite skipn_app, Nat.sub_diag, skipn_all. reflexivity.
Qed.

(* l[a:b] = v where l = pre ++ old ++ post, a = |pre|, b = |pre|+|old|, |v| = |old| *)
Lemma np_assign_mid (pre old post v:list A) :
  len v = len old ->
  np_assign (pre ++ old ++ post) (len pre) (len pre + len old) v = Ok (pre ++ v ++ post).
Proof.
  intros Hv. unfold np_assign.
  pose proof (len_nonneg pre) as Hp. pose proof (len_nonneg old) as Ho. pose proof (len_nonneg post) as Hq.
  rewrite !len_app.
  rewrite (np_norm_id _ (len pre)) by lia.
  rewrite (np_norm_id _ (len pre + len old)) by lia.
  replace (Z.max (len pre) (len pre + len old)) with (len pre + len old) by lia.
  replace (len pre + len old - len pre) with (len old) by lia.
  rewrite Hv, Z.eqb_refl. f_equal.
  rewrite firstn_len_app. f_equal. f_equal.
  rewrite app_assoc. replace (len pre + len old) with (len (pre ++ old)) by (rewrite len_app; reflexivity).
  apply skipn_len_app.
Qed.

Lemma repeat_app_Z (x:A) a b : 0 <= a -> 0 <= b ->
  repeat x (Z.to_nat (a + b)) = repeat x (Z.to_nat a) ++ repeat x (Z.to_nat b).
Proof. intros Ha Hb. rewrite Z2Nat.inj_add by lia. apply repeat_app. Qed.

Lemma len_repeat_Z (x:A) a : 0 <= a -> len (repeat x (Z.to_nat a)) = a.
Proof. intros Ha. rewrite len_repeat. lia. Qed.

(* MemoryFieldArray.write_part (repaired) appends *)
Lemma mem_write_part_some (ds part:list A) :
  mem_write_part zero (Some ds) part = Ok (Some (ds ++ part)).
Proof.
  unfold mem_write_part.
  pose proof (len_nonneg ds) as Hd. pose proof (len_nonneg part) as Hp.
  rewrite repeat_app_Z by lia.
  (* new[:len ds] = ds *)
  pose proof (np_assign_mid [] (repeat zero (Z.to_nat (len ds))) (repeat zero (Z.to_nat (len part))) ds) as H1.
  rewrite len_nil, len_repeat_Z in H1 by lia. cbn [app] in H1. rewrite Z.add_0_l in H1.
  rewrite H1 by reflexivity. cbn [bind].
  (* new[len ds:] = part *)
  pose proof (np_assign_mid ds (repeat zero (Z.to_nat (len part))) [] part) as H2.
  rewrite len_repeat_Z in H2 by lia. rewrite !app_nil_r in H2.
  rewrite len_app, len_repeat_Z by lia. rewrite H2 by reflexivity. reflexivity.
Qed.

(* DataWriter._write_additional appends *)
Lemma h5_write_part_ok (d part:list A) : h5_write_part zero d part = Ok (d ++ part).
Proof.
  unfold h5_write_part.
  pose proof (len_nonneg d) as Hd. pose proof (len_nonneg part) as Hp.
  destruct (len part =? 0) eqn:E.
  - apply Z.eqb_eq in E. destruct part; [rewrite app_nil_r; reflexivity|]. rewrite len_cons in E.
    pose proof (len_nonneg part). lia.
  - apply Z.eqb_neq in E.
    pose proof (np_assign_mid d (repeat zero (Z.to_nat (len part))) [] part) as H2.
    rewrite len_repeat_Z in H2 by lia. rewrite !app_nil_r in H2.
    unfold np_assign in *. rewrite len_app, len_repeat_Z in * by lia.
    rewrite (np_norm_neg _ (- len part)) by lia.
    replace (Z.max 0 (- len part + (len d + len part))) with (len d) by lia.
    rewrite (np_norm_id _ (len d)) in H2 by lia.
    apply H2. reflexivity.
Qed.

Lemma st_write_part_ok (s:store A) (part:list A) :
  exists s', st_write_part zero s part = Ok s' /\ st_data s' = st_data s ++ part.
Proof.
  destruct s as [[ds|]|d]; cbn [st_write_part].
  - rewrite mem_write_part_some. cbn. eauto.
  - cbn. eauto.
  - rewrite h5_write_part_ok. cbn. eauto.
Qed.

(* any partition into write_part calls appends the concatenation *)
Lemma st_write_parts_ok (parts:list (list A)) : forall (s:store A),
  exists s', st_write_parts zero s parts = Ok s' /\ st_data s' = st_data s ++ concat parts.
Proof.
  induction parts as [|p t IH]; intros s; cbn [st_write_parts concat].
  - exists s. rewrite app_nil_r. auto.
  - destruct (st_write_part_ok s p) as (s1 & H1 & D1). rewrite H1. cbn [bind].
    destruct (IH s1) as (s2 & H2 & D2). exists s2. split; [exact H2|].
    rewrite D2, D1, app_assoc. reflexivity.
Qed.

Lemma st_data_fresh (h5:bool) : st_data (if h5 then H5 [] else Mem None : store A) = [].
Proof. destruct h5; reflexivity. Qed.

Lemma append_partition_independent_lemma (h5:bool) (parts:list (list A)) :
  exists s', st_write_parts zero (if h5 then H5 [] else Mem None) parts = Ok s'
             /\ st_data s' = spec_written parts.
Proof.
  destruct (st_write_parts_ok parts (if h5 then H5 [] else Mem None)) as (s' & H & D).
  exists s'. split; [exact H|]. rewrite D, st_data_fresh. reflexivity.
Qed.

(* two partitions of the same sequence leave the same data *)
Lemma append_two_partitions (h5:bool) (p1 p2:list (list A)) :
  concat p1 = concat p2 ->
  exists s1 s2, st_write_parts zero (if h5 then H5 [] else Mem None) p1 = Ok s1
             /\ st_write_parts zero (if h5 then H5 [] else Mem None) p2 = Ok s2
             /\ st_data s1 = st_data s2.
Proof.
  intros E.
  destruct (append_partition_independent_lemma h5 p1) as (s1 & H1 & D1).
  destruct (append_partition_independent_lemma h5 p2) as (s2 & H2 & D2).
  exists s1, s2. repeat split; auto. rewrite D1, D2. unfold spec_written. exact E.
Qed.

End Poly.

(* the pinned tree: an empty part after a non-empty one raises (F-C01a) *)
Lemma mem_write_part_empty_refuted_lemma :
  st_write_parts_orig 0 (Mem None) [[1; 2]; []] = Raise E_ValueError
  /\ spec_written [[1; 2]; []] = [1; 2].
Proof. split; vm_compute; reflexivity. Qed.

(* categorical key values *)
Lemma key_store_ok lo hi kv :
  (forall v, In v kv -> lo <= v <= hi) -> key_store lo hi kv = Ok kv.
Proof.
  intros H. unfold key_store.
  assert (forallb (fun v => (lo <=? v) && (v <=? hi)) kv = true) as ->; [|reflexivity].
  apply forallb_forall. intros v Hv. specialize (H v Hv). apply andb_true_intro. split; apply Z.leb_le; lia.
Qed.

Lemma key_store_int8_refuted_lemma : key_store (-128) 127 [300; -1] = Raise E_Overflow.
Proof. vm_compute. reflexivity. Qed.
