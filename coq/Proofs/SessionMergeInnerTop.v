(* Proofs/SessionMergeInnerTop.v — Session.ordered_merge_inner (C19): for every truthful flag combination
   and every argument form the payload columns are those of the relational inner join. *)
From Coq Require Import ZArith List Lia Bool ZifyBool.
From EV Require Import Res Arr Join JoinSpec JoinBase MapStream MapStreamSpec MapHelpers
  SessionMerge SessionMergeSpec SessionMergeBase SessionMergeTop SessionMergeInner SessionMergeSwap.
Import ListNotations.
Open Scope Z_scope.

Lemma map_valid_rows (src rows:list Z) n :
  (forall r, In r rows -> 0 <= r < n) -> n <= len src -> n <= INVALID_INDEX ->
  map_valid 0 src rows INVALID_INDEX = Ok (map (nthd 0 src) rows).
Proof.
  intros Hr Hn Hbig. rewrite (@map_valid_correct_gen Z 0 src INVALID_INDEX rows).
  - f_equal. unfold map_spec. apply map_ext_in. intros r Hin. specialize (Hr r Hin).
    destruct (r =? INVALID_INDEX) eqn:E; [lia|reflexivity].
  - intros i Hi _. assert (Hin : In (nthZ rows i) rows) by (unfold nthZ, nthd; apply nth_In; unfold len in Hi; lia).
    specialize (Hr _ Hin). lia.
Qed.

Lemma map_nonnil {A B} (f:A -> B) l : l <> [] -> map f l <> [].
Proof. destruct l; [congruence|discriminate]. Qed.

Section OMI.
Variables (L R:list Z) (lsrcs rsrcs:list (list Z)) (lu ru:bool).
Hypothesis Hls : lsrcs <> [].
Hypothesis Hrs : rsrcs <> [].
Hypothesis HL : sorted L.
Hypothesis HR : sorted R.
Hypothesis HLu : lu = true -> ssorted L.
Hypothesis HRu : ru = true -> ssorted R.
Hypothesis HlenL : forall s, In s lsrcs -> len s = len L.
Hypothesis HlenR : forall s, In s rsrcs -> len s = len R.
Hypothesis HbigL : len L <= INVALID_INDEX.
Hypothesis HbigR : len R <= INVALID_INDEX.

Let IJ := inner_join L R.
Let lcols := map (inner_payload_l 0 L R) lsrcs.
Let rcols := map (inner_payload_r 0 L R) rsrcs.
Let nrows := length IJ.

Lemma fst_range r : In r (map fst IJ) -> 0 <= r < len L.
Proof. intros H. apply in_map_iff in H. destruct H as ((i, j) & <- & Hp). apply inner_join_In in Hp. cbn [fst]. lia. Qed.
Lemma snd_range r : In r (map snd IJ) -> 0 <= r < len R.
Proof. intros H. apply in_map_iff in H. destruct H as ((i, j) & <- & Hp). apply inner_join_In in Hp. cbn [snd]. lia. Qed.

Lemma lcol s : In s lsrcs -> map_valid 0 s (map fst IJ) INVALID_INDEX = Ok (inner_payload_l 0 L R s).
Proof.
  intros Hs. rewrite (map_valid_rows s (map fst IJ) (len L) fst_range); try lia.
  - unfold inner_payload_l. rewrite map_map. reflexivity.
  - rewrite (HlenL s Hs). lia.
Qed.
Lemma rcol s : In s rsrcs -> map_valid 0 s (map snd IJ) INVALID_INDEX = Ok (inner_payload_r 0 L R s).
Proof.
  intros Hs. rewrite (map_valid_rows s (map snd IJ) (len R) snd_range); try lia.
  - unfold inner_payload_r. rewrite map_map. reflexivity.
  - rewrite (HlenR s Hs). lia.
Qed.

Lemma len_map_fst : length (map fst IJ) = nrows. Proof. apply map_length. Qed.
Lemma len_map_snd : length (map snd IJ) = nrows. Proof. apply map_length. Qed.

Lemma lcol_into s : In s lsrcs ->
  map_valid_into s (map fst IJ) (repeat 0 nrows) INVALID_INDEX = Ok (inner_payload_l 0 L R s).
Proof.
  intros Hs. unfold map_valid_into. rewrite <- len_map_fst. rewrite repeat_as_map. exact (lcol s Hs).
Qed.
Lemma rcol_into s : In s rsrcs ->
  map_valid_into s (map snd IJ) (repeat 0 nrows) INVALID_INDEX = Ok (inner_payload_r 0 L R s).
Proof.
  intros Hs. unfold map_valid_into. rewrite <- len_map_snd. rewrite repeat_as_map. exact (rcol s Hs).
Qed.

Definition zero_inner_sinks (srcs:list (list Z)) : list (list Z) := map (fun _ => repeat 0 nrows) srcs.

(* the two index maps, whichever kernel the flags select *)
Lemma omi_maps :
  let z := repeat 0 (Z.to_nat (len IJ)) in
  (if negb lu then
     if negb ru then ordered_inner_map_k IGen L R z z
     else do '(r2i, l2i) <- ordered_inner_map_k ILU R L z z; Ok (l2i, r2i)
   else
     if negb ru then ordered_inner_map_k ILU L R z z
     else ordered_inner_map_k IBU L R z z) = Ok (map fst IJ, map snd IJ).
Proof.
  intros z. assert (Hz : len z = len IJ) by (unfold z, len; rewrite repeat_length; lia).
  destruct lu eqn:Elu, ru eqn:Eru; cbn [negb].
  - apply (inner_map_correct_gen L R 0 HL HR IBU z z); auto.
  - apply (inner_map_correct_gen L R 0 HL HR ILU z z); auto. discriminate.
  - assert (Hsw : inner_join L R = map swap (inner_join R L)) by (apply inner_join_swap; auto).
    rewrite (inner_map_correct_gen R L 0 HR HL ILU z z); auto; try discriminate.
    + cbn [bind]. unfold IJ. rewrite Hsw, map_fst_swap, map_snd_swap. reflexivity.
    + rewrite Hz. unfold IJ. rewrite Hsw. unfold len. rewrite map_length. reflexivity.
    + rewrite Hz. unfold IJ. rewrite Hsw. unfold len. rewrite map_length. reflexivity.
  - apply (inner_map_correct_gen L R 0 HL HR IGen z z); auto; congruence.
Qed.

Theorem omi_correct fm ls0 rs0 :
  (fm = FArrSink -> ls0 = zero_inner_sinks lsrcs /\ rs0 = zero_inner_sinks rsrcs) ->
  ordered_merge_inner L R lsrcs rsrcs fm ls0 rs0 lu ru =
  Ok (match fm with FArr | FFld => RPair lcols rcols | _ => RNone end,
      match fm with FArr | FFld => None | _ => Some lcols end,
      match fm with FArr | FFld => None | _ => Some rcols end).
Proof.
  intros Hz. unfold ordered_merge_inner.
  assert (Hm : forall T (X Y:T), match lsrcs, rsrcs with [], _ | _, [] => X | _, _ => Y end = Y).
  { intros T X Y. destruct lsrcs; [congruence|]. destruct rsrcs; [congruence|reflexivity]. }
  rewrite Hm. rewrite (inner_result_size_correct_gen L R 0 HL HR). cbn [bind].
  fold IJ. rewrite omi_maps. cbn [bind].
  assert (Hnl : lcols <> []) by (apply map_nonnil; exact Hls).
  assert (Hnr : rcols <> []) by (apply map_nonnil; exact Hrs).
  unfold map_fields. destruct fm.
  - rewrite (mapM_ok _ (inner_payload_l 0 L R) lsrcs lcol). cbn [bind].
    rewrite (mapM_ok _ (inner_payload_r 0 L R) rsrcs rcol). cbn [bind].
    fold lcols rcols. unfold truthy. destruct lcols; [congruence|]. destruct rcols; [congruence|]. reflexivity.
  - destruct (Hz eq_refl) as (-> & ->). unfold zero_inner_sinks.
    rewrite combine_const, mapM_map. cbn [fst snd].
    rewrite (mapM_ok _ (inner_payload_l 0 L R) lsrcs lcol_into). cbn [bind].
    rewrite combine_const, mapM_map. cbn [fst snd].
    rewrite (mapM_ok _ (inner_payload_r 0 L R) rsrcs rcol_into). cbn [bind]. reflexivity.
  - rewrite (mapM_ok _ (inner_payload_l 0 L R) lsrcs lcol). cbn [bind].
    rewrite (mapM_ok _ (inner_payload_r 0 L R) rsrcs rcol). cbn [bind].
    fold lcols rcols. unfold truthy. destruct lcols; [congruence|]. destruct rcols; [congruence|]. reflexivity.
  - rewrite (mapM_ok _ (inner_payload_l 0 L R) lsrcs lcol). cbn [bind].
    rewrite (mapM_ok _ (inner_payload_r 0 L R) rsrcs rcol). cbn [bind]. reflexivity.
Qed.

End OMI.

(* "inner results list exactly the matching pairs" *)
Theorem inner_join_exactly_matching L R i j :
  In (i, j) (inner_join L R) <-> (0 <= i < len L /\ 0 <= j < len R /\ nthZ L i = nthZ R j).
Proof. apply inner_join_In. Qed.

Theorem inner_join_no_duplicates L R : NoDup (inner_join L R).
Proof.
  assert (H : forall l, Sorted.StronglySorted plt l -> NoDup l).
  { induction l as [|a t IH]; intros HS; [constructor|].
    apply Sorted.StronglySorted_inv in HS. destruct HS as (Ht & Hf). constructor; [|apply IH; exact Ht].
    intros Hin. rewrite Forall_forall in Hf. exact (plt_irrefl a (Hf a Hin)). }
  apply H. apply inner_join_from_SS.
Qed.
