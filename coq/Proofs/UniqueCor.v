(* Proofs/UniqueCor.v — C14: the property text read off the result of the (repaired) model:
   sorted distinct values, first-occurrence indices, uniques[inverse] reconstructs the column,
   counts sum to the row count. *)
From Coq Require Import ZArith List Lia Bool Sorted Permutation.
From EV Require Import Res Arr UniqueSpec Unique UniqueOrder UniqueUtf8 UniqueSort UniqueStore UniqueIsin UniqueScan UniqueMain.
Import ListNotations.
Open Scope Z_scope.

Definition valid_col (ss:list (list Z)) : Prop := Forall (fun s => valid_strb s = true) ss.

Lemma result_shape ss ind vals ri rv rc :
  valid_col ss -> let xs := map utf8_encode ss in stored xs ind vals ->
  exists u,
    unique_for_indexed_string true ind vals ri rv rc
    = Ok (u,
          (if ri then Some (map (fun x => idx_of x xs 0) (sort_uniq lexcmp xs)) else None),
          (if rv then Some (map (fun x => idx_of x (sort_uniq lexcmp xs) 0) xs) else None),
          (if rc then Some (map (fun x => cnt_of x xs) (sort_uniq lexcmp xs)) else None))
    /\ map utf8_encode u = sort_uniq lexcmp xs.
Proof.
  intros Hv xs Hst. destruct (unique_indexed_correct ss ind vals ri rv rc Hv Hst) as [[[[u ix] iv] ct] [Hr He]].
  unfold encode_result, spec_unique in He. injection He as Hu Hix Hiv Hct. subst ix iv ct.
  exists u. split; [exact Hr|exact Hu].
Qed.

Theorem unique_values_sorted_distinct ss ind vals ri rv rc :
  valid_col ss -> let xs := map utf8_encode ss in stored xs ind vals ->
  exists u ix iv ct, unique_for_indexed_string true ind vals ri rv rc = Ok (u, ix, iv, ct) /\
    StronglySorted (slt lexcmp) (map utf8_encode u) /\
    (forall x, In x (map utf8_encode u) <-> In x xs).
Proof.
  intros Hv xs Hst. destruct (result_shape ss ind vals ri rv rc Hv Hst) as [u [Hr Hu]].
  do 4 eexists. split; [exact Hr|]. rewrite Hu. split.
  - apply (spec_uniques_sorted lexcmp lexcmp_eq lexcmp_antisym lexcmp_trans).
  - apply (spec_uniques_members lexcmp lexcmp_eq).
Qed.

Theorem unique_index_first_occurrence ss ind vals rv rc :
  valid_col ss -> let xs := map utf8_encode ss in stored xs ind vals ->
  exists u ix iv ct, unique_for_indexed_string true ind vals true rv rc = Ok (u, Some ix, iv, ct) /\
    len ix = len u /\
    forall k, 0 <= k < len u ->
      let i := nthZ ix k in let v := utf8_encode (nthd [] u k) in
      0 <= i < len xs /\ nthd [] xs i = v /\ forall j, 0 <= j < i -> nthd [] xs j <> v.
Proof.
  intros Hv xs Hst. destruct (result_shape ss ind vals true rv rc Hv Hst) as [u [Hr Hu]].
  change (map utf8_encode ss) with xs in Hr, Hu.
  do 4 eexists. split; [exact Hr|].
  assert (Hl : len (sort_uniq lexcmp xs) = len u) by (rewrite <- Hu, len_map; reflexivity).
  split; [rewrite len_map; exact Hl|]. intros k Hk i v.
  assert (Hvk : v = nthd [] (sort_uniq lexcmp xs) k).
  { unfold v. rewrite <- Hu. symmetry. apply nthd_map_in. exact Hk. }
  assert (Hik : i = idx_of (nthd [] (sort_uniq lexcmp xs) k) xs 0).
  { unfold i, nthZ. apply (nthd_map_in [] 0 (fun x => idx_of x xs 0)). rewrite Hl. exact Hk. }
  rewrite Hvk, Hik. apply (spec_index_first_occurrence lexcmp lexcmp_eq). rewrite Hl. exact Hk.
Qed.

Theorem unique_inverse_reconstructs ss ind vals ri rc :
  valid_col ss -> let xs := map utf8_encode ss in stored xs ind vals ->
  exists u ix iv ct, unique_for_indexed_string true ind vals ri true rc = Ok (u, ix, Some iv, ct) /\
    len iv = len xs /\
    forall i, 0 <= i < len xs ->
      0 <= nthZ iv i < len u /\ utf8_encode (nthd [] u (nthZ iv i)) = nthd [] xs i.
Proof.
  intros Hv xs Hst. destruct (result_shape ss ind vals ri true rc Hv Hst) as [u [Hr Hu]].
  change (map utf8_encode ss) with xs in Hr, Hu.
  do 4 eexists. split; [exact Hr|]. split; [apply len_map|]. intros i Hi.
  assert (Hl : len (sort_uniq lexcmp xs) = len u) by (rewrite <- Hu, len_map; reflexivity).
  assert (Hk : nthZ (map (fun x => idx_of x (sort_uniq lexcmp xs) 0) xs) i
               = idx_of (nthd [] xs i) (sort_uniq lexcmp xs) 0).
  { unfold nthZ. apply (nthd_map_in [] 0 (fun x => idx_of x (sort_uniq lexcmp xs) 0)). exact Hi. }
  rewrite Hk. destruct (spec_inverse_reconstructs lexcmp lexcmp_eq [] xs i Hi) as [H1 H2]. cbn zeta in H1, H2.
  rewrite Hl in H1. split; [exact H1|].
  rewrite <- (nthd_map_in [] [] utf8_encode u _ H1). rewrite Hu. exact H2.
Qed.

Theorem unique_counts_sum ss ind vals ri rv :
  valid_col ss -> let xs := map utf8_encode ss in stored xs ind vals ->
  exists u ix iv ct, unique_for_indexed_string true ind vals ri rv true = Ok (u, ix, iv, Some ct) /\
    len ct = len u /\ sumZ ct = len xs /\
    forall k, 0 <= k < len u -> nthZ ct k = cnt_of (utf8_encode (nthd [] u k)) xs /\ 1 <= nthZ ct k.
Proof.
  intros Hv xs Hst. destruct (result_shape ss ind vals ri rv true Hv Hst) as [u [Hr Hu]].
  change (map utf8_encode ss) with xs in Hr, Hu.
  do 4 eexists. split; [exact Hr|].
  assert (Hl : len (sort_uniq lexcmp xs) = len u) by (rewrite <- Hu, len_map; reflexivity).
  split; [rewrite len_map; exact Hl|]. split; [apply (spec_counts_sum lexcmp lexcmp_eq lexcmp_antisym lexcmp_trans)|].
  intros k Hk.
  assert (Hvk : utf8_encode (nthd [] u k) = nthd [] (sort_uniq lexcmp xs) k).
  { rewrite <- Hu. symmetry. apply nthd_map_in. exact Hk. }
  assert (Hck : nthZ (map (fun x => cnt_of x xs) (sort_uniq lexcmp xs)) k
                = cnt_of (nthd [] (sort_uniq lexcmp xs) k) xs).
  { unfold nthZ. apply (nthd_map_in [] 0 (fun x => cnt_of x xs)). rewrite Hl. exact Hk. }
  rewrite Hck, Hvk. split; [reflexivity|]. apply (count_in lexcmp lexcmp_eq).
  apply (sort_uniq_in lexcmp lexcmp_eq). unfold nthd. apply nth_In. unfold len in *. lia.
Qed.

(* isin: flag i is true iff row i is one of the (UTF-8 encoded) non-None test strings *)
Theorem isin_membership (ts:list (option (list Z))) xs ind vals fuel :
  Forall (fun s => valid_strb s = true) (somes ts) -> stored xs ind vals ->
  (fuel >= isin_fuel (somes ts))%nat ->
  exists flags, isin_for_indexed_string_field fuel (Some ts) ind vals = Ok flags /\
    len flags = len xs /\
    forall i, 0 <= i < len xs ->
      (nthd false flags i = true <-> exists s, In (Some s) ts /\ utf8_encode s = nthd [] xs i).
Proof.
  intros Hv Hst Hf. eexists. split; [apply (isin_indexed_correct ts xs ind vals fuel Hv Hst Hf)|].
  split; [unfold spec_isin; apply len_map|]. intros i Hi.
  rewrite (spec_isin_iff lexcmp lexcmp_eq xs _ i Hi []). rewrite in_map_iff. split.
  - intros [[s|] [E Hin]]; cbn [option_map] in E; [|discriminate]. injection E as E. eauto.
  - intros [s [Hin E]]. exists (Some s). cbn [option_map]. rewrite E. split; [reflexivity|exact Hin].
Qed.
