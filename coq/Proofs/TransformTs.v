(* Proofs/TransformTs.v — parse_timestamp_bytes reads back every accepted layout. *)
From Coq Require Import ZArith List Bool Lia ZifyBool.
From EV Require Import Res Arr Transform TransformSpec TransformBase.
Import ListNotations.
Open Scope Z_scope.

(* finite checks, lifted from a computed forallb over 0..n-1 *)
Lemma forallb_range (P:Z -> bool) (n:nat) :
  forallb (fun k => P (Z.of_nat k)) (seq 0 n) = true -> forall v, 0 <= v < Z.of_nat n -> P v = true.
Proof.
  intros H v Hv. rewrite forallb_forall in H. specialize (H (Z.to_nat v)).
  rewrite Z2Nat.id in H by lia. apply H. apply in_seq. lia.
Qed.

Lemma py_int_d2 v : 0 <= v < 100 -> py_int (d2 v) = Some v.
Proof.
  intros H.
  pose proof (forallb_range (fun v => match py_int (d2 v) with Some r => r =? v | None => false end) 100) as F.
  specialize (F ltac:(vm_compute; reflexivity) v H). cbv beta in F.
  destruct (py_int (d2 v)); [|discriminate]. f_equal. lia.
Qed.

Lemma py_int_d3 v : 0 <= v < 1000 -> py_int (d3 v) = Some v.
Proof.
  intros H.
  pose proof (forallb_range (fun v => match py_int (d3 v) with Some r => r =? v | None => false end) 1000) as F.
  specialize (F ltac:(vm_compute; reflexivity) v H). cbv beta in F.
  destruct (py_int (d3 v)); [|discriminate]. f_equal. lia.
Qed.

Lemma py_int_d4 v : 0 <= v < 10000 -> py_int (d4 v) = Some v.
Proof.
  intros H.
  pose proof (forallb_range (fun v => match py_int (d4 v) with Some r => r =? v | None => false end) 10000) as F.
  specialize (F ltac:(vm_compute; reflexivity) v H). cbv beta in F.
  destruct (py_int (d4 v)); [|discriminate]. f_equal. lia.
Qed.

(* "5 " as read by int(value[20:22]) in the 25-byte UTC layout *)
Lemma py_int_d1sp v : 0 <= v < 10 -> py_int [digit v; 32] = Some v.
Proof.
  intros H.
  pose proof (forallb_range (fun v => match py_int [digit v; 32] with Some r => r =? v | None => false end) 10) as F.
  specialize (F ltac:(vm_compute; reflexivity) v H). cbv beta in F.
  destruct (py_int [digit v; 32]); [|discriminate]. f_equal. lia.
Qed.

(* six digits: two groups of three *)
Lemma digit_is_digit v : is_digit (digit v) = true.
Proof. unfold is_digit, digit. pose proof (Z.mod_pos_bound v 10). lia. Qed.

Lemma digit_val v : digit v - 48 = v mod 10.
Proof. unfold digit. lia. Qed.

Definition dvalue (ds:list Z) (acc:Z) : Z := fold_left (fun a b => a * 10 + (b - 48)) ds acc.

Lemma digits_loop_digits ds : forall acc, forallb is_digit ds = true ->
  digits_loop ds acc false = Some (dvalue ds acc, []).
Proof.
  induction ds as [|b ds IH]; intros acc H; [reflexivity|].
  cbn [forallb] in H. apply andb_prop in H. destruct H as [Hb Hd].
  cbn [digits_loop]. rewrite Hb. apply IH. exact Hd.
Qed.

Lemma py_int_nolimit_digits b ds : forallb is_digit (b :: ds) = true -> py_int_nolimit (b :: ds) = Some (dvalue (b :: ds) 0).
Proof.
  intros H. pose proof H as H0. cbn [forallb] in H0. apply andb_prop in H0. destruct H0 as [Hb Hd].
  assert (Hc : b = 48 \/ b = 49 \/ b = 50 \/ b = 51 \/ b = 52 \/ b = 53 \/ b = 54 \/ b = 55 \/ b = 56 \/ b = 57)
    by (unfold is_digit in Hb; lia).
  unfold py_int_nolimit.
  destruct Hc as [->|[->|[->|[->|[->|[->|[->|[->|[->| ->]]]]]]]]];
    cbn [lstrip is_ws Z.eqb Z.leb Z.compare Pos.compare Pos.compare_cont andb orb Pos.eqb is_digit];
    (rewrite digits_loop_digits by exact H; reflexivity).
Qed.

(* the digit limit of int() (4300) cannot bind on a text of at most 4300 bytes *)
Lemma count_digits_le l : count_digits l <= len l.
Proof.
  unfold count_digits, len. induction l as [|b l IH]; cbn [filter length]; [lia|].
  destruct (is_digit b); cbn [length]; lia.
Qed.

Lemma py_int_short l : len l <= INT_MAX_STR_DIGITS -> py_int l = py_int_nolimit l.
Proof.
  intros H. unfold py_int. destruct (py_int_nolimit l) as [v|]; [|reflexivity].
  pose proof (count_digits_le l) as C.
  destruct (INT_MAX_STR_DIGITS <? count_digits l) eqn:E; [lia|reflexivity].
Qed.

Lemma py_int_digits b ds : len (b :: ds) <= INT_MAX_STR_DIGITS ->
  forallb is_digit (b :: ds) = true -> py_int (b :: ds) = Some (dvalue (b :: ds) 0).
Proof. intros L H. rewrite py_int_short by exact L. apply py_int_nolimit_digits. exact H. Qed.

Lemma py_int_d6 v : 0 <= v < 1000000 -> py_int (d6 v) = Some v.
Proof.
  intros H. unfold d6, d3. cbn [app]. rewrite py_int_digits; [|unfold len, INT_MAX_STR_DIGITS; cbn [length]; lia|].
  - f_equal. unfold dvalue. cbn [fold_left]. rewrite !digit_val.
    replace (v / 100) with (v / 10 / 10) by (rewrite Z.div_div by lia; reflexivity).
    replace (v / 1000) with (v / 10 / 10 / 10) by (rewrite !Z.div_div by lia; reflexivity).
    replace (v / 10 / 10 / 10 / 100) with (v / 10 / 10 / 10 / 10 / 10) by (rewrite !Z.div_div by lia; reflexivity).
    set (a1 := v / 10). set (a2 := a1 / 10). set (a3 := a2 / 10). set (a4 := a3 / 10). set (a5 := a4 / 10).
    pose proof (Z.div_mod v 10 ltac:(lia)). pose proof (Z.div_mod a1 10 ltac:(lia)).
    pose proof (Z.div_mod a2 10 ltac:(lia)). pose proof (Z.div_mod a3 10 ltac:(lia)).
    pose proof (Z.div_mod a4 10 ltac:(lia)). pose proof (Z.div_mod a5 10 ltac:(lia)).
    pose proof (Z.mod_pos_bound v 10 ltac:(lia)). pose proof (Z.mod_pos_bound a1 10 ltac:(lia)).
    pose proof (Z.mod_pos_bound a2 10 ltac:(lia)). pose proof (Z.mod_pos_bound a3 10 ltac:(lia)).
    pose proof (Z.mod_pos_bound a4 10 ltac:(lia)). pose proof (Z.mod_pos_bound a5 10 ltac:(lia)).
    fold a1 in H0. fold a2 in H1. fold a3 in H2. fold a4 in H3. fold a5 in H4.
    assert (a5 / 10 = 0) by (apply Z.div_small; lia).
    lia.
  - cbn [forallb]. rewrite !digit_is_digit. reflexivity.
Qed.

(* ---- the layouts ---- *)
Definition int_of (l:list Z) : res Z := match py_int l with Some v => Ok v | None => Raise E_ValueError end.

Section Shapes.
  Variables y0 y1 y2 y3 m0 m1 d0 d1 h0 h1 i0 i1 s0 s1 : Z.
  Let secs : list Z := [y0; y1; y2; y3; 45; m0; m1; 45; d0; d1; 32; h0; h1; 58; i0; i1; 58; s0; s1].
  Let fields (k:Z -> Z -> Z -> Z -> Z -> Z -> res Z) : res Z :=
    do y <- int_of [y0; y1; y2; y3]; do m <- int_of [m0; m1]; do d <- int_of [d0; d1];
    do hh <- int_of [h0; h1]; do mm <- int_of [i0; i1]; do ss <- int_of [s0; s1]; k y m d hh mm ss.

  Lemma shape_naive : parse_timestamp_bytes secs = fields (fun y m d hh mm ss => datetime_us y m d hh mm ss 0).
  Proof. reflexivity. Qed.
  Lemma shape_utc : parse_timestamp_bytes (secs ++ [32; 85; 84; 67]) = fields (fun y m d hh mm ss => datetime_us y m d hh mm ss 0).
  Proof. reflexivity. Qed.
  Lemma shape_utc1 f0 : parse_timestamp_bytes (secs ++ [46; f0; 32; 85; 84; 67])
    = fields (fun y m d hh mm ss => do f <- int_of [f0; 32]; datetime_us y m d hh mm ss (f * 100000)).
  Proof. reflexivity. Qed.
  Lemma shape_utc2 f0 f1 : parse_timestamp_bytes (secs ++ [46; f0; f1; 32; 85; 84; 67])
    = fields (fun y m d hh mm ss => do f <- int_of [f0; f1]; datetime_us y m d hh mm ss (f * 10000)).
  Proof. reflexivity. Qed.
  Lemma shape_utc3 f0 f1 f2 : parse_timestamp_bytes (secs ++ [46; f0; f1; f2; 32; 85; 84; 67])
    = fields (fun y m d hh mm ss => do f <- int_of [f0; f1; f2]; datetime_us y m d hh mm ss (f * 1000)).
  Proof. reflexivity. Qed.
  Lemma shape_off sg o0 o1 o2 o3 : parse_timestamp_bytes (secs ++ [sg; o0; o1; 58; o2; o3])
    = fields (fun y m d hh mm ss => datetime_us y m d hh mm ss 0).
  Proof. reflexivity. Qed.
  Lemma shape_offus f0 f1 f2 f3 f4 f5 sg o0 o1 o2 o3 :
    parse_timestamp_bytes (secs ++ [46; f0; f1; f2; f3; f4; f5; sg; o0; o1; 58; o2; o3])
    = fields (fun y m d hh mm ss => do f <- int_of [f0; f1; f2; f3; f4; f5]; datetime_us y m d hh mm ss f).
  Proof. reflexivity. Qed.
End Shapes.

Lemma int_of_d2 v : 0 <= v < 100 -> int_of [digit (v / 10); digit v] = Ok v.
Proof. intros H. unfold int_of. pose proof (py_int_d2 v H) as P. unfold d6, d4, d3, d2 in P. cbn [app] in P. rewrite P. reflexivity. Qed.
Lemma int_of_d3 v : 0 <= v < 1000 -> int_of [digit (v / 100); digit (v / 10); digit v] = Ok v.
Proof. intros H. unfold int_of. pose proof (py_int_d3 v H) as P. unfold d6, d4, d3, d2 in P. cbn [app] in P. rewrite P. reflexivity. Qed.
Lemma int_of_d4 v : 0 <= v < 10000 -> int_of [digit (v / 1000); digit (v / 100); digit (v / 10); digit v] = Ok v.
Proof. intros H. unfold int_of. pose proof (py_int_d4 v H) as P. unfold d6, d4, d3, d2 in P. cbn [app] in P. rewrite P. reflexivity. Qed.
Lemma int_of_d1sp v : 0 <= v < 10 -> int_of [digit v; 32] = Ok v.
Proof. intros H. unfold int_of. pose proof (py_int_d1sp v H) as P. unfold d6, d4, d3, d2 in P. cbn [app] in P. rewrite P. reflexivity. Qed.
Lemma int_of_d6 v : 0 <= v < 1000000 ->
  int_of [digit (v / 1000 / 100); digit (v / 1000 / 10); digit (v / 1000); digit (v / 100); digit (v / 10); digit v] = Ok v.
Proof. intros H. unfold int_of. pose proof (py_int_d6 v H) as P. unfold d6, d4, d3, d2 in P. cbn [app] in P. rewrite P. reflexivity. Qed.

Lemma datetime_us_ok c us : civil_ok c = true -> 0 <= us <= 999999 ->
  datetime_us (cy c) (cmo c) (cd c) (chh c) (cmi c) (css c) us = Ok (instant_us c us).
Proof.
  intros H Hu. unfold civil_ok in H. unfold datetime_us, instant_us.
  repeat (apply andb_prop in H; destruct H as [H ?]).
  replace (negb ((1 <=? cy c) && (cy c <=? 9999))) with false by lia.
  replace (negb ((1 <=? cmo c) && (cmo c <=? 12))) with false by lia.
  replace (negb ((1 <=? cd c) && (cd c <=? days_in_month (cy c) (cmo c)))) with false by lia.
  replace (negb ((0 <=? chh c) && (chh c <=? 23))) with false by lia.
  replace (negb ((0 <=? cmi c) && (cmi c <=? 59))) with false by lia.
  replace (negb ((0 <=? css c) && (css c <=? 59))) with false by lia.
  replace (negb ((0 <=? us) && (us <=? 999999))) with false by lia.
  reflexivity.
Qed.

Lemma civil_bounds c : civil_ok c = true ->
  0 <= cy c < 10000 /\ 0 <= cmo c < 100 /\ 0 <= cd c < 100 /\ 0 <= chh c < 100 /\ 0 <= cmi c < 100 /\ 0 <= css c < 100.
Proof.
  intros H. unfold civil_ok in H. repeat (apply andb_prop in H; destruct H as [H ?]).
  assert (days_in_month (cy c) (cmo c) <= 31).
  { unfold days_in_month. destruct (cmo c =? 2); [destruct (is_leap (cy c)); lia|].
    destruct (inl (cmo c) [4; 6; 9; 11]); lia. }
  lia.
Qed.

(* what the parser returns on every accepted layout: the wall-clock reading taken as UTC *)
Lemma parse_layout l c : layout_ok l = true -> civil_ok c = true ->
  parse_timestamp_bytes (fmt_ts l c) = Ok (instant_us c (layout_us l)).
Proof.
  intros Hl Hc. destruct (civil_bounds c Hc) as [By [Bm [Bd [Bh [Bi Bs]]]]].
  destruct l; unfold fmt_ts, fmt_secs, fmt_date, SUF_UTC, fmt_off, d6, d4, d3, d2, layout_us; cbn [app];
    cbn [layout_ok] in Hl.
  - rewrite shape_naive. rewrite int_of_d4, !int_of_d2 by assumption. cbn [bind]. apply datetime_us_ok; [exact Hc|lia].
  - refine (eq_trans (shape_utc _ _ _ _ _ _ _ _ _ _ _ _ _ _) _). rewrite int_of_d4, !int_of_d2 by assumption. cbn [bind].
    apply datetime_us_ok; [exact Hc|lia].
  - refine (eq_trans (shape_utc1 _ _ _ _ _ _ _ _ _ _ _ _ _ _ _) _). rewrite int_of_d4, !int_of_d2 by assumption. cbn [bind].
    rewrite int_of_d1sp by lia. cbn [bind]. apply datetime_us_ok; [exact Hc|lia].
  - refine (eq_trans (shape_utc2 _ _ _ _ _ _ _ _ _ _ _ _ _ _ _ _) _). rewrite int_of_d4, !int_of_d2 by (assumption || lia). cbn [bind].
    apply datetime_us_ok; [exact Hc|lia].
  - refine (eq_trans (shape_utc3 _ _ _ _ _ _ _ _ _ _ _ _ _ _ _ _ _) _). rewrite int_of_d4, !int_of_d2 by assumption. cbn [bind].
    rewrite int_of_d3 by lia. cbn [bind]. apply datetime_us_ok; [exact Hc|lia].
  - refine (eq_trans (shape_off _ _ _ _ _ _ _ _ _ _ _ _ _ _ _ _ _ _ _) _). rewrite int_of_d4, !int_of_d2 by assumption. cbn [bind].
    apply datetime_us_ok; [exact Hc|lia].
  - refine (eq_trans (shape_offus _ _ _ _ _ _ _ _ _ _ _ _ _ _ _ _ _ _ _ _ _ _ _ _ _) _). rewrite int_of_d4, !int_of_d2 by assumption.
    cbn [bind]. rewrite int_of_d6 by lia. cbn [bind]. apply datetime_us_ok; [exact Hc|lia].
Qed.

(* every layout without a UTC offset (or with offset 00:00) is read back as the instant it denotes *)
Theorem ts_layout_roundtrip_proof l c : layout_ok l = true -> civil_ok c = true -> layout_offset_us l = 0 ->
  parse_timestamp_bytes (fmt_ts l c) = Ok (denoted_us l c).
Proof.
  intros Hl Hc Ho. rewrite parse_layout by assumption. unfold denoted_us. rewrite Ho. f_equal. lia.
Qed.
