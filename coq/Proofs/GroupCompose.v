(* Proofs/GroupCompose.v — C07, the frame-level composition (extension E5):
   (1) the loop body of agg_targets for EVERY target class (plain and indexed string),
   (2) the name bookkeeping over several targets in one call and several calls into one destination,
       up to  spec_groupby_steps = Some r -> df_groupby_steps = Ok r,
   (3) Session.aggregate_* and Session.distinct against Spec/GroupSpec.v. *)
From Coq Require Import ZArith List Bool Lia Sorted Permutation.
From EV Require Import Res Arr StableSort StableSortProofs Spans SpansSpec SpansBase SpansRef SpansField SpansKernels
  SpansSorted SpansOrder SpansReduce SpansIndexed SpansIndexedReduce SpansMain
  FilterIndex FilterIndexSpec FilterIndexKernels FilterIndexSort FilterIndexFrames
  Group GroupSpec GroupCore GroupModel GroupFrames.
Import ListNotations.
Open Scope Z_scope.

(* ================================================================== A. spans *)
Lemma span_pairs_bounds n sp a b : valid_spans n sp -> In (a, b) (span_pairs sp) -> 0 <= a /\ a < b /\ b <= n.
Proof.
  intros Hv Hin. rewrite span_pairs_zrange in Hin. apply in_map_iff in Hin. destruct Hin as [i [E Hi]].
  apply in_zrange in Hi. inversion E; subst a b. apply (valid_spans_bounds n sp i Hv). lia.
Qed.

(* ================================================================== B. cells of a plain column *)
Lemma bytes_ltb_single x y : bytes_ltb [x] [y] = (x <? y).
Proof. cbn [bytes_ltb]. destruct (x <? y) eqn:E1; [reflexivity|]. destruct (y <? x); reflexivity. Qed.

Lemma find_index_map {A B} (g:A -> B) (p:B -> bool) l : find_index p (map g l) = find_index (fun x => p (g x)) l.
Proof. induction l as [|x t IH]; [reflexivity|]. cbn [map find_index]. rewrite IH. reflexivity. Qed.

Lemma find_index_ext {A} (p q:A -> bool) l : (forall x, In x l -> p x = q x) -> find_index p l = find_index q l.
Proof.
  induction l as [|x t IH]; intros H; [reflexivity|]. cbn [find_index].
  rewrite (H x (or_introl eq_refl)). rewrite IH; [reflexivity|]. intros y Hy. apply H. right. exact Hy.
Qed.

Lemma forallb_map' {A B} (g:A -> B) (p:B -> bool) l : forallb p (map g l) = forallb (fun x => p (g x)) l.
Proof. induction l as [|x t IH]; [reflexivity|]. cbn [map forallb]. rewrite IH. reflexivity. Qed.

Section MapOrder.
Context {A B:Type}.
Variables (ltbA:A -> A -> bool) (ltbB:B -> B -> bool) (g:A -> B).
Hypothesis Hg : forall a b, ltbB (g a) (g b) = ltbA a b.

Lemma argmin_spec_map l : argmin_spec ltbB (map g l) = argmin_spec ltbA l.
Proof.
  unfold argmin_spec. rewrite find_index_map. apply find_index_ext. intros x _.
  unfold is_least. rewrite forallb_map'. apply forallb_ext_in'. intros y _. rewrite Hg. reflexivity.
Qed.
Lemma argmax_spec_map l : argmax_spec ltbB (map g l) = argmax_spec ltbA l.
Proof.
  unfold argmax_spec. rewrite find_index_map. apply find_index_ext. intros x _.
  unfold is_greatest. rewrite forallb_map'. apply forallb_ext_in'. intros y _. rewrite Hg. reflexivity.
Qed.
End MapOrder.

Lemma uncell_nthd_cells l k : uncell (nthd [] (scalar_cells l) k) = nthd 0 l k.
Proof.
  unfold uncell, scalar_cells, nthd.
  destruct (Nat.lt_ge_cases (Z.to_nat k) (length l)) as [H|H].
  - rewrite (nth_map_in _ 0) by exact H. reflexivity.
  - rewrite (nth_overflow l) by exact H. rewrite (nth_overflow (map (fun x : Z => [x]) l)) by (rewrite map_length; exact H). reflexivity.
Qed.

Lemma len_scalar_cells l : len (scalar_cells l) = len l.
Proof. unfold scalar_cells, len. rewrite map_length. reflexivity. Qed.

(* the aggregates on cells restricted to one-element cells are the aggregates on the scalars *)
Lemma agg_cells_scalar a l : uncell (agg_cells a (scalar_cells l)) = agg_scalar a l.
Proof.
  destruct a; cbn [agg_cells agg_scalar]; unfold min_spec, max_spec, first_of, last_of.
  - unfold scalar_cells at 2. rewrite (argmin_spec_map Z.ltb bytes_ltb (fun x => [x]) bytes_ltb_single).
    apply uncell_nthd_cells.
  - unfold scalar_cells at 2. rewrite (argmax_spec_map Z.ltb bytes_ltb (fun x => [x]) bytes_ltb_single).
    apply uncell_nthd_cells.
  - apply uncell_nthd_cells.
  - rewrite len_scalar_cells. apply uncell_nthd_cells.
Qed.

Lemma members_map {A B} (g:A -> B) k : forall kr vals, members k kr (map g vals) = map g (members k kr vals).
Proof.
  unfold members, members_by.
  induction kr as [|r kr IH]; intros [|v vals]; try reflexivity.
  cbn [map combine filter fst]. destruct (keqb rowle r k); cbn [map snd]; rewrite IH; reflexivity.
Qed.

Lemma agg_ref_scalar a kr d :
  map uncell (agg_ref (agg_cells a) kr (scalar_cells d)) = agg_ref (agg_scalar a) kr d.
Proof.
  unfold agg_ref, agg_by. rewrite map_map. apply map_ext. intros k.
  fold (members k kr (scalar_cells d)). fold (members k kr d).
  unfold scalar_cells. rewrite members_map. apply agg_cells_scalar.
Qed.

(* ================================================================== C. indexed string targets *)
Lemma psums_from_sortedb acc l : Forall (fun x => 0 <= x) l -> sortedb (psums_from acc l) = true.
Proof.
  intros H. revert acc. induction H as [|x t Hx Ht IH]; intros acc; [reflexivity|].
  cbn [psums_from]. destruct (psums_from_head (acc + x) t) as [r Hr].
  specialize (IH (acc + x)). rewrite Hr in *.
  change (sortedb (acc :: acc + x :: r)) with ((acc <=? acc + x) && sortedb (acc + x :: r)). rewrite IH.
  replace (acc <=? acc + x) with true by (symmetry; apply Z.leb_le; lia). reflexivity.
Qed.

Lemma psums_lens_facts (cs:list cell) :
  let i := psums (lens cs) in
  sorted i /\ 1 <= len i /\ nthZ i 0 = 0 /\ nthZ i (len i - 1) = len (concat cs) /\ len i - 1 = len cs.
Proof.
  cbn zeta.
  assert (Hl : len (psums (lens cs)) = len cs + 1).
  { rewrite len_psums. unfold lens, len. rewrite map_length. reflexivity. }
  split; [apply sortedb_sorted; apply psums_from_sortedb; apply lens_nonneg|].
  split; [pose proof (len_nonneg cs); lia|].
  split; [unfold psums; destruct (psums_from_head 0 (lens cs)) as [r ->]; reflexivity|].
  split; [|lia].
  rewrite Hl. replace (len cs + 1 - 1) with (len cs) by lia. rewrite len_concat. unfold off.
  unfold nthZ, nthd, psums. rewrite psums_from_nth.
  - unfold len. rewrite Nat2Z.id. replace (length cs) with (length (lens cs)) by (unfold lens; apply map_length).
    rewrite firstn_all. lia.
  - unfold len. rewrite Nat2Z.id. unfold lens. rewrite map_length. lia.
Qed.

Lemma indexed_rows_enc (cs:list cell) : indexed_rows (psums (lens cs)) (concat cs) = cs.
Proof. unfold indexed_rows, lens. apply (slices_psums (V:=Z)). Qed.

(* the row every span contributes, per aggregate *)
Definition pos_of (a:agg) (cs:list cell) (ab:Z * Z) : Z :=
  match a with
  | AMin => fst ab + argmin_spec bytes_ltb (slice cs (fst ab) (snd ab))
  | AMax => fst ab + argmax_spec bytes_ltb (slice cs (fst ab) (snd ab))
  | AFirst => fst ab
  | ALast => snd ab - 1
  end.

Definition idx_kernel (a:agg) (sp i v:list Z) : res (list Z) :=
  match a with
  | AMin => apply_spans_index_of_min_indexed sp i v
  | AMax => apply_spans_index_of_max_indexed sp i v
  | AFirst => apply_spans_index_of_first sp
  | ALast => apply_spans_index_of_last sp
  end.

Lemma idx_kernel_ok a sp (cs:list cell) : valid_spans (len cs) sp ->
  idx_kernel a sp (psums (lens cs)) (concat cs) = Ok (map (pos_of a cs) (span_pairs sp)).
Proof.
  intros Hv. destruct (psums_lens_facts cs) as (H1 & H2 & H3 & H4 & H5). cbn zeta in *.
  assert (Hl : 1 <= len sp) by apply Hv.
  destruct a; cbn [idx_kernel].
  - rewrite string_argmin_pf by (try assumption; rewrite H5; exact Hv). rewrite indexed_rows_enc. reflexivity.
  - rewrite string_argmax_pf by (try assumption; rewrite H5; exact Hv). rewrite indexed_rows_enc. reflexivity.
  - rewrite apply_spans_index_of_first_ref by exact Hl. reflexivity.
  - rewrite apply_spans_index_of_last_ref by exact Hl. reflexivity.
Qed.

Lemma argmax_spec_range (x:cell) t : 0 <= argmax_spec bytes_ltb (x :: t) < len (x :: t).
Proof.
  exact (proj1 (argmin_spec_least (flip_ltb bytes_ltb) [] (strict_total_flip _ bytes_ltb_strict_total) x t)).
Qed.
Lemma argmin_spec_range (x:cell) t : 0 <= argmin_spec bytes_ltb (x :: t) < len (x :: t).
Proof. exact (proj1 (argmin_spec_least bytes_ltb [] bytes_ltb_strict_total x t)). Qed.

Lemma pos_of_ok a (cs:list cell) x y : 0 <= x -> x < y -> y <= len cs ->
  0 <= pos_of a cs (x, y) < len cs /\ nthd [] cs (pos_of a cs (x, y)) = agg_cells a (slice cs x y).
Proof.
  intros Hx Hxy Hy.
  assert (Hls : len (slice cs x y) = y - x) by (apply len_slice; lia).
  destruct a; cbn [pos_of fst snd agg_cells]; unfold min_spec, max_spec, first_of, last_of.
  - assert (Hr : 0 <= argmin_spec bytes_ltb (slice cs x y) < y - x).
    { destruct (slice cs x y) as [|c0 t] eqn:E; [rewrite len_nil in Hls; lia|]. rewrite <- Hls. apply argmin_spec_range. }
    rewrite nthd_slice by lia. split; [lia|reflexivity].
  - assert (Hr : 0 <= argmax_spec bytes_ltb (slice cs x y) < y - x).
    { destruct (slice cs x y) as [|c0 t] eqn:E; [rewrite len_nil in Hls; lia|]. rewrite <- Hls. apply argmax_spec_range. }
    rewrite nthd_slice by lia. split; [lia|reflexivity].
  - rewrite nthd_slice by lia. rewrite Z.add_0_r. split; [lia|reflexivity].
  - rewrite Hls. rewrite nthd_slice by lia. split; [lia|]. f_equal. lia.
Qed.

Lemma idx_results_gather a sp (cs:list cell) : valid_spans (len cs) sp ->
  in_range (len cs) (map (pos_of a cs) (span_pairs sp)) = true /\
  gather [] cs (map (pos_of a cs) (span_pairs sp)) = reduce_spans (fun (_:Z) l => agg_cells a l) sp cs.
Proof.
  intros Hv. split.
  - unfold in_range. apply forallb_forall. intros p Hp. apply in_map_iff in Hp. destruct Hp as [[x y] [<- Hin]].
    destruct (span_pairs_bounds _ _ _ _ Hv Hin) as (B1 & B2 & B3).
    destruct (pos_of_ok a cs x y B1 B2 B3) as [Hr _]. lia.
  - unfold gather, reduce_spans. rewrite map_map. apply map_ext_in. intros [x y] Hin.
    destruct (span_pairs_bounds _ _ _ _ Hv Hin) as (B1 & B2 & B3).
    destruct (pos_of_ok a cs x y B1 B2 B3) as [_ He]. exact He.
Qed.

Lemma field_len_enc m w (cs:list cell) : field_len (mkField m w (BIdx (psums (lens cs)) (concat cs))) = len cs.
Proof.
  unfold field_len. cbn [fbody]. rewrite len_psums. unfold lens, len. rewrite map_length. lia.
Qed.

(* FieldDataOps.apply_spans_X on an indexed string field: index kernel, then apply_index on the source *)
Lemma field_apply_spans_idx a m w (cs:list cell) sp target in_place :
  valid_spans (len cs) sp -> in_place && is_some target = false ->
  field_apply_spans a (mkField m w (BIdx (psums (lens cs)) (concat cs))) sp target in_place
  = deliver (mkField m w (BIdx (psums (lens cs)) (concat cs)))
            (encode_like (BIdx [] []) (reduce_spans (fun (_:Z) l => agg_cells a l) sp cs)) target in_place.
Proof.
  intros Hv Hflag. unfold field_apply_spans.
  rewrite (adj_any_eq_ssorted sp (proj1 Hv)), Hflag. cbn [fbody].
  pose proof (idx_kernel_ok a sp cs Hv) as Hk.
  destruct (idx_results_gather a sp cs Hv) as [Hr Hg].
  assert (E : forall results, results = map (pos_of a cs) (span_pairs sp) ->
    field_apply_index (mkField m w (BIdx (psums (lens cs)) (concat cs))) results target in_place
    = deliver (mkField m w (BIdx (psums (lens cs)) (concat cs)))
              (encode_like (BIdx [] []) (reduce_spans (fun (_:Z) l => agg_cells a l) sp cs)) target in_place).
  { intros results ->. rewrite field_index_correct.
    - cbn [fbody]. rewrite idx_select, Hg. reflexivity.
    - cbn [fbody]. apply wf_idx.
    - rewrite field_len_enc. exact Hr.
    - exact Hflag. }
  destruct a; cbn [idx_kernel] in Hk; rewrite Hk; cbn [bind]; apply E; reflexivity.
Qed.

Section AggOne.
Variables (cols:frame) (by_:list Z) (hint:bool) (kr:list (list cell)) (kcs:list (list cell)).
Let n := nrows cols.
Hypothesis Hpre : groupby_pre cols by_ hint = true.
Hypothesis Hkc : key_columns cols by_ = Some kcs.
Hypothesis Hkr : kr = FilterIndexSpec.rows_of n kcs.
Let g := gb_of by_ hint kr.
Let sp := spans_ref rneqb (sort_rows kr).

Lemma agg_one_enc a m w (cs:list cell) : len cs = n ->
  agg_one a g (mkField m w (BIdx (psums (lens cs)) (concat cs)))
  = Ok (mkField m true (encode_like (BIdx [] []) (agg_ref (agg_cells a) kr cs))).
Proof.
  intros Hcs.
  pose proof (sp_valid cols by_ hint kr kcs Hpre Hkc Hkr) as Hv. fold n sp in Hv.
  assert (Hlkr : length kr = length cs).
  { rewrite (kr_length cols kr kcs Hkr). unfold len in Hcs. fold n.
    pose proof (n_nonneg cols by_ hint kcs Hpre Hkc) as H0. fold n in H0. lia. }
  unfold agg_one. fold g. unfold g at 2 3. rewrite (g_spans_eq cols by_ hint kr kcs Hpre Hkc Hkr). fold sp.
  destruct (g_sorted_index g) as [q|] eqn:Eq.
  - assert (q = lexsort_perm kr).
    { unfold g, gb_of in Eq. destruct (hint || rows_sortedb bytes_ltb kr); cbn in Eq; congruence. }
    subst q.
    pose proof (q_in_range cols by_ hint kr kcs Hpre Hkc Hkr) as Hq. fold n in Hq.
    rewrite apply_index_into_like by (cbn [fbody]; try apply wf_idx; rewrite field_len_enc, Hcs; exact Hq).
    cbn [bind the_target r_tgt fmeta fbody]. rewrite idx_select.
    rewrite field_apply_spans_idx; [|rewrite len_gather, (len_q cols by_ hint kr kcs Hpre Hkc Hkr); exact Hv|reflexivity].
    rewrite deliver_in_place by reflexivity. unfold with_body. cbn [bind r_src fmeta fwr]. do 3 f_equal.
    exact (sorted_spans_reduce [] (agg_cells a) kr cs Hlkr).
  - assert (Es : hint || rows_sortedb bytes_ltb kr = true).
    { unfold g, gb_of in Eq. destruct (hint || rows_sortedb bytes_ltb kr); [reflexivity|cbn in Eq; discriminate]. }
    rewrite field_apply_spans_idx; [|rewrite Hcs; exact Hv|reflexivity].
    rewrite deliver_target by (unfold create_like; cbn [fbody]; exact I).
    cbn [bind the_target r_tgt]. unfold with_body, create_like. cbn [fmeta fwr fbody]. do 3 f_equal.
    rewrite <- (sorted_spans_reduce [] (agg_cells a) kr cs Hlkr).
    destruct (sorted_input_unchanged [] kr cs Hlkr (hint_sorted cols by_ hint kr kcs Hpre Hkc Hkr Es)) as [_ ->].
    reflexivity.
Qed.

(* the loop body of agg_targets, for every field class *)
Theorem agg_one_any a f : wf_body (fbody f) -> field_len f = n ->
  agg_one a g f = Ok (dest_col f (agg_ref (agg_cells a) kr (field_cells f))).
Proof.
  intros Hwf Hl. destruct f as [m w b]. cbn [fbody] in Hwf. unfold dest_col. cbn [fmeta fbody].
  destruct Hwf as [d| |cs].
  - unfold g. rewrite (agg_one_dat cols by_ hint kr kcs a (mkField m w (BDat d)) d Hpre Hkc Hkr eq_refl Hl).
    cbn [fmeta encode_like]. unfold field_cells. cbn [fbody]. fold (scalar_cells d).
    fold uncell. change (map (fun c : list Z => uncell c)) with (map uncell). rewrite agg_ref_scalar. reflexivity.
  - (* a never-written indexed string field: no rows at all *)
    assert (Hn0 : n = 0) by (rewrite <- Hl; reflexivity).
    assert (Hkr0 : kr = []) by (rewrite Hkr, Hn0; reflexivity).
    unfold g. rewrite Hkr0. destruct hint; destruct a; reflexivity.
  - rewrite field_len_enc in Hl. rewrite (agg_one_enc a m w cs Hl).
    unfold field_cells. cbn [fbody]. rewrite cells_of_enc. reflexivity.
Qed.
End AggOne.

(* ================================================================== D. name bookkeeping *)
Lemma fresh_names_app : forall a b ddf, fresh_names (a ++ b) ddf = true ->
  fresh_names a ddf = true /\ fresh_names b (ddf ++ a) = true.
Proof.
  induction a as [|[n f] a IH]; intros b ddf H.
  - cbn [app] in *. rewrite app_nil_r. split; [reflexivity|exact H].
  - cbn [app fresh_names] in H. apply andb_prop in H. destruct H as [H H3]. apply andb_prop in H. destruct H as [H1 H2].
    apply negb_true_iff in H2. rewrite has_name_app in H2. apply orb_false_iff in H2. destruct H2 as [H2a H2b].
    assert (H3' : fresh_names (a ++ b) (ddf ++ [(n, f)]) = true).
    { apply fresh_names_snoc; [exact H3|]. cbn [fst]. rewrite has_name_app, H2a, H2b. reflexivity. }
    destruct (IH b _ H3') as [_ Hb]. destruct (IH b _ H3) as [Ha _].
    split.
    + cbn [fresh_names]. rewrite H1, H2a, Ha. reflexivity.
    + rewrite <- app_assoc in Hb. exact Hb.
Qed.

Lemma has_name_lookup n : forall d, has_name n d = true -> exists f, lookup n d = Some f.
Proof.
  induction d as [|[m g] t IH]; cbn [has_name lookup]; [discriminate|].
  destruct (m =? n); [intros _; eexists; reflexivity|exact IH].
Qed.

Lemma readers_of_ok cols : forall ts, all_in ts cols = true -> exists r, readers_of ts cols = Ok r.
Proof.
  induction ts as [|t ts IH]; intros H; [exists []; reflexivity|].
  cbn [all_in] in H. apply andb_prop in H. destruct H as [Ht Hall].
  destruct (has_name_lookup t cols Ht) as [f Hf]. destruct (IH Hall) as [r Hr].
  exists (f :: r). cbn [readers_of]. rewrite Hf, Hr. reflexivity.
Qed.

Section Steps.
Variables (cols:frame) (by_:list Z) (hint:bool) (kr:list (list cell)).
Hypothesis Hpre : groupby_pre cols by_ hint = true.
Hypothesis Hkrows : key_rows cols by_ = Some kr.
Let g := gb_of by_ hint kr.

Lemma target_facts t : has_name t cols = true ->
  exists f, lookup t cols = Some f /\ wf_body (fbody f) /\ field_len f = nrows cols.
Proof.
  intros Ht. destruct (has_name_lookup t cols Ht) as [f Hf]. exists f. split; [exact Hf|].
  destruct (key_rows_kcs cols by_ kr Hkrows) as [kcs [Hkc Hkr]].
  destruct (pre_unpack cols by_ hint kcs Hpre Hkc) as [rd (Hok & _)].
  destruct (lookup_in t cols f Hf) as [_ [k' Hin]].
  exact (frame_ok_in (nrows cols) cols (k', f) Hok Hin).
Qed.

(* the loop `for field in target_fields` of max / min / first / last, any number of targets of any class *)
Lemma agg_targets_correct a : forall ts ddf,
  all_in ts cols = true ->
  fresh_names (spec_agg_cols a cols kr ts) ddf = true ->
  agg_targets a cols g ts ddf = Ok (ddf ++ spec_agg_cols a cols kr ts).
Proof.
  destruct (key_rows_kcs cols by_ kr Hkrows) as [kcs [Hkc Hkr]].
  induction ts as [|t ts IH]; intros ddf Hall Hf.
  - cbn. rewrite app_nil_r. reflexivity.
  - cbn [all_in] in Hall. apply andb_prop in Hall. destruct Hall as [Ht Hall].
    destruct (target_facts t Ht) as [f (Hl & Hwf & Hlen)].
    unfold spec_agg_cols in *. cbn [map] in *. rewrite Hl in *.
    cbn [fresh_names] in Hf. apply andb_prop in Hf. destruct Hf as [Hf H3]. apply andb_prop in Hf. destruct Hf as [H1 H2].
    apply negb_true_iff in H1. apply negb_true_iff in H2.
    rewrite (agg_targets_unfold_pf a cols g t ts ddf f Hl H1).
    unfold g at 1. rewrite (agg_one_any cols by_ hint kr kcs Hpre Hkc Hkr a f Hwf Hlen). cbn [bind].
    fold g. rewrite IH.
    + rewrite <- app_assoc. reflexivity.
    + exact Hall.
    + apply fresh_names_snoc; [exact H3|]. cbn [fst]. exact H2.
Qed.

Lemma validate_target_ok ts : targets_ok cols by_ ts = true ->
  validate_groupby_target ts by_ cols = Ok ts /\ all_in ts cols = true.
Proof.
  unfold targets_ok. intros H. apply andb_prop in H. destruct H as [H H4]. apply andb_prop in H. destruct H as [H H3].
  apply andb_prop in H. destruct H as [H1 H2]. apply negb_true_iff in H4.
  split; [|exact H2]. unfold validate_groupby_target. rewrite H2, H4. cbn [negb].
  destruct ts; [discriminate|reflexivity].
Qed.

Theorem gb_agg_correct_pf a ts ddf wk : targets_ok cols by_ ts = true ->
  let new := (if wk:bool then spec_key_cols cols by_ (groups kr) else []) ++ spec_agg_cols a cols kr ts in
  fresh_names new ddf = true ->
  gb_agg a cols g ts ddf wk = Ok (ddf ++ new).
Proof.
  intros Hts new Hfresh. subst new. destruct (fresh_names_app _ _ _ Hfresh) as [Hfk Hfa].
  destruct (validate_target_ok ts Hts) as [Hv Hall].
  unfold gb_agg. unfold g at 1. rewrite g_by_eq. rewrite Hv. cbn [bind].
  unfold g at 1. rewrite (maybe_write_keys_correct cols by_ hint kr ddf wk Hpre Hkrows Hfk). cbn [bind].
  destruct (readers_of_ok cols ts Hall) as [r ->]. cbn [bind].
  rewrite agg_targets_correct by assumption. rewrite <- app_assoc. reflexivity.
Qed.

(* one call on the group-by object appends exactly the columns of the specification *)
Lemma run_gstep_correct s new ddf :
  spec_step_cols cols by_ kr s = Some new -> fresh_names new ddf = true ->
  run_gstep cols g ddf s = Ok (ddf ++ new).
Proof.
  destruct s as [wk|wk|a ts wk]; cbn [spec_step_cols run_gstep].
  - intros E Hf. inversion E; subst new; clear E. destruct (fresh_names_app _ _ _ Hf) as [Hk Hc].
    unfold g. apply (gb_count_correct_pf cols by_ hint kr ddf wk Hpre Hkrows Hk).
    unfold spec_count_col in Hc. cbn [fresh_names] in Hc. apply andb_prop in Hc. destruct Hc as [Hc _].
    apply andb_prop in Hc. destruct Hc as [Hc _]. apply negb_true_iff in Hc. exact Hc.
  - intros E Hf. inversion E; subst new; clear E. unfold gb_distinct, g.
    exact (maybe_write_keys_correct cols by_ hint kr ddf wk Hpre Hkrows Hf).
  - destruct (targets_ok cols by_ ts) eqn:Et; [|discriminate]. intros E Hf. inversion E; subst new; clear E.
    exact (gb_agg_correct_pf a ts ddf wk Et Hf).
Qed.

(* several calls into one destination *)
Lemma run_gsteps_correct : forall ss ddf r,
  spec_steps cols by_ kr ddf ss = Some r -> run_gsteps cols g ddf ss = Ok r.
Proof.
  induction ss as [|s ss IH]; intros ddf r H; cbn [spec_steps run_gsteps] in *.
  - inversion H. reflexivity.
  - destruct (spec_step_cols cols by_ kr s) as [new|] eqn:Es; [|discriminate].
    destruct (fresh_names new ddf) eqn:Ef; [|discriminate].
    rewrite (run_gstep_correct s new ddf Es Ef). cbn [bind]. apply IH. exact H.
Qed.
End Steps.

(* the frame-level theorem: whatever the specification prescribes, the model of
   df.groupby(by, hint).step1(ddf); .step2(ddf); ... produces *)
Theorem df_groupby_steps_correct cols by_ hint ddf ss r :
  spec_groupby_steps cols by_ hint ddf ss = Some r -> df_groupby_steps cols by_ hint ddf ss = Ok r.
Proof.
  unfold spec_groupby_steps. destruct (groupby_pre cols by_ hint) eqn:Hpre; [|discriminate].
  destruct (key_rows cols by_) as [kr|] eqn:Hkr; [|discriminate]. intros H.
  unfold df_groupby_steps. rewrite (df_groupby_correct cols by_ hint kr Hpre Hkr). cbn [bind].
  exact (run_gsteps_correct cols by_ hint kr Hpre Hkr ss ddf r H).
Qed.

(* ================================================================== E. Session.aggregate_* *)
Lemma valid_indexedb_sound i v : valid_indexedb i v = true -> valid_indexed i v.
Proof.
  unfold valid_indexedb, valid_indexed. intros H. apply orb_prop in H. destruct H as [H|H].
  - left. apply andb_prop in H. destruct H as [H1 H2]. split; apply Z.eqb_eq; assumption.
  - right. apply andb_prop in H. destruct H as [H H4]. apply andb_prop in H. destruct H as [H H3].
    apply andb_prop in H. destruct H as [H1 H2].
    split; [apply sortedb_sorted; exact H1|]. split; [apply Z.leb_le; exact H2|]. split; apply Z.eqb_eq; assumption.
Qed.

Lemma row_neqb_spec (a b:list cell) : negb (row_eqb a b) = false <-> a = b.
Proof. rewrite negb_false_iff. exact (keqb_true GroupSpec.rowle grow_total grow_antisym a b). Qed.

Lemma bounds_from_cons2' {A} (nq:A -> A -> bool) i x y t :
  bounds_from nq i (x :: y :: t)
  = if nq x y then (i + 1) :: bounds_from nq (i + 1) (y :: t) else bounds_from nq (i + 1) (y :: t).
Proof. reflexivity. Qed.

Lemma bounds_from_map {A B} (g:A -> B) (nA:A -> A -> bool) (nB:B -> B -> bool) :
  (forall x y, nB (g x) (g y) = nA x y) -> forall l i, bounds_from nB i (map g l) = bounds_from nA i l.
Proof.
  intros H. induction l as [|x t IH]; intros i; [reflexivity|]. destruct t as [|y t']; [reflexivity|].
  change (map g (x :: y :: t')) with (g x :: g y :: map g t'). rewrite !bounds_from_cons2', H.
  change (g y :: map g t') with (map g (y :: t')). rewrite IH. reflexivity.
Qed.

Lemma spans_ref_map {A B} (g:A -> B) (nA:A -> A -> bool) (nB:B -> B -> bool) :
  (forall x y, nB (g x) (g y) = nA x y) -> forall l, spans_ref nB (map g l) = spans_ref nA l.
Proof.
  intros H l. destruct l as [|x t]; [reflexivity|]. unfold spans_ref. cbn [map].
  change (g x :: map g t) with (map g (x :: t)). rewrite (bounds_from_map g nA nB H).
  unfold len. rewrite map_length. reflexivity.
Qed.

Lemma neq_exact_map {A B} (g:A -> B) (nA:A -> A -> bool) (nB:B -> B -> bool) :
  neq_test nA -> neq_test nB -> (forall x y, g x = g y -> x = y) -> forall x y, nB (g x) (g y) = nA x y.
Proof.
  intros HA HB Hg x y. destruct (nA x y) eqn:E1; destruct (nB (g x) (g y)) eqn:E2; try reflexivity.
  - apply HB in E2. apply Hg in E2. apply HA in E2. congruence.
  - apply HA in E1. subst y. assert (nB (g x) (g x) = false) by (apply HB; reflexivity). congruence.
Qed.

Lemma field_get_spans_rows c : column_okb c = true -> field_get_spans c = Ok (spans_ref rneqb (index_rows c)).
Proof.
  intros Hok. destruct c as [l|l|i v]; cbn [field_get_spans index_rows column_okb] in *.
  - rewrite get_spans_for_field_ref. f_equal. unfold scalar_rows. symmetry. apply spans_ref_map.
    apply neq_exact_map; [exact Z_neqb_spec|exact rneqb_spec|]. intros x y E. inversion E. reflexivity.
  - rewrite get_spans_for_field_ref. f_equal. symmetry. apply spans_ref_map.
    apply neq_exact_map; [exact bytes_neqb_spec|exact rneqb_spec|]. intros x y E. inversion E. reflexivity.
  - rewrite get_spans_for_index_string_field_ref by (apply valid_indexedb_sound; exact Hok). f_equal. symmetry.
    apply spans_ref_map.
    apply neq_exact_map; [exact bytes_neqb_spec|exact rneqb_spec|]. intros x y E. inversion E. reflexivity.
Qed.

Lemma runs_spans_eq rows : runs_spans rows = spans_ref rneqb rows.
Proof.
  unfold runs_spans. rewrite <- (map_id rows) at 1.
  apply (spans_ref_map (fun r : list cell => r) rneqb (fun a b => negb (row_eqb a b))).
  exact (neq_exact_map (fun r : list cell => r) rneqb (fun a b => negb (row_eqb a b))
           rneqb_spec row_neqb_spec (fun x y E => E)).
Qed.

Lemma index_rows_len1 c r : In r (index_rows c) -> length r = 1%nat.
Proof.
  destruct c as [l|l|i v]; cbn [index_rows]; unfold scalar_rows; intros H; apply in_map_iff in H;
    destruct H as [x [<- _]]; reflexivity.
Qed.

Lemma sorted_rows_reduce {V R} (dv:V) (f:list V -> R) rows vals :
  length rows = length vals -> (forall r, In r rows -> length r = 1%nat) -> rows_sortedb bytes_ltb rows = true ->
  reduce_spans (fun (_:Z) l => f l) (spans_ref rneqb rows) vals = agg_ref f rows vals.
Proof.
  intros Hl H1 Hs. pose proof (rows_sortedb_SS rows 1 H1 Hs) as SS.
  destruct (sorted_input_unchanged dv rows vals Hl SS) as [E1 E2].
  rewrite <- (sorted_spans_reduce dv f rows vals Hl). rewrite E1, E2. reflexivity.
Qed.

Lemma sorted_rows_count rows :
  (forall r, In r rows -> length r = 1%nat) -> rows_sortedb bytes_ltb rows = true ->
  count_ref (spans_ref rneqb rows) = agg_ref (@len (list cell)) rows rows.
Proof.
  intros H1 Hs. pose proof (rows_sortedb_SS rows 1 H1 Hs) as SS.
  destruct (sorted_input_unchanged [] rows rows eq_refl SS) as [E1 _].
  rewrite <- (sorted_spans_count (V:=list cell) [] rows rows eq_refl). rewrite E1. reflexivity.
Qed.

Lemma reduce_spans_ext {A R} (f1 f2:Z -> list A -> R) sp xs :
  (forall a l, f1 a l = f2 a l) -> reduce_spans f1 sp xs = reduce_spans f2 sp xs.
Proof. intros H. unfold reduce_spans. apply map_ext. intros ab. apply H. Qed.

Lemma agg_ref_ext {A B} (f1 f2:list A -> B) kr vals :
  (forall l, f1 l = f2 l) -> agg_ref f1 kr vals = agg_ref f2 kr vals.
Proof. intros H. unfold agg_ref, agg_by. apply map_ext. intros k. apply H. Qed.

(* Session.aggregate_min/max/first/last(index, target, dest) *)
Theorem session_aggregate_correct_pf a index target dest r :
  column_okb index = true -> session_aggregate_ref (Some a) index target = Some r ->
  session_aggregate a index target dest = Ok (r, write_dest dest r).
Proof.
  intros Hok Href. unfold session_aggregate_ref in Href. cbn zeta in Href.
  set (rows := index_rows index) in *.
  destruct (len target =? len rows) eqn:El; cbn [negb] in Href; [|discriminate]. apply Z.eqb_eq in El.
  unfold session_aggregate. rewrite (field_get_spans_rows index Hok). cbn [bind]. fold rows.
  destruct (spans_ref_is_spans [] rneqb rneqb_spec rows) as (Hss & Hl1 & H0 & Hlast & _).
  set (sp := spans_ref rneqb rows) in *.
  rewrite session_apply_spans_src_ok_pf by (try exact Hl1; rewrite Hlast; symmetry; exact El).
  fold (kernel_Z a). rewrite kernel_Z_ref.
  2:{ unfold valid_spans. rewrite El. repeat split; try assumption; lia. }
  cbn [bind].
  assert (E : reduce_spans (fun (_:Z) l => agg_scalar a l) sp target = r).
  { destruct (rows_sortedb bytes_ltb rows) eqn:Es; inversion Href; subst r; clear Href.
    - unfold sp. rewrite (sorted_rows_reduce 0 (agg_scalar a) rows target).
      + apply agg_ref_ext. intros l. symmetry. apply agg_cells_scalar.
      + unfold len in El. lia.
      + apply index_rows_len1.
      + exact Es.
    - rewrite runs_spans_eq. fold sp. apply reduce_spans_ext. intros _ l. symmetry. apply agg_cells_scalar. }
  rewrite E. reflexivity.
Qed.

(* Session.aggregate_count(index, dest) *)
Theorem session_aggregate_count_correct_pf index target dest r :
  column_okb index = true -> session_aggregate_ref None index target = Some r ->
  session_aggregate_count index dest = Ok (r, write_dest dest r).
Proof.
  intros Hok Href. unfold session_aggregate_ref in Href. cbn zeta in Href.
  set (rows := index_rows index) in *.
  unfold session_aggregate_count. rewrite (field_get_spans_rows index Hok). cbn [bind]. fold rows.
  destruct (spans_ref_is_spans [] rneqb rneqb_spec rows) as (Hss & Hl1 & _).
  rewrite apply_spans_count_ref by exact Hl1. cbn [bind].
  assert (E : count_ref (spans_ref rneqb rows) = r).
  { destruct (rows_sortedb bytes_ltb rows) eqn:Es; inversion Href; subst r; clear Href.
    - apply sorted_rows_count; [apply index_rows_len1|exact Es].
    - rewrite runs_spans_eq. reflexivity. }
  rewrite E. reflexivity.
Qed.

(* ================================================================== F. Session.distinct *)
Lemma np_unique_rows_groups kr : np_unique_rows kr = groups kr.
Proof.
  unfold np_unique_rows.
  change (drop_adjacent_dups row_eqb (map (fun p => nthd [] kr p) (argsort (lex_le cell_le) kr)))
    with (drop_adjacent_dups (keqb GroupSpec.rowle) (sort_rows kr)).
  pose proof (sort_pairs (V:=list cell) [] kr kr eq_refl) as Hp.
  assert (E : sort_rows kr = map fst (ksort GroupSpec.rowle (combine kr kr))).
  { rewrite <- Hp. rewrite map_fst_combine by apply sort_lengths. reflexivity. }
  rewrite E. rewrite (sorted_keys_dedup GroupSpec.rowle grow_trans grow_total grow_antisym).
  rewrite map_fst_combine by reflexivity. reflexivity.
Qed.

Theorem session_distinct_correct_pf fields r :
  session_distinct_ref fields = Some r -> session_distinct fields = Ok r.
Proof.
  unfold session_distinct_ref, session_distinct. destruct fields as [|f0 t]; [discriminate|].
  destruct (forallb (fun c => len c =? len f0) (f0 :: t)) eqn:E; [|discriminate].
  cbn [negb]. intros H. inversion H; subst r; clear H. f_equal.
  rewrite np_unique_rows_groups.
  replace (map (fun i => map (fun c => nthd [] c i) (f0 :: t)) (iota 0 (length f0)))
    with (FilterIndexSpec.rows_of (len f0) (f0 :: t)); [reflexivity|].
  unfold FilterIndexSpec.rows_of, FilterIndexSpec.row_at, len. rewrite Nat2Z.id. reflexivity.
Qed.

(* on a sorted index the pre-grouped aggregate IS the group-wise reference of the dataframe group-by *)
Theorem session_aggregate_sorted_pf a index target dest :
  column_okb index = true -> len target = len (index_rows index) ->
  rows_sortedb bytes_ltb (index_rows index) = true ->
  let r := agg_ref (agg_scalar a) (index_rows index) target in
  session_aggregate a index target dest = Ok (r, write_dest dest r).
Proof.
  intros Hok Hl Hs r. apply session_aggregate_correct_pf; [exact Hok|].
  unfold session_aggregate_ref. cbn zeta. rewrite Hl, Z.eqb_refl, Hs. cbn [negb]. f_equal.
  apply agg_ref_ext. intros l. apply agg_cells_scalar.
Qed.

(* the loop body for a column of the frame (what Props/C07.v states) *)
Theorem agg_one_col cols by_ hint kr a t f :
  groupby_pre cols by_ hint = true -> key_rows cols by_ = Some kr -> lookup t cols = Some f ->
  agg_one a (gb_of by_ hint kr) f = Ok (dest_col f (agg_ref (agg_cells a) kr (field_cells f))).
Proof.
  intros Hpre Hkr Hl. destruct (key_rows_kcs cols by_ kr Hkr) as [kcs [Hkc Hkr']].
  destruct (lookup_in t cols f Hl) as [Hn _].
  destruct (target_facts cols by_ hint kr Hpre Hkr t Hn) as [f' (Hl' & Hwf & Hlen)].
  rewrite Hl in Hl'. inversion Hl'; subst f'.
  exact (agg_one_any cols by_ hint kr kcs Hpre Hkc Hkr' a f Hwf Hlen).
Qed.
