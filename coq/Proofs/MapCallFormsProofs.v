(* Proofs/MapCallFormsProofs.v — the call forms of the streamed mappings (Model/MapCallForms.v): every
   combination of omitted / given optional arguments yields the specification, the answer does not depend
   on the sizes in the supported regime, and the proxy evaluation of the extracted entry equals the call. *)
From Coq Require Import ZArith List Lia Bool.
From EV Require Import Res Arr MapStream MapStreamSpec MapStreamBase MapStreamGen MapIndexedBase MapIndexedKernel
  MapIndexedDriver MapCallForms.
Import ListNotations.
Open Scope Z_scope.

Lemma cf_nthZ_In (l:list Z) i : 0 <= i < len l -> In (nthZ l i) l.
Proof. intros H. unfold nthZ, nthd, len in *. apply nth_In. lia. Qed.

Lemma fitb_entries_fit d_idx d_val inv m b : fitb d_idx d_val inv m b = true -> entries_fit d_idx d_val inv m b.
Proof.
  unfold fitb, entries_fit. intros H t Ht Hne. rewrite forallb_forall in H.
  specialize (H (nthZ m t) (cf_nthZ_In m t Ht)). apply orb_true_iff in H. destruct H as [H|H].
  - apply Z.eqb_eq in H. contradiction.
  - apply Z.leb_le in H. exact H.
Qed.

Lemma entries_fit_mono d_idx d_val inv m b b' : b <= b' -> entries_fit d_idx d_val inv m b -> entries_fit d_idx d_val inv m b'.
Proof. intros Hb H t Ht Hne. specialize (H t Ht Hne). lia. Qed.

(* both size arguments omitted: the value buffer is 2^23 bytes whatever the map and the source *)
Lemma default_buffer_bytes : DEFAULT_CHUNKSIZE * DEFAULT_VALUE_FACTOR = 8388608.
Proof. reflexivity. Qed.

(* ---- fixed-width sources ---------------------------------------------------------------------- *)
Theorem stream_call_correct_top (A:Type) (zfill empty:A) (data:list A) (m:list Z) (inv cs:option Z) (fuel:nat) :
  1 <= opt_default cs DEFAULT_CHUNKSIZE ->
  in_range_map (len data) (opt_default inv DEFAULT_INVALID) m -> (fuel >= length m + 1)%nat ->
  stream_call zfill empty fuel Fixed data m inv cs
  = Ok (map_spec empty data (opt_default inv DEFAULT_INVALID) m).
Proof.
  intros Hcs Hr Hf. unfold stream_call.
  exact (@map_stream_correct_any A zfill empty data (opt_default inv DEFAULT_INVALID) m _ fuel Hcs Hr Hf).
Qed.

Theorem stream_call_omitted_chunksize_top (A:Type) (zfill empty:A) (data:list A) (m:list Z) (inv:option Z) (fuel:nat) :
  in_range_map (len data) (opt_default inv DEFAULT_INVALID) m -> (fuel >= length m + 1)%nat ->
  stream_call zfill empty fuel Fixed data m inv None
  = Ok (map_spec empty data (opt_default inv DEFAULT_INVALID) m).
Proof. intros Hr Hf. apply stream_call_correct_top; try assumption. cbn [opt_default]. unfold DEFAULT_CHUNKSIZE. lia. Qed.

Theorem stream_call_size_independent_top (A:Type) (zfill empty:A) (data:list A) (m:list Z) (inv cs:option Z)
        (cs':Z) (fuel fuel':nat) :
  1 <= opt_default cs DEFAULT_CHUNKSIZE -> 1 <= cs' ->
  in_range_map (len data) (opt_default inv DEFAULT_INVALID) m ->
  (fuel >= length m + 1)%nat -> (fuel' >= length m + 1)%nat ->
  stream_call zfill empty fuel Fixed data m inv cs
  = ordered_map_valid_stream zfill empty fuel' Fixed data m (opt_default inv DEFAULT_INVALID) cs'.
Proof.
  intros Hcs Hcs' Hr Hf Hf'. rewrite (stream_call_correct_top A zfill empty data m inv cs fuel Hcs Hr Hf).
  symmetry. exact (@map_stream_correct_any A zfill empty data _ m cs' fuel' Hcs' Hr Hf').
Qed.

Theorem stream_call_eval_ok (A:Type) (zfill empty:A) (data:list A) (m:list Z) (inv cs:option Z) (pcs:Z) (fuel:nat) :
  in_range_map (len data) (opt_default inv DEFAULT_INVALID) m -> (fuel >= length m + 1)%nat ->
  stream_call_eval zfill empty fuel data m inv cs pcs = stream_call zfill empty fuel Fixed data m inv cs.
Proof.
  intros Hr Hf. unfold stream_call_eval.
  destruct ((1 <=? opt_default cs DEFAULT_CHUNKSIZE) && (1 <=? pcs)) eqn:E; [|reflexivity].
  apply andb_true_iff in E. destruct E as [E1 E2]. apply Z.leb_le in E1. apply Z.leb_le in E2.
  symmetry. apply stream_call_size_independent_top; assumption.
Qed.

(* ---- indexed-string sources ------------------------------------------------------------------- *)
Theorem indexed_stream_call_correct_top (d_idx d_val:list Z) (m:list Z) (inv cs vf:option Z) (fuel:nat) :
  wf_indexed d_idx d_val ->
  1 <= opt_default cs DEFAULT_CHUNKSIZE -> 0 <= opt_default vf DEFAULT_VALUE_FACTOR ->
  in_range_map (len d_idx - 1) (opt_default inv DEFAULT_INVALID) m ->
  entries_fit d_idx d_val (opt_default inv DEFAULT_INVALID) m
              (opt_default cs DEFAULT_CHUNKSIZE * opt_default vf DEFAULT_VALUE_FACTOR) ->
  (fuel >= 2 * length m + 2)%nat ->
  indexed_stream_call fuel Fixed d_idx d_val m inv cs vf
  = Ok (indexed_spec d_idx d_val (opt_default inv DEFAULT_INVALID) m).
Proof.
  intros Hwf Hcs Hvf Hr Hfit Hf. unfold indexed_stream_call.
  apply indexed_stream_correct_top; assumption.
Qed.

(* both sizes omitted (the production call form): the only size condition left is the absolute one
   "no mapped entry exceeds 2^23 bytes" — it does not mention the length of the map *)
Theorem indexed_stream_call_omitted_sizes_top (d_idx d_val:list Z) (m:list Z) (inv:option Z) (fuel:nat) :
  wf_indexed d_idx d_val ->
  in_range_map (len d_idx - 1) (opt_default inv DEFAULT_INVALID) m ->
  entries_fit d_idx d_val (opt_default inv DEFAULT_INVALID) m 8388608 ->
  (fuel >= 2 * length m + 2)%nat ->
  indexed_stream_call fuel Fixed d_idx d_val m inv None None
  = Ok (indexed_spec d_idx d_val (opt_default inv DEFAULT_INVALID) m).
Proof.
  intros Hwf Hr Hfit Hf. apply indexed_stream_call_correct_top; try assumption; cbn [opt_default];
    try (unfold DEFAULT_CHUNKSIZE; lia); try (unfold DEFAULT_VALUE_FACTOR; lia);
    try (rewrite default_buffer_bytes; exact Hfit).
Qed.

(* only value_factor given: chunksize stays 2^20 whatever the map *)
Theorem indexed_stream_call_omitted_chunksize_top (d_idx d_val:list Z) (m:list Z) (inv:option Z) (vf:Z) (fuel:nat) :
  wf_indexed d_idx d_val -> 0 <= vf ->
  in_range_map (len d_idx - 1) (opt_default inv DEFAULT_INVALID) m ->
  entries_fit d_idx d_val (opt_default inv DEFAULT_INVALID) m (1048576 * vf) ->
  (fuel >= 2 * length m + 2)%nat ->
  indexed_stream_call fuel Fixed d_idx d_val m inv None (Some vf)
  = Ok (indexed_spec d_idx d_val (opt_default inv DEFAULT_INVALID) m).
Proof.
  intros Hwf Hvf Hr Hfit Hf. apply indexed_stream_call_correct_top; try assumption; cbn [opt_default];
    try (unfold DEFAULT_CHUNKSIZE; lia); try exact Hfit.
Qed.

(* only chunksize given: the buffer is 8 bytes per row of the CHUNK *)
Theorem indexed_stream_call_omitted_value_factor_top (d_idx d_val:list Z) (m:list Z) (inv:option Z) (cs:Z) (fuel:nat) :
  wf_indexed d_idx d_val -> 1 <= cs ->
  in_range_map (len d_idx - 1) (opt_default inv DEFAULT_INVALID) m ->
  entries_fit d_idx d_val (opt_default inv DEFAULT_INVALID) m (cs * 8) ->
  (fuel >= 2 * length m + 2)%nat ->
  indexed_stream_call fuel Fixed d_idx d_val m inv (Some cs) None
  = Ok (indexed_spec d_idx d_val (opt_default inv DEFAULT_INVALID) m).
Proof.
  intros Hwf Hcs Hr Hfit Hf. apply indexed_stream_call_correct_top; try assumption; cbn [opt_default];
    try (unfold DEFAULT_VALUE_FACTOR; lia); try exact Hfit.
Qed.

Theorem indexed_stream_call_size_independent_top (d_idx d_val:list Z) (m:list Z) (inv cs vf:option Z)
        (cs' vf':Z) (fuel fuel':nat) :
  wf_indexed d_idx d_val ->
  1 <= opt_default cs DEFAULT_CHUNKSIZE -> 0 <= opt_default vf DEFAULT_VALUE_FACTOR -> 1 <= cs' -> 0 <= vf' ->
  in_range_map (len d_idx - 1) (opt_default inv DEFAULT_INVALID) m ->
  entries_fit d_idx d_val (opt_default inv DEFAULT_INVALID) m
              (opt_default cs DEFAULT_CHUNKSIZE * opt_default vf DEFAULT_VALUE_FACTOR) ->
  entries_fit d_idx d_val (opt_default inv DEFAULT_INVALID) m (cs' * vf') ->
  (fuel >= 2 * length m + 2)%nat -> (fuel' >= 2 * length m + 2)%nat ->
  indexed_stream_call fuel Fixed d_idx d_val m inv cs vf
  = ordered_map_valid_indexed_stream fuel' Fixed d_idx d_val m (opt_default inv DEFAULT_INVALID) cs' vf'.
Proof.
  intros Hwf Hcs Hvf Hcs' Hvf' Hr Hfit Hfit' Hf Hf'.
  rewrite (indexed_stream_call_correct_top d_idx d_val m inv cs vf fuel Hwf Hcs Hvf Hr Hfit Hf).
  symmetry. apply indexed_stream_correct_top; assumption.
Qed.

Theorem indexed_stream_call_eval_ok (d_idx d_val:list Z) (m:list Z) (inv cs vf:option Z) (pcs pvf:Z) (fuel:nat) :
  wf_indexed d_idx d_val ->
  in_range_map (len d_idx - 1) (opt_default inv DEFAULT_INVALID) m -> (fuel >= 2 * length m + 2)%nat ->
  indexed_stream_call_eval fuel d_idx d_val m inv cs vf pcs pvf
  = indexed_stream_call fuel Fixed d_idx d_val m inv cs vf.
Proof.
  intros Hwf Hr Hf. unfold indexed_stream_call_eval. cbv zeta.
  match goal with |- (if ?c then _ else _) = _ => destruct c eqn:E end; [|reflexivity].
  apply andb_true_iff in E. destruct E as [E F6]. apply andb_true_iff in E. destruct E as [E F5].
  apply andb_true_iff in E. destruct E as [E F4]. apply andb_true_iff in E. destruct E as [E F3].
  apply andb_true_iff in E. destruct E as [F1 F2].
  apply Z.leb_le in F1. apply Z.leb_le in F2. apply Z.leb_le in F3. apply Z.leb_le in F4.
  apply fitb_entries_fit in F5. apply fitb_entries_fit in F6.
  symmetry. apply indexed_stream_call_size_independent_top; assumption.
Qed.

(* the proxy test is not vacuous: a 3-row map, a 53-byte entry (> 8 * 3 bytes), all sizes omitted, proxy 4 x 16 *)
Example indexed_call_eval_witness :
  let di := [0; 53; 64; 64] in let dv := repeat 97 53 ++ repeat 98 11 in
  fitb di dv (-1) [0; -1; 2] (DEFAULT_CHUNKSIZE * DEFAULT_VALUE_FACTOR) = true /\
  fitb di dv (-1) [0; -1; 2] (4 * 16) = true /\
  indexed_stream_call_eval 20 di dv [0; -1; 2] None None None 4 16
  = Ok ([0; 53; 53; 53], repeat 97 53).
Proof. vm_compute. repeat split. Qed.
