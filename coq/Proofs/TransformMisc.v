(* Proofs/TransformMisc.v — witnesses of the refuted statements and alignment corollaries. *)
From Coq Require Import ZArith List Bool Lia ZifyBool.
From EV Require Import Res Arr Transform TransformSpec TransformBase TransformCat TransformLeaky TransformFixed TransformNum.
Import ListNotations.
Open Scope Z_scope.

(* 30 keys "pfxNN_key" (9 bytes each, 270 bytes in total) *)
Definition big_cats : list (list Z * Z) :=
  map (fun n => let i := Z.of_nat n in ([112; 102; 120; 48 + i / 10; 48 + i mod 10; 95; 107; 101; 121], i)) (seq 0 30).

Lemma byte_map_u8_overflow :
  cats_ok big_cats = true /\ get_byte_map_gen 255 big_cats = Raise E_Overflow /\
  is_ok (get_byte_map big_cats) = true.
Proof. vm_compute. repeat split; reflexivity. Qed.

Definition w_civil : civil := mkCivil 2020 6 15 19 45 39.
Lemma ts_offset_ignored :
  layout_ok (L_off false 1 0) = true /\ civil_ok w_civil = true /\
  parse_timestamp_bytes (fmt_ts (L_off false 1 0) w_civil) = Ok 1592250339000000 /\
  denoted_us (L_off false 1 0) w_civil = 1592246739000000.
Proof. vm_compute. repeat split; reflexivity. Qed.

(* ---- alignment of the companion columns ---- *)
Lemma len_psums l : len (psums l) = len l + 1.
Proof. unfold psums. apply len_psums_from. Qed.

Lemma leaky_aligned cats cells :
  let '(codes, idx, bytes) := spec_leaky cats cells in
  len codes = len cells /\ len idx = len cells + 1 /\ nthZ idx (len cells) = len bytes /\ nthZ idx 0 = 0.
Proof.
  unfold spec_leaky. repeat split.
  - unfold len. rewrite map_length. reflexivity.
  - rewrite len_psums. unfold len. rewrite map_length. reflexivity.
  - set (f := fun c : list Z => match lookup cats c with Some _ => 0 | None => len c end).
    set (g := fun c : list Z => match lookup cats c with Some _ => [] | None => c end).
    unfold nthZ, nthd, psums, len. rewrite Nat2Z.id.
    replace (length cells) with (length (map f cells)) by apply map_length.
    rewrite psums_from_nth_last.
    assert (H : sumZ (map f cells) = Z.of_nat (length (concat (map g cells)))).
    { clear. induction cells as [|c cells IH]; [reflexivity|]. cbn [map sumZ concat]. rewrite app_length, IH.
      unfold f, g. destruct (lookup cats c); cbn [length]; unfold len; lia. }
    rewrite H. lia.
  - unfold psums. rewrite psums_from_hd. reflexivity.
Qed.

Lemma num_aligned parse rng mode inv cells vals flags :
  spec_num parse rng mode inv cells = Ok (vals, flags) ->
  len vals = len cells /\ (mode <> MODE_STRICT -> len flags = len cells).
Proof.
  unfold spec_num. destruct (map_res _ cells) as [r| | |] eqn:E; cbn [bind]; try discriminate.
  intros H. inversion H; subst. apply map_res_length in E. split.
  - unfold len. rewrite map_length. lia.
  - intros Hm. destruct (mode =? MODE_STRICT) eqn:Em; [lia|]. unfold len. rewrite map_length. lia.
Qed.

Lemma fixed_aligned n cells : 0 <= n -> len (spec_fixed n cells) = len cells * n.
Proof. intros H. apply len_concat_pad. exact H. Qed.

(* date / datetime importers: timestamps, day strings (10 bytes each) and set flags stay aligned *)
Lemma len_zeros10 : len (zeros 10) = 10.
Proof. reflexivity. Qed.

Lemma dt_rows_aligned rowf :
  (forall v t d f, rowf v = Ok (t, d, f) -> len d = 10) ->
  forall vs rs, map_res (fun v => rowf (strip v)) vs = Ok rs ->
  len (concat (map (fun r : Z * list Z * Z => snd (fst r)) rs)) = 10 * len rs /\ len rs = len vs.
Proof.
  intros Hrow. induction vs as [|v vs IH]; intros rs H; cbn [map_res] in H.
  - inversion H. split; reflexivity.
  - destruct (rowf (strip v)) as [[[t d] f]| | |] eqn:E; cbn [bind] in H; try discriminate.
    destruct (map_res _ vs) as [rs'| | |] eqn:E'; cbn [bind] in H; try discriminate.
    inversion H; subst. destruct (IH rs' eq_refl) as [H1 H2].
    cbn [map concat fst snd]. rewrite len_app, !len_cons, H1, H2. rewrite (Hrow _ _ _ _ E). split; lia.
Qed.

Lemma datetime_row_len v t d f : datetime_row v = Ok (t, d, f) -> len d = 10.
Proof.
  unfold datetime_row. destruct (strip v) eqn:E.
  - intros H. inversion H. reflexivity.
  - destruct (parse_timestamp_bytes (z :: l)); cbn [bind]; try discriminate.
    intros H. inversion H. apply len_pad_to. lia.
Qed.

Lemma date_row_len v t d f : date_row v = Ok (t, d, f) -> len d = 10.
Proof.
  unfold date_row. destruct (strip v) eqn:E.
  - intros H. inversion H. reflexivity.
  - destruct (strptime_ymd (z :: l)) as [[[y m] dd]| | |]; cbn [bind]; try discriminate.
    destruct (datetime_us y m dd 0 0 0 0); cbn [bind]; try discriminate.
    intros H. inversion H. apply len_pad_to. lia.
Qed.

Definition dt_aligned (st:list Z * list Z * list Z) (rows:Z) : Prop :=
  let '(ts, days, flags) := st in len ts = rows /\ len days = 10 * rows /\ len flags = rows.

Lemma values_rows_len c : forall n row vs, values_rows n row c = Ok vs -> len vs = Z.of_nat n.
Proof.
  induction n as [|n IH]; intros row vs H; cbn [values_rows] in H.
  - inversion H. reflexivity.
  - destruct (get 71 (c_inds c) row); cbn [bind] in H; try discriminate.
    destruct (get 72 (c_inds c) (row + 1)); cbn [bind] in H; try discriminate.
    destruct (values_rows n (row + 1) c) eqn:E; cbn [bind] in H; try discriminate.
    inversion H. rewrite len_cons, (IH _ _ E). lia.
Qed.

Lemma dt_import_aligned rowf :
  (forall v t d f, rowf v = Ok (t, d, f) -> len d = 10) ->
  forall chunks st st' rows,
  (forall c, In c chunks -> 0 <= c_rows c) ->
  dt_aligned st rows -> fold_res (dt_import_part rowf) st chunks = Ok st' ->
  dt_aligned st' (rows + sumZ (map c_rows chunks)).
Proof.
  intros Hrow. induction chunks as [|c chunks IH]; intros st st' rows Hnn Hal H; cbn [fold_res] in H.
  - inversion H; subst. cbn [map sumZ]. rewrite Z.add_0_r. exact Hal.
  - destruct (dt_import_part rowf st c) as [st1| | |] eqn:E; cbn [bind] in H; try discriminate.
    cbn [map sumZ]. rewrite Z.add_assoc. apply (IH st1 st' (rows + c_rows c)); [intros; apply Hnn; right; assumption| |exact H].
    unfold dt_import_part in E.
    destruct (transform_to_values c) as [vs| | |] eqn:EV; cbn [bind] in E; try discriminate.
    destruct (map_res (fun v => rowf (strip v)) vs) as [rs| | |] eqn:ER; cbn [bind] in E; try discriminate.
    destruct st as [[ts days] flags]. inversion E; subst. clear E.
    destruct Hal as [A1 [A2 A3]].
    destruct (dt_rows_aligned rowf Hrow vs rs ER) as [R1 R2].
    unfold transform_to_values in EV. apply values_rows_len in EV.
    assert (Hr : len rs = c_rows c).
    { rewrite R2, EV. specialize (Hnn c (or_introl eq_refl)). lia. }
    assert (M1 : len (map (fun r : Z * list Z * Z => fst (fst r)) rs) = len rs) by (unfold len; rewrite map_length; reflexivity).
    assert (M2 : len (map (@snd (Z * list Z) Z) rs) = len rs) by (unfold len; rewrite map_length; reflexivity).
    unfold dt_aligned. rewrite !len_app. rewrite M1, M2, R1. lia.
Qed.
