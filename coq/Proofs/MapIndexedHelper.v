(* Proofs/MapIndexedHelper.v — safe_map_indexed_values = offsets/bytes of the mapped strings. *)
From Coq Require Import ZArith List Lia Bool.
From EV Require Import Res Arr MapStream MapStreamSpec MapStreamBase MapHelpers MapIndexedBase MapIndexedDriver.
Import ListNotations.
Open Scope Z_scope.

Lemma copy_range_spec n g st : forall src s dst d,
  0 <= s -> s + Z.of_nat n <= len src -> 0 <= d -> d + Z.of_nat n <= len dst ->
  exists dst', copy_range n g st src s dst d = Ok dst' /\ len dst' = len dst /\
               firstn (Z.to_nat (d + Z.of_nat n)) dst' = firstn (Z.to_nat d) dst ++ slice src s (s + Z.of_nat n).
Proof.
  induction n as [|n IH]; intros src s dst d Hs Hsn Hd Hdn.
  - exists dst. cbn [copy_range]. split; [reflexivity|]. split; [reflexivity|].
    rewrite !Z.add_0_r. rewrite slice_empty, app_nil_r. reflexivity.
  - cbn [copy_range]. rewrite (getZ_ok g src s) by lia. cbn [bind].
    rewrite set_ok by lia. cbn [bind].
    destruct (IH src (s + 1) (upd dst d (nthZ src s)) (d + 1)) as [r' [H1 [H2 H3]]]; try lia.
    { rewrite len_upd. lia. }
    exists r'. split; [exact H1|]. split; [rewrite H2; apply len_upd|].
    replace (d + Z.of_nat (S n)) with (d + 1 + Z.of_nat n) by lia.
    rewrite H3. rewrite firstn_upd_snoc by lia. rewrite <- app_assoc. f_equal.
    replace (s + Z.of_nat (S n)) with (s + 1 + Z.of_nat n) by lia.
    rewrite (slice_cons_nthd 0 src s (s + 1 + Z.of_nat n)) by lia. reflexivity.
Qed.

Section IHelper.
Variables (d_idx d_val : list Z) (inv : Z) (ev : list Z).
Hypothesis Hwf : wf_indexed d_idx d_val.
Let n := len d_idx - 1.
Variable m : list Z.
Hypothesis Hr : in_range_map n inv m.

Definition sv (k:Z) : list Z := if k =? inv then ev else entry d_idx d_val k.
Let rest (i:Z) : list (list Z) := map sv (slice m i (len m)).

Lemma rest_cons i : 0 <= i < len m -> rest i = sv (nthZ m i) :: rest (i + 1).
Proof. intros H. unfold rest. rewrite (slice_cons_nthd 0 m i (len m)) by lia. reflexivity. Qed.

Lemma rest_end : rest (len m) = [].
Proof. unfold rest. rewrite slice_empty. reflexivity. Qed.

Lemma entry_facts k : 0 <= k < n ->
  0 <= nthZ d_idx k /\ nthZ d_idx k <= nthZ d_idx (k + 1) /\ nthZ d_idx (k + 1) <= len d_val /\
  len (entry d_idx d_val k) = nthZ d_idx (k + 1) - nthZ d_idx k.
Proof.
  intros Hk. pose proof (idx_bounds d_idx d_val Hwf k ltac:(fold n; lia)).
  pose proof (idx_bounds d_idx d_val Hwf (k + 1) ltac:(fold n; lia)).
  pose proof (idx_mono d_idx d_val Hwf k (k + 1) ltac:(lia) ltac:(lia) ltac:(fold n; lia)).
  repeat split; try lia. unfold entry. apply len_slice; lia.
Qed.

Lemma smiv_len_loop_spec cnt : forall i acc, 0 <= i -> i + Z.of_nat cnt = len m ->
  smiv_len_loop cnt d_idx m (filter_of inv m) i (len ev) acc = Ok (acc + total (rest i)).
Proof.
  induction cnt as [|c IH]; intros i acc Hi Hn.
  - cbn [smiv_len_loop]. replace i with (len m) by lia. rewrite rest_end, total_nil, Z.add_0_r. reflexivity.
  - cbn [smiv_len_loop]. rewrite get_filter_of by lia. cbn [bind].
    rewrite rest_cons by lia. rewrite total_cons. unfold sv at 1.
    destruct (nthZ m i =? inv) eqn:E; cbn [negb bind].
    + rewrite IH by lia. f_equal. lia.
    + pose proof (Hr i ltac:(lia) ltac:(lia)) as Hb.
      destruct (entry_facts (nthZ m i) Hb) as [F1 [F2 [F3 F4]]].
      rewrite (getZ_ok 222 m i) by lia. cbn [bind].
      rewrite (getZ_ok 223 d_idx (nthZ m i + 1)) by (unfold n in Hb; lia). cbn [bind].
      rewrite (getZ_ok 224 d_idx (nthZ m i)) by (unfold n in Hb; lia). cbn [bind].
      rewrite IH by lia. f_equal. lia.
Qed.

Lemma smiv_loop_spec cnt : forall i offset i_res v_res,
  0 <= i -> i + Z.of_nat cnt = len m -> len i_res = len m + 1 -> 0 <= offset ->
  offset + total (rest i) <= len v_res ->
  exists i_res' v_res',
    smiv_loop cnt d_idx d_val m (filter_of inv m) ev i offset i_res v_res = Ok (i_res', v_res') /\
    len i_res' = len i_res /\ len v_res' = len v_res /\
    firstn (Z.to_nat (len m + 1)) i_res' = firstn (Z.to_nat (i + 1)) i_res ++ offs_tail offset (rest i) /\
    firstn (Z.to_nat (offset + total (rest i))) v_res' = firstn (Z.to_nat offset) v_res ++ concat (rest i).
Proof.
  induction cnt as [|c IH]; intros i offset i_res v_res Hi Hn Hli Ho Hv.
  - cbn [smiv_loop]. replace i with (len m) in * by lia. rewrite rest_end in *.
    exists i_res, v_res. cbn [offs_tail concat]. rewrite total_nil, Z.add_0_r, !app_nil_r.
    repeat split; reflexivity.
  - cbn [smiv_loop]. rewrite get_filter_of by lia. cbn [bind].
    rewrite rest_cons in * by lia. rewrite total_cons in *.
    pose proof (total_nonneg (rest (i + 1))) as Ht0.
    unfold sv at 1 2 3. unfold sv at 1 in Hv.
    destruct (nthZ m i =? inv) eqn:E; cbn [negb].
    + rewrite set_ok by lia. cbn [bind].
      destruct (copy_range_spec (length ev) 239 240 ev 0 v_res offset) as [v1 [C1 [C2 C3]]];
        try (fold (len ev); lia).
      rewrite C1. cbn [bind]. fold (len ev) in C3.
      destruct (IH (i + 1) (offset + len ev) (upd i_res (i + 1) (offset + len ev)) v1)
        as [i2 [v2 [H1 [H2 [H3 [H4 H5]]]]]]; try lia.
      { rewrite len_upd. lia. } { pose proof (len_nonneg ev). lia. }
      exists i2, v2. split; [exact H1|]. split; [rewrite H2; apply len_upd|]. split; [lia|].
      split.
      * rewrite H4. replace (i + 1 + 1) with ((i + 1) + 1) by lia.
        rewrite firstn_upd_snoc by lia. rewrite <- app_assoc. reflexivity.
      * replace (offset + (len ev + total (rest (i + 1)))) with (offset + len ev + total (rest (i + 1))) by lia.
        rewrite H5, C3. rewrite Z.add_0_l, slice_full. rewrite <- app_assoc. reflexivity.
    + pose proof (Hr i ltac:(lia) ltac:(lia)) as Hb.
      destruct (entry_facts (nthZ m i) Hb) as [F1 [F2 [F3 F4]]].
      rewrite F4 in Hv.
      rewrite (getZ_ok 232 m i) by lia. cbn [bind].
      rewrite (getZ_ok 233 d_idx (nthZ m i)) by (unfold n in Hb; lia). cbn [bind].
      rewrite (getZ_ok 234 d_idx (nthZ m i + 1)) by (unfold n in Hb; lia). cbn [bind].
      set (delta := nthZ d_idx (nthZ m i + 1) - nthZ d_idx (nthZ m i)) in *.
      rewrite set_ok by lia. cbn [bind].
      destruct (copy_range_spec (Z.to_nat delta) 236 237 d_val (nthZ d_idx (nthZ m i)) v_res offset)
        as [v1 [C1 [C2 C3]]]; try lia.
      rewrite C1. cbn [bind]. replace (Z.of_nat (Z.to_nat delta)) with delta in C3 by lia.
      destruct (IH (i + 1) (offset + delta) (upd i_res (i + 1) (offset + delta)) v1)
        as [i2 [v2 [H1 [H2 [H3 [H4 H5]]]]]]; try lia.
      { rewrite len_upd. lia. }
      exists i2, v2. split; [exact H1|]. split; [rewrite H2; apply len_upd|]. split; [lia|].
      split.
      * rewrite H4. replace (i + 1 + 1) with ((i + 1) + 1) by lia.
        rewrite firstn_upd_snoc by lia. rewrite <- app_assoc. cbn [offs_tail app]. rewrite F4. reflexivity.
      * rewrite F4. replace (offset + (delta + total (rest (i + 1)))) with (offset + delta + total (rest (i + 1))) by lia.
        rewrite H5, C3. rewrite <- app_assoc. cbn [concat]. unfold entry.
        replace (nthZ d_idx (nthZ m i) + delta) with (nthZ d_idx (nthZ m i + 1)) by (unfold delta; lia).
        reflexivity.
Qed.

Lemma firstn_len_all {A} (l:list A) k : k = len l -> firstn (Z.to_nat k) l = l.
Proof. intros ->. unfold len. rewrite Nat2Z.id. apply firstn_all. Qed.

Theorem safe_map_indexed_values_correct_gen :
  safe_map_indexed_values d_idx d_val m (filter_of inv m) ev
  = Ok (offsets_of (map sv m), concat (map sv m)).
Proof.
  unfold safe_map_indexed_values.
  assert (Hlm : len m = Z.of_nat (length m)) by reflexivity.
  rewrite (smiv_len_loop_spec (length m) 0 0) by lia. cbn [bind]. rewrite Z.add_0_l.
  assert (Hrest0 : rest 0 = map sv m) by (unfold rest; rewrite slice_full; reflexivity).
  rewrite Hrest0. pose proof (total_nonneg (map sv m)) as Ht0.
  destruct (total (map sv m) <? 0) eqn:E; [lia|].
  destruct (smiv_loop_spec (length m) 0 0 (repeat 0 (S (length m))) (repeat 0 (Z.to_nat (total (map sv m)))))
    as [i2 [v2 [H1 [H2 [H3 [H4 H5]]]]]]; try lia.
  { rewrite len_repeat. lia. } { rewrite len_repeat, Hrest0. lia. }
  rewrite H1. f_equal. rewrite Hrest0 in *. rewrite len_repeat in *. f_equal.
  - rewrite offsets_of_offs_tail. rewrite firstn_len_all in H4 by lia. rewrite H4. reflexivity.
  - rewrite Z.add_0_l in H5. rewrite firstn_len_all in H5 by lia. rewrite H5. reflexivity.
Qed.

End IHelper.

Theorem safe_map_indexed_values_correct_top (d_idx d_val:list Z) (inv:Z) (m ev:list Z) :
  wf_indexed d_idx d_val -> in_range_map (len d_idx - 1) inv m ->
  safe_map_indexed_values d_idx d_val m (filter_of inv m) ev
  = Ok (let strs := map_spec ev (decode d_idx d_val) inv m in (offsets_of strs, concat strs)).
Proof.
  intros Hwf Hr. rewrite (safe_map_indexed_values_correct_gen d_idx d_val inv ev Hwf m Hr).
  cbv zeta. assert (Hs : map (sv d_idx d_val inv ev) m = map_spec ev (decode d_idx d_val) inv m).
  { unfold map_spec. apply map_ext_in. intros k Hk. unfold sv. destruct (k =? inv) eqn:E; [reflexivity|].
    apply (In_nth _ _ 0) in Hk. destruct Hk as [q [Hq1 Hq2]].
    assert (Hkq : k = nthZ m (Z.of_nat q)) by (unfold nthZ, nthd; rewrite Nat2Z.id; symmetry; exact Hq2).
    pose proof (Hr (Z.of_nat q) ltac:(unfold len; lia) ltac:(rewrite <- Hkq; lia)) as Hb. rewrite <- Hkq in Hb.
    unfold nthd. rewrite (nth_indep _ ev []) by (unfold decode; rewrite map_length, seq_length; unfold len in Hb; lia).
    symmetry. apply (decode_nth d_idx d_val 1 1). exact Hb. }
  rewrite Hs. reflexivity.
Qed.
