(* Proofs/SessionMergeBase.v — facts about the relational join used by the C19 proofs:
   the option-valued left join of Spec/SessionMergeSpec.v vs the marker-valued one of
   Spec/JoinSpec.v, the join map as a C04 map (in range, non-decreasing), and the row-by-row
   reading of a left merge on a unique right key. *)
From Coq Require Import ZArith List Lia Bool ZifyBool.
From EV Require Import Res Arr JoinSpec JoinBase MapStream MapStreamSpec MapHelpers SessionMergeSpec.
Import ListNotations.
Open Scope Z_scope.

(* ------------------------------------------------------------------ matches *)
Lemma matches_from_In key : forall R j0 j,
  In j (matches_from key R j0) <-> (j0 <= j < j0 + len R /\ nthZ R (j - j0) = key).
Proof.
  induction R as [|x t IH]; intros j0 j; cbn [matches_from].
  - rewrite len_nil. split; [intros []|lia].
  - rewrite len_cons. pose proof (len_nonneg t) as Ht.
    destruct (x =? key) eqn:E.
    + cbn [In]. rewrite IH. split.
      * intros [<-|(H1 & H2)].
        -- split; [lia|]. rewrite Z.sub_diag, nthZ_cons_0. lia.
        -- split; [lia|]. replace (j - j0) with (j - (j0 + 1) + 1) by lia. rewrite nthZ_cons_succ by lia. exact H2.
      * intros (H1 & H2). destruct (Z.eq_dec j j0) as [->|Hne]; [left; reflexivity|right].
        split; [lia|]. replace (j - j0) with (j - (j0 + 1) + 1) in H2 by lia. rewrite nthZ_cons_succ in H2 by lia. exact H2.
    + rewrite IH. split.
      * intros (H1 & H2). split; [lia|]. replace (j - j0) with (j - (j0 + 1) + 1) by lia. rewrite nthZ_cons_succ by lia. exact H2.
      * intros (H1 & H2). destruct (Z.eq_dec j j0) as [->|Hne].
        -- rewrite Z.sub_diag, nthZ_cons_0 in H2. lia.
        -- split; [lia|]. replace (j - j0) with (j - (j0 + 1) + 1) in H2 by lia. rewrite nthZ_cons_succ in H2 by lia. exact H2.
Qed.

Lemma matches_In key R j : In j (matches key R) <-> (0 <= j < len R /\ nthZ R j = key).
Proof. unfold matches. rewrite matches_from_In. rewrite Z.sub_0_r. lia. Qed.

Lemma ssorted_tail x l : ssorted (x :: l) -> ssorted l.
Proof.
  intros H i j Hi Hij Hj.
  pose proof (H (i + 1) (j + 1) ltac:(lia) ltac:(lia) ltac:(rewrite len_cons; lia)) as H1.
  rewrite !nthZ_cons_succ in H1 by lia. exact H1.
Qed.

Lemma ssorted_head_lt x l k : ssorted (x :: l) -> 0 <= k < len l -> x < nthZ l k.
Proof.
  intros H Hk.
  pose proof (H 0 (k + 1) ltac:(lia) ltac:(lia) ltac:(rewrite len_cons; lia)) as H1.
  rewrite nthZ_cons_succ in H1 by lia. exact H1.
Qed.

(* on a strictly increasing (= unique, sorted) right key there is at most one match *)
Lemma matches_from_unique key : forall R j0, ssorted R ->
  (matches_from key R j0 = [] /\ forall k, 0 <= k < len R -> nthZ R k <> key) \/
  exists k, 0 <= k < len R /\ nthZ R k = key /\ matches_from key R j0 = [j0 + k].
Proof.
  induction R as [|x t IH]; intros j0 HS; cbn [matches_from].
  - left. split; [reflexivity|]. intros k Hk. unfold len in Hk. cbn [length] in Hk. lia.
  - pose proof (len_nonneg t) as Ht. destruct (x =? key) eqn:E.
    + right. exists 0. rewrite len_cons, nthZ_cons_0. repeat split; try lia.
      rewrite matches_from_none; [f_equal; lia|].
      intros j Hj. pose proof (ssorted_head_lt x t j HS Hj). lia.
    + destruct (IH (j0 + 1) (ssorted_tail x t HS)) as [(Hn & Hall)|(k & Hk & Hkey & Hm)].
      * left. split; [exact Hn|]. rewrite len_cons. intros k Hk.
        destruct (Z.eq_dec k 0) as [->|Hne]; [rewrite nthZ_cons_0; lia|].
        replace k with (k - 1 + 1) by lia. rewrite nthZ_cons_succ by lia. apply Hall. lia.
      * right. exists (k + 1). rewrite len_cons, nthZ_cons_succ by lia.
        repeat split; try lia; try assumption. rewrite Hm. f_equal. lia.
Qed.

(* ------------------------------------------------------------------ left_rows vs left_join *)
Definition unopt (inv:Z) (o:option Z) : Z := match o with Some j => j | None => inv end.

Lemma left_join_rows_from inv R : forall L i0,
  left_join_from inv L R i0 = map (fun p => (fst p, unopt inv (snd p))) (left_rows_from L R i0).
Proof.
  induction L as [|key t IH]; intros i0; cbn [left_join_from left_rows_from map]; [reflexivity|].
  rewrite map_app, IH. f_equal. destruct (matches key R); cbn [map]; [reflexivity|].
  cbn [fst snd unopt]. f_equal. rewrite map_map. reflexivity.
Qed.

Lemma left_join_rows inv L R :
  map snd (left_join inv L R) = map (unopt inv) (map snd (left_rows L R)).
Proof.
  unfold left_join, left_rows. rewrite left_join_rows_from, !map_map. reflexivity.
Qed.

Lemma left_rows_from_range R : forall L i0 p, In p (left_rows_from L R i0) ->
  match snd p with Some j => 0 <= j < len R | None => True end.
Proof.
  induction L as [|key t IH]; intros i0 p Hin; cbn [left_rows_from] in Hin; [destruct Hin|].
  apply in_app_or in Hin. destruct Hin as [Hin|Hin]; [|exact (IH _ _ Hin)].
  destruct (matches key R) eqn:Em.
  - destruct Hin as [<-|[]]. exact I.
  - rewrite <- Em in Hin. apply in_map_iff in Hin. destruct Hin as (j & <- & Hj). cbn [snd].
    apply matches_In in Hj. lia.
Qed.


Lemma len_map {A B} (f:A -> B) l : len (map f l) = len l.
Proof. unfold len. rewrite map_length. reflexivity. Qed.

Lemma nthd_map {A B} (f:A -> B) (da:A) (db:B) l i : 0 <= i < len l -> nthd db (map f l) i = f (nthd da l i).
Proof.
  intros H. unfold nthd, len in *. rewrite (nth_indep _ db (f da)) by (rewrite map_length; lia). apply map_nth.
Qed.

(* the join map is a C04 map: every entry is the marker or a row of the right table *)
Lemma join_map_in_range inv L R n : len R <= n -> in_range_map n inv (map snd (left_join inv L R)).
Proof.
  intros Hn. rewrite left_join_rows, map_map. intros i Hi Hne. rewrite len_map in Hi.
  unfold nthZ in *. rewrite (nthd_map _ (0, None) 0) in * by exact Hi.
  pose proof (left_rows_from_range R L 0 (nthd (0, None) (left_rows L R) i)) as Hr.
  assert (Hin : In (nthd (0, None) (left_rows L R) i) (left_rows_from L R 0)).
  { unfold nthd. apply nth_In. unfold len in Hi. fold (left_rows L R). lia. }
  specialize (Hr Hin). destruct (snd (nthd (0, None) (left_rows L R) i)); cbn [unopt] in *; [lia|congruence].
Qed.

(* reading the marker-valued map back: data looked up through it = the specification payload *)
Lemma map_spec_left_payload {A} (empty:A) data inv L R :
  ~ (0 <= inv < len R) ->
  map_spec empty data inv (map snd (left_join inv L R)) = left_payload empty L R data.
Proof.
  intros Hinv. rewrite left_join_rows. unfold map_spec, left_payload. rewrite !map_map.
  apply map_ext_in. intros p Hp. pose proof (left_rows_from_range R L 0 p Hp) as Hr.
  destruct (snd p) as [j|]; cbn [unopt pick].
  - destruct (j =? inv) eqn:E; [lia|reflexivity].
  - rewrite Z.eqb_refl. reflexivity.
Qed.

(* ------------------------------------------------------------------ unique right key: one row per left row *)
Definition look (R:list Z) (key:Z) : option Z :=
  match matches key R with [] => None | j :: _ => Some j end.

Lemma look_spec R key : ssorted R ->
  match look R key with
  | Some j => 0 <= j < len R /\ nthZ R j = key /\ matches key R = [j]
  | None => (forall k, 0 <= k < len R -> nthZ R k <> key) /\ matches key R = []
  end.
Proof.
  intros HS. unfold look, matches.
  destruct (matches_from_unique key R 0 HS) as [(Hn & Hall)|(k & Hk & Hkey & Hm)].
  - rewrite Hn. split; [exact Hall|reflexivity].
  - rewrite Hm. rewrite Z.add_0_l. repeat split; try lia; assumption.
Qed.

Lemma left_rows_unique_from R : ssorted R -> forall L i0,
  map snd (left_rows_from L R i0) = map (look R) L.
Proof.
  intros HS. induction L as [|key t IH]; intros i0; cbn [left_rows_from map]; [reflexivity|].
  rewrite map_app, IH. pose proof (look_spec R key HS) as Hl. unfold look in *.
  destruct (matches key R) as [|j ms]; cbn [map app snd]; [reflexivity|].
  destruct Hl as (_ & _ & Hm). injection Hm as ->. reflexivity.
Qed.

Lemma left_payload_unique {A} (empty:A) L R data : ssorted R ->
  left_payload empty L R data = map (fun key => pick empty data (look R key)) L.
Proof.
  intros HS. unfold left_payload, left_rows.
  rewrite <- (map_map snd (pick empty data)), (left_rows_unique_from R HS), map_map. reflexivity.
Qed.

Lemma join_map_unique inv L R : ssorted R ->
  map snd (left_join inv L R) = map (fun key => unopt inv (look R key)) L.
Proof.
  intros HS. rewrite left_join_rows. unfold left_rows. rewrite (left_rows_unique_from R HS), map_map. reflexivity.
Qed.

(* sorted left key, unique right key: the join map is non-decreasing on its valid entries *)
Lemma join_map_valid inv L R n : sorted L -> ssorted R -> len R <= n ->
  valid_map n inv (map snd (left_join inv L R)).
Proof.
  intros HL HR Hn. split; [apply join_map_in_range; exact Hn|].
  rewrite (join_map_unique inv L R HR). intros i j Hi Hij Hj Hni Hnj. rewrite len_map in Hj.
  unfold nthZ in *.
  rewrite (nthd_map (fun key => unopt inv (look R key)) 0 0 L i) in * by lia.
  rewrite (nthd_map (fun key => unopt inv (look R key)) 0 0 L j) in * by lia.
  pose proof (look_spec R (nthd 0 L i) HR) as Hli. pose proof (look_spec R (nthd 0 L j) HR) as Hlj.
  destruct (look R (nthd 0 L i)) as [a|]; cbn [unopt] in *; [|congruence].
  destruct (look R (nthd 0 L j)) as [b|]; cbn [unopt] in *; [|congruence].
  destruct Hli as (Ha & Hka & _). destruct Hlj as (Hb & Hkb & _).
  destruct (Z_le_gt_dec a b) as [Hle|Hgt]; [exact Hle|exfalso].
  pose proof (HR b a ltac:(lia) ltac:(lia) ltac:(lia)) as Hlt.
  pose proof (HL i j ltac:(lia) ltac:(lia) ltac:(lia)) as Hs. unfold nthZ in *. lia.
Qed.

Lemma len_left_join_unique inv L R : ssorted R -> len (map snd (left_join inv L R)) = len L.
Proof. intros HS. rewrite (join_map_unique inv L R HS), len_map. reflexivity. Qed.
