(* Proofs/ConcatLists.v — list lemmas used by the C16 proofs: writes at the end of a prefix,
   `blit` (a buffer with a byte string written at a position), prefix sums, adjacent pairs. *)
From Coq Require Import ZArith List Lia Bool ZifyBool.
From EV Require Import Res Arr.
Import ListNotations.
Open Scope Z_scope.

(* ---- checked accesses at the end of a prefix ------------------------------------------ *)
Lemma get_app_mid {A} site (pre:list A) c rest : get site (pre ++ c :: rest) (len pre) = Ok c.
Proof.
  unfold get, len. destruct (Z.of_nat (length pre) <? 0) eqn:E; [lia|].
  rewrite Nat2Z.id. rewrite nth_error_app2 by lia. rewrite Nat.sub_diag. reflexivity.
Qed.

Lemma set_nat_app_mid {A} (pre:list A) x rest c :
  set_nat (pre ++ x :: rest) (length pre) c = Some (pre ++ c :: rest).
Proof. induction pre as [|h t IH]; cbn; [reflexivity|]. rewrite IH. reflexivity. Qed.

Lemma set_app_mid {A} site (pre:list A) x rest c :
  set site (pre ++ x :: rest) (len pre) c = Ok (pre ++ c :: rest).
Proof.
  unfold set, len. destruct (Z.of_nat (length pre) <? 0) eqn:E; [lia|].
  rewrite Nat2Z.id, set_nat_app_mid. reflexivity.
Qed.

Lemma len_repeat {A} (x:A) n : len (repeat x n) = Z.of_nat n.
Proof. unfold len. rewrite repeat_length. reflexivity. Qed.

Lemma len_map {A B} (f:A -> B) l : len (map f l) = len l.
Proof. unfold len. rewrite map_length. reflexivity. Qed.

Lemma len_0_nil {A} (l:list A) : len l = 0 -> l = [].
Proof. destruct l; [reflexivity|]. rewrite len_cons. pose proof (len_nonneg l). lia. Qed.

Lemma to_nat_len {A} (l:list A) : Z.to_nat (len l) = length l.
Proof. unfold len. apply Nat2Z.id. Qed.

Lemma skipn_skipn' {A} (l:list A) a b : skipn a (skipn b l) = skipn (b + a) l.
Proof.
  revert l; induction b as [|b IH]; intros l; [reflexivity|].
  destruct l as [|x t]; cbn [Nat.add skipn]; [apply skipn_nil|apply IH].
Qed.

(* ---- blit: buffer dv with x written at position p -------------------------------------- *)
Definition blit (dv:list Z) (p:Z) (x:list Z) : list Z :=
  firstn (Z.to_nat p) dv ++ x ++ skipn (Z.to_nat (p + len x)) dv.

Lemma blit_nil dv p : blit dv p [] = dv.
Proof. unfold blit. rewrite len_nil, Z.add_0_r. cbn [app]. apply firstn_skipn. Qed.

Lemma len_blit dv p x : 0 <= p -> p + len x <= len dv -> len (blit dv p x) = len dv.
Proof.
  intros Hp H. unfold blit. rewrite !len_app. unfold len in *.
  rewrite firstn_length, skipn_length. lia.
Qed.

(* writing one more byte right after what was written so far *)
Lemma set_blit_snoc site dv p acc c :
  0 <= p -> p + len acc < len dv ->
  set site (blit dv p acc) (p + len acc) c = Ok (blit dv p (acc ++ [c])).
Proof.
  intros Hp H. unfold blit.
  assert (Hsk : exists x rest, skipn (Z.to_nat (p + len acc)) dv = x :: rest
                               /\ skipn (Z.to_nat (p + len (acc ++ [c]))) dv = rest).
  { pose proof (firstn_skipn (Z.to_nat (p + len acc)) dv) as Hfs.
    destruct (skipn (Z.to_nat (p + len acc)) dv) as [|x rest] eqn:Es.
    - exfalso. assert (Hl : length (skipn (Z.to_nat (p + len acc)) dv) = 0%nat) by (rewrite Es; reflexivity).
      rewrite skipn_length in Hl. unfold len in *. lia.
    - exists x, rest. split; [reflexivity|].
      rewrite len_app, len_cons, len_nil.
      replace (Z.to_nat (p + (len acc + (0 + 1)))) with (Z.to_nat (p + len acc) + 1)%nat
        by (pose proof (len_nonneg acc); lia).
      rewrite <- skipn_skipn'. rewrite Es. reflexivity. }
  destruct Hsk as (x & rest & E1 & E2). rewrite E1, E2.
  replace (firstn (Z.to_nat p) dv ++ acc ++ x :: rest) with ((firstn (Z.to_nat p) dv ++ acc) ++ x :: rest)
    by (rewrite <- app_assoc; reflexivity).
  replace (p + len acc) with (len (firstn (Z.to_nat p) dv ++ acc)).
  - rewrite set_app_mid. f_equal. rewrite <- !app_assoc. reflexivity.
  - rewrite len_app. unfold len in *. rewrite firstn_length. lia.
Qed.

Lemma firstn_blit0 dv x : firstn (length x) (blit dv 0 x) = x.
Proof.
  unfold blit. cbn [Z.to_nat firstn app]. rewrite firstn_app, Nat.sub_diag. cbn [firstn].
  rewrite app_nil_r. apply firstn_all.
Qed.

Lemma slice_blit0 dv x : slice (blit dv 0 x) 0 (len x) = x.
Proof.
  unfold slice. cbn [Z.to_nat skipn]. rewrite Z.sub_0_r, to_nat_len. apply firstn_blit0.
Qed.

Lemma slice_app_prefix {A} (l r:list A) : slice (l ++ r) 0 (len l) = l.
Proof.
  unfold slice. cbn [Z.to_nat skipn]. rewrite Z.sub_0_r, to_nat_len.
  rewrite firstn_app, Nat.sub_diag. cbn [firstn]. rewrite app_nil_r. apply firstn_all.
Qed.

(* ---- prefix sums ---------------------------------------------------------------------- *)
Fixpoint offs_from (v:Z) (ls:list Z) : list Z :=
  match ls with [] => [] | x :: t => (v + x) :: offs_from (v + x) t end.

Lemma psums_from_offs v ls : psums_from v ls = v :: offs_from v ls.
Proof. revert v; induction ls as [|x t IH]; intros v; cbn; [reflexivity|]. rewrite IH. reflexivity. Qed.

Lemma offs_from_app v l1 l2 : offs_from v (l1 ++ l2) = offs_from v l1 ++ offs_from (v + sumZ l1) l2.
Proof.
  revert v; induction l1 as [|x t IH]; intros v; cbn [app offs_from sumZ].
  - rewrite Z.add_0_r. reflexivity.
  - rewrite IH. f_equal. f_equal. f_equal. lia.
Qed.

Lemma offs_from_length v ls : length (offs_from v ls) = length ls.
Proof. revert v; induction ls as [|x t IH]; intros v; cbn; [reflexivity|]. rewrite IH. reflexivity. Qed.


(* frame form: the offsets array seen from entry |sp| on *)
Lemma psums_from_split v l1 l2 :
  exists sp, length sp = length l1 /\ psums_from v (l1 ++ l2) = sp ++ psums_from (v + sumZ l1) l2.
Proof.
  revert v; induction l1 as [|x t IH]; intros v.
  - exists []. split; [reflexivity|]. cbn. rewrite Z.add_0_r. reflexivity.
  - destruct (IH (v + x)) as (sp & Hl & He). exists (v :: sp). split; [cbn; lia|].
    cbn [app psums_from sumZ]. rewrite He. cbn [app]. f_equal. f_equal. f_equal. lia.
Qed.

Lemma len_concat (ws:list (list Z)) : len (concat ws) = sumZ (map (@len Z) ws).
Proof. induction ws as [|w t IH]; cbn [concat map sumZ]; [reflexivity|]. rewrite len_app, IH. reflexivity. Qed.

Lemma firstn_skipn_slice {A} (l:list A) a b :
  0 <= a -> a <= b -> l = firstn (Z.to_nat a) l ++ slice l a b ++ skipn (Z.to_nat b) l.
Proof.
  intros Ha Hab. unfold slice.
  rewrite <- (firstn_skipn (Z.to_nat a) l) at 1. f_equal.
  rewrite <- (firstn_skipn (Z.to_nat (b - a)) (skipn (Z.to_nat a) l)) at 1. f_equal.
  rewrite skipn_skipn'. f_equal. lia.
Qed.

Lemma len_firstn {A} (l:list A) a : 0 <= a <= len l -> len (firstn (Z.to_nat a) l) = a.
Proof. intros H. unfold len in *. rewrite firstn_length. lia. Qed.

Lemma len_slice_in {A} (l:list A) a b : 0 <= a -> a <= b -> b <= len l -> len (slice l a b) = b - a.
Proof. apply len_slice. Qed.

Lemma slice_empty {A} (l:list A) a b : b <= a -> slice l a b = [].
Proof. intros H. unfold slice. replace (Z.to_nat (b - a)) with 0%nat by lia. reflexivity. Qed.

Lemma firstn_add {A} (l:list A) s k : firstn (s + k) l = firstn s l ++ firstn k (skipn s l).
Proof.
  revert l; induction s as [|s IH]; intros l; [reflexivity|].
  destruct l as [|x t]; cbn [Nat.add firstn skipn app].
  - rewrite firstn_nil. reflexivity.
  - rewrite IH. reflexivity.
Qed.

Lemma firstn_app_exact {A} (l r:list A) : firstn (length l) (l ++ r) = l.
Proof. rewrite firstn_app, Nat.sub_diag. cbn [firstn]. rewrite app_nil_r. apply firstn_all. Qed.

Lemma skipn_app_exact {A} (l r:list A) k : skipn (length l + k) (l ++ r) = skipn k r.
Proof.
  rewrite skipn_app. rewrite skipn_all2 by lia. cbn [app]. f_equal. lia.
Qed.

Lemma blit_blit dv p x y :
  0 <= p -> p + len x + len y <= len dv ->
  blit (blit dv p x) (p + len x) y = blit dv p (x ++ y).
Proof.
  intros Hp H. pose proof (len_nonneg x). pose proof (len_nonneg y).
  unfold blit at 1.
  assert (HF : length (firstn (Z.to_nat p) dv ++ x) = Z.to_nat (p + len x)).
  { rewrite app_length, firstn_length. unfold len in *. lia. }
  unfold blit at 1. rewrite (app_assoc (firstn (Z.to_nat p) dv) x).
  rewrite <- HF at 1. rewrite firstn_app_exact.
  replace (Z.to_nat (p + len x + len y)) with (length (firstn (Z.to_nat p) dv ++ x) + length y)%nat
    by (rewrite HF; unfold len in *; lia).
  unfold blit at 1. rewrite (app_assoc (firstn (Z.to_nat p) dv) x).
  rewrite skipn_app_exact. rewrite skipn_skipn'.
  unfold blit. rewrite <- !app_assoc. f_equal. f_equal. f_equal. f_equal.
  rewrite len_app. unfold len in *. lia.
Qed.

(* offsets of an indexed-string column *)
Lemma psums_frame (strs:list (list Z)) a b :
  0 <= a -> a <= b -> b <= len strs ->
  exists sp sp2,
    len sp = a /\ len sp2 = b - a /\
    psums (map (@len Z) strs)
    = sp ++ psums_from (len (concat (firstn (Z.to_nat a) strs)))
                       (map (@len Z) (slice strs a b) ++ map (@len Z) (skipn (Z.to_nat b) strs)) /\
    psums (map (@len Z) strs)
    = (sp ++ sp2) ++ psums_from (len (concat (firstn (Z.to_nat a) strs)) + len (concat (slice strs a b)))
                                (map (@len Z) (skipn (Z.to_nat b) strs)).
Proof.
  intros Ha Hab Hb.
  assert (Hd : map (@len Z) strs = map (@len Z) (firstn (Z.to_nat a) strs) ++
                 map (@len Z) (slice strs a b) ++ map (@len Z) (skipn (Z.to_nat b) strs)).
  { rewrite <- !map_app. f_equal. apply firstn_skipn_slice; assumption. }
  unfold psums. rewrite Hd.
  destruct (psums_from_split 0 (map (@len Z) (firstn (Z.to_nat a) strs))
              (map (@len Z) (slice strs a b) ++ map (@len Z) (skipn (Z.to_nat b) strs))) as (sp & Hl & He).
  destruct (psums_from_split (0 + sumZ (map (@len Z) (firstn (Z.to_nat a) strs))) (map (@len Z) (slice strs a b))
              (map (@len Z) (skipn (Z.to_nat b) strs))) as (sp2 & Hl2 & He2).
  exists sp, sp2. rewrite !len_concat.
  split; [|split; [|split]].
  - unfold len in *. rewrite Hl, map_length, firstn_length. lia.
  - unfold len. rewrite Hl2, map_length. fold (len (slice strs a b)). apply len_slice; lia.
  - rewrite He. reflexivity.
  - rewrite He, He2. rewrite <- app_assoc. reflexivity.
Qed.

Lemma psums_len l : len (psums l) = len l + 1.
Proof. unfold psums, len. rewrite psums_from_length. lia. Qed.
