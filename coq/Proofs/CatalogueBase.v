(* Proofs/CatalogueBase.v — names, dictionaries, the state monad: rewriting lemmas. *)
From Coq Require Import ZArith List Bool Lia.
From EV Require Import Res Catalogue.
Import ListNotations.
Open Scope Z_scope.

(* ------------------------------------------------------------------ names *)
Lemma name_eqb_spec (a b:name) : name_eqb a b = true <-> a = b.
Proof.
  revert b. induction a as [|x a IH]; destruct b as [|y b]; cbn [name_eqb]; split; intros H; try congruence; try discriminate.
  - apply andb_true_iff in H. destruct H as [H1 H2]. apply Z.eqb_eq in H1. apply IH in H2. congruence.
  - inversion H; subst. apply andb_true_iff. split; [apply Z.eqb_refl | apply IH; reflexivity].
Qed.

Lemma name_eqb_refl a : name_eqb a a = true.
Proof. apply name_eqb_spec. reflexivity. Qed.

Lemma name_eqb_neq a b : name_eqb a b = false <-> a <> b.
Proof.
  split; intros H.
  - intros E. apply name_eqb_spec in E. congruence.
  - destruct (name_eqb a b) eqn:E; [|reflexivity]. apply name_eqb_spec in E. contradiction.
Qed.

Lemma name_eqb_sym a b : name_eqb a b = name_eqb b a.
Proof.
  destruct (name_eqb a b) eqn:E; symmetry.
  - apply name_eqb_spec in E. subst. apply name_eqb_refl.
  - apply name_eqb_neq in E. apply name_eqb_neq. congruence.
Qed.

Lemma name_dec (a b:name) : {a = b} + {a <> b}.
Proof. destruct (name_eqb a b) eqn:E; [left; apply name_eqb_spec; exact E | right; apply name_eqb_neq; exact E]. Qed.

Ltac neq_case a b :=
  let E := fresh "Heq" in
  let N := fresh "Hne" in
  destruct (name_eqb a b) eqn:E;
  [apply name_eqb_spec in E; try subst | pose proof (proj1 (name_eqb_neq _ _) E) as N].

Lemma nmem_In n l : nmem n l = true <-> In n l.
Proof.
  induction l as [|h t IH]; cbn [nmem In]; [split; [discriminate|tauto]|].
  rewrite orb_true_iff, IH, name_eqb_spec. split; intros [H|H]; auto.
Qed.

Lemma nmem_false n l : nmem n l = false <-> ~ In n l.
Proof.
  split; intros H.
  - intros I. apply nmem_In in I. congruence.
  - destruct (nmem n l) eqn:E; [|reflexivity]. apply nmem_In in E. contradiction.
Qed.

Lemma nremove_In n k l : NoDup l -> (In k (nremove n l) <-> In k l /\ k <> n).
Proof.
  induction l as [|h t IH]; intros ND; cbn [nremove In]; [tauto|].
  inversion ND as [|? ? Hh Ht]; subst.
  neq_case n h.
  - split; [intros H; split; [auto | intros ->; contradiction] | intros [[H|H] N]; [congruence | exact H]].
  - cbn [In]. rewrite IH by assumption. split.
    + intros [H'|[H1 H2]]; [subst; split; [auto | congruence] | tauto].
    + intros [[H'|H'] N]; [left; exact H' | right; tauto].
Qed.

Lemma nremove_NoDup n l : NoDup l -> NoDup (nremove n l).
Proof.
  induction l as [|h t IH]; intros ND; cbn [nremove]; [constructor|].
  inversion ND as [|? ? Hh Ht]; subst.
  destruct (name_eqb n h); [assumption|].
  constructor; [|apply IH; assumption].
  intros I. apply nremove_In in I; [tauto | assumption].
Qed.

(* NoDup (l ++ [x]) *)
Lemma NoDup_snoc {A} (l:list A) (x:A) : NoDup l -> ~ In x l -> NoDup (l ++ [x]).
Proof.
  induction l as [|h t IH]; intros ND NI; cbn [app]; [constructor; [tauto|constructor]|].
  inversion ND; subst. constructor.
  - rewrite in_app_iff. cbn [In]. intros [H|[H|[]]]; [contradiction | subst; apply NI; left; reflexivity].
  - apply IH; [assumption | intros H; apply NI; right; exact H].
Qed.

(* ------------------------------------------------------------------ dictionaries *)
Section DictLemmas.
Context {V:Type}.
Implicit Types (l:dict V) (n k:name) (v:V).

Lemma d_find_In l n v : d_find l n = Some v -> In (n, v) l.
Proof.
  induction l as [|[k w] t IH]; cbn [d_find]; [discriminate|].
  neq_case n k; intros H.
  - inversion H; subst. left; reflexivity.
  - right. apply IH. exact H.
Qed.

Lemma d_find_None l n : d_find l n = None <-> ~ In n (d_keys l).
Proof.
  induction l as [|[k w] t IH]; cbn [d_find d_keys map fst In]; [tauto|].
  neq_case n k.
  - split; [discriminate | intros H; exfalso; apply H; left; reflexivity].
  - unfold d_keys in IH. rewrite IH. split; [intros H1 [H2|H2]; [congruence|contradiction] | tauto].
Qed.

Lemma In_d_find l n v : NoDup (d_keys l) -> In (n, v) l -> d_find l n = Some v.
Proof.
  induction l as [|[k w] t IH]; cbn [d_find d_keys map fst In]; intros ND I; [contradiction|].
  inversion ND as [|? ? Hh Ht]; subst.
  destruct I as [I|I].
  - inversion I; subst. rewrite name_eqb_refl. reflexivity.
  - neq_case n k.
    + exfalso. apply Hh. change (In k (d_keys t)). apply (in_map fst) in I. exact I.
    + apply IH; assumption.
Qed.

Lemma d_find_keys l n v : d_find l n = Some v -> In n (d_keys l).
Proof. intros H. apply d_find_In in H. apply (in_map fst) in H. exact H. Qed.

Lemma d_mem_true l n : d_mem l n = true <-> In n (d_keys l).
Proof.
  unfold d_mem. destruct (d_find l n) eqn:E.
  - split; [intros _; eapply d_find_keys; eassumption | reflexivity].
  - split; [discriminate | intros H; apply d_find_None in E; contradiction].
Qed.

Lemma d_mem_false l n : d_mem l n = false <-> d_find l n = None.
Proof. unfold d_mem. destruct (d_find l n); split; congruence. Qed.

Lemma d_mem_find l n : d_mem l n = match d_find l n with Some _ => true | None => false end.
Proof. reflexivity. Qed.

Lemma d_find_app l1 l2 n :
  d_find (l1 ++ l2) n = match d_find l1 n with Some x => Some x | None => d_find l2 n end.
Proof.
  induction l1 as [|[k w] t IH]; cbn [d_find app]; [reflexivity|].
  destruct (name_eqb n k); [reflexivity | exact IH].
Qed.

Lemma d_find_app1 l n v k :
  d_find (l ++ [(n, v)]) k = match d_find l k with Some x => Some x | None => if name_eqb k n then Some v else None end.
Proof. rewrite d_find_app. reflexivity. Qed.

Lemma d_keys_app l1 l2 : d_keys (l1 ++ l2) = d_keys l1 ++ d_keys l2.
Proof. unfold d_keys. apply map_app. Qed.

Lemma d_find_set l n v k : d_find (d_set l n v) k = if name_eqb k n then Some v else d_find l k.
Proof.
  induction l as [|[k' w] t IH]; cbn [d_set d_find].
  - destruct (name_eqb k n); reflexivity.
  - neq_case n k'.
    + cbn [d_find]. destruct (name_eqb k k'); reflexivity.
    + cbn [d_find]. neq_case k k'.
      * rewrite (proj2 (name_eqb_neq k' n)) by congruence. reflexivity.
      * exact IH.
Qed.

Lemma d_set_new l n v : d_find l n = None -> d_set l n v = l ++ [(n, v)].
Proof.
  induction l as [|[k' w] t IH]; cbn [d_set d_find app]; intros H; [reflexivity|].
  destruct (name_eqb n k'); [discriminate|]. f_equal. apply IH. exact H.
Qed.

Lemma d_set_same l n v : d_find l n = Some v -> d_set l n v = l.
Proof.
  induction l as [|[k' w] t IH]; cbn [d_set d_find]; intros H; [discriminate|].
  neq_case n k'.
  - inversion H; subst. reflexivity.
  - f_equal. apply IH. exact H.
Qed.

Lemma d_keys_set_old l n v w : d_find l n = Some w -> d_keys (d_set l n v) = d_keys l.
Proof.
  induction l as [|[k' w'] t IH]; cbn [d_set d_find d_keys map fst]; intros H; [discriminate|].
  neq_case n k'; cbn [map fst]; [reflexivity|]. f_equal. apply IH. exact H.
Qed.

Lemma d_find_del l n k : NoDup (d_keys l) -> d_find (d_del l n) k = if name_eqb k n then None else d_find l k.
Proof.
  induction l as [|[k' w] t IH]; cbn [d_del d_find d_keys map fst]; intros ND.
  - destruct (name_eqb k n); reflexivity.
  - inversion ND as [|? ? Hh Ht]; subst.
    neq_case n k'.
    + neq_case k k'; [|reflexivity]. apply d_find_None. exact Hh.
    + cbn [d_find]. neq_case k k'.
      * rewrite (proj2 (name_eqb_neq k' n)) by congruence. reflexivity.
      * apply IH. exact Ht.
Qed.

Lemma d_keys_del_incl l n k : In k (d_keys (d_del l n)) -> In k (d_keys l).
Proof.
  induction l as [|[k' w] t IH]; cbn [d_del d_keys map fst In]; [tauto|].
  destruct (name_eqb n k'); cbn [map fst In]; [tauto|]. intros [H|H]; [auto | right; apply IH; exact H].
Qed.

Lemma d_del_NoDup l n : NoDup (d_keys l) -> NoDup (d_keys (d_del l n)).
Proof.
  induction l as [|[k' w] t IH]; cbn [d_del d_keys map fst]; intros ND; [constructor|].
  inversion ND as [|? ? Hh Ht]; subst.
  destruct (name_eqb n k'); [exact Ht|]. cbn [map fst]. constructor; [|apply IH; exact Ht].
  intros I. apply Hh. eapply d_keys_del_incl. exact I.
Qed.

Lemma d_del_In l n k v : In (k, v) (d_del l n) -> In (k, v) l.
Proof.
  induction l as [|[k' w] t IH]; cbn [d_del In]; [tauto|].
  destruct (name_eqb n k'); cbn [In]; [tauto|]. intros [H|H]; [auto | right; apply IH; exact H].
Qed.

Lemma app1_NoDup l n v : NoDup (d_keys l) -> d_find l n = None -> NoDup (d_keys (l ++ [(n, v)])).
Proof.
  intros ND H. rewrite d_keys_app. cbn [d_keys map fst].
  apply NoDup_snoc; [exact ND | apply d_find_None; exact H].
Qed.

End DictLemmas.

Lemma d_rfind_In (l:alist) x n : d_rfind l x = Some n -> In (n, x) l.
Proof.
  induction l as [|[k v] t IH]; cbn [d_rfind]; [discriminate|].
  destruct (v =? x) eqn:E; intros H.
  - apply Z.eqb_eq in E. inversion H; subst. left; reflexivity.
  - right. apply IH. exact H.
Qed.

Lemma d_rfind_None (l:alist) x : d_rfind l x = None -> forall n, ~ In (n, x) l.
Proof.
  induction l as [|[k v] t IH]; cbn [d_rfind]; intros H n I; [contradiction|].
  destruct (v =? x) eqn:E; [discriminate|]. apply Z.eqb_neq in E.
  destruct I as [I|I]; [inversion I; subst; congruence | eapply IH; eassumption].
Qed.

(* ------------------------------------------------------------------ function update *)
Lemma fupd_same {A} (f:Z -> A) k v : fupd f k v k = v.
Proof. unfold fupd. rewrite Z.eqb_refl. reflexivity. Qed.
Lemma fupd_other {A} (f:Z -> A) k v i : i <> k -> fupd f k v i = f i.
Proof. intros H. unfold fupd. apply Z.eqb_neq in H. rewrite H. reflexivity. Qed.

(* ------------------------------------------------------------------ monad *)
Lemma bindM_Ok {A B} (m:M A) (f:A -> M B) s s1 a : m s = (s1, Ok a) -> bindM m f s = f a s1.
Proof. intros H. unfold bindM. rewrite H. reflexivity. Qed.

Lemma bindM_inv {A B} (m:M A) (f:A -> M B) s s' r :
  bindM m f s = (s', r) ->
  (exists s1 a, m s = (s1, Ok a) /\ f a s1 = (s', r)) \/
  (m s = (s', match r with Ok _ => OutOfFuel | OOB x => OOB x | Raise c => Raise c | OutOfFuel => OutOfFuel end) /\ is_ok r = false).
Proof.
  unfold bindM. destruct (m s) as [s1 [a|x|c|]] eqn:E; intros H.
  - left. eauto.
  - right. inversion H; subst. split; reflexivity.
  - right. inversion H; subst. split; reflexivity.
  - right. inversion H; subst. split; reflexivity.
Qed.
