(* Proofs/MergeMaps.v — C02: the two sides of the relational join of sorted key columns meet the
   precondition of ordered_map_valid*_stream (valid entries in range and non-decreasing) unless one
   key value is repeated on BOTH sides (then the right-hand map is not monotone: F-C02f). *)
From Coq Require Import ZArith List Lia Bool.
From EV Require Import Res Arr JoinSpec JoinBase JoinIface JoinRows MapStream MapStreamSpec MapStreamBase.
Import ListNotations.
Open Scope Z_scope.

(* ---------------------------------------------------------------- valid_map_from is sound *)
Lemma vmf_sound n inv : forall m lo, valid_map_from n inv lo m = true ->
  (forall i, 0 <= i < len m -> nthZ m i <> inv -> lo <= nthZ m i < n) /\
  (forall i j, 0 <= i -> i <= j -> j < len m -> nthZ m i <> inv -> nthZ m j <> inv -> nthZ m i <= nthZ m j).
Proof.
  induction m as [|k t IH]; intros lo H.
  - split; intros; unfold len in *; cbn [length] in *; lia.
  - cbn [valid_map_from] in H. rewrite len_cons. destruct (k =? inv) eqn:E.
    + destruct (IH lo H) as (H1 & H2). split.
      * intros i Hi Hne. destruct (Z.eq_dec i 0) as [->|Hi0]; [rewrite nthZ_cons_0 in Hne; lia|].
        replace i with ((i - 1) + 1) in * by lia. rewrite !nthZ_cons_succ in * by lia. apply H1; [lia|exact Hne].
      * intros i j Hi Hij Hj Hni Hnj.
        destruct (Z.eq_dec i 0) as [->|Hi0]; [rewrite nthZ_cons_0 in Hni; lia|].
        replace i with ((i - 1) + 1) in * by lia. replace j with ((j - 1) + 1) in * by lia.
        rewrite !nthZ_cons_succ in * by lia. apply H2; try lia; assumption.
    + apply andb_prop in H. destruct H as [H Ht]. apply andb_prop in H. destruct H as [Hlo Hn].
      destruct (IH k Ht) as (H1 & H2). split.
      * intros i Hi Hne. destruct (Z.eq_dec i 0) as [->|Hi0]; [rewrite nthZ_cons_0; lia|].
        replace i with ((i - 1) + 1) in * by lia. rewrite !nthZ_cons_succ in * by lia.
        specialize (H1 (i - 1) ltac:(lia) Hne). lia.
      * intros i j Hi Hij Hj Hni Hnj.
        destruct (Z.eq_dec j 0) as [->|Hj0]; [assert (i = 0) by lia; subst; lia|].
        replace j with ((j - 1) + 1) in * by lia. rewrite (nthZ_cons_succ k t (j - 1)) in * by lia.
        destruct (Z.eq_dec i 0) as [->|Hi0].
        -- rewrite nthZ_cons_0. specialize (H1 (j - 1) ltac:(lia) Hnj). lia.
        -- replace i with ((i - 1) + 1) in * by lia. rewrite !nthZ_cons_succ in * by lia.
           apply H2; try lia; assumption.
Qed.

Lemma vmf_valid_map n inv m lo : 0 <= lo -> valid_map_from n inv lo m = true -> valid_map n inv m.
Proof.
  intros Hlo H. destruct (vmf_sound n inv m lo H) as (H1 & H2). split.
  - intros i Hi Hne. specialize (H1 i Hi Hne). lia.
  - exact H2.
Qed.

Lemma vmf_mono n inv : forall m lo1 lo2, lo1 <= lo2 ->
  valid_map_from n inv lo2 m = true -> valid_map_from n inv lo1 m = true.
Proof.
  induction m as [|k t IH]; intros lo1 lo2 Hl H; [reflexivity|].
  cbn [valid_map_from] in *. destruct (k =? inv); [eapply IH; eassumption|].
  apply andb_prop in H. destruct H as [H Ht]. apply andb_prop in H. destruct H as [Hlo Hn].
  rewrite Ht, Hn. replace (lo1 <=? k) with true by lia. reflexivity.
Qed.

(* a run of in-range values starting at >= lo, each >= its predecessor, ending at <= hi *)
Fixpoint chain (n lo:Z) (ms:list Z) (hi:Z) : Prop :=
  match ms with
  | [] => lo <= hi
  | a :: t => lo <= a < n /\ chain n a t hi
  end.

Lemma chain_mono n ms : forall lo1 lo2 hi, lo1 <= lo2 -> chain n lo2 ms hi -> chain n lo1 ms hi.
Proof. destruct ms; cbn; intros; lia || (destruct H0; split; [lia|assumption]). Qed.

Lemma vmf_app_chain n inv rest : forall ms lo hi, chain n lo ms hi ->
  valid_map_from n inv hi rest = true -> valid_map_from n inv lo (ms ++ rest) = true.
Proof.
  induction ms as [|a t IH]; intros lo hi Hc Hr; cbn [app].
  - cbn in Hc. eapply vmf_mono; eassumption.
  - cbn [chain] in Hc. destruct Hc as (Ha & Hc). cbn [valid_map_from]. destruct (a =? inv).
    + apply (IH lo hi); [|exact Hr]. eapply chain_mono; [|exact Hc]. lia.
    + rewrite (IH a hi Hc Hr). replace (lo <=? a) with true by lia. replace (a <? n) with true by lia. reflexivity.
Qed.

(* ---------------------------------------------------------------- matches_from *)
Lemma in_matches_from key R : forall j0 a,
  In a (matches_from key R j0) <-> (j0 <= a < j0 + len R /\ nthZ R (a - j0) = key).
Proof.
  induction R as [|x t IH]; intros j0 a; cbn [matches_from].
  - rewrite len_nil. split; [intros []|lia].
  - rewrite len_cons. pose proof (len_nonneg t) as Ht.
    assert (Hrec : In a (matches_from key t (j0 + 1)) <-> (j0 + 1 <= a < j0 + 1 + len t /\ nthZ (x :: t) (a - j0) = key)).
    { rewrite IH. split; intros (H1 & H2); (split; [lia|]).
      - replace (a - j0) with ((a - (j0 + 1)) + 1) by lia. rewrite nthZ_cons_succ by lia. exact H2.
      - replace (a - j0) with ((a - (j0 + 1)) + 1) in H2 by lia. rewrite nthZ_cons_succ in H2 by lia. exact H2. }
    destruct (x =? key) eqn:E.
    + cbn [In]. rewrite Hrec. split.
      * intros [<-|(H1 & H2)]; [|split; [lia|exact H2]]. split; [lia|]. rewrite Z.sub_diag, nthZ_cons_0. lia.
      * intros (H1 & H2). destruct (Z.eq_dec a j0) as [->|Hne]; [left; reflexivity|right]. split; [lia|exact H2].
    + rewrite Hrec. split.
      * intros (H1 & H2). split; [lia|exact H2].
      * intros (H1 & H2). destruct (Z.eq_dec a j0) as [->|Hne].
        -- rewrite Z.sub_diag, nthZ_cons_0 in H2. lia.
        -- split; [lia|exact H2].
Qed.

Fixpoint incr_from (p:Z) (ms:list Z) : Prop :=
  match ms with [] => True | a :: t => p < a /\ incr_from a t end.

Lemma incr_from_weaken ms : forall p q, q <= p -> incr_from p ms -> incr_from q ms.
Proof. destruct ms; cbn; intros; [exact I|]. destruct H0. split; [lia|assumption]. Qed.

Lemma incr_from_lt ms : forall p b, incr_from p ms -> In b ms -> p < b.
Proof.
  induction ms as [|a t IH]; intros p b H Hin; [destruct Hin|].
  cbn in H. destruct H as (H1 & H2). destruct Hin as [<-|Hin]; [exact H1|]. specialize (IH a b H2 Hin). lia.
Qed.

Lemma matches_from_incr key R : forall j0, incr_from (j0 - 1) (matches_from key R j0).
Proof.
  induction R as [|x t IH]; intros j0; cbn [matches_from]; [exact I|].
  destruct (x =? key).
  - cbn [incr_from]. split; [lia|]. specialize (IH (j0 + 1)). replace (j0 + 1 - 1) with j0 in IH by lia. exact IH.
  - eapply incr_from_weaken; [|apply IH]. lia.
Qed.

Lemma chain_of_incr n : forall ms p lo, incr_from p ms -> (forall a, In a ms -> lo <= a < n) ->
  exists hi, chain n lo ms hi /\ ((ms = [] /\ hi = lo) \/ In hi ms).
Proof.
  induction ms as [|a t IH]; intros p lo Hi Hb.
  - exists lo. cbn. split; [lia|left; split; reflexivity].
  - cbn in Hi. destruct Hi as (Hp & Hi).
    destruct (IH a a Hi) as (hi & Hc & Hin).
    { intros b Hb'. pose proof (incr_from_lt t a b Hi Hb'). specialize (Hb b (or_intror Hb')). lia. }
    exists hi. split.
    + cbn [chain]. split; [apply Hb; left; reflexivity|exact Hc].
    + right. destruct Hin as [(-> & ->)|Hin]; [left; reflexivity|right; exact Hin].
Qed.

(* ---------------------------------------------------------------- the two sides of the join *)
Fixpoint lsorted (l:list Z) : Prop :=
  match l with [] => True | x :: t => (forall y, In y t -> x <= y) /\ lsorted t end.

(* no key that occurs more than once on the left occurs more than once on the right *)
Fixpoint nbd (L R:list Z) : Prop :=
  match L with
  | [] => True
  | x :: t => (In x t -> (length (matches x R) <= 1)%nat) /\ nbd t R
  end.

Lemma map_snd_pairs (i:Z) (ms:list Z) : map snd (map (fun j => (i, j)) ms) = ms.
Proof. rewrite map_map. cbn. apply map_id. Qed.

Lemma snd_jf_vmf emit inv R n : sorted R -> len R <= n -> forall L i0 lo, lsorted L -> nbd L R ->
  (forall key a, In key L -> In a (matches key R) -> lo <= a) ->
  valid_map_from n inv lo (map snd (jf emit inv L R i0)) = true.
Proof.
  intros HR Hn. induction L as [|key t IH]; intros i0 lo Hs Hd Hlo; [reflexivity|].
  cbn [jf]. rewrite map_app. cbn [lsorted nbd] in Hs, Hd. destruct Hs as (Hle & Hs). destruct Hd as (Hd1 & Hd).
  assert (Hrest : forall lo', (forall key' a, In key' t -> In a (matches key' R) -> lo' <= a) ->
                  valid_map_from n inv lo' (map snd (jf emit inv t R (i0 + 1))) = true).
  { intros lo' H. apply IH; assumption. }
  unfold row. destruct (matches key R) as [|m0 ms] eqn:Em.
  - assert (Hr : valid_map_from n inv lo (map snd (jf emit inv t R (i0 + 1))) = true).
    { apply Hrest. intros key' a Hk Ha. apply (Hlo key' a); [right; exact Hk|exact Ha]. }
    destruct emit; cbn [map snd app valid_map_from]; [rewrite Z.eqb_refl|]; exact Hr.
  - rewrite map_snd_pairs. rewrite <- Em.
    assert (Hb : forall a, In a (matches key R) -> lo <= a < n).
    { intros a Ha. split; [apply (Hlo key a); [left; reflexivity|exact Ha]|].
      unfold matches in Ha. apply in_matches_from in Ha. lia. }
    destruct (chain_of_incr n (matches key R) (0 - 1) lo (matches_from_incr key R 0) Hb) as (hi & Hc & Hin).
    apply (vmf_app_chain n inv _ _ lo hi Hc).
    destruct Hin as [(Hnil & _)|Hin]; [rewrite Em in Hnil; discriminate|].
    apply Hrest. intros key' a Hk Ha.
    pose proof (Hle key' Hk) as Hkk.
    pose proof Hin as Hin'. unfold matches in Hin'. apply in_matches_from in Hin'. destruct Hin' as (Hh1 & Hh2).
    pose proof Ha as Ha'. unfold matches in Ha'. apply in_matches_from in Ha'. destruct Ha' as (Ha1 & Ha2).
    rewrite Z.sub_0_r in *.
    destruct (Z.eq_dec key key') as [<-|Hne].
    + specialize (Hd1 Hk). rewrite Em in Hin, Ha. destruct ms; [|cbn in Hd1; lia].
      destruct Hin as [<-|[]]. destruct Ha as [<-|[]]. lia.
    + destruct (Z_lt_le_dec a hi) as [Hlt|]; [|lia]. exfalso.
      pose proof (HR a hi ltac:(lia) ltac:(lia) ltac:(lia)). lia.
Qed.

Lemma map_fst_pairs (i:Z) (ms:list Z) : map fst (map (fun j => (i, j)) ms) = map (fun _ => i) ms.
Proof. rewrite map_map. reflexivity. Qed.

Lemma vmf_const_app n inv i rest : forall (ms:list Z) lo, lo <= i < n ->
  valid_map_from n inv i rest = true -> valid_map_from n inv lo (map (fun _ => i) ms ++ rest) = true.
Proof.
  induction ms as [|a t IH]; intros lo Hi Hr; cbn [map app].
  - eapply vmf_mono; [|exact Hr]. lia.
  - cbn [valid_map_from]. destruct (i =? inv).
    + apply IH; assumption.
    + rewrite (IH i ltac:(lia) Hr). replace (lo <=? i) with true by lia. replace (i <? n) with true by lia. reflexivity.
Qed.

Lemma fst_jf_vmf emit inv R n : forall L i0 lo, lo <= i0 -> i0 + len L <= n ->
  valid_map_from n inv lo (map fst (jf emit inv L R i0)) = true.
Proof.
  induction L as [|key t IH]; intros i0 lo Hlo Hn; [reflexivity|].
  rewrite len_cons in Hn. pose proof (len_nonneg t) as Ht.
  cbn [jf]. rewrite map_app. unfold row. destruct (matches key R) as [|m0 ms].
  - destruct emit; cbn [map fst app].
    + change ([i0]) with (map (fun _ : Z => i0) [0]). cbn [map app valid_map_from].
      destruct (i0 =? inv); [apply IH; lia|].
      rewrite (IH (i0 + 1) i0) by lia. replace (lo <=? i0) with true by lia. replace (i0 <? n) with true by lia. reflexivity.
    + apply IH; lia.
  - rewrite map_fst_pairs. apply vmf_const_app; [lia|]. apply IH; lia.
Qed.

(* ---------------------------------------------------------------- index-based hypotheses *)
Lemma sorted_lsorted l : sorted l -> lsorted l.
Proof.
  induction l as [|x t IH]; intros H; [exact I|]. cbn [lsorted]. split.
  - intros y Hy. apply In_nth with (d:=0) in Hy. destruct Hy as (k & Hk & <-).
    specialize (H 0 (Z.of_nat k + 1) ltac:(lia) ltac:(lia)). rewrite len_cons in H. unfold len in H.
    specialize (H ltac:(lia)). rewrite nthZ_cons_0, nthZ_cons_succ in H by lia.
    unfold nthZ, nthd in H. rewrite Nat2Z.id in H. exact H.
  - apply IH. eapply sorted_tail. exact H.
Qed.

Lemma ssorted_tail x l : ssorted (x :: l) -> ssorted l.
Proof.
  intros H i j Hi Hij Hj. specialize (H (i + 1) (j + 1)).
  rewrite !nthZ_cons_succ in H by lia. apply H; try lia. rewrite len_cons. lia.
Qed.

Lemma ssorted_not_in x t : ssorted (x :: t) -> ~ In x t.
Proof.
  intros H Hy. apply In_nth with (d:=0) in Hy. destruct Hy as (k & Hk & Hx).
  specialize (H 0 (Z.of_nat k + 1) ltac:(lia) ltac:(lia)). rewrite len_cons in H. unfold len in H.
  specialize (H ltac:(lia)). rewrite nthZ_cons_0, nthZ_cons_succ in H by lia.
  unfold nthZ, nthd in H. rewrite Nat2Z.id in H. lia.
Qed.

Lemma nbd_left_unique L R : ssorted L -> nbd L R.
Proof.
  induction L as [|x t IH]; intros H; [exact I|]. cbn [nbd]. split.
  - intros Hin. exfalso. exact (ssorted_not_in x t H Hin).
  - apply IH. eapply ssorted_tail. exact H.
Qed.

Lemma matches_unique key R : ssorted R -> (length (matches key R) <= 1)%nat.
Proof.
  intros HR. destruct (matches key R) as [|a [|b t]] eqn:E; cbn; try lia. exfalso.
  pose proof (matches_from_incr key R 0) as Hi. unfold matches in E. rewrite E in Hi. cbn in Hi.
  destruct Hi as (_ & Hab & _).
  assert (Ha : In a (matches_from key R 0)) by (rewrite E; left; reflexivity).
  assert (Hb : In b (matches_from key R 0)) by (rewrite E; right; left; reflexivity).
  apply in_matches_from in Ha. apply in_matches_from in Hb. rewrite Z.sub_0_r in *.
  pose proof (HR a b ltac:(lia) ltac:(lia) ltac:(lia)). lia.
Qed.

Lemma nbd_right_unique L R : ssorted R -> nbd L R.
Proof.
  intros HR. induction L as [|x t IH]; [exact I|]. cbn [nbd]. split; [|exact IH].
  intros _. apply matches_unique. exact HR.
Qed.

(* ---------------------------------------------------------------- in range, whatever the order *)
Lemma in_range_map_of_In n inv (m:list Z) : (forall k, In k m -> k = inv \/ 0 <= k < n) -> in_range_map n inv m.
Proof.
  intros H i Hi Hne. unfold nthZ, nthd in *.
  destruct (H (nth (Z.to_nat i) m 0)) as [He|Hr]; [|contradiction|exact Hr].
  apply nth_In. unfold len in Hi. lia.
Qed.

(* both sides of the relational join are in range for ANY key columns: this is all that the map streams
   need after fix-F-C02f *)
Theorem join_fst_in_range emit inv L R : in_range_map (len L) inv (map fst (join_spec emit inv L R)).
Proof.
  rewrite <- jf_spec. apply in_range_map_of_In. intros k Hk. apply in_map_iff in Hk. destruct Hk as (p & <- & Hp).
  right. pose proof (jf_range emit inv R L 0 p Hp) as (H1 & _). lia.
Qed.

Theorem join_snd_in_range emit inv L R : in_range_map (len R) inv (map snd (join_spec emit inv L R)).
Proof.
  rewrite <- jf_spec. apply in_range_map_of_In. intros k Hk. apply in_map_iff in Hk. destruct Hk as (p & <- & Hp).
  exact (proj2 (jf_range emit inv R L 0 p Hp)).
Qed.

(* ---------------------------------------------------------------- exported *)
Theorem join_fst_valid emit inv L R : valid_map (len L) inv (map fst (join_spec emit inv L R)).
Proof.
  rewrite <- jf_spec. apply (vmf_valid_map _ _ _ 0); [lia|]. apply fst_jf_vmf; lia.
Qed.

Theorem join_snd_valid emit inv L R : sorted L -> sorted R -> nbd L R ->
  valid_map (len R) inv (map snd (join_spec emit inv L R)).
Proof.
  intros HL HR Hd. rewrite <- jf_spec. apply (vmf_valid_map _ _ _ 0); [lia|].
  apply snd_jf_vmf; try assumption; try lia.
  - apply sorted_lsorted. exact HL.
  - intros key a _ Ha. unfold matches in Ha. apply in_matches_from in Ha. lia.
Qed.
