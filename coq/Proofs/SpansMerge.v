(* Proofs/SpansMerge.v — _get_spans_for_2_fields_by_spans merges two strictly increasing boundary lists
   with a common last element into their strictly increasing union; for span lists of two columns of the
   same length that union is THE span list of the zipped column. *)
From Coq Require Import ZArith List Lia Bool.
From EV Require Import Res Arr Spans SpansSpec SpansBase SpansRef SpansKernels.
Import ListNotations.
Open Scope Z_scope.

Lemma In_slice (l:list Z) a b k : 0 <= a -> a <= b -> b <= len l ->
  (In k (slice l a b) <-> exists p, a <= p < b /\ nthZ l p = k).
Proof.
  intros Ha Hab Hb. split.
  - intros H. destruct (In_nthZ _ _ H) as [i [Hi Hv]]. rewrite len_slice in Hi by lia.
    exists (a + i). split; [lia|]. rewrite <- Hv. unfold nthZ. symmetry. apply nthd_slice; lia.
  - intros [p [Hp Hv]]. rewrite <- Hv. replace p with (a + (p - a)) by lia. unfold nthZ.
    rewrite <- (nthd_slice 0 l a b) by lia. apply (nthZ_In (slice l a b)). rewrite len_slice by lia. lia.
Qed.

Lemma slice_empty {A} (l:list A) a : slice l a a = [].
Proof. unfold slice. replace (Z.to_nat (a - a)) with 0%nat by lia. reflexivity. Qed.

Lemma slice_cons_Z (l:list Z) a b : 0 <= a < b -> b <= len l -> slice l a b = nthZ l a :: slice l (a + 1) b.
Proof.
  intros Ha Hb. apply (list_eq_nthd 0).
  - rewrite len_cons, !len_slice by lia. lia.
  - intros i Hi. rewrite len_slice in Hi by lia. rewrite nthd_slice by lia.
    destruct (Z.eq_dec i 0) as [->|Hi0]; [rewrite nthd_cons_0; unfold nthZ; f_equal; lia|].
    replace i with ((i - 1) + 1) at 2 by lia. rewrite nthd_cons_succ by lia. rewrite nthd_slice by lia. f_equal. lia.
Qed.

Section Merge.
Variables s0 s1 : list Z.
Hypothesis H0s : ssorted s0.
Hypothesis H1s : ssorted s1.
Hypothesis H0l : 1 <= len s0.
Hypothesis H1l : 1 <= len s1.
Hypothesis Hlast : nthZ s0 (len s0 - 1) = nthZ s1 (len s1 - 1).

(* the inner while: consumes the elements of s1 below t *)
Lemma while_ok t : t <= nthZ s1 (len s1 - 1) ->
  forall fuel j acc, 0 <= j < len s1 -> len s1 - j < Z.of_nat fuel ->
  exists j', j <= j' < len s1 /\
    by_spans_while fuel s1 t j acc = Ok (j', rev (slice s1 j j') ++ acc) /\
    t <= nthZ s1 j' /\ (forall p, j <= p < j' -> nthZ s1 p < t).
Proof.
  intros Ht. induction fuel as [|fuel IH]; intros j acc Hj Hf; [lia|].
  cbn [by_spans_while]. rewrite getZ_ok by lia. cbn [bind].
  destruct (nthZ s1 j <? t) eqn:E.
  - rewrite getZ_ok by lia. cbn [bind].
    assert (Hjl : j < len s1 - 1).
    { destruct (Z.eq_dec j (len s1 - 1)) as [->|]; [lia|lia]. }
    destruct (IH (j + 1) (nthZ s1 j :: acc)) as [j' [Hj' [Hr [Ht' Hbelow]]]]; [lia|lia|].
    exists j'. split; [lia|]. split.
    + rewrite Hr. f_equal. f_equal. rewrite (slice_cons_Z s1 j j') by lia. cbn [rev]. rewrite <- app_assoc. reflexivity.
    + split; [exact Ht'|]. intros p Hp. destruct (Z.eq_dec p j) as [->|]; [lia|]. apply Hbelow. lia.
  - exists j. split; [lia|]. split; [rewrite slice_empty; reflexivity|]. split; [lia|]. intros p Hp. lia.
Qed.

Definition Mem (i j k:Z) : Prop :=
  (exists p, 0 <= p < i /\ nthZ s0 p = k) \/ (exists p, 0 <= p < j /\ nthZ s1 p = k).

Definition Inv (i:Z) (st:Z * list Z) : Prop :=
  let '(j, acc) := st in
  0 <= j <= len s1 /\ ssorted (rev acc) /\ (forall k, In k acc <-> Mem i j k) /\
  (forall k, In k acc -> (i < len s0 -> k < nthZ s0 i) /\ (j < len s1 -> k < nthZ s1 j)) /\
  (forall p, 0 <= p < len s1 -> 1 <= i -> nthZ s1 p <= nthZ s0 (i - 1) -> p < j).

Lemma ssorted_slice l a b : ssorted l -> 0 <= a -> a <= b -> b <= len l -> ssorted (slice l a b).
Proof.
  intros Hs Ha Hab Hb i j Hi Hij Hj. rewrite len_slice in Hj by lia. unfold nthZ.
  rewrite !nthd_slice by lia. apply Hs; lia.
Qed.

Lemma step_ok i j acc : 0 <= i < len s0 -> Inv i (j, acc) ->
  exists st', by_spans_body (by_spans_fuel s1) s0 s1 i (j, acc) = Ok st' /\ Inv (i + 1) st'.
Proof.
  intros Hi [Ha [Hb [Hc [Hd Hf]]]]. unfold by_spans_body. rewrite getZ_ok by lia. cbn [bind].
  set (t := nthZ s0 i).
  assert (Ht : t <= nthZ s1 (len s1 - 1)).
  { rewrite <- Hlast. apply (ssorted_sorted s0 H0s); lia. }
  assert (Hnext : i + 1 < len s0 -> t < nthZ s0 (i + 1)) by (intros; apply H0s; lia).
  destruct (j <? len s1) eqn:Ej.
  - destruct (while_ok t Ht (by_spans_fuel s1) j acc) as [j' [Hj' [Hr [Ht' Hbelow]]]];
      [lia|unfold by_spans_fuel, len; lia|].
    rewrite Hr. cbn [bind]. rewrite getZ_ok by lia. cbn [bind].
    set (acc1 := rev (slice s1 j j') ++ acc).
    assert (Hin1 : forall k, In k acc1 <-> (exists p, j <= p < j' /\ nthZ s1 p = k) \/ In k acc).
    { intros k. unfold acc1. rewrite in_app_iff, <- in_rev, In_slice by lia. tauto. }
    assert (Hle : forall k, In k acc1 -> k < t).
    { intros k Hk. apply Hin1 in Hk. destruct Hk as [[p [Hp <-]]|Hk]; [apply Hbelow; exact Hp|].
      apply Hd; [exact Hk|lia]. }
    assert (Hs1 : ssorted (rev (t :: acc1))).
    { cbn [rev]. unfold acc1. rewrite rev_app_distr, rev_involutive.
      apply ssorted_app; [apply ssorted_app|apply ssorted_single|].
      - exact Hb.
      - apply ssorted_slice; [exact H1s|lia|lia|lia].
      - intros x y Hx Hy. rewrite <- in_rev in Hx. apply In_slice in Hy; [|lia|lia|lia].
        destruct Hy as [p [Hp <-]]. destruct (Hd x Hx) as [_ Hx1].
        assert (nthZ s1 j <= nthZ s1 p) by (apply (ssorted_sorted s1 H1s); lia). lia.
      - intros x y Hx [<-|[]]. apply Hle. unfold acc1. apply in_app_iff. apply in_app_or in Hx.
        destruct Hx as [Hx|Hx]; [right; rewrite in_rev; exact Hx|left; rewrite <- in_rev; exact Hx]. }
    (* the new j *)
    set (j2 := if nthZ s1 j' =? t then j' + 1 else j').
    assert (Hj2 : j' <= j2 <= j' + 1) by (unfold j2; destruct (nthZ s1 j' =? t); lia).
    assert (Hj2t : j2 < len s1 -> t < nthZ s1 j2).
    { unfold j2. destruct (nthZ s1 j' =? t) eqn:Ev; intros Hlt.
      - apply Z.eqb_eq in Ev. rewrite <- Ev. apply H1s; lia.
      - apply Z.eqb_neq in Ev. lia. }
    assert (Hj2m : forall p, j' <= p < j2 -> nthZ s1 p = t).
    { unfold j2. destruct (nthZ s1 j' =? t) eqn:Ev; intros p Hp; [|lia]. apply Z.eqb_eq in Ev.
      replace p with j' by lia. exact Ev. }
    exists (j2, t :: acc1). split.
    { unfold j2. destruct (nthZ s1 j' =? t); reflexivity. }
    unfold Inv. split; [lia|]. split; [exact Hs1|]. split; [|split].
    + intros k. cbn [In]. rewrite Hin1, Hc. unfold Mem. split.
      * intros [<-|[[p [Hp Hv]]|[[p [Hp Hv]]|[p [Hp Hv]]]]].
        -- left. exists i. split; [lia|reflexivity].
        -- right. exists p. split; [lia|exact Hv].
        -- left. exists p. split; [lia|exact Hv].
        -- right. exists p. split; [lia|exact Hv].
      * intros [[p [Hp Hv]]|[p [Hp Hv]]].
        -- destruct (Z.eq_dec p i) as [->|]; [left; exact Hv|]. right. right. left. exists p. split; [lia|exact Hv].
        -- destruct (Z_lt_ge_dec p j) as [Hpj|Hpj]; [right; right; right; exists p; split; [lia|exact Hv]|].
           destruct (Z_lt_ge_dec p j') as [Hpj'|Hpj']; [right; left; exists p; split; [lia|exact Hv]|].
           left. rewrite <- Hv. symmetry. apply Hj2m. lia.
    + intros k [<-|Hk].
      * split; [intros; apply Hnext; lia|exact Hj2t].
      * specialize (Hle k Hk). split; [intros Hlt; specialize (Hnext Hlt); lia|intros Hlt; specialize (Hj2t Hlt); lia].
    + intros p Hp _ Hv. replace (i + 1 - 1) with i in Hv by lia. fold t in Hv.
      destruct (Z_lt_ge_dec p j2) as [|Hge]; [assumption|]. exfalso.
      assert (j2 < len s1) by lia. specialize (Hj2t H).
      assert (nthZ s1 j2 <= nthZ s1 p) by (apply (ssorted_sorted s1 H1s); lia). lia.
  - (* j = len s1: every boundary of s1 is already out *)
    exists (j, t :: acc). split; [reflexivity|]. unfold Inv.
    assert (Hjl : j = len s1) by lia.
    split; [lia|]. split.
    { cbn [rev]. apply ssorted_app; [exact Hb|apply ssorted_single|].
      intros x y Hx [<-|[]]. rewrite <- in_rev in Hx. apply Hd; [exact Hx|lia]. }
    split; [|split].
    + intros k. cbn [In]. rewrite Hc. unfold Mem. split.
      * intros [<-|[[p [Hp Hv]]|[p [Hp Hv]]]].
        -- left. exists i. split; [lia|reflexivity].
        -- left. exists p. split; [lia|exact Hv].
        -- right. exists p. split; [lia|exact Hv].
      * intros [[p [Hp Hv]]|[p [Hp Hv]]].
        -- destruct (Z.eq_dec p i) as [->|]; [left; exact Hv|]. right. left. exists p. split; [lia|exact Hv].
        -- right. right. exists p. split; [lia|exact Hv].
    + intros k [<-|Hk]; (split; [|lia]).
      * intros; apply Hnext; lia.
      * intros Hlt. specialize (Hnext Hlt). destruct (Hd k Hk) as [Hk0 _]. specialize (Hk0 ltac:(lia)). fold t in Hk0. lia.
    + intros p Hp _ _. lia.
Qed.

Theorem by_spans_union :
  exists R, get_spans_for_2_fields_by_spans s0 s1 = Ok R /\ ssorted R /\ (forall k, In k R <-> In k s0 \/ In k s1).
Proof.
  unfold get_spans_for_2_fields_by_spans, get_spans_for_2_fields_by_spans_fuel.
  destruct (for_range_inv Inv (by_spans_body (by_spans_fuel s1) s0 s1) (range_len 0 (len s0)) 0 (0, []))
    as [[j acc] [Hr Hinv]].
  - unfold Inv. split; [lia|]. split; [apply ssorted_nil|]. split; [|split].
    + intros k. unfold Mem. cbn [In]. split; [tauto|]. intros [[p [Hp _]]|[p [Hp _]]]; lia.
    + intros k [].
    + intros p Hp Hi. lia.
  - unfold range_len. intros k [j acc] Hk Hinv. apply step_ok; [lia|exact Hinv].
  - unfold range_len in *. replace (0 + Z.of_nat (Z.to_nat (len s0 - 0))) with (len s0) in Hinv by lia.
    rewrite Hr. cbn [bind]. destruct Hinv as [Ha [Hb [Hc [Hd Hf]]]].
    assert (Hj : j = len s1).
    { specialize (Hf (len s1 - 1)). rewrite Hlast in Hf. specialize (Hf ltac:(lia) ltac:(lia) ltac:(lia)). lia. }
    destruct (j <? len s1) eqn:Ej; [lia|]. exists (rev acc). split; [reflexivity|]. split; [exact Hb|].
    intros k. rewrite <- in_rev, Hc, Hj. unfold Mem. split.
    + intros [[p [Hp <-]]|[p [Hp <-]]]; [left|right]; apply nthZ_In; lia.
    + intros [Hk|Hk]; destruct (In_nthZ _ _ Hk) as [p [Hp Hv]]; [left|right]; exists p; split; assumption.
Qed.
End Merge.

(* consequence for span lists: merging the span lists of two columns of equal length gives the span list of
   the zipped column *)
Theorem by_spans_is_spans {A B} (dA:A) (dB:B) (a:list A) (b:list B) (sa sb:list Z) :
  len a = len b -> is_spans dA a sa -> is_spans dB b sb ->
  exists R, get_spans_for_2_fields_by_spans sa sb = Ok R /\ is_spans (dA, dB) (combine a b) R.
Proof.
  intros Hlen [Has [Hal [Ha0 [Han Haiff]]]] [Hbs [Hbl [Hb0 [Hbn Hbiff]]]].
  destruct (by_spans_union sa sb Has Hbs Hal Hbl) as [R [Hr [HRs HRin]]]; [rewrite Han, Hbn; exact Hlen|].
  exists R. split; [exact Hr|].
  assert (Hc : len (combine a b) = len a). { unfold len in *. rewrite combine_length. lia. }
  assert (Hrange : forall k, In k R -> 0 <= k <= len a).
  { intros k Hk. apply HRin in Hk. destruct Hk as [Hk|Hk]; destruct (In_nthZ _ _ Hk) as [p [Hp <-]].
    - pose proof (ssorted_bounds sa p Has Hp). lia.
    - pose proof (ssorted_bounds sb p Hbs Hp). lia. }
  assert (H0in : In 0 R) by (apply HRin; left; rewrite <- Ha0; apply nthZ_In; lia).
  assert (Hnin : In (len a) R) by (apply HRin; left; rewrite <- Han; apply nthZ_In; lia).
  assert (HRl : 1 <= len R).
  { destruct R; [destruct H0in|]. rewrite len_cons. pose proof (len_nonneg R). lia. }
  unfold is_spans. split; [exact HRs|]. split; [exact HRl|]. split; [|split].
  - destruct (In_nthZ _ _ H0in) as [p [Hp Hv]]. pose proof (ssorted_bounds R p HRs Hp) as Hb.
    assert (0 <= nthZ R 0) by (apply Hrange, nthZ_In; lia). lia.
  - destruct (In_nthZ _ _ Hnin) as [p [Hp Hv]]. pose proof (ssorted_bounds R p HRs Hp) as Hb.
    assert (nthZ R (len R - 1) <= len a) by (apply Hrange, nthZ_In; lia). lia.
  - intros r Hr0 Hr1. rewrite Hc in Hr1. unfold nthd. rewrite !combine_nth by (unfold len in Hlen; lia).
    fold (nthd dA a r) (nthd dB b r) (nthd dA a (r + 1)) (nthd dB b (r + 1)).
    rewrite HRin. specialize (Haiff r Hr0 Hr1). specialize (Hbiff r Hr0 ltac:(lia)). split.
    + intros H. inversion H. tauto.
    + intros H. f_equal; [apply Haiff|apply Hbiff]; tauto.
Qed.

Lemma slice_empty_gen {A} (l:list A) a b : b <= a -> slice l a b = [].
Proof. intros H. unfold slice. replace (Z.to_nat (b - a)) with 0%nat by lia. reflexivity. Qed.
