(* Proofs/CatalogueLoaderOk.v — the reopen with the loader's filter on the reserved group name (Model/CatalogueLoader.v):
   exactly one name is hidden, every other name is found again with the live type and data. *)
From Coq Require Import ZArith List Bool Lia.
From EV Require Import Res Catalogue CatalogueSpec CatalogueBase CatalogueInv CatalogueRename CatalogueStep CatalogueObs CatalogueWitness CatalogueLoader.
Import ListNotations.
Open Scope Z_scope.

Lemma loader_keeps_true d : loader_keeps d = true <-> d <> reserved_group.
Proof.
  unfold loader_keeps. rewrite negb_true_iff. apply name_eqb_neq.
Qed.

Lemma d_find_loader_filter (l:alist) d :
  d_find (filter (fun kg => loader_keeps (fst kg)) l) d = if loader_keeps d then d_find l d else None.
Proof.
  induction l as [|[k v] t IH]; cbn [filter d_find fst].
  - destruct (loader_keeps d); reflexivity.
  - destruct (name_eqb d k) eqn:E.
    + apply name_eqb_spec in E. subst k.
      destruct (loader_keeps d) eqn:K.
      * cbn [d_find]. rewrite name_eqb_refl. reflexivity.
      * rewrite IH; try rewrite K; reflexivity.
    + destruct (loader_keeps k).
      * cbn [d_find]. rewrite E. exact IH.
      * exact IH.
Qed.

Lemma loaded_lookup_file s i d n :
  loaded_lookup s i d n = if loader_keeps d then file_lookup s i d n else None.
Proof.
  unfold loaded_lookup, file_lookup, loaded_root. rewrite d_find_loader_filter.
  destruct (loader_keeps d); reflexivity.
Qed.

(* every name but the reserved one: the reopened dataset finds what the live objects hold *)
Lemma loader_reopen_same : forall c ops i d n,
  fix_a c = true -> fix_b c = true -> d <> reserved_group ->
  loaded_lookup (run_ops c ops init_state) i d n = live_lookup (run_ops c ops init_state) i d n.
Proof.
  intros c ops i d n FA FB ND. rewrite loaded_lookup_file.
  apply loader_keeps_true in ND. rewrite ND. symmetry. apply reopen_same; assumption.
Qed.

(* the reserved name, and only it, is hidden *)
Lemma loader_hides_reserved s i n : loaded_lookup s i reserved_group n = None.
Proof.
  rewrite loaded_lookup_file. unfold loader_keeps. rewrite name_eqb_refl. reflexivity.
Qed.

Lemma filter_all_keep (l:alist) :
  (forall kg, In kg l -> fst kg <> reserved_group) -> filter (fun kg => loader_keeps (fst kg)) l = l.
Proof.
  induction l as [|x t IH]; intros H; cbn [filter]; [reflexivity|].
  assert (K : loader_keeps (fst x) = true) by (apply loader_keeps_true, H; left; reflexivity).
  rewrite K. f_equal. apply IH. intros kg I. apply H. right. exact I.
Qed.

(* no group of the reserved name in the file (the harness never creates one): the loaded view IS the reopen view the
   final verdict of the harness is stated on (c15_trace_reopen_verdict) *)
Lemma loaded_view_is_reopen_view s i :
  (forall kg, In kg (h5_root s i) -> fst kg <> reserved_group) -> loaded_view s i = reopen_view s i.
Proof.
  intros H. unfold loaded_view, reopen_view, view_of, loaded_root. rewrite (filter_all_keep _ H). reflexivity.
Qed.

(* the relatives of the reserved name are ordinary names: t r a s h tr ra as sh tra ras ash tras rash, trash_ trash2
   xtrash _trash trashtrash trasx TRASH Trash hsart *)
Example loader_keeps_relatives :
  forallb loader_keeps
    [[116]; [114]; [97]; [115]; [104]; [116;114]; [114;97]; [97;115]; [115;104]; [116;114;97]; [114;97;115]; [97;115;104];
     [116;114;97;115]; [114;97;115;104]; [116;114;97;115;104;95]; [116;114;97;115;104;50]; [120;116;114;97;115;104];
     [95;116;114;97;115;104]; [116;114;97;115;104;116;114;97;115;104]; [116;114;97;115;120]; [84;82;65;83;72];
     [84;114;97;115;104]; [104;115;97;114;116]; []] = true
  /\ loader_keeps reserved_group = false.
Proof. vm_compute. auto. Qed.
