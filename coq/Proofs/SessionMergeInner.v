(* Proofs/SessionMergeInner.v — the non-streamed inner-join kernels (C19):
   ordered_inner_map_result_size = number of matching pairs; ordered_inner_map / _left_unique /
   _both_unique fill their two buffers with the matching pairs in (left,right) order. *)
From Coq Require Import ZArith List Lia Bool ZifyBool.
From EV Require Import Res Arr Join JoinSpec JoinBase JoinIface JoinRows MapStream SessionMerge SessionMergeLeft.
Import ListNotations.
Open Scope Z_scope.

(* ------------------------------------------------------------------ the join as a prefix + rest *)
Lemma join_prefix emit inv L R I : 0 <= I <= len L ->
  exists rest, join_spec emit inv L R = rows_upto emit inv L R I ++ rest.
Proof.
  intros HI. exists (jf emit inv (skipn (Z.to_nat I) L) R (0 + len (firstn (Z.to_nat I) L))).
  rewrite <- jf_spec. rewrite <- (firstn_skipn (Z.to_nat I) L) at 1. rewrite jf_app. reflexivity.
Qed.

Lemma len_rows_upto_le emit inv L R I : 0 <= I <= len L ->
  len (rows_upto emit inv L R I) <= len (join_spec emit inv L R).
Proof.
  intros HI. destruct (join_prefix emit inv L R I HI) as (rest & ->). rewrite len_app.
  pose proof (len_nonneg rest). lia.
Qed.

(* rows of a block of equal left keys [i, i+n) against the interval [a, b) of right rows *)
Fixpoint block_rows (n:nat) (i a c:Z) : list (Z * Z) :=
  match n with
  | O => []
  | S n' => map (fun j => (i, j)) (seqZ a c) ++ block_rows n' (i + 1) a c
  end.

Lemma len_block_rows n i a c : 0 <= c -> len (block_rows n i a c) = Z.of_nat n * c.
Proof.
  intros Hc. revert i. induction n as [|n IH]; intros i; cbn [block_rows]; [reflexivity|].
  rewrite len_app, IH. unfold len at 1. rewrite map_length. fold (len (seqZ a c)). rewrite seqZ_length by lia. lia.
Qed.

Section Inner.
Variables (L R:list Z) (inv:Z).
Hypothesis HL : sorted L.
Hypothesis HR : sorted R.

Definition O_upto (i:Z) : list (Z * Z) := rows_upto false inv L R i.

Definition front (i j:Z) : Prop :=
  forall j' i', 0 <= j' < j -> i <= i' < len L -> nthZ R j' < nthZ L i'.

(* row of left row I when the right rows equal to its key are exactly [a, b) *)
Lemma row_run I a b : 0 <= I < len L -> 0 <= a <= b -> b <= len R ->
  (forall j', 0 <= j' < a -> nthZ R j' < nthZ L I) ->
  (forall j', a <= j' < b -> nthZ R j' = nthZ L I) ->
  (b < len R -> nthZ L I < nthZ R b) ->
  row false inv R I (nthZ L I) = map (fun j => (I, j)) (seqZ a (b - a)).
Proof.
  intros HI Hab Hb Hlt Heq Hgt.
  rewrite (row_interval false inv R I (nthZ L I) a b); try lia.
  - destruct (a <? b) eqn:E; [reflexivity|]. rewrite seqZ_nil by lia. reflexivity.
  - intros j' Hj'. specialize (Hlt j' Hj'). lia.
  - exact Heq.
  - intros j' Hj'. specialize (Hgt ltac:(lia)). pose proof (HR b j' ltac:(lia) ltac:(lia) ltac:(lia)). lia.
Qed.

(* a whole run of equal left keys [i, i+n) *)
Lemma rows_upto_block : forall n i a c,
  0 <= i -> i + Z.of_nat n <= len L -> 0 <= a -> 0 <= c -> a + c <= len R ->
  (forall i', i <= i' < i + Z.of_nat n -> nthZ L i' = nthZ L i) ->
  (forall j', 0 <= j' < a -> nthZ R j' < nthZ L i) ->
  (forall j', a <= j' < a + c -> nthZ R j' = nthZ L i) ->
  (a + c < len R -> nthZ L i < nthZ R (a + c)) ->
  O_upto (i + Z.of_nat n) = O_upto i ++ block_rows n i a c.
Proof.
  induction n as [|n IH]; intros i a c Hi Hn Ha Hc Hac Hrun Hlt Heq Hgt.
  - cbn [block_rows]. rewrite app_nil_r. f_equal. lia.
  - cbn [block_rows]. replace (i + Z.of_nat (S n)) with ((i + 1) + Z.of_nat n) by lia.
    assert (Hk : nthZ L (i + 1) = nthZ L i \/ n = O).
    { destruct n; [right; reflexivity|left; apply Hrun; lia]. }
    destruct n as [|n'] eqn:En.
    + cbn [block_rows Z.of_nat]. rewrite app_nil_r, Z.add_0_r. unfold O_upto. rewrite rows_upto_succ by lia.
      f_equal. rewrite (row_run i a (a + c)); try lia; try assumption.
      replace (a + c - a) with c by lia. reflexivity.
    + rewrite <- En in *. destruct Hk as [Hk|Hk]; [|lia].
      rewrite (IH (i + 1) a c); try lia.
      * unfold O_upto at 1. rewrite rows_upto_succ by lia. fold (O_upto i). rewrite <- app_assoc. f_equal. f_equal.
        rewrite (row_run i a (a + c)); try lia; try assumption.
        replace (a + c - a) with c by lia. reflexivity.
      * intros i' Hi'. rewrite Hk. apply Hrun. lia.
      * intros j' Hj'. rewrite Hk. apply Hlt. exact Hj'.
      * intros j' Hj'. rewrite Hk. apply Heq. exact Hj'.
Qed.

(* ---- what the emit loops write ---- *)
Lemma emit_row_ok : forall n ii j0 l2i r2i m,
  0 <= m -> m + Z.of_nat n <= len l2i -> len r2i = len l2i -> 0 <= j0 ->
  exists l' r', emit_row n ii j0 l2i r2i m = Ok (l', r', m + Z.of_nat n) /\
    len l' = len l2i /\ len r' = len l2i /\
    slice l' 0 (m + Z.of_nat n) = slice l2i 0 m ++ map (fun _ => ii) (seqZ j0 (Z.of_nat n)) /\
    slice r' 0 (m + Z.of_nat n) = slice r2i 0 m ++ seqZ j0 (Z.of_nat n).
Proof.
  induction n as [|n IH]; intros ii j0 l2i r2i m Hm Hb Hlr Hj0.
  - cbn [emit_row]. exists l2i, r2i. rewrite Z.add_0_r. cbn [Z.of_nat]. rewrite seqZ_nil by lia.
    cbn [map]. rewrite !app_nil_r. repeat split; try lia; reflexivity.
  - cbn [emit_row]. rewrite set_ok by lia. cbn [bind]. rewrite set_ok by lia. cbn [bind].
    destruct (IH ii (j0 + 1) (upd l2i m ii) (upd r2i m j0) (m + 1)) as (l' & r' & E & Hl & Hr & Sl & Sr);
      try (rewrite ?len_upd; lia).
    exists l', r'. replace (m + Z.of_nat (S n)) with (m + 1 + Z.of_nat n) by lia.
    split; [exact E|]. rewrite len_upd in Hl, Hr. repeat split; try lia.
    + rewrite Sl. rewrite slice_upd_snoc' by lia. rewrite <- app_assoc. f_equal.
      rewrite (seqZ_cons j0 (Z.of_nat (S n))) by lia. cbn [map app]. do 3 f_equal. lia.
    + rewrite Sr. rewrite slice_upd_snoc' by lia. rewrite <- app_assoc. f_equal.
      rewrite (seqZ_cons j0 (Z.of_nat (S n))) by lia. cbn [app]. do 2 f_equal. lia.
Qed.

Lemma map_fst_row (i:Z) a c : map fst (map (fun j => (i, j)) (seqZ a c)) = map (fun _ => i) (seqZ a c).
Proof. rewrite map_map. reflexivity. Qed.
Lemma map_snd_row (i:Z) a c : map snd (map (fun j => (i, j)) (seqZ a c)) = seqZ a c.
Proof. rewrite map_map. cbn [snd]. apply map_id. Qed.

Lemma emit_block_ok : forall ni nj i0 j0 l2i r2i m,
  0 <= m -> m + Z.of_nat ni * Z.of_nat nj <= len l2i -> len r2i = len l2i -> 0 <= j0 ->
  exists l' r', emit_block ni nj i0 j0 l2i r2i m = Ok (l', r', m + Z.of_nat ni * Z.of_nat nj) /\
    len l' = len l2i /\ len r' = len l2i /\
    slice l' 0 (m + Z.of_nat ni * Z.of_nat nj) = slice l2i 0 m ++ map fst (block_rows ni i0 j0 (Z.of_nat nj)) /\
    slice r' 0 (m + Z.of_nat ni * Z.of_nat nj) = slice r2i 0 m ++ map snd (block_rows ni i0 j0 (Z.of_nat nj)).
Proof.
  induction ni as [|ni IH]; intros nj i0 j0 l2i r2i m Hm Hb Hlr Hj0.
  - cbn [emit_block block_rows map Z.of_nat]. exists l2i, r2i. rewrite Z.mul_0_l, Z.add_0_r, !app_nil_r.
    repeat split; try lia; reflexivity.
  - cbn [emit_block block_rows].
    destruct (emit_row_ok nj i0 j0 l2i r2i m Hm ltac:(nia) Hlr Hj0) as (l1 & r1 & E1 & Hl1 & Hr1 & Sl1 & Sr1).
    rewrite E1. cbn [bind].
    destruct (IH nj (i0 + 1) j0 l1 r1 (m + Z.of_nat nj)) as (l' & r' & E & Hl & Hr & Sl & Sr); try nia; try lia.
    exists l', r'.
    replace (m + Z.of_nat (S ni) * Z.of_nat nj) with (m + Z.of_nat nj + Z.of_nat ni * Z.of_nat nj) by nia.
    split; [exact E|]. repeat split; try lia.
    + rewrite Sl, Sl1, map_app, map_fst_row, <- app_assoc. reflexivity.
    + rewrite Sr, Sr1, map_app, map_snd_row, <- app_assoc. reflexivity.
Qed.

(* ---- loop invariants ---- *)
Lemma front_skip_left i j : front i j -> front (i + 1) j.
Proof. intros H j' i' Hj' Hi'. apply H; lia. Qed.

Lemma front_skip_right i j : 0 <= i < len L -> 0 <= j < len R -> nthZ R j < nthZ L i -> front i j -> front i (j + 1).
Proof.
  intros Hi Hj Hlt H j' i' Hj' Hi'. destruct (Z.eq_dec j' j) as [->|Hne]; [|apply H; lia].
  pose proof (HL i i' ltac:(lia) ltac:(lia) ltac:(lia)). lia.
Qed.

(* after consuming the maximal runs [i,i+ci) and [j,j+cj) of one common key *)
Lemma front_after_runs i j ci cj : 0 <= i -> 0 <= j -> 1 <= ci -> 1 <= cj ->
  i + ci <= len L -> j + cj <= len R -> nthZ L i = nthZ R j ->
  (forall m, j <= m < j + cj -> nthZ R m = nthZ R j) ->
  (i + ci < len L -> nthZ L (i + ci) <> nthZ L i) ->
  (forall m, i <= m < i + ci -> nthZ L m = nthZ L i) ->
  front i j -> front (i + ci) (j + cj).
Proof.
  intros Hi Hj Hci Hcj Hil Hjl Heq Hrun Hmax Hrunl H j' i' Hj' Hi'.
  assert (Hle : nthZ R j' <= nthZ L i).
  { destruct (Z_lt_ge_dec j' j) as [Hlt|Hge].
    - specialize (H j' i ltac:(lia) ltac:(lia)). lia.
    - rewrite Hrun by lia. lia. }
  assert (Hgt : nthZ L i < nthZ L (i + ci)).
  { pose proof (HL (i + ci - 1) (i + ci) ltac:(lia) ltac:(lia) ltac:(lia)) as Hs.
    rewrite (Hrunl (i + ci - 1)) in Hs by lia. specialize (Hmax ltac:(lia)). lia. }
  pose proof (HL (i + ci) i' ltac:(lia) ltac:(lia) ltac:(lia)). lia.
Qed.

(* run_len over the whole array: the maximal run starting at k *)
Lemma run_len_full site (a:list Z) k : 0 <= k < len a ->
  exists c, run_len (S (length a)) site a k (len a) 1 = Ok (1 + c) /\ 0 <= c /\ k + c < len a /\
            (forall m, k <= m <= k + c -> nthZ a m = nthZ a k) /\
            (k + c + 1 < len a -> nthZ a (k + c + 1) <> nthZ a k).
Proof.
  intros Hk. apply run_len_spec; try lia. unfold len. lia.
Qed.

(* ---- ordered_inner_map_result_size ---- *)
Lemma inner_size_ok : forall fuel i j,
  0 <= i <= len L -> 0 <= j <= len R -> front i j ->
  Z.of_nat fuel > (len L - i) + (len R - j) ->
  inner_size_loop fuel L R i j (len (O_upto i)) = Ok (len (join_spec false inv L R)).
Proof.
  induction fuel as [|fuel IH]; intros i j Hi Hj Hfr Hf; [lia|].
  cbn [inner_size_loop].
  destruct ((i <? len L) && (j <? len R)) eqn:Ec.
  2:{ f_equal. rewrite (rows_unmatched_tail false inv L R i Hi).
      - rewrite app_nil_r. reflexivity.
      - intros i' Hi'. assert (j = len R) by lia. subst j.
        apply matches_from_none. intros j' Hj'. specialize (Hfr j' i' ltac:(lia) ltac:(lia)). lia. }
  assert (Hil : i < len L) by lia. assert (Hjl : j < len R) by lia.
  rewrite (getZ_ok 311 L i) by lia. rewrite (getZ_ok 312 R j) by lia. cbn [bind].
  destruct (nthZ L i <? nthZ R j) eqn:E1; [|destruct (nthZ R j <? nthZ L i) eqn:E2].
  - replace (len (O_upto i)) with (len (O_upto (i + 1))).
    + apply IH; try lia. apply front_skip_left. exact Hfr.
    + unfold O_upto. rewrite rows_upto_succ by lia.
      rewrite (row_run i j j); try lia.
      * rewrite Z.sub_diag, seqZ_nil by lia. cbn [map]. rewrite app_nil_r. reflexivity.
      * intros j' Hj'. apply Hfr; lia.
  - apply IH; try lia. apply front_skip_right; try lia. exact Hfr.
  - assert (Heq : nthZ L i = nthZ R j) by lia.
    destruct (run_len_full 313 L i ltac:(lia)) as (ci & Eci & Hci0 & Hcil & Hcirun & Hcimax).
    destruct (run_len_full 314 R j ltac:(lia)) as (cj & Ecj & Hcj0 & Hcjl & Hcjrun & Hcjmax).
    rewrite Eci. cbn [bind]. rewrite Ecj. cbn [bind].
    assert (Hblock : O_upto (i + (1 + ci)) = O_upto i ++ block_rows (Z.to_nat (1 + ci)) i j (1 + cj)).
    { replace (i + (1 + ci)) with (i + Z.of_nat (Z.to_nat (1 + ci))) by lia.
      apply rows_upto_block; try lia.
      - intros i' Hi'. apply Hcirun. lia.
      - intros j' Hj'. apply Hfr; lia.
      - intros j' Hj'. rewrite Heq. apply Hcjrun. lia.
      - intros Hx. rewrite Heq. replace (j + (1 + cj)) with (j + cj + 1) in * by lia.
        pose proof (HR j (j + cj + 1) ltac:(lia) ltac:(lia) ltac:(lia)). specialize (Hcjmax Hx). lia. }
    replace (len (O_upto i) + (1 + ci) * (1 + cj)) with (len (O_upto (i + (1 + ci)))).
    + apply IH; try lia.
      apply front_after_runs; try lia; try assumption.
      * intros m Hm. apply Hcjrun. lia.
      * intros Hx. replace (i + (1 + ci)) with (i + ci + 1) in * by lia. apply Hcimax. exact Hx.
      * intros m Hm. apply Hcirun. lia.
    + rewrite Hblock, len_app, len_block_rows by lia. lia.
Qed.

Theorem inner_result_size_correct_gen :
  ordered_inner_map_result_size L R = Ok (len (inner_join L R)).
Proof.
  unfold ordered_inner_map_result_size.
  pose proof (len_nonneg L). pose proof (len_nonneg R).
  change 0 with (len (O_upto 0)) at 3.
  apply inner_size_ok; try lia.
  - intros j' i' Hj' Hi'. lia.
  - unfold lmap_fuel, len. lia.
Qed.

(* ---- the three map kernels ---- *)
Definition N : Z := len (join_spec false inv L R).

Definition IInv (l2i r2i:list Z) (i j m:Z) : Prop :=
  0 <= i <= len L /\ 0 <= j <= len R /\ front i j /\
  len l2i = N /\ len r2i = N /\ m = len (O_upto i) /\
  slice l2i 0 m = map fst (O_upto i) /\ slice r2i 0 m = map snd (O_upto i).

Lemma m_bound i : 0 <= i <= len L -> len (O_upto i) <= N.
Proof. intros Hi. apply len_rows_upto_le. exact Hi. Qed.

Lemma inner_map_ok (k:ikind) :
  (k <> IGen -> ssorted L) -> (k = IBU -> ssorted R) ->
  forall fuel l2i r2i i j m,
  IInv l2i r2i i j m -> Z.of_nat fuel > (len L - i) + (len R - j) ->
  exists l' r', inner_map_loop fuel k L R l2i r2i i j m = Ok (l', r') /\
    l' = map fst (join_spec false inv L R) /\ r' = map snd (join_spec false inv L R).
Proof.
  intros HLs HRs. induction fuel as [|fuel IH]; intros l2i r2i i j m HI Hf.
  - destruct HI as (Hi & Hj & _). lia.
  - destruct HI as (Hi & Hj & Hfr & Hll & Hlr & Hm & Sl & Sr).
    cbn [inner_map_loop].
    destruct ((i <? len L) && (j <? len R)) eqn:Ec.
    2:{ exists l2i, r2i. split; [reflexivity|].
        assert (Hall : join_spec false inv L R = O_upto i).
        { rewrite (rows_unmatched_tail false inv L R i Hi).
          - rewrite app_nil_r. reflexivity.
          - intros i' Hi'. assert (j = len R) by lia. subst j.
            apply matches_from_none. intros j' Hj'. specialize (Hfr j' i' ltac:(lia) ltac:(lia)). lia. }
        assert (HmN : m = N) by (unfold N; rewrite Hall; exact Hm).
        rewrite Hall, <- Sl, <- Sr, HmN. split.
        - rewrite <- Hll. symmetry. apply slice_full.
        - rewrite <- Hlr. symmetry. apply slice_full. }
    assert (Hil : i < len L) by lia. assert (Hjl : j < len R) by lia.
    rewrite (getZ_ok 331 L i) by lia. rewrite (getZ_ok 332 R j) by lia. cbn [bind].
    destruct (nthZ L i <? nthZ R j) eqn:E1; [|destruct (nthZ R j <? nthZ L i) eqn:E2].
    + assert (HO : O_upto (i + 1) = O_upto i).
      { unfold O_upto. rewrite rows_upto_succ by lia. rewrite (row_run i j j); try lia.
        - rewrite Z.sub_diag, seqZ_nil by lia. cbn [map]. rewrite app_nil_r. reflexivity.
        - intros j' Hj'. apply Hfr; lia. }
      apply IH; [|lia]. unfold IInv. rewrite HO. repeat split; try lia; try assumption.
      apply front_skip_left. exact Hfr.
    + apply IH; [|lia]. unfold IInv. repeat split; try lia; try assumption.
      apply front_skip_right; try lia. exact Hfr.
    + assert (Heq : nthZ L i = nthZ R j) by lia.
      (* one step over the maximal runs [i, i+1+ci) and [j, j+1+cj) of the common key *)
      assert (Hstep : forall ci cj,
        0 <= ci -> i + ci < len L -> (forall q, i <= q <= i + ci -> nthZ L q = nthZ L i) ->
        (i + ci + 1 < len L -> nthZ L (i + ci + 1) <> nthZ L i) ->
        0 <= cj -> j + cj < len R -> (forall q, j <= q <= j + cj -> nthZ R q = nthZ R j) ->
        (j + cj + 1 < len R -> nthZ R (j + cj + 1) <> nthZ R j) ->
        m + (1 + ci) * (1 + cj) <= N /\
        forall l1 r1, len l1 = N -> len r1 = N ->
        slice l1 0 (m + (1 + ci) * (1 + cj)) = slice l2i 0 m ++ map fst (block_rows (Z.to_nat (1 + ci)) i j (1 + cj)) ->
        slice r1 0 (m + (1 + ci) * (1 + cj)) = slice r2i 0 m ++ map snd (block_rows (Z.to_nat (1 + ci)) i j (1 + cj)) ->
        exists l' r', inner_map_loop fuel k L R l1 r1 (i + (1 + ci)) (j + (1 + cj)) (m + (1 + ci) * (1 + cj)) = Ok (l', r') /\
          l' = map fst (join_spec false inv L R) /\ r' = map snd (join_spec false inv L R)).
      { intros ci cj Hci0 Hcil Hcirun Hcimax Hcj0 Hcjl Hcjrun Hcjmax.
        assert (Hblock : O_upto (i + (1 + ci)) = O_upto i ++ block_rows (Z.to_nat (1 + ci)) i j (1 + cj)).
        { replace (i + (1 + ci)) with (i + Z.of_nat (Z.to_nat (1 + ci))) by lia.
          apply rows_upto_block; try lia.
          - intros i' Hi'. apply Hcirun. lia.
          - intros j' Hj'. apply Hfr; lia.
          - intros j' Hj'. rewrite Heq. apply Hcjrun. lia.
          - intros Hx. rewrite Heq. replace (j + (1 + cj)) with (j + cj + 1) in * by lia.
            pose proof (HR j (j + cj + 1) ltac:(lia) ltac:(lia) ltac:(lia)). specialize (Hcjmax Hx). lia. }
        assert (Hlenb : len (O_upto (i + (1 + ci))) = m + (1 + ci) * (1 + cj)).
        { rewrite Hblock, len_app, len_block_rows by lia. lia. }
        pose proof (m_bound (i + (1 + ci)) ltac:(lia)) as HmN.
        split; [lia|].
        intros l1 r1 Hl1 Hr1 Sl1 Sr1. apply IH; [|lia]. unfold IInv. repeat split; try lia.
        - apply front_after_runs; try lia; try assumption.
          + intros q Hq. apply Hcjrun. lia.
          + intros Hx. replace (i + (1 + ci)) with (i + ci + 1) in * by lia. apply Hcimax. exact Hx.
          + intros q Hq. apply Hcirun. lia.
        - rewrite Sl1, Sl, Hblock, map_app. reflexivity.
        - rewrite Sr1, Sr, Hblock, map_app. reflexivity. }
      pose proof (len_nonneg (O_upto i)) as Hm0.
      destruct k.
      * (* ordered_inner_map *)
        destruct (run_len_full 336 L i ltac:(lia)) as (ci & Eci & Hci0 & Hcil & Hcirun & Hcimax).
        destruct (run_len_full 337 R j ltac:(lia)) as (cj & Ecj & Hcj0 & Hcjl & Hcjrun & Hcjmax).
        destruct (Hstep ci cj Hci0 Hcil Hcirun Hcimax Hcj0 Hcjl Hcjrun Hcjmax) as (HmN & Hpost).
        rewrite Eci. cbn [bind]. rewrite Ecj. cbn [bind].
        destruct (emit_block_ok (Z.to_nat (1 + ci)) (Z.to_nat (1 + cj)) i j l2i r2i m)
          as (l1 & r1 & E & Hl1 & Hr1 & Sl1 & Sr1); try lia; try nia.
        rewrite E. cbn [bind].
        replace (Z.of_nat (Z.to_nat (1 + cj))) with (1 + cj) in * by lia.
        replace (Z.of_nat (Z.to_nat (1 + ci))) with (1 + ci) in * by lia.
        apply Hpost; try lia; assumption.
      * (* left unique: the left run has one element *)
        destruct (run_len_full 0 L i ltac:(lia)) as (ci & _ & Hci0 & Hcil & Hcirun & Hcimax).
        destruct (run_len_full 335 R j ltac:(lia)) as (cj & Ecj & Hcj0 & Hcjl & Hcjrun & Hcjmax).
        assert (Hci : ci = 0).
        { destruct (Z.eq_dec ci 0) as [Hz|Hnz]; [exact Hz|exfalso].
          pose proof (HLs ltac:(discriminate) i (i + 1) ltac:(lia) ltac:(lia) ltac:(lia)) as Hs.
          rewrite (Hcirun (i + 1)) in Hs by lia. lia. }
        subst ci.
        destruct (Hstep 0 cj Hci0 Hcil Hcirun Hcimax Hcj0 Hcjl Hcjrun Hcjmax) as (HmN & Hpost).
        rewrite Ecj. cbn [bind].
        destruct (emit_row_ok (Z.to_nat (1 + cj)) i j l2i r2i m) as (l1 & r1 & E & Hl1 & Hr1 & Sl1 & Sr1); try lia.
        rewrite E. cbn [bind].
        replace (Z.of_nat (Z.to_nat (1 + cj))) with (1 + cj) in * by lia.
        specialize (Hpost l1 r1 ltac:(lia) ltac:(lia)).
        replace (m + (1 + 0) * (1 + cj)) with (m + (1 + cj)) in Hpost by lia.
        replace (i + (1 + 0)) with (i + 1) in Hpost by lia.
        apply Hpost.
        -- rewrite Sl1. f_equal. change (Z.to_nat (1 + 0)) with 1%nat. cbn [block_rows].
           rewrite app_nil_r, map_fst_row. reflexivity.
        -- rewrite Sr1. f_equal. change (Z.to_nat (1 + 0)) with 1%nat. cbn [block_rows].
           rewrite app_nil_r, map_snd_row. reflexivity.
      * (* both unique *)
        destruct (run_len_full 0 L i ltac:(lia)) as (ci & _ & Hci0 & Hcil & Hcirun & Hcimax).
        destruct (run_len_full 0 R j ltac:(lia)) as (cj & _ & Hcj0 & Hcjl & Hcjrun & Hcjmax).
        assert (Hci : ci = 0).
        { destruct (Z.eq_dec ci 0) as [Hz|Hnz]; [exact Hz|exfalso].
          pose proof (HLs ltac:(discriminate) i (i + 1) ltac:(lia) ltac:(lia) ltac:(lia)) as Hs.
          rewrite (Hcirun (i + 1)) in Hs by lia. lia. }
        assert (Hcj : cj = 0).
        { destruct (Z.eq_dec cj 0) as [Hz|Hnz]; [exact Hz|exfalso].
          pose proof (HRs eq_refl j (j + 1) ltac:(lia) ltac:(lia) ltac:(lia)) as Hs.
          rewrite (Hcjrun (j + 1)) in Hs by lia. lia. }
        subst ci cj.
        destruct (Hstep 0 0 Hci0 Hcil Hcirun Hcimax Hcj0 Hcjl Hcjrun Hcjmax) as (HmN & Hpost).
        rewrite set_ok by lia. cbn [bind]. rewrite set_ok by lia. cbn [bind].
        specialize (Hpost (upd l2i m i) (upd r2i m j) ltac:(rewrite len_upd; lia) ltac:(rewrite len_upd; lia)).
        replace (m + (1 + 0) * (1 + 0)) with (m + 1) in Hpost by lia.
        replace (i + (1 + 0)) with (i + 1) in Hpost by lia.
        replace (j + (1 + 0)) with (j + 1) in Hpost by lia.
        assert (Hb1 : block_rows (Z.to_nat (1 + 0)) i j (1 + 0) = [(i, j)]).
        { change (Z.to_nat (1 + 0)) with 1%nat. cbn [block_rows].
          rewrite (seqZ_cons j (1 + 0)) by lia. rewrite seqZ_nil by lia. reflexivity. }
        rewrite Hb1 in Hpost. apply Hpost.
        -- rewrite slice_upd_snoc' by lia. reflexivity.
        -- rewrite slice_upd_snoc' by lia. reflexivity.
Qed.

Theorem inner_map_correct_gen (k:ikind) l2i r2i :
  (k <> IGen -> ssorted L) -> (k = IBU -> ssorted R) ->
  len l2i = len (inner_join L R) -> len r2i = len (inner_join L R) ->
  ordered_inner_map_k k L R l2i r2i = Ok (map fst (inner_join L R), map snd (inner_join L R)).
Proof.
  intros HLs HRs Hl Hr. unfold ordered_inner_map_k.
  pose proof (len_nonneg L). pose proof (len_nonneg R).
  destruct (inner_map_ok k HLs HRs (lmap_fuel L R) l2i r2i 0 0 0) as (l' & r' & E & -> & ->).
  - unfold IInv, N. repeat split; try lia; try assumption. intros j' i' Hj' Hi'. lia.
  - unfold lmap_fuel, len. lia.
  - exact E.
Qed.

End Inner.

(* ------------------------------------------------------------------ wrappers used by Props/C19.v *)
Lemma inner_result_size_correct_top : forall L R, sorted L -> sorted R ->
  ordered_inner_map_result_size L R = Ok (len (inner_join L R)).
Proof. intros L R HL HR. exact (inner_result_size_correct_gen L R 0 HL HR). Qed.

Lemma inner_map_kernels_correct_top : forall k L R l2i r2i, sorted L -> sorted R ->
  (k <> IGen -> ssorted L) -> (k = IBU -> ssorted R) ->
  len l2i = len (inner_join L R) -> len r2i = len (inner_join L R) ->
  ordered_inner_map_k k L R l2i r2i = Ok (map fst (inner_join L R), map snd (inner_join L R)).
Proof. intros k L R l2i r2i HL HR. exact (inner_map_correct_gen L R 0 HL HR k l2i r2i). Qed.
