(* Proofs/UniqueMain.v — C14: unique_for_indexed_string (repaired) returns the specification:
   sorted distinct values, first-occurrence indices, reconstructing inverse, counts. *)
From Coq Require Import ZArith List Lia Bool Sorted Permutation.
From EV Require Import Res Arr UniqueSpec Unique UniqueOrder UniqueUtf8 UniqueSort UniqueStore UniqueIsin UniqueScan.
Import ListNotations.
Open Scope Z_scope.

(* ---- decoding what the scan collected ---- *)
Lemma decode_all_ok U :
  (forall u, In u U -> exists s0, valid_strb s0 = true /\ u = utf8_encode s0) ->
  exists strs, decode_all U = Ok strs /\ map utf8_encode strs = U /\
               Forall (fun s => valid_strb s = true) strs.
Proof.
  induction U as [|u t IH]; intros H.
  - exists []. repeat split; constructor.
  - destruct (H u (or_introl eq_refl)) as [s0 [Hv ->]].
    destruct IH as [strs [Hd [Hm Hf]]]; [intros x Hx; apply H; right; exact Hx|].
    exists (s0 :: strs). unfold decode_all in *. cbn [map_res].
    rewrite utf8_decode_encode by (apply valid_str_scalar; exact Hv). cbn [bind]. rewrite Hd. cbn [bind].
    repeat split; [cbn [map]; rewrite Hm; reflexivity|constructor; assumption].
Qed.

Lemma map_strip_valid strs : Forall (fun s => valid_strb s = true) strs -> map strip_nul strs = strs.
Proof.
  induction 1 as [|s t Hs Ht IH]; cbn [map]; [reflexivity|]. rewrite valid_str_strip by exact Hs. rewrite IH. reflexivity.
Qed.

(* sorted + duplicate-free = strictly sorted *)
Lemma lesorted_NoDup_strict l :
  StronglySorted (leP lexle) l -> NoDup l -> StronglySorted (slt lexcmp) l.
Proof.
  induction 1 as [|x t Ht IH Hall]; intros Hnd; [constructor|].
  inversion Hnd as [|? ? Hx Hnd']; subst. constructor; [apply IH; exact Hnd'|].
  rewrite Forall_forall in *. intros z Hz. specialize (Hall z Hz). unfold leP, lexle, slt in *.
  destruct (lexcmp x z) eqn:E; [|reflexivity|discriminate].
  apply lexcmp_eq in E. subst. contradiction.
Qed.

(* ---- numpy-level take / scatter ---- *)
Lemma map_res_get site (a l:list Z) :
  (forall x, In x l -> 0 <= x < len a) -> map_res (get site a) l = Ok (map (nthZ a) l).
Proof.
  induction l as [|x t IH]; intros H; cbn [map_res map]; [reflexivity|].
  rewrite getZ_ok by (apply H; left; reflexivity). cbn [bind].
  rewrite IH by (intros y Hy; apply H; right; exact Hy). reflexivity.
Qed.

Lemma scatter_ok t : forall k r,
  (forall p, In p t -> 0 <= p < len r) -> NoDup t ->
  exists r', scatter t k r = Ok r' /\ len r' = len r /\
             (forall j, 0 <= j < len t -> nthZ r' (nthZ t j) = k + j) /\
             (forall q, 0 <= q -> ~ In q t -> nthZ r' q = nthZ r q).
Proof.
  induction t as [|p t IH]; intros k r Hr Hnd; cbn [scatter].
  - exists r. repeat split; try reflexivity. intros j Hj. unfold len in Hj; cbn [length] in Hj. lia.
  - inversion Hnd as [|? ? Hp Hnd']; subst.
    assert (Hpr : 0 <= p < len r) by (apply Hr; left; reflexivity).
    rewrite set_ok by exact Hpr. cbn [bind].
    destruct (IH (k + 1) (upd r p k)) as [r' [Hs [Hl [Hj Hq]]]].
    { intros q Hq. rewrite len_upd. apply Hr. right; exact Hq. }
    { exact Hnd'. }
    exists r'. split; [exact Hs|]. split; [rewrite Hl, len_upd; reflexivity|]. split.
    + intros j Hjr. rewrite len_cons in Hjr. destruct (Z.eq_dec j 0) as [->|Hj0].
      * unfold nthZ at 2. rewrite nthd_cons_0. rewrite Hq by (try lia; exact Hp).
        unfold nthZ. rewrite nthd_upd_same by exact Hpr. lia.
      * replace j with ((j - 1) + 1) at 1 by lia. unfold nthZ at 2. rewrite nthd_cons_succ by lia.
        fold (nthZ t (j - 1)). rewrite Hj by lia. lia.
    + intros q Hq0 Hqn. rewrite Hq; [|exact Hq0|intros H; apply Hqn; right; exact H].
      unfold nthZ. apply nthd_upd_other; [lia|lia|]. intros ->. apply Hqn. left; reflexivity.
Qed.

Lemma repeat_len {A} (x:A) n : len (repeat x n) = Z.of_nat n.
Proof. unfold len. rewrite repeat_length. reflexivity. Qed.

(* ---- the main theorem ---- *)
Theorem unique_indexed_correct ss ind vals ri rv rc :
  Forall (fun s => valid_strb s = true) ss ->
  let xs := map utf8_encode ss in
  stored xs ind vals ->
  exists r, unique_for_indexed_string true ind vals ri rv rc = Ok r /\
            encode_result r = spec_unique lexcmp xs ri rv rc.
Proof.
  intros Hval xs Hst.
  destruct (unique_scan_correct ri rv rc xs ind vals Hst) as [s [Hscan [Hnd Hmem Hlens Hidx Hinv Hcnt]]].
  unfold unique_for_indexed_string. rewrite Hscan. cbn [bind].
  set (U := u_res s) in *.
  destruct (decode_all_ok U) as [strs [Hdec [Hmap Hvs]]].
  { intros u Hu. apply Hmem in Hu. unfold xs in Hu. apply in_map_iff in Hu. destruct Hu as [s0 [<- Hs0]].
    exists s0. split; [|reflexivity]. rewrite Forall_forall in Hval. apply Hval. exact Hs0. }
  rewrite Hdec. cbn [bind].
  unfold np_sort_str, np_argsort_str. rewrite (map_strip_valid strs Hvs).
  assert (Hrange : Forall (fun s => Forall cp_range s) strs).
  { eapply Forall_impl; [|exact Hvs]. intros a Ha. apply valid_str_range. exact Ha. }
  set (SU := isort lexle U).
  assert (Henc : map utf8_encode (isort lexle strs) = SU).
  { rewrite (map_isort utf8_encode lexle lexle (fun s => Forall cp_range s)); [rewrite Hmap; reflexivity| |exact Hrange].
    intros a b Ha Hb. apply lexle_encode; assumption. }
  assert (HSUnd : NoDup SU).
  { eapply Permutation_NoDup; [apply Permutation_sym, isort_perm|exact Hnd]. }
  assert (HSU : SU = sort_uniq lexcmp xs).
  { apply (ssorted_unique lexcmp lexcmp_eq lexcmp_trans).
    - apply lesorted_NoDup_strict; [apply isort_sorted; [apply lexle_total|apply lexle_trans]|exact HSUnd].
    - apply (sort_uniq_sorted lexcmp lexcmp_eq lexcmp_antisym lexcmp_trans).
    - intros x. rewrite (sort_uniq_in lexcmp lexcmp_eq). rewrite <- Hmem. split; intros H.
      + eapply Permutation_in; [apply isort_perm|exact H].
      + eapply Permutation_in; [apply Permutation_sym, isort_perm|exact H]. }
  destruct (negb (ri || rv || rc)) eqn:Eflags.
  { destruct ri, rv, rc; try discriminate. eexists. split; [reflexivity|].
    unfold encode_result, spec_unique. rewrite Henc, HSU. reflexivity. }
  set (pi := argsort lexle strs).
  assert (Hlen : len strs = len U) by (rewrite <- Hmap, len_map; reflexivity).
  assert (Hpi_in : forall x, In x pi <-> 0 <= x < len U) by (intros x; unfold pi; rewrite argsort_in, Hlen; reflexivity).
  assert (Hpi_len : len pi = len U) by (unfold pi; rewrite argsort_length; exact Hlen).
  assert (Htake : map (nthd [] U) pi = SU).
  { rewrite <- Henc. unfold pi. rewrite <- (take_argsort [] lexle strs). rewrite map_map.
    apply map_ext_in. intros k Hk. apply Hpi_in in Hk. rewrite <- Hmap. apply nthd_map_in. lia. }
  (* index *)
  assert (Hix : (if ri then (do r <- map_res (get 11 (u_idx s)) pi; Ok (Some r)) else Ok None)
                = Ok (if ri then Some (map (fun x => idx_of x xs 0) SU) else None)).
  { destruct ri; [|reflexivity]. rewrite Hidx. rewrite map_res_get by (intros x Hx; rewrite len_map; apply Hpi_in; exact Hx).
    cbn [bind]. f_equal. f_equal. rewrite <- Htake, map_map. apply map_ext_in. intros k Hk.
    apply Hpi_in in Hk. unfold nthZ. exact (nthd_map_in [] 0 (fun x => idx_of x xs 0) U k Hk). }
  (* counts *)
  assert (Hcx : (if rc then (do r <- map_res (get 13 (u_cnt s)) pi; Ok (Some r)) else Ok None)
                = Ok (if rc then Some (map (fun x => cnt_of x xs) SU) else None)).
  { destruct rc; [|reflexivity]. rewrite Hcnt. rewrite map_res_get by (intros x Hx; rewrite len_map; apply Hpi_in; exact Hx).
    cbn [bind]. f_equal. f_equal. rewrite <- Htake, map_map. apply map_ext_in. intros k Hk.
    apply Hpi_in in Hk. unfold nthZ. exact (nthd_map_in [] 0 (fun x => cnt_of x xs) U k Hk). }
  (* inverse *)
  assert (Hvx : (if rv then
                   (do table <- scatter pi 0 (repeat 0 (length pi));
                    do r <- map_res (get 12 table) (u_inv s); Ok (Some r))
                 else Ok None)
                = Ok (if rv then Some (map (fun x => idx_of x SU 0) xs) else None)).
  { destruct rv; [|reflexivity].
    destruct (scatter_ok pi 0 (repeat 0 (length pi))) as [ranks [Hsc [Hrl [Hrj _]]]].
    { intros p Hp. rewrite repeat_len. apply Hpi_in in Hp. unfold len in *. lia. }
    { apply argsort_NoDup. }
    rewrite Hsc. cbn [bind]. rewrite Hinv.
    assert (Hrl' : len ranks = len U) by (rewrite Hrl, repeat_len; exact Hpi_len).
    rewrite map_res_get.
    2:{ intros a Ha. apply in_map_iff in Ha. destruct Ha as [x [<- Hx]]. rewrite Hrl'.
        apply (index_of_in lexcmp lexcmp_eq). apply Hmem. exact Hx. }
    cbn [bind]. f_equal. f_equal. rewrite map_map. apply map_ext_in. intros x Hx.
    assert (HxU : In x U) by (apply Hmem; exact Hx).
    pose proof (index_of_in lexcmp lexcmp_eq x U HxU) as Ha.
    pose proof (index_of_nth lexcmp lexcmp_eq [] x U HxU) as Hax.
    set (a := idx_of x U 0) in *.
    assert (Hapi : In a pi) by (apply Hpi_in; exact Ha).
    destruct (In_nth pi a 0 Hapi) as [n [Hn Hna]].
    assert (Hk : 0 <= Z.of_nat n < len pi) by (unfold len; lia).
    specialize (Hrj (Z.of_nat n) Hk). unfold nthZ at 2 in Hrj. unfold nthd in Hrj. rewrite Nat2Z.id, Hna in Hrj.
    rewrite Hrj. cbn [Z.add].
    assert (HSUk : nthd [] SU (Z.of_nat n) = x).
    { rewrite <- Htake. rewrite (nthd_map_in 0 []) by exact Hk. unfold nthd at 2. rewrite Nat2Z.id, Hna. exact Hax. }
    rewrite <- HSUk at 1. symmetry. apply (index_of_NoDup_nth lexcmp lexcmp_eq); [exact HSUnd|].
    rewrite <- Htake, len_map. exact Hk. }
  rewrite Hix. cbn [bind]. rewrite Hvx. cbn [bind]. rewrite Hcx. cbn [bind].
  eexists. split; [reflexivity|]. unfold encode_result, spec_unique. rewrite Henc, HSU. reflexivity.
Qed.

(* the same, for the canonical storage of the specification *)
Corollary unique_indexed_correct_offsets ss ri rv rc :
  Forall (fun s => valid_strb s = true) ss ->
  let xs := map utf8_encode ss in
  exists r, unique_for_indexed_string true (offsets_of xs) (values_of xs) ri rv rc = Ok r /\
            encode_result r = spec_unique lexcmp xs ri rv rc.
Proof. intros H xs. apply unique_indexed_correct; [exact H|apply stored_offsets_of]. Qed.

(* F-C14a: the code as found (fixed = false) composes the inverse with indices_sort itself *)
Theorem unique_inverse_refuted :
  exists ss, Forall (fun s => valid_strb s = true) ss /\
    let xs := map utf8_encode ss in
    forall r, unique_for_indexed_string false (offsets_of xs) (values_of xs) false true false = Ok r ->
              encode_result r <> spec_unique lexcmp xs false true false.
Proof.
  exists [[99]; [97]; [98]; [97]]. split; [repeat constructor|].
  intros xs r H. vm_compute in H. injection H as <-. vm_compute. discriminate.
Qed.

(* F-C14b: outside the domain (a string ending in NUL) numpy's str arrays lose the NUL *)
Theorem unique_trailing_nul_refuted :
  exists ss, let xs := map utf8_encode ss in
    forall r, unique_for_indexed_string true (offsets_of xs) (values_of xs) false false false = Ok r ->
              encode_result r <> spec_unique lexcmp xs false false false.
Proof.
  exists [[97; 0]; [97]]. intros xs r H. vm_compute in H. injection H as <-. vm_compute. discriminate.
Qed.
