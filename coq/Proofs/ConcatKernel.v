(* Proofs/ConcatKernel.v — C16: the byte-level loops of _apply_spans_concat_2 write the
   CSV-escaped, comma-joined non-empty entries of a span.
   Style: the source arrays are framed (sv = pre ++ w ++ post, read position = |pre|) and the
   destination is always `blit dv0 base acc` with delta = |acc| ("what this span wrote so far"). *)
From Coq Require Import ZArith List Lia Bool ZifyBool.
From EV Require Import Res Arr Concat ConcatSpec ConcatLists.
Import ListNotations.
Open Scope Z_scope.

Definition has (x:Z) (w:list Z) : bool := existsb (fun c => c =? x) w.
Definition dq (del:Z) (w:list Z) : list Z := flat_map (fun c => if c =? del then [del; del] else [c]) w.
Definition esc (del:Z) (cq:bool) (w:list Z) : list Z :=
  (if cq then [del] else []) ++ dq del w ++ (if cq then [del] else []).

Lemma snoc_frame {A} (pre:list A) a w post : pre ++ a :: w ++ post = (pre ++ [a]) ++ w ++ post.
Proof. rewrite <- app_assoc. reflexivity. Qed.

Lemma snoc_frame_cons {A} (pre:list A) a b rest : pre ++ a :: b :: rest = (pre ++ [a]) ++ b :: rest.
Proof. rewrite <- app_assoc. reflexivity. Qed.

Lemma len_snoc {A} (pre:list A) a : len (pre ++ [a]) = len pre + 1.
Proof. rewrite len_app, len_cons, len_nil. lia. Qed.

Ltac len_simp := repeat (rewrite len_app || rewrite len_cons || rewrite len_nil).

Section Bytes.
Variables sep del : Z.
Hypothesis Hne : sep <> del.

Lemma scan_flags_ok : forall w pre post c q,
  scan_flags (length w) (len pre) (pre ++ w ++ post) sep del c q = Ok (c || has sep w, q || has del w).
Proof.
  induction w as [|a w IH]; intros pre post c q.
  - cbn [scan_flags length]. unfold has. cbn [existsb]. rewrite !orb_false_r. reflexivity.
  - cbn [length scan_flags app]. rewrite get_app_mid. cbn [bind].
    rewrite snoc_frame, <- (len_snoc pre a). unfold has. cbn [existsb]. fold (has sep w). fold (has del w).
    destruct (a =? sep) eqn:E1.
    + rewrite IH. assert (a =? del = false) as -> by lia.
      f_equal. f_equal; destruct c, q, (has sep w), (has del w); reflexivity.
    + destruct (a =? del) eqn:E2; rewrite IH; f_equal; f_equal;
        destruct c, q, (has sep w), (has del w); reflexivity.
Qed.

Lemma copy_escaped_ok : forall w pre post dv0 base acc,
  0 <= base -> base + len acc + len (dq del w) <= len dv0 ->
  copy_escaped (length w) (len pre) (pre ++ w ++ post) (blit dv0 base acc) del base (len acc)
  = Ok (blit dv0 base (acc ++ dq del w), len acc + len (dq del w)).
Proof.
  induction w as [|a w IH]; intros pre post dv0 base acc Hb Hfit.
  - cbn [copy_escaped length dq flat_map]. rewrite app_nil_r, len_nil, Z.add_0_r. reflexivity.
  - cbn [length copy_escaped app]. rewrite get_app_mid. cbn [bind].
    cbn [dq flat_map] in *. fold (dq del w) in *.
    pose proof (len_nonneg (dq del w)) as Hnn.
    rewrite snoc_frame, <- (len_snoc pre a).
    destruct (a =? del) eqn:E.
    + rewrite len_app, len_cons, len_cons, len_nil in Hfit.
      rewrite set_blit_snoc by lia. cbn [bind].
      replace (len acc + 1) with (len (acc ++ [del])) by apply len_snoc.
      rewrite set_blit_snoc by (try rewrite len_snoc; lia). cbn [bind].
      replace (len (acc ++ [del]) + 1) with (len ((acc ++ [del]) ++ [a])) by (rewrite !len_snoc; lia).
      rewrite IH by (try rewrite !len_snoc; lia).
      assert (a = del) as -> by lia.
      rewrite <- !app_assoc. cbn [app]. f_equal. f_equal.
      rewrite !len_app, !len_cons, len_nil. lia.
    + rewrite len_app, len_cons, len_nil in Hfit.
      cbn [bind]. rewrite set_blit_snoc by lia. cbn [bind].
      replace (len acc + 1) with (len (acc ++ [a])) by apply len_snoc.
      rewrite IH by (try rewrite !len_snoc; lia).
      rewrite <- !app_assoc. cbn [app]. f_equal. f_equal.
      rewrite !len_app, !len_cons, len_nil. lia.
Qed.

Lemma put_delim_ok (b:bool) dv0 base acc :
  0 <= base -> base + len acc + (if b then 1 else 0) <= len dv0 ->
  put_delim b (blit dv0 base acc) del base (len acc)
  = Ok (blit dv0 base (acc ++ (if b then [del] else [])), len acc + (if b then 1 else 0)).
Proof.
  intros Hb Hfit. unfold put_delim. destruct b.
  - rewrite set_blit_snoc by lia. reflexivity.
  - rewrite app_nil_r, Z.add_0_r. reflexivity.
Qed.

Lemma len_esc (cq:bool) w : len (esc del cq w) = len (dq del w) + (if cq then 2 else 0).
Proof. unfold esc. destruct cq; rewrite !len_app; cbn [app]; rewrite ?len_cons, ?len_nil; lia. Qed.

Lemma emit_range_ok w pre post dv0 base acc (cq:bool) a b :
  a = len pre -> b - a = len w ->
  0 <= base -> base + len acc + len (esc del cq w) <= len dv0 ->
  emit_range a b (pre ++ w ++ post) (blit dv0 base acc) del cq base (len acc)
  = Ok (blit dv0 base (acc ++ esc del cq w), len acc + len (esc del cq w)).
Proof.
  intros -> Hba Hb Hfit. rewrite len_esc in Hfit. unfold emit_range.
  pose proof (len_nonneg (dq del w)) as Hnn.
  rewrite put_delim_ok by (destruct cq; lia). cbn [bind].
  rewrite Hba, to_nat_len.
  replace (len acc + (if cq then 1 else 0)) with (len (acc ++ (if cq then [del] else [])))
    by (rewrite len_app; destruct cq; rewrite ?len_cons, ?len_nil; lia).
  rewrite copy_escaped_ok by (try rewrite len_app; destruct cq; rewrite ?len_cons, ?len_nil; lia).
  cbn [bind].
  replace (len (acc ++ (if cq then [del] else [])) + len (dq del w))
    with (len ((acc ++ (if cq then [del] else [])) ++ dq del w)) by (rewrite !len_app; lia).
  rewrite put_delim_ok by (rewrite ?len_app; destruct cq; rewrite ?len_cons, ?len_nil; lia).
  rewrite len_esc. unfold esc. rewrite <- !app_assoc. f_equal. f_equal. rewrite !len_app.
  destruct cq; rewrite ?len_cons, ?len_nil; lia.
Qed.

(* ---- entry-level loops ----------------------------------------------------------------- *)
Definition isnil (w:list Z) : bool := match w with [] => true | _ => false end.
Definition cnt (ws:list (list Z)) : Z := len (filter nonempty ws).
Definition cq_of (w:list Z) : bool := has sep w || has del w.

Fixpoint join_from (started:bool) (ws:list (list Z)) : list Z :=
  match ws with
  | [] => []
  | w :: t => if isnil w then join_from started t
              else (if started then [sep] else []) ++ esc del (cq_of w) w ++ join_from true t
  end.

Lemma si_reads site sp o x rest :
  get site (sp ++ psums_from o (x :: rest)) (len sp) = Ok o /\
  get site (sp ++ psums_from o (x :: rest)) (len sp + 1) = Ok (o + x) /\
  sp ++ psums_from o (x :: rest) = (sp ++ [o]) ++ psums_from (o + x) rest.
Proof.
  cbn [psums_from]. split; [apply get_app_mid|]. split.
  - rewrite (psums_from_offs (o + x)). rewrite snoc_frame_cons. rewrite <- (len_snoc sp o). apply get_app_mid.
  - rewrite <- app_assoc. reflexivity.
Qed.

Lemma nonempty_len w : nonempty w = (len w >? 0).
Proof. destruct w; [reflexivity|]. rewrite len_cons. pose proof (len_nonneg w). cbn [nonempty]. lia. Qed.

Lemma count_nonempty_ok : forall ws sp o more acc,
  count_nonempty (length ws) (len sp) (sp ++ psums_from o (map (@len Z) ws ++ more)) acc = Ok (acc + cnt ws).
Proof.
  induction ws as [|w ws IH]; intros sp o more acc.
  - cbn [length count_nonempty]. unfold cnt. cbn [filter]. rewrite len_nil, Z.add_0_r. reflexivity.
  - cbn [length count_nonempty map app].
    destruct (si_reads 3 sp o (len w) (map (@len Z) ws ++ more)) as (R1 & R2 & R3).
    rewrite R1, R2. cbn [bind]. rewrite R3, <- (len_snoc sp o). rewrite IH. f_equal.
    unfold cnt. cbn [filter]. rewrite nonempty_len.
    replace (o + len w - o) with (len w) by lia.
    destruct (len w >? 0); rewrite ?len_cons; lia.
Qed.

Lemma multi_loop_ok : forall ws sp o more pre post dv0 base acc started sp_cur,
  o = len pre -> (started = true -> len sp > sp_cur) -> len sp >= sp_cur ->
  0 <= base -> base + len acc + len (join_from started ws) <= len dv0 ->
  multi_loop (length ws) (len sp) sp_cur (sp ++ psums_from o (map (@len Z) ws ++ more))
             (pre ++ concat ws ++ post) (blit dv0 base acc) sep del base (len acc) (negb started)
  = Ok (blit dv0 base (acc ++ join_from started ws), len acc + len (join_from started ws)).
Proof.
  induction ws as [|w ws IH]; intros sp o more pre post dv0 base acc started sp_cur Ho Hst Hge Hb Hfit.
  - cbn [length multi_loop join_from]. rewrite app_nil_r, len_nil, Z.add_0_r. reflexivity.
  - cbn [length multi_loop map app concat].
    destruct (si_reads 3 sp o (len w) (map (@len Z) ws ++ more)) as (R1 & R2 & R3).
    rewrite R1, R2. cbn [bind].
    replace (Z.to_nat (o + len w - o)) with (length w) by (rewrite <- (to_nat_len w); lia).
    rewrite <- app_assoc. subst o. rewrite scan_flags_ok. cbn [bind orb].
    fold (cq_of w).
    cbn [join_from] in *.
    destruct w as [|c w'].
    + (* empty entry: nothing is written *)
      cbn [isnil] in *. rewrite len_nil, Z.add_0_r. rewrite Z.eqb_refl. cbn [negb]. rewrite andb_false_r. cbn [bind].
      change (cq_of []) with false.
      pose proof (len_nonneg (join_from started ws)) as Hnn0.
      rewrite (emit_range_ok [] pre (concat ws ++ post) dv0 base acc false (len pre) (len pre));
        [ | reflexivity | rewrite len_nil; lia | lia
          | change (esc del false []) with (@nil Z); rewrite len_nil; lia ].
      change (esc del false []) with (@nil Z). rewrite app_nil_r, len_nil, Z.add_0_r. cbn [bind app].
      cbn [psums_from]. rewrite Z.add_0_r.
      replace (sp ++ len pre :: psums_from (len pre) (map (@len Z) ws ++ more))
        with ((sp ++ [len pre]) ++ psums_from (len pre) (map (@len Z) ws ++ more))
        by (rewrite <- app_assoc; reflexivity).
      rewrite <- (len_snoc sp (len pre)).
      apply IH; try lia; try reflexivity; rewrite len_snoc; [intros Hs; specialize (Hst Hs); lia | lia].
    + (* non-empty entry *)
      cbn [isnil] in *.
      set (w := c :: w') in *.
      assert (Hlw : len w > 0) by (unfold w; rewrite len_cons; pose proof (len_nonneg w'); lia).
      assert ((len pre + len w =? len pre) = false) as -> by lia. cbn [negb andb].
      rewrite !len_app in Hfit.
      pose proof (len_nonneg (join_from true ws)) as Hnn1.
      pose proof (len_nonneg (esc del (cq_of w) w)) as Hnn2.
      destruct started.
      * cbn [negb andb]. specialize (Hst eq_refl).
        assert ((len sp >? sp_cur) = true) as -> by lia.
        rewrite len_cons, len_nil in Hfit.
        rewrite set_blit_snoc by lia. cbn [bind].
        rewrite <- (len_snoc acc sep).
        rewrite (emit_range_ok w pre) by (try rewrite len_snoc; lia). cbn [bind].
        rewrite R3. rewrite <- (len_snoc sp (len pre)).
        replace (pre ++ w ++ concat ws ++ post) with ((pre ++ w) ++ concat ws ++ post) by (rewrite <- app_assoc; reflexivity).
        replace (len (acc ++ [sep]) + len (esc del (cq_of w) w)) with (len ((acc ++ [sep]) ++ esc del (cq_of w) w)) by (rewrite !len_app; lia).
        etransitivity.
        { apply (IH (sp ++ [len pre]) (len pre + len w) more (pre ++ w) post dv0 base
                    ((acc ++ [sep]) ++ esc del (cq_of w) w) true sp_cur);
            try (rewrite ?len_app, ?len_cons, ?len_nil; lia). }
        rewrite <- !app_assoc. cbn [app]. f_equal. f_equal. len_simp. lia.
      * cbn [negb andb bind]. cbn [app] in *. rewrite len_nil in Hfit.
        rewrite (emit_range_ok w pre) by lia. cbn [bind].
        rewrite R3. rewrite <- (len_snoc sp (len pre)).
        replace (pre ++ w ++ concat ws ++ post) with ((pre ++ w) ++ concat ws ++ post) by (rewrite <- app_assoc; reflexivity).
        replace (len acc + len (esc del (cq_of w) w)) with (len (acc ++ esc del (cq_of w) w)) by (rewrite !len_app; lia).
        etransitivity.
        { apply (IH (sp ++ [len pre]) (len pre + len w) more (pre ++ w) post dv0 base
                    (acc ++ esc del (cq_of w) w) true sp_cur);
            try (rewrite ?len_app, ?len_cons, ?len_nil; lia). }
        rewrite <- !app_assoc. f_equal. f_equal. rewrite !len_app. lia.
Qed.

End Bytes.

(* ---- bridge to the specification (sep = COMMA, del = QUOTE) --------------------------- *)
Lemma needs_quote_has w : needs_quote w = cq_of COMMA QUOTE w.
Proof.
  unfold needs_quote, cq_of, has. induction w as [|c w IH]; [reflexivity|].
  cbn [existsb]. rewrite IH.
  destruct (c =? COMMA), (c =? QUOTE), (existsb (fun c0 => c0 =? COMMA) w), (existsb (fun c0 => c0 =? QUOTE) w); reflexivity.
Qed.

Lemma dq_no_quote w : has QUOTE w = false -> dq QUOTE w = w.
Proof.
  unfold has, dq. induction w as [|c w IH]; intros H; [reflexivity|].
  cbn [existsb flat_map] in *. apply orb_false_iff in H. destruct H as [H1 H2].
  rewrite H1. cbn [app]. rewrite IH by exact H2. reflexivity.
Qed.

Lemma esc_csv w : esc QUOTE (cq_of COMMA QUOTE w) w = csv_escape w.
Proof.
  unfold csv_escape. rewrite needs_quote_has. unfold esc.
  destruct (cq_of COMMA QUOTE w) eqn:E.
  - reflexivity.
  - cbn [app]. rewrite app_nil_r. apply dq_no_quote.
    unfold cq_of in E. apply orb_false_iff in E. tauto.
Qed.

Lemma isnil_nonempty w : isnil w = negb (nonempty w).
Proof. destruct w; reflexivity. Qed.

Lemma join_from_spec : forall ws started,
  join_from COMMA QUOTE started ws =
  match filter nonempty ws with
  | [] => []
  | _ => (if started then [COMMA] else []) ++ intercalate COMMA (map csv_escape (filter nonempty ws))
  end.
Proof.
  induction ws as [|w ws IH]; intros started; [reflexivity|].
  cbn [join_from filter]. rewrite isnil_nonempty. destruct (nonempty w) eqn:E; cbn [negb].
  - rewrite esc_csv, (IH true). cbn [map intercalate].
    destruct (filter nonempty ws) as [|w2 t]; cbn [map].
    + rewrite app_nil_r. reflexivity.
    + reflexivity.
  - apply IH.
Qed.

Lemma join_from_entry ws : join_from COMMA QUOTE false ws = concat_entry ws.
Proof.
  rewrite join_from_spec. unfold concat_entry. destruct (filter nonempty ws); reflexivity.
Qed.

Lemma cnt_nonneg ws : 0 <= cnt ws.
Proof. unfold cnt. apply len_nonneg. Qed.

Lemma cnt_cons w ws : cnt (w :: ws) = (if nonempty w then 1 else 0) + cnt ws.
Proof. unfold cnt. cbn [filter]. destruct (nonempty w); rewrite ?len_cons; lia. Qed.

Lemma cnt_le_len ws : cnt ws <= len ws.
Proof.
  induction ws as [|w ws IH]; [unfold cnt; cbn; lia|].
  rewrite cnt_cons, len_cons. destruct (nonempty w); lia.
Qed.

Lemma cnt_zero_entry ws : cnt ws = 0 -> concat_entry ws = [] /\ concat ws = [].
Proof.
  induction ws as [|w ws IH]; intros H; [split; reflexivity|].
  rewrite cnt_cons in H. pose proof (cnt_nonneg ws).
  destruct w as [|c w']; cbn [nonempty] in H; [|lia].
  destruct (IH ltac:(lia)) as [H1 H2]. split.
  - unfold concat_entry in *. cbn [filter nonempty]. exact H1.
  - cbn [concat app]. exact H2.
Qed.

Lemma cnt_one_entry ws : cnt ws = 1 -> concat_entry ws = csv_escape (concat ws).
Proof.
  induction ws as [|w ws IH]; intros H; [unfold cnt in H; cbn in H; lia|].
  rewrite cnt_cons in H. pose proof (cnt_nonneg ws).
  destruct w as [|c w']; cbn [nonempty] in H.
  - cbn [concat app]. unfold concat_entry in *. cbn [filter nonempty]. apply IH. lia.
  - destruct (cnt_zero_entry ws ltac:(lia)) as [H1 H2].
    cbn [concat]. rewrite H2, app_nil_r.
    unfold concat_entry in *. cbn [filter nonempty map intercalate].
    destruct (filter nonempty ws) as [|w2 t] eqn:Ef; [reflexivity|].
    exfalso. unfold cnt in H. rewrite Ef, len_cons in H. pose proof (len_nonneg t). lia.
Qed.

Lemma concat_pos ws : (len (concat ws) >? 0) = (cnt ws >? 0).
Proof.
  induction ws as [|w ws IH]; [reflexivity|].
  cbn [concat]. rewrite len_app, cnt_cons. pose proof (cnt_nonneg ws). pose proof (len_nonneg (concat ws)).
  destruct w as [|c w']; cbn [nonempty].
  - rewrite len_nil. replace (0 + len (concat ws)) with (len (concat ws)) by lia.
    replace (0 + cnt ws) with (cnt ws) by lia. exact IH.
  - rewrite len_cons. pose proof (len_nonneg w'). lia.
Qed.
