(* Proofs/SpansMain.v — the statements exported by Props/C08.v, assembled from the other proof files. *)
From Coq Require Import ZArith List Lia Bool.
From EV Require Import Res Arr Spans SpansSpec SpansBase SpansRef SpansField SpansKernels SpansIndexed SpansOrder
  SpansReduce SpansMerge SpansIndexedReduce.
Import ListNotations.
Open Scope Z_scope.

Definition neq_test {A} (neqb:A -> A -> bool) : Prop := forall x y, neqb x y = false <-> x = y.

(* ---- get_spans ---------------------------------------------------------------------------------------- *)
Theorem spans_field_correct_pf {A} (neqb:A -> A -> bool) (d:A) (a:list A) :
  neq_test neqb -> is_spans d a (get_spans_for_field neqb a).
Proof. intros H. rewrite get_spans_for_field_ref. apply spans_ref_is_spans. exact H. Qed.

Theorem spans_2_fields_correct_pf {A B} (neqbA:A -> A -> bool) (neqbB:B -> B -> bool) (dA:A) (dB:B) a0 a1 :
  neq_test neqbA -> neq_test neqbB -> len a0 = len a1 ->
  exists sp, get_spans_for_2_fields neqbA neqbB a0 a1 = Ok sp /\ is_spans (dA, dB) (combine a0 a1) sp.
Proof.
  intros HA HB Hl. eexists. split; [apply (get_spans_for_2_fields_ref neqbA neqbB dA dB HA HB a0 a1 Hl)|].
  apply spans_ref_is_spans. apply pair_neqb_spec; assumption.
Qed.

Theorem spans_multi_correct_pf {A} (neqb:A -> A -> bool) (d:A) (fields:list (list A)) (n:Z) :
  neq_test neqb -> fields <> [] -> Forall (fun f => len f = n) fields ->
  exists sp, get_spans_for_multi_fields neqb fields = Ok sp /\ is_spans [] (rows_of d fields n) sp.
Proof.
  intros H Hne Hall. eexists. split; [apply (get_spans_for_multi_fields_ref neqb d H fields n Hne Hall)|].
  apply spans_ref_is_spans. apply list_neqb_spec. exact H.
Qed.

Theorem spans_indexed_string_correct_pf indices values : valid_indexed indices values ->
  exists sp, get_spans_for_index_string_field indices values = Ok sp /\
             is_spans [] (indexed_rows indices values) sp.
Proof.
  intros Hv. eexists. split; [apply get_spans_for_index_string_field_ref; exact Hv|].
  apply spans_ref_is_spans. exact bytes_neqb_spec.
Qed.

(* ---- the entry points agree ----------------------------------------------------------------------------- *)
Theorem entry_points_agree_pf {A B} (neqbA:A -> A -> bool) (neqbB:B -> B -> bool) (dA:A) (dB:B) a b :
  neq_test neqbA -> neq_test neqbB -> len a = len b ->
  get_spans_for_2_fields_by_spans (get_spans_for_field neqbA a) (get_spans_for_field neqbB b)
  = get_spans_for_2_fields neqbA neqbB a b.
Proof.
  intros HA HB Hl.
  destruct (by_spans_is_spans dA dB a b _ _ Hl (spans_field_correct_pf neqbA dA a HA) (spans_field_correct_pf neqbB dB b HB))
    as [R [Hr HR]].
  destruct (spans_2_fields_correct_pf neqbA neqbB dA dB a b HA HB Hl) as [sp [Hs Hsp]].
  rewrite Hr, Hs. f_equal. apply (is_spans_unique (dA, dB) (combine a b)); assumption.
Qed.

Theorem entry_points_agree_indexed_pf indices values : valid_indexed indices values ->
  get_spans_for_index_string_field indices values = Ok (get_spans_for_field bytes_neqb (indexed_rows indices values)).
Proof. intros Hv. rewrite get_spans_for_field_ref. apply get_spans_for_index_string_field_ref. exact Hv. Qed.

(* Session.get_spans(fields=(Field, Field)) = Session.get_spans(fields=(ndarray, ndarray)) on the same data *)
Definition col_len (c:column) : Z :=
  match c with ColNum l => len l | ColFixed l => len l | ColIndexed i v => len (indexed_rows i v) end.
Definition is_array_col (c:column) : Prop := match c with ColIndexed _ _ => False | _ => True end.

Theorem session_entry_points_agree_pf c0 c1 : is_array_col c0 -> is_array_col c1 -> col_len c0 = col_len c1 ->
  session_get_spans_fields c0 c1 = session_get_spans_arrays c0 c1.
Proof.
  intros H0 H1 Hl. destruct c0 as [a|a|? ?], c1 as [b|b|? ?]; try contradiction;
    unfold session_get_spans_fields, session_get_spans_arrays, field_get_spans; cbn [bind]; cbn [col_len] in Hl.
  - apply (entry_points_agree_pf Z_neqb Z_neqb 0 0); [exact Z_neqb_spec|exact Z_neqb_spec|exact Hl].
  - apply (entry_points_agree_pf Z_neqb bytes_neqb 0 []); [exact Z_neqb_spec|exact bytes_neqb_spec|exact Hl].
  - apply (entry_points_agree_pf bytes_neqb Z_neqb [] 0); [exact bytes_neqb_spec|exact Z_neqb_spec|exact Hl].
  - apply (entry_points_agree_pf bytes_neqb bytes_neqb [] []); [exact bytes_neqb_spec|exact bytes_neqb_spec|exact Hl].
Qed.

(* with an indexed string field on either side the merged list is still the span list of the zipped rows *)
Theorem session_fields_correct_pf c0 c1 (rows0 rows1:list (list Z)) sp0 sp1 :
  field_get_spans c0 = Ok sp0 -> field_get_spans c1 = Ok sp1 ->
  is_spans [] rows0 sp0 -> is_spans [] rows1 sp1 -> len rows0 = len rows1 ->
  exists sp, session_get_spans_fields c0 c1 = Ok sp /\ is_spans ([], []) (combine rows0 rows1) sp.
Proof.
  intros E0 E1 H0 H1 Hl. unfold session_get_spans_fields. rewrite E0, E1. cbn [bind].
  apply (by_spans_is_spans [] [] rows0 rows1 sp0 sp1 Hl H0 H1).
Qed.

(* ---- span lists produced by get_spans are valid arguments of the reductions, and fit the span dtype ------- *)
Theorem is_spans_valid_pf {A} (d:A) (xs:list A) sp : is_spans d xs sp -> valid_spans (len xs) sp.
Proof. intros [Hs [Hl [H0 [Hn _]]]]. unfold valid_spans. repeat split; try assumption; lia. Qed.

Theorem is_spans_range_pf {A} (d:A) (xs:list A) sp k : is_spans d xs sp -> In k sp -> 0 <= k <= len xs.
Proof.
  intros [Hs [Hl [H0 [Hn _]]]] Hk. destruct (In_nthZ _ _ Hk) as [i [Hi <-]].
  pose proof (ssorted_bounds sp i Hs Hi). lia.
Qed.

(* ---- what the reference reductions mean ------------------------------------------------------------------ *)
Theorem min_spec_meaning_pf {A} (ltb:A -> A -> bool) (d:A) (x:A) (t:list A) : strict_total ltb ->
  let l := x :: t in
  In (min_spec ltb d l) l /\ (forall y, In y l -> ltb y (min_spec ltb d l) = false) /\
  0 <= argmin_spec ltb l < len l /\
  (forall j, 0 <= j < argmin_spec ltb l -> ltb (min_spec ltb d l) (nthd d l j) = true).
Proof.
  intros Hord l. destruct (argmin_spec_least ltb d Hord x t) as [Hr Hl]. fold l in Hr, Hl.
  split; [unfold min_spec, nthd, len in *; apply nth_In; lia|].
  split; [apply is_least_iff; exact Hl|]. split; [exact Hr|].
  intros j Hj. pose proof (argmin_spec_correct ltb d Hord x t) as H. cbn [argmin] in H. injection H as H.
  pose proof (argmin_from_inv ltb d Hord t [x] x 0) as G. change (len [x]) with 1 in G. cbn [app] in G.
  destruct G as [_ [_ Hfirst]]; [lia|reflexivity|intros y [<-|[]]; apply (proj1 Hord)|intros; lia|].
  fold l in H, Hfirst. rewrite H in Hfirst. unfold min_spec. apply Hfirst. exact Hj.
Qed.

(* ---- the Python-level guards are transparent on valid span lists ------------------------------------------- *)
Theorem session_apply_spans_src_ok_pf {A R} (kernel:list Z -> list A -> res R) sp target :
  1 <= len sp -> nthZ sp (len sp - 1) = len target ->
  session_apply_spans_src kernel sp target = kernel sp target.
Proof.
  intros Hl Hn. unfold session_apply_spans_src, np_getitem. cbn [Z.ltb Z.opp]. change (-1 <? 0) with true. cbv iota.
  rewrite getZ_ok by lia. cbn [bind]. replace (-1 + len sp) with (len sp - 1) by lia. rewrite Hn, Z.eqb_refl. reflexivity.
Qed.

Lemma adj_any_eq_ssorted sp : ssorted sp -> adj_any_eq sp = false.
Proof.
  induction sp as [|a t IH]; intros Hs; [reflexivity|]. destruct t as [|b t']; [reflexivity|].
  change (adj_any_eq (a :: b :: t')) with ((a =? b) || adj_any_eq (b :: t')).
  destruct (ssorted_cons_inv a _ Hs) as [Ht Ha]. rewrite (IH Ht). specialize (Ha b (or_introl eq_refl)).
  destruct (a =? b) eqn:E; [apply Z.eqb_eq in E; lia|reflexivity].
Qed.
Theorem field_apply_spans_ok_pf {R} (kernel:list Z -> res R) sp : ssorted sp -> field_apply_spans kernel sp = kernel sp.
Proof. intros Hs. unfold field_apply_spans. rewrite adj_any_eq_ssorted by exact Hs. reflexivity. Qed.

(* ---- reductions, in the quantifier order exported by Props/C08.v ------------------------------------------ *)
Theorem apply_spans_first_pf : forall (A:Type) (d zero:A) sp (src:list A), valid_spans (len src) sp ->
  apply_spans_first zero sp src = Ok (first_ref d sp src).
Proof. intros A d zero. exact (apply_spans_first_ref d zero). Qed.
Theorem apply_spans_last_pf : forall (A:Type) (d zero:A) sp (src:list A), valid_spans (len src) sp ->
  apply_spans_last zero sp src = Ok (last_ref d sp src).
Proof. intros A d zero. exact (apply_spans_last_ref d zero). Qed.
Theorem apply_spans_min_pf : forall (A:Type) (ltb:A -> A -> bool) (d zero:A) sp (src:list A),
  strict_total ltb -> valid_spans (len src) sp -> apply_spans_min ltb zero sp src = Ok (min_ref ltb d sp src).
Proof. intros A ltb d zero sp src H. exact (apply_spans_min_ref ltb d H zero sp src). Qed.
Theorem apply_spans_max_pf : forall (A:Type) (ltb:A -> A -> bool) (d zero:A) sp (src:list A),
  strict_total ltb -> valid_spans (len src) sp -> apply_spans_max ltb zero sp src = Ok (max_ref ltb d sp src).
Proof. intros A ltb d zero sp src. exact (apply_spans_max_ref ltb d zero sp src). Qed.
Theorem apply_spans_index_of_min_pf : forall (A:Type) (ltb:A -> A -> bool) (d:A) sp (src:list A),
  strict_total ltb -> valid_spans (len src) sp ->
  apply_spans_index_of_min ltb sp src = Ok (index_of_min_ref ltb sp src).
Proof. intros A ltb d sp src H. exact (apply_spans_index_of_min_ref ltb d H sp src). Qed.
Theorem apply_spans_index_of_max_pf : forall (A:Type) (ltb:A -> A -> bool) (d:A) sp (src:list A),
  strict_total ltb -> valid_spans (len src) sp ->
  apply_spans_index_of_max ltb sp src = Ok (index_of_max_ref ltb sp src).
Proof. intros A ltb d sp src. exact (apply_spans_index_of_max_ref ltb d sp src). Qed.
Theorem string_argmin_pf : forall indices values sp,
  sorted indices -> 1 <= len indices -> nthZ indices 0 = 0 -> nthZ indices (len indices - 1) = len values ->
  valid_spans (len indices - 1) sp ->
  apply_spans_index_of_min_indexed sp indices values
  = Ok (index_of_min_ref bytes_ltb sp (indexed_rows indices values)).
Proof. intros indices values sp H1 H2 H3 H4. exact (apply_spans_index_of_min_indexed_ref indices values H1 H2 H3 H4 sp). Qed.
Theorem string_argmax_pf : forall indices values sp,
  sorted indices -> 1 <= len indices -> nthZ indices 0 = 0 -> nthZ indices (len indices - 1) = len values ->
  valid_spans (len indices - 1) sp ->
  apply_spans_index_of_max_indexed sp indices values
  = Ok (index_of_max_ref bytes_ltb sp (indexed_rows indices values)).
Proof. intros indices values sp H1 H2 H3 H4. exact (apply_spans_index_of_max_indexed_ref indices values H1 H2 H3 H4 sp). Qed.
