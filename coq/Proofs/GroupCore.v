(* Proofs/GroupCore.v — the list-level heart of C07, generic in the key type:
   stable sort by key, then spans of the sorted keys, then a per-span reduction
     =  one entry per distinct key, ascending, computed from the members of that key in original order. *)
From Coq Require Import ZArith List Bool Lia Sorted Permutation.
From EV Require Import Res Arr StableSort StableSortProofs SpansSpec GroupSpec.
Import ListNotations.
Open Scope Z_scope.

Section Core.
Context {K V:Type}.
Variable kle : K -> K -> bool.
Hypothesis kle_trans : forall a b c, kle a b = true -> kle b c = true -> kle a c = true.
Hypothesis kle_total : forall a b, kle a b = true \/ kle b a = true.
Hypothesis kle_antisym : forall a b, kle a b = true -> kle b a = true -> a = b.

Lemma kle_rfl a : kle a a = true.
Proof. destruct (kle_total a a); assumption. Qed.

Lemma keqb_true a b : keqb kle a b = true <-> a = b.
Proof.
  unfold keqb. rewrite andb_true_iff. split.
  - intros [H1 H2]. apply kle_antisym; assumption.
  - intros ->. split; apply kle_rfl.
Qed.
Lemma keqb_refl a : keqb kle a a = true.
Proof. apply keqb_true. reflexivity. Qed.

(* strict order *)
Definition klt (a b:K) : Prop := kle a b = true /\ kle b a = false.
Lemma klt_trans a b c : klt a b -> klt b c -> klt a c.
Proof.
  intros [H1 H2] [H3 H4]. split; [eauto|].
  destruct (kle c a) eqn:E; [|reflexivity].
  assert (kle c b = true) by eauto. congruence.
Qed.
Lemma not_kle_klt a b : kle a b = false -> klt b a.
Proof. intros H. split; [destruct (kle_total a b); congruence|exact H]. Qed.

(* ---- the ascending duplicate-free key list ------------------------------------------------- *)
Lemma insert_uniq_In r l x : In x (insert_uniq kle r l) <-> x = r \/ In x l.
Proof.
  induction l as [|y t IH]; cbn [insert_uniq].
  - cbn. intuition.
  - destruct (kle r y) eqn:E1; [destruct (kle y r) eqn:E2|].
    + assert (r = y) by (apply kle_antisym; assumption). subst. cbn. intuition.
    + cbn. intuition.
    + cbn [In]. rewrite IH. intuition.
Qed.

Lemma groups_by_In ks x : In x (groups_by kle ks) <-> In x ks.
Proof.
  induction ks as [|k t IH]; [reflexivity|]. unfold groups_by in *. cbn [fold_right].
  rewrite insert_uniq_In, IH. cbn. intuition.
Qed.

Lemma insert_uniq_sorted r l : StronglySorted klt l -> StronglySorted klt (insert_uniq kle r l).
Proof.
  induction 1 as [|y t Ht IH Hy]; cbn [insert_uniq].
  - repeat constructor.
  - destruct (kle r y) eqn:E1; [destruct (kle y r) eqn:E2|].
    + constructor; assumption.
    + assert (Hry : klt r y) by (split; assumption).
      constructor; [constructor; assumption|]. constructor; [exact Hry|].
      rewrite Forall_forall in *. intros z Hz. eapply klt_trans; [exact Hry|apply Hy; exact Hz].
    + constructor; [exact IH|]. rewrite Forall_forall in *. intros z Hz.
      apply insert_uniq_In in Hz. destruct Hz as [->|Hz]; [apply not_kle_klt; exact E1|apply Hy; exact Hz].
Qed.

Lemma groups_by_sorted ks : StronglySorted klt (groups_by kle ks).
Proof.
  induction ks as [|k t IH]; [constructor|]. unfold groups_by in *. cbn [fold_right].
  apply insert_uniq_sorted. exact IH.
Qed.

(* ---- stable insertion sort on (key, value) pairs, without positions ---------------------------- *)
Fixpoint kinsert (x:K*V) (l:list (K*V)) : list (K*V) :=
  match l with
  | [] => [x]
  | y :: t => if kle (fst x) (fst y) then x :: y :: t else y :: kinsert x t
  end.
Definition ksort (l:list (K*V)) : list (K*V) := fold_right kinsert [] l.

(* chunk lists: (key, the values of that key) *)
Definition expand (C:list (K * list V)) : list (K*V) :=
  flat_map (fun c:K * list V => map (pair (fst c)) (snd c)) C.
Fixpoint cins (r:K) (v:V) (C:list (K * list V)) : list (K * list V) :=
  match C with
  | [] => [(r, [v])]
  | (k, vs) :: t =>
    if kle r k then (if kle k r then (k, v :: vs) :: t else (r, [v]) :: (k, vs) :: t)
    else (k, vs) :: cins r v t
  end.
Definition csort (P:list (K*V)) : list (K * list V) := fold_right (fun p C => cins (fst p) (snd p) C) [] P.

Lemma kinsert_skip x k vs rest : kle (fst x) k = false ->
  kinsert x (map (pair k) vs ++ rest) = map (pair k) vs ++ kinsert x rest.
Proof.
  intros H. induction vs as [|v vs IH]; [reflexivity|].
  cbn [map app kinsert fst]. rewrite H. f_equal. exact IH.
Qed.

Definition nonempty_chunks (C:list (K * list V)) : Prop := Forall (fun c => snd c <> []) C.

Lemma kinsert_expand r v C : nonempty_chunks C -> kinsert (r, v) (expand C) = expand (cins r v C).
Proof.
  intros Hne. induction Hne as [|[k vs] t Hvs Ht IH]; [reflexivity|].
  cbn [snd] in Hvs. unfold expand in *. cbn [flat_map cins fst snd].
  destruct (kle r k) eqn:E1.
  - destruct vs as [|v0 vs]; [congruence|]. cbn [map app kinsert fst]. rewrite E1.
    destruct (kle k r) eqn:E2.
    + assert (r = k) by (apply kle_antisym; assumption). subst. reflexivity.
    + reflexivity.
  - rewrite kinsert_skip by exact E1. cbn [flat_map fst snd]. f_equal. exact IH.
Qed.

Lemma cins_nonempty r v C : nonempty_chunks C -> nonempty_chunks (cins r v C).
Proof.
  intros H. induction H as [|[k vs] t Hvs Ht IH]; cbn [cins].
  - constructor; [cbn; congruence|constructor].
  - destruct (kle r k); [destruct (kle k r)|].
    + constructor; [cbn; congruence|exact Ht].
    + constructor; [cbn; congruence|]. constructor; assumption.
    + constructor; assumption.
Qed.

Lemma csort_nonempty P : nonempty_chunks (csort P).
Proof. induction P as [|p t IH]; [constructor|]. cbn. apply cins_nonempty. exact IH. Qed.

Lemma ksort_expand P : ksort P = expand (csort P).
Proof.
  induction P as [|[r v] t IH]; [reflexivity|]. unfold ksort, csort in *. cbn [fold_right fst snd].
  rewrite IH. apply kinsert_expand. apply csort_nonempty.
Qed.

(* the members of a key in a pair list *)
Definition mem (k:K) (P:list (K*V)) : list V := map snd (filter (fun p:K*V => keqb kle (fst p) k) P).

Lemma mem_nil k P : ~ In k (map fst P) -> mem k P = [].
Proof.
  intros H. unfold mem. induction P as [|[r v] t IH]; [reflexivity|].
  cbn [filter fst]. destruct (keqb kle r k) eqn:E.
  - apply keqb_true in E. subst. exfalso. apply H. left. reflexivity.
  - apply IH. intros Hin. apply H. right. exact Hin.
Qed.

Lemma mem_cons r v k P : mem k ((r, v) :: P) = if keqb kle r k then v :: mem k P else mem k P.
Proof. unfold mem. cbn [filter fst]. destruct (keqb kle r k); reflexivity. Qed.

Lemma cins_map r v (m:K -> list V) G :
  StronglySorted klt G -> (~ In r G -> m r = []) ->
  cins r v (map (fun k => (k, m k)) G)
  = map (fun k => (k, if keqb kle r k then v :: m k else m k)) (insert_uniq kle r G).
Proof.
  intros HS. induction HS as [|k t Ht IH Hk]; intros Hm.
  - cbn. rewrite keqb_refl, Hm by (intros []). reflexivity.
  - cbn [map cins insert_uniq]. rewrite Forall_forall in Hk.
    assert (Htail : forall r', klt r' k \/ r' = k -> forall z, In z t -> keqb kle r' z = false).
    { intros r' Hr z Hz. destruct (keqb kle r' z) eqn:E; [|reflexivity]. apply keqb_true in E. subst z.
      specialize (Hk _ Hz). destruct Hr as [Hr| ->].
      - destruct (klt_trans _ _ _ Hr Hk) as [_ Hc]. rewrite kle_rfl in Hc. discriminate.
      - destruct Hk as [_ Hc]. rewrite kle_rfl in Hc. discriminate. }
    destruct (kle r k) eqn:E1; [destruct (kle k r) eqn:E2|].
    + assert (r = k) by (apply kle_antisym; assumption). subst r.
      cbn [map]. rewrite keqb_refl. f_equal. apply map_ext_in. intros z Hz.
      rewrite (Htail k (or_intror eq_refl) z Hz). reflexivity.
    + assert (Hrk : klt r k) by (split; assumption).
      assert (Hnin : ~ In r (k :: t)).
      { intros [->|Hin]; [rewrite kle_rfl in E2; discriminate|].
        specialize (Hk _ Hin). destruct (klt_trans _ _ _ Hrk Hk) as [_ Hc]. rewrite kle_rfl in Hc. discriminate. }
      cbn [map]. rewrite keqb_refl, (Hm Hnin).
      assert (Ek : keqb kle r k = false) by (unfold keqb; rewrite E1, E2; reflexivity).
      rewrite Ek. f_equal. f_equal. apply map_ext_in. intros z Hz.
      rewrite (Htail r (or_introl Hrk) z Hz). reflexivity.
    + cbn [map]. assert (Ek : keqb kle r k = false) by (unfold keqb; rewrite E1; reflexivity).
      rewrite Ek. f_equal. apply IH. intros Hnin. apply Hm. intros [->|Hin]; [|exact (Hnin Hin)].
      rewrite kle_rfl in E1. discriminate.
Qed.

(* the chunk list of the stable sort = (key, members of the key) over the ascending distinct keys *)
Theorem csort_groups P :
  csort P = map (fun k => (k, mem k P)) (groups_by kle (map fst P)).
Proof.
  induction P as [|[r v] t IH]; [reflexivity|].
  unfold csort in *. cbn [fold_right fst snd map]. rewrite IH.
  unfold groups_by. cbn [fold_right]. fold (groups_by kle (map fst t)).
  rewrite cins_map.
  - apply map_ext. intros k. rewrite mem_cons. reflexivity.
  - apply groups_by_sorted.
  - intros Hnin. apply mem_nil. intros Hin. apply Hnin. apply groups_by_In. exact Hin.
Qed.

(* ---- spans of the sorted keys = prefix sums of the chunk sizes --------------------------------- *)
Variable neqb : K -> K -> bool.
Hypothesis neqb_spec : forall a b, neqb a b = false <-> a = b.

Definition sizes (C:list (K * list V)) : list Z := map (fun c => len (snd c)) C.
Definition ckeys (C:list (K * list V)) : list K := map fst (expand C).
Definition cvals (C:list (K * list V)) : list V := map snd (expand C).

Lemma ckeys_cons k vs C : ckeys ((k, vs) :: C) = map (fun _ => k) vs ++ ckeys C.
Proof. unfold ckeys, expand. cbn [flat_map fst snd]. rewrite map_app, map_map. reflexivity. Qed.
Lemma cvals_cons k vs C : cvals ((k, vs) :: C) = vs ++ cvals C.
Proof. unfold cvals, expand. cbn [flat_map fst snd]. rewrite map_app, map_map. cbn. rewrite map_id. reflexivity. Qed.
Lemma cvals_concat C : cvals C = concat (map snd C).
Proof. induction C as [|[k vs] t IH]; [reflexivity|]. rewrite cvals_cons, IH. reflexivity. Qed.

Lemma bounds_from_cons2 i (x y:K) t :
  bounds_from neqb i (x :: y :: t)
  = if neqb x y then (i + 1) :: bounds_from neqb (i + 1) (y :: t) else bounds_from neqb (i + 1) (y :: t).
Proof. reflexivity. Qed.

Lemma bounds_from_const i k vs : bounds_from neqb i (map (fun _:V => k) vs) = [].
Proof.
  revert i. induction vs as [|v vs IH]; intros i; [reflexivity|].
  destruct vs as [|v' vs']; [reflexivity|].
  change (map (fun _:V => k) (v :: v' :: vs')) with (k :: k :: map (fun _:V => k) vs').
  rewrite bounds_from_cons2.
  assert (E : neqb k k = false) by (apply neqb_spec; reflexivity). rewrite E. apply (IH (i + 1)).
Qed.

Lemma bounds_from_run i k (vs:list V) k' rest : vs <> [] -> k <> k' ->
  bounds_from neqb i (map (fun _ => k) vs ++ k' :: rest)
  = (i + len vs) :: bounds_from neqb (i + len vs) (k' :: rest).
Proof.
  intros Hne Hk. revert i. induction vs as [|v vs IH]; intros i; [congruence|].
  destruct vs as [|v' vs'].
  - change (map (fun _:V => k) [v] ++ k' :: rest) with (k :: k' :: rest).
    rewrite bounds_from_cons2.
    destruct (neqb k k') eqn:E; [|apply neqb_spec in E; congruence].
    unfold len; cbn [length]. replace (i + Z.of_nat 1) with (i + 1) by lia. reflexivity.
  - assert (E : neqb k k = false) by (apply neqb_spec; reflexivity).
    change (map (fun _:V => k) (v :: v' :: vs') ++ k' :: rest)
      with (k :: k :: (map (fun _:V => k) vs' ++ k' :: rest)).
    rewrite bounds_from_cons2, E.
    change (k :: map (fun _:V => k) vs' ++ k' :: rest) with (map (fun _:V => k) (v' :: vs') ++ k' :: rest).
    rewrite IH by congruence. rewrite !len_cons. f_equal; [lia|]. f_equal. lia.
Qed.

Definition wf_chunks (C:list (K * list V)) : Prop :=
  nonempty_chunks C /\ StronglySorted klt (map fst C).

Lemma klt_neq a b : klt a b -> a <> b.
Proof. intros [_ H] ->. rewrite kle_rfl in H. discriminate. Qed.

Lemma ckeys_head k vs C : vs <> [] -> exists rest, ckeys ((k, vs) :: C) = k :: rest.
Proof. intros H. rewrite ckeys_cons. destruct vs; [congruence|]. cbn. eauto. Qed.

Lemma len_ckeys C : len (ckeys C) = sumZ (sizes C).
Proof.
  induction C as [|[k vs] t IH]; [reflexivity|]. rewrite ckeys_cons, len_app, IH.
  unfold len at 1. rewrite map_length. reflexivity.
Qed.

Lemma bounds_chunks i C : C <> [] -> wf_chunks C ->
  bounds_from neqb i (ckeys C) ++ [i + len (ckeys C)] = tl (psums_from i (sizes C)).
Proof.
  intros Hne [Hn Hs]. revert i. induction C as [|[k vs] t IH]; intros i; [congruence|].
  inversion Hn as [|c0 t0 Hvs Hnt]; subst. cbn [snd] in Hvs.
  cbn [map fst] in Hs. inversion Hs as [|k0 l0 Hst Hkt]; subst.
  destruct t as [|[k' vs'] t'].
  - rewrite ckeys_cons. unfold ckeys at 1 2. cbn [expand flat_map map]. rewrite !app_nil_r.
    rewrite bounds_from_const. cbn [app sizes map snd psums_from tl].
    unfold len. rewrite map_length. reflexivity.
  - inversion Hnt as [|c1 t1 Hvs' _]; subst. cbn [snd] in Hvs'.
    destruct (ckeys_head k' vs' t' Hvs') as [rest Hrest].
    rewrite ckeys_cons, Hrest.
    assert (Hkk : k <> k'). { apply klt_neq. rewrite Forall_forall in Hkt. apply Hkt. left. reflexivity. }
    rewrite bounds_from_run by assumption. rewrite <- Hrest.
    cbn [sizes map snd psums_from tl]. fold (sizes ((k', vs') :: t')).
    rewrite len_app. unfold len at 3. rewrite map_length. fold (len vs).
    specialize (IH ltac:(congruence) Hnt Hst (i + len vs)).
    rewrite <- app_comm_cons. rewrite Z.add_assoc. rewrite IH.
    destruct (psums_from (i + len vs) (sizes ((k', vs') :: t'))) eqn:E.
    + cbn in E. discriminate.
    + cbn [psums_from sizes map snd] in E. injection E as <- <-. reflexivity.
Qed.

Theorem spans_ref_chunks C : wf_chunks C -> spans_ref neqb (ckeys C) = psums (sizes C).
Proof.
  intros Hwf. destruct C as [|[k vs] t].
  - reflexivity.
  - destruct Hwf as [Hn Hs]. inversion Hn as [|c0 t0 Hvs _]; subst. cbn [snd] in Hvs.
    destruct (ckeys_head k vs t Hvs) as [rest Hrest].
    unfold spans_ref. rewrite Hrest. rewrite <- Hrest.
    pose proof (bounds_chunks 0 ((k, vs) :: t) ltac:(congruence) (conj Hn Hs)) as H.
    rewrite Z.add_0_l in H. rewrite H. unfold psums. cbn [sizes map psums_from tl]. reflexivity.
Qed.

(* ---- slicing a concatenation at the prefix sums of the part lengths gives the parts back --------- *)
Lemma slice_app_head (L rest:list V) : slice (L ++ rest) 0 (len L) = L.
Proof.
  unfold slice. rewrite Z.sub_0_r. change (Z.to_nat 0) with O. cbn [skipn]. unfold len. rewrite Nat2Z.id.
  rewrite firstn_app, firstn_all, Nat.sub_diag. cbn [firstn]. apply app_nil_r.
Qed.

Lemma span_pairs_cons2 a b t : span_pairs (a :: b :: t) = (a, b) :: span_pairs (b :: t).
Proof. reflexivity. Qed.
Lemma psums_from_head i l : exists t, psums_from i l = i :: t.
Proof. destruct l; cbn; eauto. Qed.

Lemma span_pairs_psums_ge s (l:list Z) a b : Forall (fun x => 0 <= x) l ->
  In (a, b) (span_pairs (psums_from s l)) -> s <= a /\ a <= b.
Proof.
  intros Hl. revert s. induction Hl as [|x t Hx Ht IH]; intros s Hab; [cbn in Hab; tauto|].
  cbn [psums_from] in Hab. destruct (psums_from_head (s + x) t) as [r Hr]. rewrite Hr in Hab.
  rewrite span_pairs_cons2 in Hab. destruct Hab as [Hab|Hab].
  - inversion Hab; subst. lia.
  - rewrite <- Hr in Hab. specialize (IH _ Hab). lia.
Qed.

Lemma span_pairs_psums_from i (Ls:list (list V)) :
  map (fun ab => slice (concat Ls) (fst ab - i) (snd ab - i)) (span_pairs (psums_from i (map (@len V) Ls))) = Ls.
Proof.
  revert i. induction Ls as [|L t IH]; intros i; [reflexivity|].
  cbn [map psums_from concat].
  destruct (psums_from_head (i + len L) (map (@len V) t)) as [r Hr]. rewrite Hr.
  rewrite span_pairs_cons2. rewrite <- Hr. cbn [map fst snd]. f_equal.
  - replace (i - i) with 0 by lia. replace (i + len L - i) with (len L) by lia. apply slice_app_head.
  - specialize (IH (i + len L)). rewrite <- IH at 2.
    apply map_ext_in. intros [a b] Hab. cbn [fst snd].
    assert (Ha : i + len L <= a /\ a <= b).
    { apply (span_pairs_psums_ge _ (map (@len V) t)); [|exact Hab].
      apply Forall_forall. intros x Hx. apply in_map_iff in Hx. destruct Hx as [M [<- _]]. apply len_nonneg. }
    unfold slice. replace (b - i - (a - i)) with (b - (i + len L) - (a - (i + len L))) by lia.
    f_equal. replace (Z.to_nat (a - i)) with (length L + Z.to_nat (a - (i + len L)))%nat by (unfold len in *; lia).
    rewrite skipn_app. rewrite skipn_all2 by lia. cbn [app]. f_equal. lia.
Qed.

Lemma slices_psums (Ls:list (list V)) :
  map (fun ab => slice (concat Ls) (fst ab) (snd ab)) (span_pairs (psums (map (@len V) Ls))) = Ls.
Proof.
  pose proof (span_pairs_psums_from 0 Ls) as H. rewrite <- H at 2.
  apply map_ext. intros [a b]. cbn [fst snd]. rewrite !Z.sub_0_r. reflexivity.
Qed.

Lemma sizes_map_len C : sizes C = map (@len V) (map snd C).
Proof. unfold sizes. rewrite map_map. reflexivity. Qed.

(* per-span reduction over the sorted values = per-chunk reduction *)
Theorem reduce_chunks {R} (f:list V -> R) C : wf_chunks C ->
  reduce_spans (fun (_:Z) l => f l) (spans_ref neqb (ckeys C)) (cvals C) = map (fun c => f (snd c)) C.
Proof.
  intros Hwf. rewrite spans_ref_chunks by exact Hwf. unfold reduce_spans.
  rewrite cvals_concat, sizes_map_len.
  rewrite <- (map_map (fun ab => slice (concat (map snd C)) (fst ab) (snd ab)) f).
  rewrite slices_psums. rewrite map_map. reflexivity.
Qed.

(* the first row of every span is the chunk's key *)
Lemma removelast_cons2 {A} (a b:A) t : removelast (a :: b :: t) = a :: removelast (b :: t).
Proof. reflexivity. Qed.
Lemma removelast_psums_from i (l:list Z) : removelast (psums_from i l) = firstn (length l) (psums_from i l).
Proof.
  revert i. induction l as [|x t IH]; intros i; [reflexivity|].
  cbn [psums_from length firstn]. specialize (IH (i + x)).
  destruct (psums_from_head (i + x) t) as [r Hr]. rewrite Hr. rewrite removelast_cons2. rewrite <- Hr.
  f_equal. exact IH.
Qed.

Lemma keys_at_starts (d:K) i C pre : nonempty_chunks C -> len pre = i ->
  map (fun p => nthd d (pre ++ ckeys C) p) (firstn (length C) (psums_from i (sizes C))) = map fst C.
Proof.
  intros Hn. revert i pre. induction Hn as [|[k vs] t Hvs Ht IH]; intros i pre Hpre; [reflexivity|].
  cbn [snd] in Hvs. cbn [length sizes map snd psums_from firstn fst]. f_equal.
  - rewrite nthd_app_r by lia. rewrite Hpre, Z.sub_diag. rewrite ckeys_cons. destruct vs; [congruence|]. reflexivity.
  - rewrite ckeys_cons. rewrite app_assoc. apply IH.
    rewrite len_app. unfold len at 2. rewrite map_length. fold (len vs). lia.
Qed.

Theorem first_rows_chunks (d:K) C : wf_chunks C ->
  map (fun p => nthd d (ckeys C) p) (removelast (spans_ref neqb (ckeys C))) = map fst C.
Proof.
  intros Hwf. rewrite spans_ref_chunks by exact Hwf. unfold psums.
  rewrite removelast_psums_from. unfold sizes at 1. rewrite map_length.
  apply (keys_at_starts d 0 C []); [apply Hwf|reflexivity].
Qed.

Theorem count_chunks C : wf_chunks C -> count_ref (spans_ref neqb (ckeys C)) = sizes C.
Proof.
  intros Hwf. rewrite spans_ref_chunks by exact Hwf. unfold count_ref, psums.
  generalize 0 as i. generalize (sizes C) as l. induction l as [|x t IH]; intros i; [reflexivity|].
  cbn [psums_from]. specialize (IH (i + x)).
  destruct (psums_from_head (i + x) t) as [r Hr]. rewrite Hr. rewrite span_pairs_cons2. rewrite <- Hr.
  cbn [map fst snd]. f_equal; [lia|]. exact IH.
Qed.

(* ---- well-formedness of the chunk list of a stable sort ---------------------------------------- *)
Lemma csort_wf P : wf_chunks (csort P).
Proof.
  split; [apply csort_nonempty|]. rewrite csort_groups, map_map. cbn [fst]. rewrite map_id.
  apply groups_by_sorted.
Qed.

(* ---- the main list-level statements, on pair lists ---------------------------------------------- *)
Theorem sorted_keys_groups (d:K) P :
  let S := map fst (ksort P) in
  map (fun p => nthd d S p) (removelast (spans_ref neqb S)) = groups_by kle (map fst P).
Proof.
  cbn zeta. rewrite ksort_expand. fold (ckeys (csort P)).
  rewrite first_rows_chunks by apply csort_wf. rewrite csort_groups, map_map. cbn [fst]. apply map_id.
Qed.

Theorem sorted_reduce_groups {R} (f:list V -> R) P :
  reduce_spans (fun (_:Z) l => f l) (spans_ref neqb (map fst (ksort P))) (map snd (ksort P))
  = map (fun k => f (mem k P)) (groups_by kle (map fst P)).
Proof.
  rewrite ksort_expand. fold (ckeys (csort P)) (cvals (csort P)).
  rewrite reduce_chunks by apply csort_wf. rewrite csort_groups, map_map. reflexivity.
Qed.

Theorem sorted_count_groups P :
  count_ref (spans_ref neqb (map fst (ksort P))) = map (fun k => len (mem k P)) (groups_by kle (map fst P)).
Proof.
  rewrite ksort_expand. fold (ckeys (csort P)).
  rewrite count_chunks by apply csort_wf. rewrite csort_groups. unfold sizes. rewrite map_map. reflexivity.
Qed.

Theorem counts_sum P : sumZ (map (fun k => len (mem k P)) (groups_by kle (map fst P))) = len P.
Proof.
  rewrite <- sorted_count_groups. rewrite ksort_expand. fold (ckeys (csort P)).
  rewrite count_chunks by apply csort_wf. rewrite <- len_ckeys. unfold ckeys. rewrite <- ksort_expand.
  unfold len. rewrite map_length. f_equal.
  induction P as [|p t IH]; [reflexivity|]. unfold ksort in *. cbn [fold_right length].
  rewrite <- IH. generalize (fold_right kinsert [] t) as l. intros l.
  induction l as [|y l IHl]; [reflexivity|]. cbn [kinsert]. destruct (kle (fst p) (fst y)); cbn [length]; [reflexivity|].
  rewrite IHl. reflexivity.
Qed.

(* a sorted input is left alone by the stable sort *)
Lemma ksort_sorted_id P : StronglySorted (fun x y:K*V => kle (fst x) (fst y) = true) P -> ksort P = P.
Proof.
  induction 1 as [|p t Ht IH Hp]; [reflexivity|]. unfold ksort in *. cbn [fold_right]. rewrite IH.
  destruct t as [|y t']; [reflexivity|]. cbn [kinsert]. inversion Hp; subst. rewrite H1. reflexivity.
Qed.

(* ---- the position-based stable argsort computes ksort ------------------------------------------- *)
Lemma insert_as_kinsert (g:K*Z -> K*V) s k T :
  (forall x, fst (g x) = fst x) ->
  Forall (fun x => s < snd x) T ->
  map g (insert kle (k, s) T) = kinsert (g (k, s)) (map g T).
Proof.
  intros Hg HT. induction HT as [|y t Hy Ht IH]; [reflexivity|].
  cbn [insert map kinsert]. rewrite !Hg. cbn [fst].
  unfold ple. cbn [fst snd].
  destruct (kle k (fst y)) eqn:E.
  - assert (Hle : (s <=? snd y) = true) by (apply Z.leb_le; lia). rewrite Hle.
    destruct (kle (fst y) k); reflexivity.
  - cbn [map]. f_equal. exact IH.
Qed.

Lemma isort_ksort (dv:V) s ks vs : length ks = length vs ->
  map (fun x:K*Z => (fst x, nthd dv vs (snd x - s))) (isort kle (combine ks (iota s (length ks))))
  = ksort (combine ks vs).
Proof.
  revert s vs. induction ks as [|k ks IH]; intros s [|v vs] Hl; try discriminate; [reflexivity|].
  cbn [length iota combine isort]. unfold ksort. cbn [fold_right]. fold (ksort (combine ks vs)).
  rewrite <- (IH (s + 1) vs) by (cbn in Hl; lia).
  rewrite (insert_as_kinsert (fun x => (fst x, nthd dv (v :: vs) (snd x - s)))).
  - cbn [fst snd]. rewrite Z.sub_diag. unfold nthd at 1. cbn [Z.to_nat nth]. f_equal.
    apply map_ext_in. intros x Hx.
    eapply Permutation_in in Hx; [|apply isort_perm].
    assert (Hs : s + 1 <= snd x).
    { destruct x as [a b]. apply in_combine_r in Hx. apply iota_In in Hx. cbn. lia. }
    f_equal. replace (snd x - s) with ((snd x - (s + 1)) + 1) by lia. apply nthd_cons_succ. lia.
  - intros x. reflexivity.
  - eapply Permutation_Forall; [symmetry; apply isort_perm|]. apply Forall_forall. intros [a b] Hx.
    apply in_combine_r in Hx. apply iota_In in Hx. cbn. lia.
Qed.

Theorem argsort_ksort (d:K) (dv:V) ks vs : length ks = length vs ->
  map (fun p => (nthd d ks p, nthd dv vs p)) (argsort kle ks) = ksort (combine ks vs).
Proof.
  intros Hl. rewrite <- (isort_ksort dv 0 ks vs Hl). rewrite (argsort_tag kle d). unfold tag.
  rewrite map_map. apply map_ext. intros p. cbn [fst snd]. rewrite Z.sub_0_r. reflexivity.
Qed.

(* ---- dropping adjacent duplicates of the sorted keys (np.unique) = the chunk keys (E5) ------------- *)
Notation dad := (Group.drop_adjacent_dups (keqb kle)).

Lemma dad_cons2 x y t : dad (x :: y :: t) = if keqb kle x y then dad (y :: t) else x :: dad (y :: t).
Proof. reflexivity. Qed.

Lemma dad_run k (vs:list V) rest : vs <> [] ->
  (match rest with [] => True | k' :: _ => k <> k' end) ->
  dad (map (fun _ => k) vs ++ rest) = k :: dad rest.
Proof.
  intros Hne Hrest. induction vs as [|v vs IH]; [congruence|].
  destruct vs as [|v' vs'].
  - cbn [map app]. destruct rest as [|k' rest']; [reflexivity|].
    rewrite dad_cons2. destruct (keqb kle k k') eqn:E; [apply keqb_true in E; congruence|reflexivity].
  - change (map (fun _:V => k) (v :: v' :: vs') ++ rest) with (k :: k :: (map (fun _:V => k) vs' ++ rest)).
    rewrite dad_cons2, keqb_refl. apply IH. congruence.
Qed.

Theorem dedup_chunks C : wf_chunks C -> dad (ckeys C) = map fst C.
Proof.
  intros [Hn Hs]. induction C as [|[k vs] t IH]; [reflexivity|].
  inversion Hn as [|c0 t0 Hvs Hnt]; subst. cbn [snd] in Hvs.
  cbn [map fst] in Hs. inversion Hs as [|k0 l0 Hst Hkt]; subst.
  rewrite ckeys_cons, dad_run.
  - cbn [map fst]. f_equal. apply IH; assumption.
  - exact Hvs.
  - destruct t as [|[k' vs'] t']; [exact I|]. inversion Hnt as [|c1 t1 Hvs' _]; subst. cbn [snd] in Hvs'.
    destruct (ckeys_head k' vs' t' Hvs') as [rest ->]. apply klt_neq.
    rewrite Forall_forall in Hkt. apply Hkt. left. reflexivity.
Qed.

Theorem sorted_keys_dedup P : dad (map fst (ksort P)) = groups_by kle (map fst P).
Proof.
  rewrite ksort_expand. fold (ckeys (csort P)). rewrite dedup_chunks by apply csort_wf.
  rewrite csort_groups, map_map. cbn [fst]. apply map_id.
Qed.

End Core.
