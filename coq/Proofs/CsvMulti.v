(* Proofs/CsvMulti.v — read_file_using_fast_csv_reader on a file that spans several windows
   (no regrowth of the value buffers): every call commits the records that end inside its window,
   the importer concatenates them; the result does not depend on chunk_row_size. *)
From Coq Require Import ZArith List Lia Bool.
From EV Require Import Res Arr Csv CsvSpec CsvBase CsvKernel CsvTable CsvRows CsvDriver CsvPrefix.
Import ListNotations.
Open Scope Z_scope.

(* ---- lists ------------------------------------------------------------------------------- *)
Lemma firstn_add {A} j k (l:list A) : firstn (j + k) l = firstn j l ++ firstn k (skipn j l).
Proof.
  revert l. induction j as [|j IH]; intros l; [reflexivity|]. destruct l as [|x l].
  - cbn. rewrite firstn_nil. reflexivity.
  - cbn [Nat.add firstn skipn app]. rewrite IH. reflexivity.
Qed.

Lemma colt_app A B c : colt (A ++ B) c = colt A c ++ colt B c.
Proof. unfold colt, column. apply map_app. Qed.

Lemma CB_app A B c : CB (A ++ B) c = CB A c ++ CB B c.
Proof. unfold CB. rewrite colt_app. apply concat_app. Qed.

Lemma psums_from_shift acc l : psums_from acc l = map (fun x => x + acc) (psums_from 0 l).
Proof.
  revert acc. induction l as [|x l IH]; intros acc; cbn [psums_from map].
  - f_equal; lia.
  - f_equal; try lia. rewrite (IH (acc + x)), (IH (0 + x)). rewrite map_map. apply map_ext. intros y. lia.
Qed.

Lemma psums_from_app acc l1 l2 : psums_from acc (l1 ++ l2) = psums_from acc l1 ++ tl (psums_from (acc + sumZ l1) l2).
Proof.
  revert acc. induction l1 as [|x l1 IH]; intros acc; cbn [app psums_from sumZ].
  - rewrite Z.add_0_r. destruct l2; reflexivity.
  - rewrite IH. cbn [app]. f_equal. f_equal. f_equal. f_equal. lia.
Qed.

Lemma tl_map {A B} (f:A -> B) l : tl (map f l) = map f (tl l).
Proof. destruct l; reflexivity. Qed.

Lemma enc_indices_app a b :
  enc_indices (a ++ b) = enc_indices a ++ tl (map (fun x => x + len (concat a)) (enc_indices b)).
Proof.
  unfold enc_indices, psums. rewrite map_app, psums_from_app. f_equal. rewrite Z.add_0_l.
  rewrite psums_from_shift. rewrite len_concat. reflexivity.
Qed.

Lemma enc_values_app a b : enc_values (a ++ b) = enc_values a ++ enc_values b.
Proof. apply concat_app. Qed.

Lemma pre_firstn (l:list (list Z)) k i : (i <= k)%nat -> pre (firstn k l) i = pre l i.
Proof. intros H. unfold pre. rewrite firstn_firstn. rewrite Nat.min_l by lia. reflexivity. Qed.

Lemma colt_firstn k T c : colt (firstn k T) c = firstn k (colt T c).
Proof. unfold colt, column. symmetry. apply firstn_map. Qed.

Lemma colt_skipn k T c : colt (skipn k T) c = skipn k (colt T c).
Proof. unfold colt, column. symmetry. apply skipn_map. Qed.

Lemma CB_split k T c : CB T c = CB (firstn k T) c ++ CB (skipn k T) c.
Proof. rewrite <- CB_app, firstn_skipn. reflexivity. Qed.

Lemma len_CB_firstn k T c : len (CB (firstn k T) c) <= len (CB T c).
Proof. rewrite (CB_split k T c), len_app. pose proof (len_nonneg (CB (skipn k T) c)). lia. Qed.

Lemma len_CB_skipn k T c : len (CB (skipn k T) c) <= len (CB T c).
Proof. rewrite (CB_split k T c), len_app. pose proof (len_nonneg (CB (firstn k T) c)). lia. Qed.

(* ---- the staging buffers seen as holding the table `firstn k T` --------------------------- *)
Lemma Good_firstn ncols w V offs T (k:nat) inds vals : (k <= length T)%nat ->
  Good ncols w V offs T (fun _ => Z.of_nat k) inds vals ->
  Good ncols w V offs (firstn k T) (fun _ => len (firstn k T)) inds vals.
Proof.
  intros Hk (Hs & Hv & H).
  assert (Hl : len (firstn k T) = Z.of_nat k) by (unfold len; rewrite firstn_length; lia).
  rewrite Hl. split; [exact Hs|]. split; [exact Hv|]. intros c Hc. destruct (H c Hc) as (Hf & Hi & Hb).
  split; [rewrite Hl; lia|]. split.
  - intros i Hi2. rewrite (Hi i Hi2). unfold P. rewrite colt_firstn. symmetry. apply pre_firstn. lia.
  - intros j Hj. assert (EP : P (firstn k T) c (Z.of_nat k) = P T c (Z.of_nat k)).
    { unfold P. rewrite colt_firstn. apply pre_firstn. lia. }
    rewrite EP in Hj. rewrite (Hb j Hj). rewrite (CB_split k T c).
    unfold nthZ. apply nthd_app_l.
    assert (EL : len (CB (firstn k T) c) = P (firstn k T) c (Z.of_nat k)).
    { unfold P, CB. rewrite Nat2Z.id. rewrite <- pre_all. f_equal. rewrite colt_length, firstn_length. lia. }
    rewrite EL, EP. lia.
Qed.

(* ---- import_part with an importer that already holds earlier records ---------------------- *)
Section ImportGen.
Variables (ncols w V : Z) (offs : list Z) (rows : list (list cell)).
Let nrows := len rows.
Hypothesis Hoffs : len offs = ncols + 1.
Hypothesis Hw : nrows + 1 <= w.
Hypothesis Hoffs0 : nthZ offs 0 = 0.
Hypothesis Hbudget : forall c, 0 <= c < ncols -> nthZ offs c + len (CB rows c) < nthZ offs (c + 1).
Hypothesis HV : nthZ offs ncols <= V.

Definition imp_add (m:imp) (c:Z) : imp :=
  mkImp (i_acc m + len (CB rows c))
        (i_indices m ++ tl (map (fun x => x + i_acc m) (enc_indices (colt rows c))))
        (i_values m ++ enc_values (colt rows c)).

Lemma import_part_gen inds vals c m :
  Good ncols w V offs rows (fun _ => nrows) inds vals -> 0 <= c < ncols ->
  import_part inds vals offs c nrows m = Ok (imp_add m c).
Proof.
  intros (Hsh & Hv & HG) Hc. destruct (HG c Hc) as (_ & Hk & Hb). destruct Hsh as (Hf & Hl & Hr).
  pose proof (len_nonneg rows) as Hn0. fold nrows in Hn0.
  assert (HP : P rows c nrows = len (CB rows c)).
  { unfold P, CB, nrows, len. rewrite Nat2Z.id. rewrite <- (colt_length rows c). apply pre_all. }
  unfold import_part. rewrite (get_ok 20 []) by lia. cbn [bind].
  set (rowv := nthd [] (snd inds) c).
  assert (Hlr : len rowv = w) by (apply Hr; exact Hc).
  unfold np_index. destruct (nrows <? 0) eqn:E; [apply Z.ltb_lt in E; lia|].
  rewrite getZ_ok by lia. cbn [bind]. rewrite getZ_ok by lia. cbn [bind].
  assert (Hlast : nthZ rowv nrows = len (CB rows c)).
  { rewrite <- HP. apply (Hk nrows). lia. }
  rewrite Hlast.
  assert (Hidx : firstn (Z.to_nat (nrows + 1)) rowv = enc_indices (colt rows c)).
  { apply (list_eq_nthd 0).
    - unfold len. rewrite firstn_length, enc_indices_length, colt_length. unfold nrows, len in *. lia.
    - intros i Hi. unfold len in Hi. rewrite firstn_length in Hi. unfold len in Hlr.
      unfold nthd. rewrite nth_firstn by lia. rewrite enc_indices_nth by (rewrite colt_length; unfold nrows, len in *; lia).
      apply (Hk i). unfold nrows, len in *; lia. }
  rewrite Hidx. unfold imp_add. f_equal. f_equal.
  - f_equal. unfold enc_values. fold (CB rows c).
    pose proof (offs_nonneg ncols offs rows Hoffs0 Hbudget c ltac:(lia)) as Hon.
    pose proof (P_le rows c nrows ltac:(unfold nrows; lia)) as Hple.
    pose proof (offs_mono ncols offs rows Hbudget (c + 1) ncols ltac:(lia) ltac:(lia) ltac:(lia)) as Hm.
    pose proof (Hbudget c Hc) as Hbu. pose proof (len_nonneg (CB rows c)) as Hcb.
    apply (list_eq_nthd 0).
    + rewrite len_slice; lia.
    + intros j Hj. rewrite len_slice in Hj by lia. rewrite nthd_slice by lia.
      apply (Hb j). rewrite HP. lia.
Qed.

Lemma import_all_gen inds vals : Good ncols w V offs rows (fun _ => nrows) inds vals ->
  forall index_map ms, Forall (fun c => 0 <= c < ncols) index_map -> length ms = length index_map ->
  import_all inds vals offs index_map nrows ms = Ok (map (fun mc => imp_add (fst mc) (snd mc)) (combine ms index_map)).
Proof.
  intros HG. induction index_map as [|c t IH]; intros ms Hall Hlen.
  - destruct ms; [reflexivity|discriminate].
  - destruct ms as [|m ms]; [discriminate|]. cbn [import_all combine map fst snd].
    rewrite import_part_gen by (try assumption; apply (Forall_inv Hall)). cbn [bind].
    rewrite IH by (try apply (Forall_inv_tail Hall); cbn in Hlen; lia). reflexivity.
Qed.

End ImportGen.

(* the importer state after the records of table A *)
Definition imp_of (A:list (list cell)) (c:Z) : imp :=
  mkImp (len (CB A c)) (enc_indices (colt A c)) (enc_values (colt A c)).

Lemma imp_add_of A B c : imp_add B (imp_of A c) c = imp_of (A ++ B) c.
Proof.
  unfold imp_add, imp_of. cbn [i_acc i_indices i_values].
  rewrite CB_app, len_app, colt_app, enc_indices_app, enc_values_app. reflexivity.
Qed.

Lemma imp_of_nil c : imp_of [] c = imp_new.
Proof. reflexivity. Qed.

Lemma combine_map_same {A B} (f:A -> B) (l:list A) : combine (map f l) l = map (fun x => (f x, x)) l.
Proof. induction l as [|x l IH]; cbn; [reflexivity|]. rewrite IH. reflexivity. Qed.

(* ---- which records end inside a window ---------------------------------------------------- *)
Lemma window_split : forall (rws:list (list cell)) (n:nat),
  exists k p, firstn n (render_file rws) = render_file (firstn k rws) ++ p /\ (k <= length rws)%nat /\
    (p = [] \/ ((k < length rws)%nat /\ exists q, q <> [] /\ render_row (nth k rws []) = p ++ q)) /\
    (forall r rest, rws = r :: rest -> (length (render_row r) <= n)%nat -> (1 <= k)%nat).
Proof.
  induction rws as [|r rws IH]; intros n.
  - exists 0%nat, []. cbn. rewrite firstn_nil. split; [reflexivity|]. split; [lia|]. split; [left; reflexivity|].
    intros; discriminate.
  - destruct (le_lt_dec (length (render_row r)) n) as [Hle|Hlt].
    + destruct (IH (n - length (render_row r))%nat) as (k & p & E & Hk & Hp & _).
      exists (S k), p. rewrite render_file_cons. rewrite firstn_app. rewrite firstn_all2 by lia. rewrite E.
      cbn [firstn]. rewrite render_file_cons, app_assoc. split; [reflexivity|]. split; [cbn; lia|]. split.
      * destruct Hp as [->|(Hk2 & q & Hq & Eq)]; [left; reflexivity|right]. split; [cbn; lia|]. exists q. cbn [nth]. auto.
      * intros; lia.
    + exists 0%nat, (firstn n (render_row r)). rewrite render_file_cons, firstn_app.
      replace (n - length (render_row r))%nat with 0%nat by lia. cbn [firstn]. rewrite app_nil_r.
      cbn [render_file map concat app]. split; [reflexivity|]. split; [lia|]. split.
      * right. split; [cbn; lia|]. exists (skipn n (render_row r)). split.
        { intros E. pose proof (skipn_length n (render_row r)) as Hs. rewrite E in Hs. cbn in Hs. lia. }
        cbn [nth]. symmetry. apply firstn_skipn.
      * intros r0 rest E Hl. inversion E; subst. lia.
Qed.

Lemma len_render_row_ge (r:list cell) : len r <= len (render_row r) /\ 1 <= len (render_row r).
Proof.
  induction r as [|c t IH].
  - cbn. unfold len; cbn; lia.
  - destruct t as [|c2 t].
    + cbn [render_row]. rewrite len_app. pose proof (len_nonneg (render_cell c)). unfold len at 1 3 5; cbn [length]. lia.
    + change (render_row (c :: c2 :: t)) with (render_cell c ++ SEP :: render_row (c2 :: t)).
      rewrite len_app, !len_cons in *. pose proof (len_nonneg (render_cell c)). lia.
Qed.

Lemma len_render_file_ge ncols rws : Forall (fun r : list cell => len r = ncols) rws ->
  ncols * len rws <= len (render_file rws).
Proof.
  induction rws as [|r rws IH]; intros H.
  - unfold len; cbn; lia.
  - rewrite render_file_cons, len_app, len_cons. pose proof (Forall_inv H) as Hr. cbv beta in Hr.
    specialize (IH (Forall_inv_tail H)). pose proof (len_render_row_ge r) as (Hg & _). lia.
Qed.

(* a file whose last byte is not a line break: with one column its last record is at least 2 bytes *)
Lemma last_row_long ncols : 0 < ncols -> forall rws c0, Forall (fun r : list cell => len r = ncols) rws ->
  render_file rws = c0 ++ [NL] -> c0 <> [] -> last c0 NL <> NL ->
  2 <= ncols \/ (ncols = 1 /\ len rws + 1 <= len (render_file rws)).
Proof.
  intros Hn. destruct (Z_le_gt_dec 2 ncols) as [H2|H1]; [intros; left; exact H2|].
  assert (E1 : ncols = 1) by lia. induction rws as [|r rws IH]; intros c0 Hrect E Hc0 Hlast; right; (split; [exact E1|]).
  - destruct c0; discriminate.
  - pose proof (Forall_inv Hrect) as Hr. cbv beta in Hr. pose proof (Forall_inv_tail Hrect) as Hrect'.
    rewrite render_file_cons in *. rewrite len_app, len_cons.
    destruct rws as [|r2 rws].
    + cbn [render_file map concat] in *. rewrite app_nil_r in E.
      destruct r as [|c [|c2 t]]; try (unfold len in Hr; cbn in Hr; lia).
      cbn [render_row] in *. apply app_inj_tail in E. destruct E as (E & _).
      rewrite len_app. replace (len (@nil (list cell))) with 0 by reflexivity. replace (len (@nil Z)) with 0 by reflexivity.
      assert (1 <= len c0) by (destruct c0; [contradiction|rewrite len_cons; pose proof (len_nonneg c0); lia]).
      rewrite E. unfold len at 2; cbn [length]. lia.
    + assert (Hne : render_file (r2 :: rws) <> []) by (apply render_file_nonnil; discriminate).
      destruct (exists_last Hne) as (l' & a & El). rewrite El in E. rewrite app_assoc in E.
      apply app_inj_tail in E. destruct E as (Ec & Ea). subst a.
      assert (Hl' : l' <> []).
      { intros ->. rewrite app_nil_r in Ec. apply Hlast. rewrite <- Ec. apply last_render_row. }
      assert (Hll : last l' NL <> NL) by (rewrite <- Ec, last_app_ne in Hlast by exact Hl'; exact Hlast).
      destruct (IH l' Hrect' El Hl' Hll) as [H2|(_ & IH')]; [lia|].
      pose proof (len_render_row_ge r) as (_ & Hg). lia.
Qed.

(* ---- the window of one driver iteration --------------------------------------------------- *)
Section Window.
Variables (file ALL : list Z) (cbs : Z).
Hypothesis Hfile : file = ALL \/ (file ++ [NL] = ALL /\ file <> [] /\ last file NL <> NL).
Hypothesis Hcbs : 0 < cbs.

(* lines 102-112 of the driver, for a fresh window at byte `chunk` *)
Definition content_of (chunk:Z) : list Z :=
  if (chunk + len (slice file chunk (chunk + cbs)) =? len file) && negb (last (slice file chunk (chunk + cbs)) NL =? NL)
  then slice file chunk (chunk + cbs) ++ [NL] else slice file chunk (chunk + cbs).

Lemma skipn_len_app (a b:list Z) : skipn (Z.to_nat (len a)) (a ++ b) = b.
Proof. unfold len. rewrite Nat2Z.id. rewrite skipn_app, skipn_all, Nat.sub_diag. reflexivity. Qed.

Lemma len_firstn_Z (n:Z) (l:list Z) : 0 <= n -> len (firstn (Z.to_nat n) l) = Z.min n (len l).
Proof. intros H. unfold len. rewrite firstn_length. lia. Qed.

Lemma content_shape pre RF : pre ++ RF = ALL -> RF <> [] -> last RF NL = NL -> last pre NL = NL ->
  len (slice file (len pre) (len pre + cbs)) <> 0 /\ len pre < len file /\
  (content_of (len pre) = firstn (Z.to_nat cbs) RF \/
   (content_of (len pre) = RF /\ len RF = cbs + 1 /\ exists RF0, RF = RF0 ++ [NL] /\ RF0 <> [] /\ last RF0 NL <> NL)).
Proof.
  intros HA Hne HlRF Hlpre.
  assert (Hsl : forall rest, file = pre ++ rest -> slice file (len pre) (len pre + cbs) = firstn (Z.to_nat cbs) rest).
  { intros rest ->. unfold slice. rewrite skipn_len_app. f_equal. lia. }
  assert (HRFpos : 1 <= len RF) by (destruct RF; [contradiction|rewrite len_cons; pose proof (len_nonneg RF); lia]).
  destruct Hfile as [Ef|(Ef & Hfne & Hfl)].
  - (* the file ends with a line break *)
    assert (Efile : file = pre ++ RF) by congruence.
    unfold content_of. rewrite (Hsl RF Efile). rewrite len_firstn_Z by lia.
    split; [lia|]. split; [rewrite Efile, len_app; lia|]. left.
    destruct (Z_le_gt_dec (len RF) cbs) as [Hle|Hgt].
    + rewrite firstn_all2 by (unfold len in Hle; lia). rewrite HlRF, Z.eqb_refl. cbn [negb]. rewrite andb_false_r. reflexivity.
    + destruct (len pre + Z.min cbs (len RF) =? len file) eqn:E; [|reflexivity].
      apply Z.eqb_eq in E. rewrite Efile, len_app in E. lia.
  - (* the final line break is missing *)
    destruct (exists_last Hne) as (RF0 & a & ERF). assert (Ea : a = NL) by (rewrite ERF, last_last in HlRF; exact HlRF). subst a.
    rewrite ERF in HA. rewrite <- Ef in HA. rewrite app_assoc in HA. apply app_inj_tail in HA. destruct HA as (Efile & _).
    symmetry in Efile.
    assert (HRF0 : RF0 <> []).
    { intros ->. rewrite app_nil_r in Efile. apply Hfl. rewrite Efile. exact Hlpre. }
    assert (HlRF0 : last RF0 NL <> NL) by (rewrite Efile, last_app_ne in Hfl by exact HRF0; exact Hfl).
    assert (HRF0pos : 1 <= len RF0) by (destruct RF0; [contradiction|rewrite len_cons; pose proof (len_nonneg RF0); lia]).
    assert (HlenRF : len RF = len RF0 + 1) by (rewrite ERF, len_app; reflexivity).
    unfold content_of. rewrite (Hsl RF0 Efile). rewrite len_firstn_Z by lia.
    split; [lia|]. split; [rewrite Efile, len_app; lia|].
    destruct (Z_le_gt_dec (len RF0) cbs) as [Hle|Hgt].
    + rewrite firstn_all2 by (unfold len in Hle; lia).
      replace (len pre + Z.min cbs (len RF0) =? len file) with true by (symmetry; apply Z.eqb_eq; rewrite Efile, len_app; lia).
      replace (last RF0 NL =? NL) with false by (symmetry; apply Z.eqb_neq; exact HlRF0). cbn [negb andb].
      rewrite <- ERF.
      destruct (Z_le_gt_dec (len RF) cbs) as [Hle2|Hgt2].
      * left. rewrite firstn_all2 by (unfold len in Hle2; lia). reflexivity.
      * right. split; [reflexivity|]. split; [lia|]. exists RF0. auto.
    + left. replace (len pre + Z.min cbs (len RF0) =? len file) with false by (symmetry; apply Z.eqb_neq; rewrite Efile, len_app; lia).
      cbn [andb]. rewrite ERF, firstn_app. replace (Z.to_nat cbs - length RF0)%nat with 0%nat by (unfold len in Hgt; lia).
      cbn [firstn]. rewrite app_nil_r. reflexivity.
Qed.

Lemma window_records ncols crs TT pre : cbs = crs * 2 * ncols -> 0 < ncols ->
  pre ++ render_file TT = ALL -> TT <> [] -> Forall (fun r : list cell => len r = ncols) TT -> last pre NL = NL ->
  (forall r, In r TT -> len (render_row r) <= cbs) ->
  len (slice file (len pre) (len pre + cbs)) <> 0 /\ len pre < len file /\
  exists (k:nat) p, content_of (len pre) = render_file (firstn k TT) ++ p /\ (1 <= k <= length TT)%nat /\
     Z.of_nat k <= crs * 2 /\
     (p = [] \/ (Z.of_nat k < crs * 2 /\ (k < length TT)%nat /\ exists q, q <> [] /\ render_row (nth k TT []) = p ++ q)).
Proof.
  intros Ecbs Hncols HA Hne Hrect Hlpre Hwin.
  destruct (content_shape pre (render_file TT) HA (render_file_nonnil TT Hne) (last_render_file TT) Hlpre)
    as (H1 & H2 & [Ec|(Ec & Hl & RF0 & ERF & HRF0 & HlRF0)]).
  - split; [exact H1|]. split; [exact H2|].
    destruct (window_split TT (Z.to_nat cbs)) as (k & p & E & Hk & Hp & Hk1).
    exists k, p. rewrite Ec. split; [exact E|].
    assert (Hk1' : (1 <= k)%nat).
    { destruct TT as [|r rest]; [contradiction|]. apply (Hk1 r rest eq_refl).
      specialize (Hwin r (or_introl eq_refl)). unfold len in Hwin. lia. }
    split; [lia|].
    pose proof (len_render_file_ge ncols (firstn k TT) (Forall_firstn_ _ k TT Hrect)) as Hcnt.
    assert (Hlk : len (firstn k TT) = Z.of_nat k) by (unfold len; rewrite firstn_length; lia).
    rewrite Hlk in Hcnt.
    assert (Htot : len (render_file (firstn k TT)) + len p <= cbs).
    { rewrite <- len_app, <- E. rewrite len_firstn_Z by lia. lia. }
    pose proof (len_nonneg p) as Hp0.
    split; [nia|].
    destruct Hp as [->|(Hk2 & q & Hq & Eq)]; [left; reflexivity|].
    destruct p as [|x p']; [left; reflexivity|right].
    rewrite len_cons in *. pose proof (len_nonneg p').
    split; [nia|]. split; [exact Hk2|]. exists q. auto.
  - split; [exact H1|]. split; [exact H2|].
    exists (length TT), []. rewrite firstn_all, app_nil_r. split; [exact Ec|].
    assert (1 <= length TT)%nat by (destruct TT; [contradiction|cbn; lia]).
    split; [lia|]. split; [|left; reflexivity].
    pose proof (len_render_file_ge ncols TT Hrect) as Hcnt. fold (len TT).
    destruct (last_row_long ncols Hncols TT RF0 Hrect ERF HRF0 HlRF0) as [H2c|(E1 & Hlong)]; nia.
Qed.

End Window.

(* ---- the driver loop ---------------------------------------------------------------------- *)
Section Driver.
Variables (hdr : list cell) (rows : list (list cell)) (file : list Z) (crs ncols : Z) (offs index_map : list Z).
Let ALL := render_file (hdr :: rows).
Let cbs := crs * 2 * ncols.
Let V := nthZ offs ncols.
Hypothesis Hncols : 0 < ncols.
Hypothesis Hhdr : len hdr = ncols.
Hypothesis Hrect : Forall (fun rw : list cell => len rw = ncols) rows.
Hypothesis Hfile : file = ALL \/ (file ++ [NL] = ALL /\ file <> [] /\ last file NL <> NL).
Hypothesis Hwin : forall r, In r (hdr :: rows) -> len (render_row r) <= cbs.
Hypothesis Hoffs : len offs = ncols + 1.
Hypothesis Hoffs0 : nthZ offs 0 = 0.
Hypothesis Hbudget : forall c, 0 <= c < ncols -> nthZ offs c + len (CB rows c) < nthZ offs (c + 1).
Hypothesis Himap : Forall (fun c => 0 <= c < ncols) index_map.

Lemma cbs_pos : 0 < cbs.
Proof. pose proof (Hwin hdr (or_introl eq_refl)) as H. pose proof (len_render_row_ge hdr) as (_ & H1). lia. Qed.

Lemma crs_pos : 0 < crs.
Proof. pose proof cbs_pos as H. unfold cbs in H. nia. Qed.

Definition Inv (j:nat) (d:dst) : Prop :=
  (j <= length rows)%nat /\
  d_chunk d = len (render_file (hdr :: firstn j rows)) /\ d_hdr d = false /\ d_acc d = Z.of_nat j /\
  d_ifull d = false /\ d_vfull d = false /\ d_offs d = offs /\
  (exists wd, crs * 2 + 1 <= wd /\ shape ncols wd (d_inds d)) /\
  (forall c, 0 <= c < ncols -> I2 (d_inds d) c 0 = 0) /\ len (d_vals d) = V /\
  d_imps d = map (imp_of (firstn j rows)) index_map.

(* one iteration of the driver, once the kernel call and the import are known *)
Lemma drv_step_post chunk hd acc inds vals cont st imps tr out imps' :
  len (slice file chunk (chunk + cbs)) <> 0 ->
  fast_csv_reader (fsm_fuel (content_of file cbs chunk) 0) (content_of file cbs chunk) 0 inds vals offs hd = Ok out ->
  f_vfull out = false -> 0 < f_next out -> (f_ifull out = true -> f_next out = len (content_of file cbs chunk)) ->
  import_all (f_inds out) (f_vals out) offs index_map (f_rows out) imps = Ok imps' ->
  exists d', drv_step file ncols cbs index_map (mkDst chunk hd acc inds vals offs false false cont st imps tr) = Ok (inl d') /\
    d_chunk d' = chunk + f_next out /\ d_hdr d' = false /\ d_acc d' = acc + f_rows out /\
    d_inds d' = (if f_ifull out then zeros2 ncols ((fst (f_inds out) - 1) * 2 + 1) else f_inds out) /\
    d_vals d' = f_vals out /\ d_offs d' = offs /\ d_ifull d' = false /\ d_vfull d' = false /\ d_imps d' = imps'.
Proof.
  intros Hc0 Hk Hvf Hnext Hif Himp.
  unfold drv_step. cbn [d_ifull d_vfull d_chunk d_content d_start d_inds d_vals d_offs d_hdr d_imps d_acc d_trace negb andb].
  cbv zeta. cbn [andb].
  destruct (len (slice file chunk (chunk + cbs)) =? 0) eqn:E0; [apply Z.eqb_eq in E0; contradiction|].
  unfold content_of in Hk, Hif.
  set (content := if (chunk + len (slice file chunk (chunk + cbs)) =? len file) && negb (last (slice file chunk (chunk + cbs)) NL =? NL)
                  then slice file chunk (chunk + cbs) ++ [NL] else slice file chunk (chunk + cbs)) in *.
  rewrite Hk. cbn [bind]. rewrite Hvf. cbn [negb andb orb].
  destruct (f_next out <=? 0) eqn:E1; [apply Z.leb_le in E1; lia|]. rewrite andb_false_r.
  rewrite Himp. cbn [bind].
  assert (Efull : (f_ifull out || false) && (f_next out <? len content) = false).
  { destruct (f_ifull out) eqn:Ei; [|reflexivity]. cbn [orb andb]. rewrite (Hif eq_refl). apply Z.ltb_irrefl. }
  rewrite Efull. cbn [andb].
  eexists. split; [reflexivity|]. cbn [d_chunk d_hdr d_acc d_inds d_vals d_offs d_ifull d_vfull d_imps].
  repeat split.
Qed.

Lemma firstn_rows_app j k : firstn (j + k) rows = firstn j rows ++ firstn k (skipn j rows).
Proof. apply firstn_add. Qed.

Lemma budget_skipn j c : 0 <= c < ncols -> nthZ offs c + len (CB (skipn j rows) c) < nthZ offs (c + 1).
Proof. intros Hc. pose proof (Hbudget c Hc). pose proof (len_CB_skipn j rows c). lia. Qed.

Lemma budget_firstn k T : (forall c, 0 <= c < ncols -> nthZ offs c + len (CB T c) < nthZ offs (c + 1)) ->
  forall c, 0 <= c < ncols -> nthZ offs c + len (CB (firstn k T) c) < nthZ offs (c + 1).
Proof. intros H c Hc. pose proof (H c Hc). pose proof (len_CB_firstn k T c). lia. Qed.

Lemma Forall_skipn_ {A} (Pp:A -> Prop) n l : Forall Pp l -> Forall Pp (skipn n l).
Proof.
  revert l. induction n as [|n IH]; intros l H; [exact H|]. destruct l as [|x l]; [constructor|].
  cbn [skipn]. inversion H; subst. auto.
Qed.

(* the state after a call that committed k more records *)
Lemma step_finish (j k:nat) chunk hd inds vals cont st tr out wd :
  (j + k <= length rows)%nat ->
  chunk + f_next out = len (render_file (hdr :: firstn (j + k) rows)) ->
  len (slice file chunk (chunk + cbs)) <> 0 ->
  fast_csv_reader (fsm_fuel (content_of file cbs chunk) 0) (content_of file cbs chunk) 0 inds vals offs hd = Ok out ->
  0 < f_next out -> f_rows out = Z.of_nat k -> (f_ifull out = true -> f_next out = len (content_of file cbs chunk)) ->
  f_vfull out = false -> crs * 2 + 1 <= wd -> Z.of_nat k + 1 <= wd ->
  Good ncols wd V offs (skipn j rows) (fun _ => Z.of_nat k) (f_inds out) (f_vals out) ->
  exists d', drv_step file ncols cbs index_map
               (mkDst chunk hd (Z.of_nat j) inds vals offs false false cont st (map (imp_of (firstn j rows)) index_map) tr) = Ok (inl d') /\
             Inv (j + k) d'.
Proof.
  intros Hjk Hchunk Hc0 Hk Hnext Hrows Hif Hvf Hwd Hkwd HG.
  pose proof crs_pos as Hcrs.
  assert (Hkl : (k <= length (skipn j rows))%nat) by (rewrite skipn_length; lia).
  pose proof (Good_firstn ncols wd V offs (skipn j rows) k (f_inds out) (f_vals out) Hkl HG) as HG2.
  set (recs := firstn k (skipn j rows)) in *.
  assert (Hlrecs : len recs = Z.of_nat k) by (unfold recs, len; rewrite firstn_length; lia).
  assert (HV : nthZ offs ncols <= V) by (unfold V; lia).
  pose proof (import_all_gen ncols wd V offs recs Hoffs ltac:(lia) Hoffs0 (budget_firstn k (skipn j rows) (budget_skipn j)) HV
                (f_inds out) (f_vals out) HG2 index_map (map (imp_of (firstn j rows)) index_map) Himap ltac:(apply map_length)) as Himp.
  rewrite Hlrecs, <- Hrows in Himp.
  destruct (drv_step_post chunk hd (Z.of_nat j) inds vals cont st _ tr out _ Hc0 Hk Hvf Hnext Hif Himp)
    as (d' & Hd & D1 & D2 & D3 & D4 & D5 & D6 & D7 & D8 & D9).
  exists d'. split; [exact Hd|].
  destruct HG as (Hsh & Hlv & HGc).
  unfold Inv. split; [exact Hjk|]. split; [rewrite D1; exact Hchunk|]. split; [exact D2|].
  split; [rewrite D3, Hrows; lia|]. split; [exact D7|]. split; [exact D8|]. split; [exact D6|]. split; [|split; [|split]].
  - rewrite D4. destruct (f_ifull out).
    + exists ((fst (f_inds out) - 1) * 2 + 1). destruct Hsh as (Hf & _). rewrite Hf.
      split; [lia|]. apply shape_zeros2; lia.
    + exists wd. split; [lia|exact Hsh].
  - intros c Hc. rewrite D4. destruct (f_ifull out).
    + destruct Hsh as (Hf & _). apply I2_zeros2; lia.
    + destruct (HGc c Hc) as (_ & Hi & _). rewrite (Hi 0 ltac:(lia)). apply P_0.
  - rewrite D5. exact Hlv.
  - rewrite D9. rewrite combine_map_same, map_map. apply map_ext. intros c. cbn [fst snd].
    rewrite imp_add_of. rewrite firstn_rows_app. reflexivity.
Qed.

Lemma pre_split j : render_file (hdr :: firstn j rows) ++ render_file (skipn j rows) = ALL.
Proof. unfold ALL. rewrite <- render_file_app. cbn [app]. rewrite firstn_skipn. reflexivity. Qed.

Lemma chunk_add j k : len (render_file (hdr :: firstn (j + k) rows)) =
  len (render_file (hdr :: firstn j rows)) + len (render_file (firstn k (skipn j rows))).
Proof. rewrite firstn_rows_app. rewrite <- len_app, <- render_file_app. reflexivity. Qed.

(* an iteration after the first *)
Lemma step_next j d : Inv j d -> (j < length rows)%nat ->
  d_chunk d < len file /\
  exists k d', (1 <= k)%nat /\ drv_step file ncols cbs index_map d = Ok (inl d') /\ Inv (j + k) d'.
Proof.
  intros (Hj & Hch & Hh & Hacc & Hif & Hvf & Hof & (wd & Hwd & Hsh) & H0 & Hlv & Himps) Hlt.
  pose proof crs_pos as Hcrs. pose proof cbs_pos as Hcbs.
  set (T := skipn j rows). set (pre := render_file (hdr :: firstn j rows)).
  assert (HTne : T <> []).
  { unfold T. intros E. pose proof (skipn_length j rows) as Hs. rewrite E in Hs. cbn in Hs. lia. }
  assert (HTrect : Forall (fun r : list cell => len r = ncols) T) by (apply Forall_skipn_; exact Hrect).
  assert (HTwin : forall r, In r T -> len (render_row r) <= cbs).
  { intros r Hr. apply Hwin. right. unfold T in Hr. rewrite <- (firstn_skipn j rows). apply in_or_app. right. exact Hr. }
  destruct (window_records file ALL cbs Hfile Hcbs ncols crs T pre eq_refl Hncols (pre_split j) HTne HTrect
              (last_render_file _) HTwin) as (Hc0 & Hlt2 & k & p & Ec & (Hk1 & Hk2) & Hk3 & Hp).
  fold pre in Hch. rewrite <- Hch in Hc0, Hlt2, Ec. split; [exact Hlt2|].
  assert (HV : nthZ offs ncols <= V) by (unfold V; lia).
  assert (Hcut : cut (wd - 1) T k p).
  { destruct Hp as [->|(Hp1 & Hp2 & Hp3)]; [left; reflexivity|right]. split; [lia|]. split; assumption. }
  assert (Hrange : 0 <= 0 <= len (content_of file cbs (d_chunk d))).
  { pose proof (len_nonneg (content_of file cbs (d_chunk d))). lia. }
  assert (Hsh' : shape ncols (wd - 1 + 1) (d_inds d)) by (replace (wd - 1 + 1) with wd by lia; exact Hsh).
  destruct (kernel_prefix_nohdr (content_of file cbs (d_chunk d)) offs (wd - 1) ncols Hoffs Hncols ltac:(lia) V T Hoffs0
              (budget_skipn j) HV HTrect k 0 (d_inds d) (d_vals d) p Hk2 ltac:(lia) Hrange Ec Hcut Hsh' H0 Hlv)
    as (out & Hk & Hnext & Hrows & Hifull & Hvfull & HG).
  rewrite Z.add_0_l in Hnext. replace (wd - 1 + 1) with wd in HG by lia.
  assert (Hnpos : 0 < f_next out).
  { rewrite Hnext. assert (Hne : firstn k T <> []) by (destruct T; [contradiction|destruct k; [lia|discriminate]]).
    pose proof (render_file_nonnil _ Hne) as Hn. destruct (render_file (firstn k T)); [contradiction|].
    rewrite len_cons. pose proof (len_nonneg l). lia. }
  assert (Hjk : (j + k <= length rows)%nat) by (unfold T in Hk2; rewrite skipn_length in Hk2; lia).
  exists k.
  destruct d as [chunk hd acc inds vals doffs dif dvf cont st imps tr].
  cbn [d_chunk d_hdr d_acc d_ifull d_vfull d_offs d_inds d_vals d_imps] in *. subst hd acc dif dvf doffs imps.
  destruct (step_finish j k chunk false inds vals cont st tr out wd Hjk) as (d' & Hd & HI); try assumption; try lia.
  - rewrite chunk_add. fold pre T. rewrite Hnext. lia.
  - intros Ei. rewrite Hifull in Ei. apply Z.eqb_eq in Ei.
    destruct Hp as [->|(Hp1 & _)]; [|lia]. rewrite Ec, app_nil_r. exact Hnext.
  - exists d'. split; [exact Hk1|]. split; assumption.
Qed.

(* the first iteration: the header line and the records that end inside the first window *)
Lemma step_first tr0 cont0 st0 :
  exists k d', drv_step file ncols cbs index_map
     (mkDst 0 true 0 (zeros2 ncols (crs * 2 + 1)) (zeros (last offs 0)) offs false false cont0 st0
            (map (fun _ => imp_new) index_map) tr0) = Ok (inl d') /\ Inv k d' /\ 0 < len file.
Proof.
  pose proof crs_pos as Hcrs. pose proof cbs_pos as Hcbs.
  assert (HTrect : Forall (fun r : list cell => len r = ncols) (hdr :: rows)) by (constructor; assumption).
  destruct (window_records file ALL cbs Hfile Hcbs ncols crs (hdr :: rows) [] eq_refl Hncols eq_refl ltac:(discriminate) HTrect
              eq_refl Hwin) as (Hc0 & Hlt2 & k & p & Ec & (Hk1 & Hk2) & Hk3 & Hp).
  replace (len (@nil Z)) with 0 in * by reflexivity.
  destruct k as [|k0]; [lia|]. cbn [firstn length nth] in *. rewrite render_file_cons, <- app_assoc in Ec.
  assert (Hoffs_ne : offs <> []) by (intros E; rewrite E in Hoffs; unfold len in Hoffs; cbn in Hoffs; lia).
  assert (HVl : last offs 0 = V) by (unfold V; rewrite last_nthZ by assumption; f_equal; lia).
  assert (HVn : 0 <= V) by (apply (offs_nonneg ncols offs rows Hoffs0 Hbudget); lia).
  assert (HV : nthZ offs ncols <= V) by (unfold V; lia).
  assert (Hcut : cut (crs * 2) rows k0 p).
  { destruct Hp as [->|(Hp1 & Hp2 & Hp3)]; [left; reflexivity|right]. split; [lia|]. split; [lia|exact Hp3]. }
  destruct (kernel_prefix_hdr (content_of file cbs 0) offs (crs * 2) ncols Hoffs Hncols ltac:(lia) V rows Hoffs0
              Hbudget HV Hrect hdr k0 (zeros2 ncols (crs * 2 + 1)) (zeros (last offs 0)) p ltac:(lia) ltac:(lia) Hhdr Ec Hcut)
    as (out & Hk & Hnext & Hrows & Hifull & Hvfull & HG).
  { apply shape_zeros2; lia. }
  { intros c Hc. apply I2_zeros2; lia. }
  { rewrite HVl. apply len_zeros. exact HVn. }
  pose proof (len_render_row_ge hdr) as (_ & Hh1). pose proof (len_nonneg (render_file (firstn k0 rows))) as Hr0.
  exists k0.
  destruct (step_finish 0 k0 0 true (zeros2 ncols (crs * 2 + 1)) (zeros (last offs 0)) cont0 st0 tr0 out (crs * 2 + 1))
    as (d' & Hd & HI); try assumption; try lia.
  - rewrite Hnext. cbn [Nat.add]. rewrite render_file_cons, len_app. lia.
  - intros Ei. rewrite Hifull in Ei. apply Z.eqb_eq in Ei. lia.
  - exists d'. split; [|split; [exact HI|lia]].
    replace (map (fun _ : Z => imp_new) index_map) with (map (imp_of (firstn 0 rows)) index_map); [exact Hd|].
    apply map_ext. intros c. apply imp_of_nil.
Qed.

Lemma loop_done d : Inv (length rows) d -> forall fuel, (1 <= fuel)%nat ->
  drv_loop fuel file ncols cbs index_map d = Ok d.
Proof.
  intros (_ & Hch & _) fuel Hf. destruct fuel as [|f]; [lia|]. cbn [drv_loop].
  rewrite firstn_all in Hch. fold ALL in Hch.
  assert (Hle : len file <= len ALL).
  { destruct Hfile as [->|(E & _)]; [lia|]. rewrite <- E, len_app. pose proof (len_nonneg [NL]). lia. }
  destruct (d_chunk d <? len file) eqn:E; [apply Z.ltb_lt in E; lia|reflexivity].
Qed.

Lemma loop_all : forall (n:nat) j d, Inv j d -> (length rows - j <= n)%nat -> forall fuel, (n + 1 <= fuel)%nat ->
  exists d', drv_loop fuel file ncols cbs index_map d = Ok d' /\ Inv (length rows) d'.
Proof.
  induction n as [|n IH]; intros j d HI Hn fuel Hf.
  - assert (j = length rows) by (destruct HI as (Hj & _); lia). subst j.
    exists d. split; [apply loop_done; [exact HI|lia]|exact HI].
  - destruct (Nat.eq_dec j (length rows)) as [->|Hne].
    + exists d. split; [apply loop_done; [exact HI|lia]|exact HI].
    + assert (Hlt : (j < length rows)%nat) by (destruct HI as (Hj & _); lia).
      destruct (step_next j d HI Hlt) as (Hch & k & d' & Hk & Hd & HI').
      destruct fuel as [|f]; [lia|]. cbn [drv_loop].
      destruct (d_chunk d <? len file) eqn:E; [|apply Z.ltb_ge in E; lia].
      rewrite Hd. cbn [bind]. apply (IH (j + k)%nat d' HI'); lia.
Qed.

Theorem read_file_multi_window fuel :
  (length rows + 2 <= fuel)%nat ->
  exists d, read_file fuel file crs ncols offs index_map = Ok d /\
    d_acc d = len rows /\
    map (fun m => (i_indices m, i_values m)) (d_imps d) =
    map (fun ts => (enc_indices ts, enc_values ts)) (select index_map rows).
Proof.
  intros Hf. unfold read_file. destruct fuel as [|f]; [lia|]. cbn [drv_loop d_chunk].
  destruct (step_first [] [] 0) as (k & d1 & Hd & HI & Hlen).
  destruct (0 <? len file) eqn:E; [|apply Z.ltb_ge in E; lia].
  fold cbs. rewrite Hd. cbn [bind].
  destruct (loop_all (length rows) k d1 HI ltac:(lia) f ltac:(lia)) as (d & Hl & HId).
  exists d. split; [exact Hl|].
  destruct HId as (_ & _ & _ & Hacc & _ & _ & _ & _ & _ & _ & Himps).
  split; [rewrite Hacc; reflexivity|]. rewrite Himps, firstn_all.
  unfold select. rewrite !map_map. apply map_ext. intros c. reflexivity.
Qed.

End Driver.

(* two chunk sizes / budget vectors give the same import *)
Theorem read_file_chunk_independent hdr rows file crs1 crs2 ncols offs1 offs2 index_map fuel1 fuel2 :
  0 < ncols -> len hdr = ncols -> Forall (fun rw : list cell => len rw = ncols) rows ->
  (file = render_file (hdr :: rows) \/
   (file ++ [NL] = render_file (hdr :: rows) /\ file <> [] /\ last file NL <> NL)) ->
  (forall r, In r (hdr :: rows) -> len (render_row r) <= crs1 * 2 * ncols) ->
  (forall r, In r (hdr :: rows) -> len (render_row r) <= crs2 * 2 * ncols) ->
  len offs1 = ncols + 1 -> nthZ offs1 0 = 0 -> len offs2 = ncols + 1 -> nthZ offs2 0 = 0 ->
  (forall c, 0 <= c < ncols -> nthZ offs1 c + len (CB rows c) < nthZ offs1 (c + 1)) ->
  (forall c, 0 <= c < ncols -> nthZ offs2 c + len (CB rows c) < nthZ offs2 (c + 1)) ->
  Forall (fun c => 0 <= c < ncols) index_map ->
  (length rows + 2 <= fuel1)%nat -> (length rows + 2 <= fuel2)%nat ->
  exists d1 d2, read_file fuel1 file crs1 ncols offs1 index_map = Ok d1 /\
                read_file fuel2 file crs2 ncols offs2 index_map = Ok d2 /\
                d_acc d1 = d_acc d2 /\
                map (fun m => (i_indices m, i_values m)) (d_imps d1) = map (fun m => (i_indices m, i_values m)) (d_imps d2).
Proof.
  intros.
  destruct (read_file_multi_window hdr rows file crs1 ncols offs1 index_map) with (fuel := fuel1) as (d1 & E1 & A1 & C1); try assumption.
  destruct (read_file_multi_window hdr rows file crs2 ncols offs2 index_map) with (fuel := fuel2) as (d2 & E2 & A2 & C2); try assumption.
  exists d1, d2. repeat split; try assumption; congruence.
Qed.
