(* Proofs/GroupModel.v — DataFrame.groupby of Model/Group.v: what the group-by object holds
   (spans of the stably sorted key rows; the sort permutation, or None when the keys are sorted / hinted),
   and the row-level main theorem: sort + spans + per-span reduction = group-wise reference. *)
From Coq Require Import ZArith List Bool Lia Sorted Permutation.
From EV Require Import Res Arr StableSort StableSortProofs Spans SpansSpec SpansBase SpansRef SpansKernels SpansSorted
  SpansOrder SpansMain FilterIndex FilterIndexSpec FilterIndexKernels FilterIndexSort FilterIndexFrames
  Group GroupSpec GroupCore.
Import ListNotations.
Open Scope Z_scope.

(* ---- the orders on cells and rows --------------------------------------------------------- *)
Lemma lex_le_antisym {K} (kle:K -> K -> bool) :
  (forall a b, kle a b = true -> kle b a = true -> a = b) ->
  forall r1 r2, lex_le kle r1 r2 = true -> lex_le kle r2 r1 = true -> r1 = r2.
Proof.
  intros Ha. induction r1 as [|a t1 IH]; intros [|b t2]; cbn [lex_le]; try discriminate; [reflexivity|].
  destruct (kle a b) eqn:E1; [|discriminate]. destruct (kle b a) eqn:E2; [|discriminate].
  intros H1 H2. assert (a = b) by (apply Ha; assumption). subst. f_equal. apply IH; assumption.
Qed.
Lemma Zleb_antisym a b : (a <=? b) = true -> (b <=? a) = true -> a = b.
Proof. rewrite !Z.leb_le. lia. Qed.
Lemma cell_le_antisym a b : cell_le a b = true -> cell_le b a = true -> a = b.
Proof. apply lex_le_antisym. exact Zleb_antisym. Qed.
Lemma grow_trans a b c : GroupSpec.rowle a b = true -> GroupSpec.rowle b c = true -> GroupSpec.rowle a c = true.
Proof. exact (lex_le_trans cell_le cell_le_trans a b c). Qed.
Lemma grow_total a b : GroupSpec.rowle a b = true \/ GroupSpec.rowle b a = true.
Proof. exact (lex_le_total cell_le cell_le_total a b). Qed.
Lemma grow_antisym a b : GroupSpec.rowle a b = true -> GroupSpec.rowle b a = true -> a = b.
Proof. apply lex_le_antisym. exact cell_le_antisym. Qed.

(* row inequality as the multi-field kernel computes it *)
Definition rneqb : list cell -> list cell -> bool := list_neqb bytes_neqb.
Lemma rneqb_spec a b : rneqb a b = false <-> a = b.
Proof. apply list_neqb_spec. exact bytes_neqb_spec. Qed.

(* cell_le is "not greater" for the kernels' < *)
Lemma cell_le_ltb a b : cell_le a b = negb (bytes_ltb b a).
Proof.
  revert b. induction a as [|x a IH]; intros [|y b]; cbn [cell_le lex_le bytes_ltb]; try reflexivity.
  unfold cell_le in IH. rewrite IH.
  destruct (x <=? y) eqn:E1; destruct (y <=? x) eqn:E2; destruct (y <? x) eqn:E3; destruct (x <? y) eqn:E4;
    try reflexivity; lia.
Qed.

(* sortedness as check_if_sorted_for_multi_fields decides it = adjacent rows in rowle order *)
Lemma lex_leb_rowle (p c:list cell) : length p = length c -> lex_leb bytes_ltb p c = GroupSpec.rowle p c.
Proof.
  revert c. induction p as [|x p IH]; intros [|y c] Hl; try discriminate; [reflexivity|].
  cbn [lex_leb GroupSpec.rowle lex_le]. rewrite !cell_le_ltb.
  destruct (bytes_ltb x y) eqn:E1; destruct (bytes_ltb y x) eqn:E2; cbn [negb]; try reflexivity.
  - destruct bytes_ltb_strict_total as [Hirr [Htr _]].
    pose proof (Htr _ _ _ E1 E2) as H. rewrite Hirr in H. discriminate.
  - apply IH. cbn in Hl. lia.
Qed.

(* ---- the two `rows_of` are the same table ------------------------------------------------------ *)
Lemma zrange_iota s n : zrange s n = iota s n.
Proof. revert s. induction n as [|n IH]; intros s; [reflexivity|]. cbn. rewrite IH. reflexivity. Qed.
Lemma rows_of_same (kcs:list (list cell)) n : SpansKernels.rows_of [] kcs n = FilterIndexSpec.rows_of n kcs.
Proof. unfold SpansKernels.rows_of, FilterIndexSpec.rows_of. rewrite zrange_iota. reflexivity. Qed.

Lemma rows_of_row_length n kcs r : In r (FilterIndexSpec.rows_of n kcs) -> length r = length kcs.
Proof.
  unfold FilterIndexSpec.rows_of. intros H. apply in_map_iff in H. destruct H as [i [<- _]].
  unfold FilterIndexSpec.row_at. apply map_length.
Qed.

Lemma rows_sortedb_SS (rows:list (list cell)) m : (forall r, In r rows -> length r = m) ->
  rows_sortedb bytes_ltb rows = true -> StronglySorted (fun a b => GroupSpec.rowle a b = true) rows.
Proof.
  intros Hm. induction rows as [|r t IH]; intros H; [constructor|].
  assert (Ht : rows_sortedb bytes_ltb t = true).
  { destruct t as [|r' t']; [reflexivity|]. cbn [rows_sortedb] in H. apply andb_prop in H. apply H. }
  specialize (IH (fun x Hx => Hm x (or_intror Hx)) Ht).
  constructor; [exact IH|].
  destruct t as [|r' t']; [constructor|].
  cbn [rows_sortedb] in H. apply andb_prop in H. destruct H as [H1 _].
  rewrite lex_leb_rowle in H1 by (rewrite (Hm r), (Hm r'); [reflexivity|right; left; reflexivity|left; reflexivity]).
  inversion IH as [|? ? _ Hr']; subst.
  constructor; [exact H1|]. rewrite Forall_forall in *. intros z Hz. eapply grow_trans; [exact H1|apply Hr'; exact Hz].
Qed.

(* ---- the row-level main theorem ------------------------------------------------------------------ *)
Section Rows.
Context {V:Type}.
Variable dv : V.

(* rows sorted by the stable lexicographic sort, and any column gathered alongside *)
Definition sort_rows (kr:list (list cell)) : list (list cell) := gather [] kr (lexsort_perm kr).
Definition sort_vals (kr:list (list cell)) (vals:list V) : list V := gather dv vals (lexsort_perm kr).

Lemma combine_map2 {A B C} (f:C -> A) (g:C -> B) q : combine (map f q) (map g q) = map (fun p => (f p, g p)) q.
Proof. induction q as [|p q IH]; [reflexivity|]. cbn [map combine]. f_equal. exact IH. Qed.

Lemma sort_pairs kr vals : length kr = length vals ->
  combine (sort_rows kr) (sort_vals kr vals) = ksort GroupSpec.rowle (combine kr vals).
Proof.
  intros Hl. rewrite <- (argsort_ksort GroupSpec.rowle [] dv kr vals Hl).
  unfold sort_rows, sort_vals, gather, lexsort_perm. fold GroupSpec.rowle.
  apply combine_map2.
Qed.

Lemma map_fst_combine {A B} (l1:list A) (l2:list B) : length l1 = length l2 -> map fst (combine l1 l2) = l1.
Proof. revert l2. induction l1 as [|a t IH]; intros [|b t2] H; try discriminate; [reflexivity|]. cbn. f_equal. apply IH. cbn in H. lia. Qed.
Lemma map_snd_combine {A B} (l1:list A) (l2:list B) : length l1 = length l2 -> map snd (combine l1 l2) = l2.
Proof. revert l2. induction l1 as [|a t IH]; intros [|b t2] H; try discriminate; [reflexivity|]. cbn. f_equal. apply IH. cbn in H. lia. Qed.

Lemma sort_lengths kr vals : length (sort_rows kr) = length (sort_vals kr vals).
Proof. unfold sort_rows, sort_vals, gather. rewrite !map_length. reflexivity. Qed.

Lemma mem_members k kr (vals:list V) : mem GroupSpec.rowle k (combine kr vals) = members k kr vals.
Proof. reflexivity. Qed.

(* (1) the first row of every span of the sorted key rows: the distinct key tuples, ascending *)
Theorem sorted_first_rows_are_groups kr :
  gather [] (sort_rows kr) (removelast (spans_ref rneqb (sort_rows kr))) = groups kr.
Proof.
  pose proof (sort_pairs kr (map (fun _ => dv) kr) ltac:(rewrite map_length; reflexivity)) as Hp.
  pose proof (sorted_keys_groups (V:=V) GroupSpec.rowle grow_trans grow_total grow_antisym rneqb rneqb_spec []
                (combine kr (map (fun _ => dv) kr))) as H.
  cbn zeta in H. rewrite <- Hp in H.
  rewrite !map_fst_combine in H by (try apply sort_lengths; rewrite map_length; reflexivity).
  exact H.
Qed.

(* (2) reducing every span of the sorted values = reducing the members of every group, in original row order *)
Theorem sorted_spans_reduce {R} (f:list V -> R) kr vals : length kr = length vals ->
  reduce_spans (fun (_:Z) l => f l) (spans_ref rneqb (sort_rows kr)) (sort_vals kr vals) = agg_ref f kr vals.
Proof.
  intros Hl.
  pose proof (sorted_reduce_groups GroupSpec.rowle grow_trans grow_total grow_antisym rneqb rneqb_spec f (combine kr vals)) as H.
  rewrite <- (sort_pairs kr vals Hl) in H.
  rewrite map_fst_combine, map_snd_combine in H by apply sort_lengths.
  rewrite map_fst_combine in H by exact Hl. exact H.
Qed.

(* (3) span lengths = group sizes *)
Theorem sorted_spans_count kr vals : length kr = length vals ->
  count_ref (spans_ref rneqb (sort_rows kr)) = agg_ref (@len V) kr vals.
Proof.
  intros Hl.
  pose proof (sorted_count_groups GroupSpec.rowle grow_trans grow_total grow_antisym rneqb rneqb_spec (combine kr vals)) as H.
  rewrite <- (sort_pairs kr vals Hl) in H.
  rewrite map_fst_combine in H by apply sort_lengths.
  rewrite map_fst_combine in H by exact Hl. exact H.
Qed.

Theorem group_counts_sum kr vals : length kr = length vals -> sumZ (agg_ref (@len V) kr vals) = len kr.
Proof.
  intros Hl.
  pose proof (counts_sum GroupSpec.rowle grow_trans grow_total grow_antisym rneqb rneqb_spec (combine kr vals)) as H.
  rewrite map_fst_combine in H by exact Hl. unfold agg_ref, agg_by, members_by. unfold mem in H. rewrite H.
  unfold len. rewrite combine_length. lia.
Qed.

(* sorted input: the stable sort is the identity, so the hint changes nothing *)
Theorem sorted_input_unchanged kr vals : length kr = length vals ->
  StronglySorted (fun a b => GroupSpec.rowle a b = true) kr ->
  sort_rows kr = kr /\ sort_vals kr vals = vals.
Proof.
  intros Hl Hs.
  pose proof (sort_pairs kr vals Hl) as Hp.
  rewrite (ksort_sorted_id GroupSpec.rowle) in Hp.
  - split.
    + apply (f_equal (map fst)) in Hp. rewrite !map_fst_combine in Hp by (try apply sort_lengths; exact Hl). exact Hp.
    + apply (f_equal (map snd)) in Hp. rewrite !map_snd_combine in Hp by (try apply sort_lengths; exact Hl). exact Hp.
  - clear Hp. revert vals Hl. induction Hs as [|r t Ht IH Hr]; intros [|v vals] Hl; try discriminate; [constructor|].
    cbn [combine]. constructor; [apply IH; cbn in Hl; lia|].
    apply Forall_forall. intros [a b] Hin. apply in_combine_l in Hin. cbn [fst].
    rewrite Forall_forall in Hr. apply Hr. exact Hin.
Qed.

End Rows.

(* ---- DataFrame.groupby ---------------------------------------------------------------------------- *)
Lemma stack_ok (kcs:list (list cell)) n : Forall (fun c => len c = n) kcs -> stack_key_columns kcs = Ok kcs.
Proof.
  intros H. destruct kcs as [|c0 t]; [reflexivity|]. cbn [stack_key_columns].
  inversion H as [|? ? H0 Ht]; subst.
  assert (E : forallb (fun c => len c =? len c0) t = true).
  { apply forallb_forall. intros c Hc. rewrite Forall_forall in Ht. rewrite (Ht c Hc). apply Z.eqb_refl. }
  rewrite E. reflexivity.
Qed.

(* what groupby_pre provides *)
Lemma groupby_pre_facts cols by_ hint :
  groupby_pre cols by_ hint = true ->
  exists kcs readers,
    let n := nrows cols in
    frame_ok n cols = true /\ nodup_names cols = true /\ by_ <> [] /\ all_in by_ cols = true /\ nodupb by_ = true /\
    key_columns cols by_ = Some kcs /\ key_rows cols by_ = Some (FilterIndexSpec.rows_of n kcs) /\
    (hint = true -> rows_sortedb bytes_ltb (FilterIndexSpec.rows_of n kcs) = true) /\
    readers_of by_ cols = Ok readers /\ map field_cells readers = kcs /\
    Forall (fun f => wf_body (fbody f) /\ field_len f = n) readers /\
    Forall (fun c => len c = n) kcs /\ kcs <> [] /\ 0 <= n /\
    sorted_index_of readers = Ok (lexsort_perm (FilterIndexSpec.rows_of n kcs)).
Proof.
  unfold groupby_pre, key_rows. set (n := nrows cols).
  destruct (frame_ok n cols) eqn:Hok; [|discriminate].
  destruct (nodup_names cols) eqn:Hnd; [|discriminate].
  destruct (len by_ =? 0) eqn:Hlen; [discriminate|].
  destruct (all_in by_ cols) eqn:Hall; [|discriminate].
  destruct (nodupb by_) eqn:Hndb; [|discriminate].
  destruct (key_columns cols by_) as [kcs|] eqn:Hk; [|discriminate].
  cbn [andb negb]. intros Hh.
  assert (Hne : by_ <> []). { intros ->. cbn in Hlen. discriminate. }
  destruct (key_columns_readers cols by_ kcs Hk) as [_ [readers [Hr [Hm Hf]]]].
  destruct (sorted_index_correct cols by_ kcs Hne Hk Hok) as [readers' [Hr' [Hs Hn]]]. fold n in Hs, Hn.
  rewrite Hr in Hr'. inversion Hr'; subst readers'.
  assert (Hall' : Forall (fun f => wf_body (fbody f) /\ field_len f = n) readers).
  { eapply Forall_impl; [|exact Hf]. intros f [k' Hin]. exact (frame_ok_in n cols (k', f) Hok Hin). }
  assert (Hlens : Forall (fun c => len c = n) kcs).
  { rewrite <- Hm. apply Forall_forall. intros c Hc. apply in_map_iff in Hc. destruct Hc as [f [<- Hin]].
    rewrite Forall_forall in Hall'. destruct (Hall' f Hin) as [Hwf Hl]. rewrite <- (field_len_cells f Hwf). exact Hl. }
  assert (Hkne : kcs <> []).
  { rewrite <- Hm. destruct readers; [|discriminate]. destruct by_; [congruence|]. cbn [readers_of] in Hr.
    destruct (lookup z cols); [|discriminate]. destruct (readers_of by_ cols); discriminate. }
  exists kcs, readers. cbn zeta. repeat split; try assumption.
  intros ->. exact Hh.
Qed.

Definition gb_of (by_:list Z) (hint:bool) (kr:list (list cell)) : gb :=
  if hint || rows_sortedb bytes_ltb kr then mkGb by_ None (spans_ref rneqb kr)
  else mkGb by_ (Some (lexsort_perm kr)) (spans_ref rneqb (sort_rows kr)).

Theorem df_groupby_correct cols by_ hint kr :
  groupby_pre cols by_ hint = true -> key_rows cols by_ = Some kr ->
  df_groupby cols by_ hint = Ok (gb_of by_ hint kr).
Proof.
  intros Hpre Hkr.
  destruct (groupby_pre_facts cols by_ hint Hpre)
    as [kcs [readers [Hok [Hnd [Hne [Hall [Hndb [Hk [Hkr' [Hh [Hr [Hm [Hrd [Hlens [Hkne [Hn Hs]]]]]]]]]]]]]]]].
  set (n := nrows cols) in *. rewrite Hkr in Hkr'. inversion Hkr'; subst kr; clear Hkr'.
  unfold df_groupby, validate_selected_keys. rewrite Hall.
  replace (match by_ with [] => Raise E_ValueError | _ :: _ => Ok by_ end) with (Ok by_ : res (list Z))
    by (destruct by_; [congruence|reflexivity]).
  cbn [bind]. rewrite Hr. cbn [bind]. rewrite Hm.
  assert (Hsp : get_spans_for_multi_fields bytes_neqb kcs = Ok (spans_ref rneqb (FilterIndexSpec.rows_of n kcs))).
  { rewrite (get_spans_for_multi_fields_ref bytes_neqb [] bytes_neqb_spec kcs n Hkne Hlens).
    rewrite rows_of_same. reflexivity. }
  unfold gb_of. destruct hint.
  - cbn [negb orb bind]. rewrite (stack_ok kcs n Hlens). cbn [bind]. rewrite Hsp. reflexivity.
  - cbn [negb orb]. rewrite (stack_ok kcs n Hlens). cbn [bind].
    rewrite (check_if_sorted_ref bytes_ltb [] bytes_ltb_strict_total kcs n Hkne Hlens). rewrite rows_of_same.
    cbn [bind]. destruct (rows_sortedb bytes_ltb (FilterIndexSpec.rows_of n kcs)) eqn:Esorted; cbn [negb].
    + rewrite Hsp. reflexivity.
    + rewrite Hs. cbn [bind].
      set (q := lexsort_perm (FilterIndexSpec.rows_of n kcs)).
      assert (Hq : in_range n q = true) by (apply lexsort_in_range; exact Hn).
      assert (Hlq : len q = n).
      { unfold q, lexsort_perm, len. rewrite argsort_length, rows_of_length. lia. }
      rewrite (map_res_ok _ (fun c => gather [] c q)).
      2:{ intros c Hc. apply np_take_ok. apply Forall_forall. intros k Hk'.
          unfold in_range in Hq. rewrite forallb_forall in Hq. specialize (Hq k Hk').
          rewrite Forall_forall in Hlens. rewrite (Hlens c Hc). lia. }
      cbn [bind].
      assert (Hlens' : Forall (fun c => len c = n) (map (fun c => gather [] c q) kcs)).
      { apply Forall_forall. intros c Hc. apply in_map_iff in Hc. destruct Hc as [c' [<- _]].
        rewrite len_gather. exact Hlq. }
      rewrite (stack_ok _ n Hlens'). cbn [bind].
      rewrite (get_spans_for_multi_fields_ref bytes_neqb [] bytes_neqb_spec _ n); [|destruct kcs; [congruence|discriminate]|exact Hlens'].
      rewrite rows_of_same. rewrite <- Hlq at 1. rewrite (columns_stay_aligned kcs q n Hq). reflexivity.
Qed.

(* ---- the specification's `groups` ------------------------------------------------------------------- *)
Theorem groups_meaning_pf kr :
  StronglySorted (fun a b => GroupSpec.rowle a b = true /\ GroupSpec.rowle b a = false) (groups kr) /\
  forall k, In k (groups kr) <-> In k kr.
Proof.
  split.
  - exact (groups_by_sorted GroupSpec.rowle grow_trans grow_total grow_antisym kr).
  - intros k. exact (groups_by_In GroupSpec.rowle grow_antisym kr k).
Qed.
