(* Proofs/UniqueStore.v — C14: the (offsets, bytes) storage of an indexed string column and the
   row read `values[indices[i]:indices[i+1]]` shared by both kernels. *)
From Coq Require Import ZArith List Lia Bool.
From EV Require Import Res Arr UniqueSpec Unique.
Import ListNotations.
Open Scope Z_scope.

(* what the field stores for the rows xs; an empty field has indices = [] (or [0]) *)
Definition stored (xs:list (list Z)) (indices values:list Z) : Prop :=
  values = concat xs /\ (indices = psums (map len xs) \/ (xs = [] /\ indices = [])).

Lemma stored_offsets_of xs : stored xs (offsets_of xs) (values_of xs).
Proof. split; [reflexivity|]. destruct xs; [right; split; reflexivity|left; reflexivity]. Qed.

Lemma stored_psums xs : stored xs (psums (map len xs)) (concat xs).
Proof. split; [reflexivity|left; reflexivity]. Qed.

Lemma stored_rows xs ind vals : stored xs ind vals -> Z.to_nat (len ind - 1) = length xs.
Proof.
  intros [_ [->|[-> ->]]]; [|reflexivity].
  unfold psums, len. rewrite psums_from_length, map_length. lia.
Qed.

Lemma get_cons_succ {A} site (x:A) l i : 0 <= i -> get site (x :: l) (i + 1) = get site l i.
Proof.
  intros H. unfold get. destruct (i + 1 <? 0) eqn:E1; [lia|]. destruct (i <? 0) eqn:E2; [lia|].
  replace (Z.to_nat (i + 1)) with (S (Z.to_nat i)) by lia. reflexivity.
Qed.

Lemma get_cons_0 {A} site (x:A) l : get site (x :: l) 0 = Ok x.
Proof. reflexivity. Qed.

Lemma psums_from_get site acc l i :
  0 <= i <= len l -> get site (psums_from acc l) i = Ok (acc + sumZ (firstn (Z.to_nat i) l)).
Proof.
  revert acc i. induction l as [|x t IH]; intros acc i Hi.
  - unfold len in Hi; cbn [length] in Hi. assert (i = 0) as -> by lia. cbn. f_equal. lia.
  - rewrite len_cons in Hi. cbn [psums_from]. destruct (Z.eq_dec i 0) as [->|Hi0].
    + cbn. f_equal. lia.
    + replace i with ((i - 1) + 1) at 1 by lia. rewrite get_cons_succ by lia. rewrite IH by lia.
      replace (Z.to_nat i) with (S (Z.to_nat (i - 1))) by lia. cbn [firstn sumZ]. f_equal. lia.
Qed.

Lemma sumZ_len_nonneg (l:list (list Z)) : 0 <= sumZ (map len l).
Proof. induction l as [|x t IH]; cbn [map sumZ]; [lia|]. pose proof (len_nonneg x). lia. Qed.

Lemma len_concat (l:list (list Z)) : len (concat l) = sumZ (map len l).
Proof. induction l as [|x t IH]; cbn [concat map sumZ]; [reflexivity|]. rewrite len_app, IH. reflexivity. Qed.

Definition off (xs:list (list Z)) (i:Z) : Z := sumZ (map len (firstn (Z.to_nat i) xs)).

Lemma off_succ xs i : 0 <= i < len xs -> off xs (i + 1) = off xs i + len (nthd [] xs i).
Proof.
  intros Hi. unfold off. rewrite (firstn_snoc [] xs i) by exact Hi.
  rewrite map_app, sumZ_app. cbn [map sumZ]. lia.
Qed.

Lemma off_nonneg xs i : 0 <= off xs i.
Proof. apply sumZ_len_nonneg. Qed.

Lemma off_le_total xs i : off xs i <= len (concat xs).
Proof.
  unfold off. rewrite len_concat. rewrite <- (firstn_skipn (Z.to_nat i) xs) at 2.
  rewrite map_app, sumZ_app. pose proof (sumZ_len_nonneg (skipn (Z.to_nat i) xs)). lia.
Qed.

Lemma slice_app_skip {A} (x r:list A) a b : 0 <= a -> slice (x ++ r) (len x + a) (len x + b) = slice r a b.
Proof.
  intros Ha. unfold slice, len. replace (Z.of_nat (length x) + b - (Z.of_nat (length x) + a)) with (b - a) by lia.
  f_equal. rewrite skipn_app. rewrite skipn_all2 by lia. cbn [app]. f_equal. lia.
Qed.

Lemma slice_concat xs i : 0 <= i < len xs -> slice (concat xs) (off xs i) (off xs (i + 1)) = nthd [] xs i.
Proof.
  revert i. induction xs as [|x t IH]; intros i Hi; [unfold len in Hi; cbn [length] in Hi; lia|].
  rewrite len_cons in Hi. destruct (Z.eq_dec i 0) as [->|Hi0].
  - assert (H0 : off (x :: t) 0 = 0) by reflexivity.
    assert (H1 : off (x :: t) (0 + 1) = len x).
    { unfold off. change (Z.to_nat (0 + 1)) with 1%nat. cbn [firstn map sumZ]. lia. }
    rewrite H0, H1, nthd_cons_0. cbn [concat]. unfold slice. change (Z.to_nat 0) with O. cbn [skipn].
    replace (Z.to_nat (len x - 0)) with (length x) by (unfold len; lia).
    rewrite firstn_app, firstn_all, Nat.sub_diag. cbn [firstn]. apply app_nil_r.
  - assert (Ho : forall j, 1 <= j -> off (x :: t) j = len x + off t (j - 1)).
    { intros j Hj. unfold off. replace (Z.to_nat j) with (S (Z.to_nat (j - 1))) by lia. reflexivity. }
    rewrite (Ho i), (Ho (i + 1)) by lia. cbn [concat]. rewrite slice_app_skip by apply off_nonneg.
    replace (i + 1 - 1) with ((i - 1) + 1) by lia. rewrite IH by lia.
    replace i with ((i - 1) + 1) at 2 by lia. rewrite nthd_cons_succ by lia. reflexivity.
Qed.

Lemma np_slice_in_range {A} (l:list A) a b : 0 <= a <= len l -> 0 <= b <= len l -> np_slice l a b = slice l a b.
Proof.
  intros Ha Hb. unfold np_slice, norm_bound.
  destruct (a <? 0) eqn:E1; [lia|]. destruct (b <? 0) eqn:E2; [lia|].
  rewrite !Z.min_l by lia. reflexivity.
Qed.

(* the row read of both kernels *)
Lemma stored_row xs ind vals i :
  stored xs ind vals -> 0 <= i < len xs ->
  exists a b, (forall site, get site ind i = Ok a) /\ (forall site, get site ind (i + 1) = Ok b) /\
              b - a = len (nthd [] xs i) /\ np_slice vals a b = nthd [] xs i.
Proof.
  intros [-> [->|[-> _]]] Hi; [|unfold len in Hi; cbn [length] in Hi; lia].
  exists (off xs i), (off xs (i + 1)).
  assert (Hl : len (map len xs) = len xs) by (unfold len; rewrite map_length; reflexivity).
  split; [|split; [|split]].
  - intros site. unfold psums. rewrite psums_from_get by lia. unfold off. rewrite firstn_map. reflexivity.
  - intros site. unfold psums. rewrite psums_from_get by lia. unfold off. rewrite firstn_map. reflexivity.
  - rewrite off_succ by exact Hi. lia.
  - rewrite np_slice_in_range.
    + apply slice_concat. exact Hi.
    + split; [apply off_nonneg|apply off_le_total].
    + split; [apply off_nonneg|apply off_le_total].
Qed.

Lemma skipn_nth_cons {A} (d:A) (l:list A) i :
  0 <= i < len l -> skipn (Z.to_nat i) l = nthd d l i :: skipn (Z.to_nat (i + 1)) l.
Proof.
  intros Hi. unfold nthd, len in *. replace (Z.to_nat (i + 1)) with (S (Z.to_nat i)) by lia.
  assert (Hn : (Z.to_nat i < length l)%nat) by lia. revert Hn. generalize (Z.to_nat i). clear Hi.
  induction l as [|x t IH]; intros n Hn; cbn [length] in Hn; [lia|].
  destruct n; [reflexivity|]. cbn [skipn nth]. apply IH. lia.
Qed.
