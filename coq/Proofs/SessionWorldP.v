(* Proofs/SessionWorldP.v — histories of calls on named HDF5 columns (Model/SessionWorld.v) *)
From Coq Require Import ZArith List Bool Lia.
From EV Require Import SessionWorld.
Import ListNotations.
Open Scope Z_scope.

Lemma path_eqb_eq p q : path_eqb p q = true <-> p = q.
Proof.
  destruct p as [a b], q as [c d]. unfold path_eqb. cbn [fst snd].
  rewrite andb_true_iff, !Z.eqb_eq. split; [intros [-> ->]; reflexivity|intros H; inversion H; auto].
Qed.

Lemma path_eqb_refl p : path_eqb p p = true.
Proof. apply path_eqb_eq. reflexivity. Qed.

Lemma path_eqb_neq p q : p <> q -> path_eqb p q = false.
Proof. intros H. destruct (path_eqb p q) eqn:E; [apply path_eqb_eq in E; contradiction|reflexivity]. Qed.

Lemma lookup_write_same w p c : lookup (write w p c) p = Some c.
Proof. unfold write. cbn [lookup]. rewrite path_eqb_refl. reflexivity. Qed.

Lemma lookup_write_other w p q c : q <> p -> lookup (write w q c) p = lookup w p.
Proof. intros H. unfold write. cbn [lookup]. rewrite (path_eqb_neq _ _ H). reflexivity. Qed.

(* a column of ANOTHER dataframe / dataset with the SAME column name is another column *)
Lemma lookup_write_same_name_other_frame w p q c :
  name_of q = name_of p -> frame_of q <> frame_of p -> lookup (write w q c) p = lookup w p.
Proof. intros _ H. apply lookup_write_other. intros ->. apply H. reflexivity. Qed.

Section Steps.
Variables C O : Type.
Variable fill : C -> nat -> list Z -> C.
Variable call : C -> O.

Lemma lookup_writes (pre:list (step C)) : forall w p,
  lookup (writes C w pre) p = match last_write C pre p with Some c => Some c | None => lookup w p end.
Proof.
  induction pre as [|s t IH]; intros w p; cbn [writes last_write]; [reflexivity|].
  destruct s as [q c|c refs]; [|apply IH].
  rewrite IH. destruct (last_write C t p); [reflexivity|].
  unfold write. cbn [lookup]. destruct (path_eqb q p); reflexivity.
Qed.

Lemma world_history_app (pre post:list (step C)) : forall w,
  world_history C O fill call w (pre ++ post)
  = world_history C O fill call w pre ++ world_history C O fill call (writes C w pre) post.
Proof.
  induction pre as [|s t IH]; intros w; cbn [app world_history writes]; [reflexivity|].
  destruct s as [q c|c refs]; [apply IH|]. cbn [app]. rewrite IH. reflexivity.
Qed.

Lemma world_history_length (steps:list (step C)) : forall w,
  length (world_history C O fill call w steps) = ncalls C steps.
Proof.
  induction steps as [|s t IH]; intros w; cbn [world_history ncalls length]; [reflexivity|].
  destruct s; cbn [length]; rewrite IH; reflexivity.
Qed.

(* the result of a call of a history is the result of that call ALONE on the columns its handles point to, as
   they are at that moment *)
Theorem world_history_call_alone (pre post:list (step C)) w c refs d :
  nth (ncalls C pre) (world_history C O fill call w (pre ++ SCall c refs :: post)) d
  = option_map call (resolve C fill (writes C w pre) c refs).
Proof.
  rewrite world_history_app. rewrite app_nth2 by (rewrite world_history_length; lia).
  rewrite world_history_length, Nat.sub_diag. reflexivity.
Qed.

(* resolve only depends on the columns the handles point to *)
Lemma resolve_ext (refs:list (nat * path)) : forall w w' c,
  (forall i p, In (i, p) refs -> lookup w p = lookup w' p) ->
  resolve C fill w c refs = resolve C fill w' c refs.
Proof.
  induction refs as [|[i p] t IH]; intros w w' c H; cbn [resolve]; [reflexivity|].
  rewrite <- (H i p (or_introl eq_refl)). destruct (lookup w p); [|reflexivity].
  apply IH. intros j q Hq. apply (H j q). right. exact Hq.
Qed.

(* ... so writes to other paths (whatever their column names) before the call do not change its result *)
Theorem world_history_call_frame (pre post:list (step C)) w c refs d :
  (forall i p, In (i, p) refs -> last_write C pre p = None) ->
  nth (ncalls C pre) (world_history C O fill call w (pre ++ SCall c refs :: post)) d
  = option_map call (resolve C fill w c refs).
Proof.
  intros H. rewrite world_history_call_alone. f_equal. apply resolve_ext.
  intros i p Hp. rewrite lookup_writes, (H i p Hp). reflexivity.
Qed.
End Steps.

(* non-vacuity: two dataframes with a column named 7, same length, other row order; then the first one overwritten *)
Example world_example :
  let fillz (c:list (list Z)) (i:nat) (col:list Z) := firstn i c ++ col :: skipn (S i) c in
  world_history (list (list Z)) (list (list Z)) fillz (fun c => c) []
    [SWrite (0, 7) [11; 12; 13]; SCall [[]; [12]] [(0%nat, (0, 7))];
     SWrite (1, 7) [13; 11; 12]; SCall [[]; [12]] [(0%nat, (1, 7))]; SCall [[]; [12]] [(0%nat, (0, 7))];
     SWrite (0, 7) [12; 13; 11]; SCall [[]; [12]] [(0%nat, (0, 7))]; SCall [[]] [(0%nat, (2, 7))]]
  = [Some [[11; 12; 13]; [12]]; Some [[13; 11; 12]; [12]]; Some [[11; 12; 13]; [12]]; Some [[12; 13; 11]; [12]]; None].
Proof. reflexivity. Qed.
